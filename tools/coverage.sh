#!/bin/bash
# coverage.sh [props...]  -- which lines of /repo/src do the correspondence / oracle cases of the quick tier reach?
# Builds the harness with -C instrument-coverage (nightly toolchain: it ships llvm-profdata / llvm-cov) into a scratch
# target dir OUTSIDE /verif, runs `jmharness gen <prop> quick 1` for the given properties (default: all 20) and prints
# the per-file region / function coverage of /repo/src plus the uncovered line ranges.  Diagnostic only (not a
# registered check): uncovered code in an anchored file is a generator gap.
set -e
S=${COV_DIR:-/tmp/cov}; mkdir -p $S
LLVM=$(dirname $(find /root/.rustup/toolchains/nightly-x86_64-unknown-linux-gnu -name llvm-cov | head -1))
export LLVM_PROFILE_FILE=$S/prof/build-%p.profraw   # build scripts / proc-macros of the instrumented build must not litter the source trees
(cd /verif/harness && CARGO_NET_OFFLINE=true RUSTFLAGS="--cfg jomini_verif --cfg unoptimized_build -C instrument-coverage" cargo +nightly build --release --offline --target-dir $S/target 2>&1 | tail -1)
rm -rf $S/prof $S/out; mkdir -p $S/prof $S/out
props="$@"; [ -z "$props" ] && props=$(for i in $(seq -w 1 20); do echo C$i; done)
for p in $props; do mkdir -p $S/out/$p; LLVM_PROFILE_FILE=$S/prof/$p-%p.profraw $S/target/release/jmharness gen $p ${TIER:-quick} 1 $S/out/$p /verif/corpus/$p.txt > $S/out/$p.log 2>&1 & done; wait
$LLVM/llvm-profdata merge -sparse $S/prof/*.profraw -o $S/all.profdata
$LLVM/llvm-cov report $S/target/release/jmharness -instr-profile=$S/all.profdata --ignore-filename-regex='(registry|rustc|harness/src)' | cut -c1-60,120-220
$LLVM/llvm-cov export $S/target/release/jmharness -instr-profile=$S/all.profdata --ignore-filename-regex='(registry|rustc|harness/src)' -format=lcov > $S/all.lcov
python3 - "$S/all.lcov" <<'PY'
import sys, collections
da = collections.defaultdict(dict); cur = None
for l in open(sys.argv[1]):
    l = l.strip()
    if l.startswith('SF:'): cur = l[3:]
    elif l.startswith('DA:'):
        ln, c = l[3:].split(',')[:2]; da[cur][int(ln)] = da[cur].get(int(ln), 0) + int(c)
print("\nuncovered lines (file: count: ranges)")
for f in sorted(da):
    if '/repo/src' not in f and '/repo/jomini_derive' not in f: continue
    miss = sorted(k for k, v in da[f].items() if v == 0)
    if not miss: continue
    rng = []; s = p = miss[0]
    for x in miss[1:]:
        if x == p + 1: p = x
        else: rng.append((s, p)); s = p = x
    rng.append((s, p))
    print(f.replace('/repo/', ''), len(miss), ':', ' '.join(f'{a}-{b}' if a != b else str(a) for a, b in rng))
PY
