#!/usr/bin/env python3
"""Move confirmed seeded changes from seeded-incoming/ (validated by tools/validate_seeded.sh) to seeded/."""
import json, os, shutil
src = '/verif/seeded-incoming'; dst = '/verif/seeded'
os.makedirs(dst, exist_ok=True)
n = 0
for d in sorted(os.listdir(src)):
    vp = f'{src}/{d}/validation.txt'
    if os.path.exists(f'{dst}/{d}') or not os.path.exists(vp):
        continue
    v = open(vp).read()
    if 'RESULT confirmed' not in v:
        print('not confirmed:', d); continue
    m = json.load(open(f'{src}/{d}/meta.json'))
    line = [l for l in v.splitlines() if l.startswith('demo_clean_rc')][0]
    out = dict(
        property=m.get('property', d.split('_')[0]), title=m.get('title', ''),
        what_it_breaks=m.get('what_it_breaks', ''), needs_to_manifest=m.get('needs_to_manifest', ''),
        files_touched=m.get('files_touched', []),
        produced_by="fresh sub-agent given only the property text and a scratch worktree of /repo (nothing from /verif)",
        confirmed_by_coordinator=dict(
            how="tools/validate_seeded.sh in a scratch worktree of /repo HEAD: patch applies; `cargo build --offline` and the `--cfg jomini_verif --cfg unoptimized_build` build succeed; demo (tests/seeded_demo.rs) passes on the clean tree and fails with the patch; `cargo test --workspace --no-fail-fast --offline` passes with the patch",
            result=line),
        agent_commands_run=m.get('commands_run', ''), detected_by=[])
    os.makedirs(f'{dst}/{d}')
    shutil.copy(f'{src}/{d}/patch.diff', f'{dst}/{d}/patch.diff')
    shutil.copy(f'{src}/{d}/demo.rs', f'{dst}/{d}/demo.rs')
    json.dump(out, open(f'{dst}/{d}/meta.json', 'w'), indent=1)
    n += 1
print('accepted', n, 'total', len(os.listdir(dst)))
