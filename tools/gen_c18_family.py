#!/usr/bin/env python3
"""Writes harness/src/props/c18_family.rs: a systematic family of real
`#[derive(JominiDeserialize)]` structs covering every per-field attribute combination the
proc macro distinguishes, together with the `FieldSpec` text of each struct.

  kind    p plain | d duplicated | t take_last
  default n none  | y `default`  | p `default = "path"`
  type    i i32   | o Option<i32> | s String | v Vec<i32>
          (for a duplicated field the type letter is the ELEMENT type: Vec<i32> / Vec<String> /
           Vec<Vec<i32>>; `o` is left out for duplicated fields)
  alias   none | `a<i>`
  token   none | `token = <id of f<i>>`   (token structs: every field, the macro panics otherwise)

The spec text of a struct (`f0:p:n:i:-:-/f1:…`, fields `name:kind:default:type:alias:token`) is
put on every case line (`derive F12~<spec> <pairs>`): the Lean driver builds its `FieldSpec` list
from the line, the harness checks the line against this table, so the two sides cannot drift.

Left out because the macro (or rustc) rejects them at compile time: `token` on some but not all
fields (the macro panics), `duplicated` on a non-`Vec` type.
Run: python3 tools/gen_c18_family.py   (deterministic; commit the output)
"""
import os, itertools

ROOT = os.path.dirname(os.path.dirname(os.path.abspath(__file__)))
OUT = os.path.join(ROOT, "harness", "src", "props", "c18_family.rs")
F_BASE = 26            # index of "f0" in c18.rs NAMES (checked at run time by family::check_ids)

combos = [(k, d, t, a) for k in "pdt" for d in "nyp" for t in "iosv" for a in (False, True) if not (k == "d" and t == "o")]
assert len(combos) == 66


def rust_type(k, t):
    if k == "d":
        return {"i": "Vec<i32>", "s": "Vec<String>", "v": "Vec<Vec<i32>>"}[t]
    return {"i": "i32", "o": "Option<i32>", "s": "String", "v": "Vec<i32>"}[t]


def show_fn(k, t):
    if k == "d":
        return {"i": "sh_v", "s": "sh_vs", "v": "sh_vv"}[t]
    return {"i": "sh_i", "o": "sh_o", "s": "sh_s", "v": "sh_v"}[t]


def path_fn(k, t):
    if k == "d":
        return {"i": "d_vec", "s": "d_vecs", "v": "d_vecv"}[t]
    return {"i": "d_i32", "o": "d_opt", "s": "d_str", "v": "d_vec"}[t]


def field(i, combo, token, layout="canon"):
    """layout: how the items are spread over `#[jomini(..)]` attributes (the meaning must not depend on it):
    canon  one list `alias, default, kind, token`      rev    one list, reversed
    split  one attribute per item, canonical order     splitrev  one attribute per item, reversed
    kindfirst  one list with the kind item first       two    kind alone first, the rest in a second list"""
    k, d, t, a = combo
    attrs = []
    if a:
        attrs.append('alias = "a%d"' % i)
    if d == "y":
        attrs.append("default")
    elif d == "p":
        attrs.append('default = "%s"' % path_fn(k, t))
    if k == "d":
        attrs.append("duplicated")
    elif k == "t":
        attrs.append("take_last")
    if token:
        attrs.append("token = 0x%04x" % (0x2d00 + F_BASE + i))
    kind_items = [x for x in attrs if x in ("duplicated", "take_last")]
    other_items = [x for x in attrs if x not in ("duplicated", "take_last")]
    if layout == "canon":
        lists = [attrs]
    elif layout == "rev":
        lists = [attrs[::-1]]
    elif layout == "split":
        lists = [[x] for x in attrs]
    elif layout == "splitrev":
        lists = [[x] for x in attrs[::-1]]
    elif layout == "kindfirst":
        lists = [kind_items + other_items]
    elif layout == "two":
        lists = [kind_items, other_items]
    else:
        raise ValueError(layout)
    line = ""
    for l in lists:
        if l:
            line += "    #[jomini(%s)]\n" % ", ".join(l)
    line += "    f%d: %s,\n" % (i, rust_type(k, t))
    spec = "f%d:%s:%s:%s:%s:%s" % (i, k, d, t, ("a%d" % i) if a else "-", str(0x2d00 + F_BASE + i) if token else "-")
    return line, spec, "format!(\"f%d={}\", %s(&self.f%d))" % (i, show_fn(k, t), i)


structs = []
n = len(combos)
# every combination appears in four structs, at each of the four positions, with different neighbours
for k in range(n):
    idxs = [k, (k * 7 + 13) % n, (k * 11 + 29) % n, (k * 5 + 47) % n]
    if k % 3 == 2:
        idxs = idxs[:3]
    structs.append(("F%d" % k, [combos[j] for j in idxs], False, "canon"))
# token structs: every field carries `token = …`; kinds / defaults / types / aliases vary
tok_sets = [
    [0, 25, 50, 61], [1, 30, 44, 65], [7, 19, 48], [8, 27, 55, 60], [12, 33, 47, 63], [15, 24, 52],
    [3, 28, 45, 64], [5, 35, 49, 62], [10, 21, 57], [14, 37, 51, 59], [17, 31, 43, 58], [22, 39, 53],
]
for k, s in enumerate(tok_sets):
    structs.append(("T%d" % k, [combos[j] for j in s], True, "canon"))
# attribute-list layout variants: the same field combinations with the items of the `#[jomini(..)]`
# list in another order / spread over several attributes (attribute parsing is where slips live);
# the FieldSpec text is that of the canonical layout
C = {c: i for i, c in enumerate(combos)}
layout_bases = [
    [C[("t", "y", "i", True)], C[("d", "p", "s", True)], C[("t", "p", "o", True)], C[("p", "y", "v", True)]],
    [C[("d", "y", "i", True)], C[("t", "n", "s", True)], C[("p", "p", "i", True)], C[("t", "p", "v", True)]],
    [C[("t", "p", "i", False)], C[("d", "y", "v", False)], C[("p", "p", "s", True)], C[("t", "y", "o", False)]],
]
vk = 0
for base in layout_bases:
    for layout in ["rev", "split", "splitrev", "kindfirst", "two"]:
        structs.append(("V%d" % vk, [combos[j] for j in base], False, layout))
        vk += 1
for layout in ["rev", "split", "splitrev", "kindfirst", "two"]:
    structs.append(("V%d" % vk, [combos[j] for j in layout_bases[0]], True, layout))
    vk += 1

out = []
out.append("// GENERATED by tools/gen_c18_family.py -- do not edit by hand.\n")
out.append("//! A systematic family of real `#[derive(JominiDeserialize)]` structs (C18): every per-field\n")
out.append("//! combination of kind x default x type x alias the macro distinguishes, over 3-4 fields, plus\n")
out.append("//! token-attribute structs; `FAMILY` gives each struct's FieldSpec text (see the generator).\n")
out.append("#![allow(dead_code)]\nuse super::{run_bin, run_text, Show};\nuse crate::common::{hex, Obs};\nuse jomini::JominiDeserialize;\n\n")
out.append("""fn d_i32() -> i32 {
    777
}
fn d_opt() -> Option<i32> {
    Some(777)
}
fn d_str() -> String {
    "dflt".to_string()
}
fn d_vec() -> Vec<i32> {
    vec![7, 7, 7]
}
fn d_vecs() -> Vec<String> {
    vec!["dflt".to_string()]
}
fn d_vecv() -> Vec<Vec<i32>> {
    vec![vec![7]]
}
fn sh_i(x: &i32) -> String {
    x.to_string()
}
fn sh_o(x: &Option<i32>) -> String {
    x.map(|v| v.to_string()).unwrap_or("none".into())
}
fn sh_s(x: &String) -> String {
    format!("s:{}", hex(x.as_bytes()))
}
fn sh_v(x: &Vec<i32>) -> String {
    format!("[{}]", x.iter().map(|v| v.to_string()).collect::<Vec<_>>().join("."))
}
fn sh_vs(x: &Vec<String>) -> String {
    format!("[{}]", x.iter().map(sh_s).collect::<Vec<_>>().join("."))
}
fn sh_vv(x: &Vec<Vec<i32>>) -> String {
    format!("[{}]", x.iter().map(sh_v).collect::<Vec<_>>().join("."))
}

""")
table = []
arms = []
for name, cs, token, layout in structs:
    out.append("#[derive(JominiDeserialize, Debug, PartialEq)]\npub struct %s {\n" % name)
    specs, shows = [], []
    for i, c in enumerate(cs):
        line, spec, show = field(i, c, token, layout)
        out.append(line)
        specs.append(spec)
        shows.append(show)
    out.append("}\n")
    out.append("impl Show for %s {\n    fn show(&self) -> String {\n        [%s].join(\";\")\n    }\n}\n\n" % (name, ", ".join(shows)))
    table.append('    ("%s", "%s"),\n' % (name, "/".join(specs)))
    arms.append('        "%s" => (run_text::<%s>(text, case, obs), run_bin::<%s>(bin, case, obs)),\n' % (name, name, name))
out.append("/// (struct id, FieldSpec text `name:kind:default:type:alias:token/...`)\npub const FAMILY: &[(&str, &str)] = &[\n")
out.extend(table)
out.append("];\n\n")
out.append("/// index of `f0` in `NAMES` the token ids above were computed with\npub const F_BASE: usize = %d;\n\n" % F_BASE)
out.append("pub fn run(id: &str, text: &[u8], bin: &[u8], case: &str, obs: &mut Obs) -> Option<(String, String)> {\n    Some(match id {\n")
out.extend(arms)
out.append("        _ => return None,\n    })\n}\n")
open(OUT, "w").write("".join(out))
print("wrote", OUT, len(structs), "structs")
