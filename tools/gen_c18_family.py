#!/usr/bin/env python3
"""Writes harness/src/props/c18_family.rs: a systematic family of real
`#[derive(JominiDeserialize)]` structs covering every per-field attribute combination the
proc macro distinguishes, together with the `FieldSpec` text of each struct.

  kind    p plain | d duplicated | t take_last
  default n none  | y `default`  | p `default = "path"`
  type    i i32   | o Option<i32> | s String | v Vec<i32> | z Option<String> (value letter: how values are offered / printed)
          (for a duplicated field the type letter is the ELEMENT type: Vec<i32> / Vec<String> /
           Vec<Vec<i32>>; `o` is left out for duplicated fields)
  alias   none | `a<i>`
  token   none | `token = <id of f<i>>`   (token structs: every field, the macro panics otherwise)
  auto    y | n   the macro auto-defaults the field when missing: SOME PATH SEGMENT OF THE TYPE AS SPELLED is
                  `Option` (`auto_default` below applies the macro's syntactic rule to the spelling)

The spec text of a struct (`f0:p:n:i:-:-:n/f1:…`, fields `name:kind:default:type:alias:token:auto`) is
put on every case line (`derive F12~<spec> <pairs>`): the Lean driver builds its `FieldSpec` list
from the line, the harness checks the line against this table, so the two sides cannot drift.

Left out because the macro (or rustc) rejects them at compile time: `token` on some but not all
fields (the macro panics), `duplicated` on a non-`Vec` type.
Run: python3 tools/gen_c18_family.py   (deterministic; commit the output)
"""
import os, itertools

ROOT = os.path.dirname(os.path.dirname(os.path.abspath(__file__)))
OUT = os.path.join(ROOT, "harness", "src", "props", "c18_family.rs")
F_BASE = 26            # index of "f0" in c18.rs NAMES (checked at run time by family::check_ids)

combos = [(k, d, t, a) for k in "pdt" for d in "nyp" for t in "iosv" for a in (False, True) if not (k == "d" and t == "o")]
assert len(combos) == 66


def rust_type(k, t):
    if k == "d":
        return {"i": "Vec<i32>", "s": "Vec<String>", "v": "Vec<Vec<i32>>"}[t]
    return {"i": "i32", "o": "Option<i32>", "s": "String", "v": "Vec<i32>"}[t]


def show_fn(k, t):
    if k == "d":
        return {"i": "sh_v", "s": "sh_vs", "v": "sh_vv"}[t]
    return {"i": "sh_i", "o": "sh_o", "s": "sh_s", "v": "sh_v"}[t]


def path_fn(k, t):
    if k == "d":
        return {"i": "d_vec", "s": "d_vecs", "v": "d_vecv"}[t]
    return {"i": "d_i32", "o": "d_opt", "s": "d_str", "v": "d_vec"}[t]


def auto_default(spelling):
    """lib.rs:50-57 `can_default`: the type is a path and SOME segment of that path (not of its generic
    arguments) is the identifier `Option`.  Decided from the spelling, never from the resolved type."""
    head = spelling.strip()
    if head.startswith("::"):
        head = head[2:]
    cut = head.find("<")
    if cut >= 0:
        head = head[:cut]
    if not head or not all(c.isalnum() or c in "_:" for c in head):
        return False  # not a path type
    return "Option" in [seg.strip() for seg in head.split("::")]


def field(i, combo, token, layout="canon"):
    """layout: how the items are spread over `#[jomini(..)]` attributes (the meaning must not depend on it):
    canon  one list `alias, default, kind, token`      rev    one list, reversed
    split  one attribute per item, canonical order     splitrev  one attribute per item, reversed
    kindfirst  one list with the kind item first       two    kind alone first, the rest in a second list"""
    k, d, t, a = combo
    attrs = []
    if a:
        attrs.append('alias = "a%d"' % i)
    if d == "y":
        attrs.append("default")
    elif d == "p":
        attrs.append('default = "%s"' % path_fn(k, t))
    if k == "d":
        attrs.append("duplicated")
    elif k == "t":
        attrs.append("take_last")
    if token:
        attrs.append("token = 0x%04x" % (0x2d00 + F_BASE + i))
    kind_items = [x for x in attrs if x in ("duplicated", "take_last")]
    other_items = [x for x in attrs if x not in ("duplicated", "take_last")]
    if layout == "canon":
        lists = [attrs]
    elif layout == "rev":
        lists = [attrs[::-1]]
    elif layout == "split":
        lists = [[x] for x in attrs]
    elif layout == "splitrev":
        lists = [[x] for x in attrs[::-1]]
    elif layout == "kindfirst":
        lists = [kind_items + other_items]
    elif layout == "two":
        lists = [kind_items, other_items]
    else:
        raise ValueError(layout)
    line = ""
    for l in lists:
        if l:
            line += "    #[jomini(%s)]\n" % ", ".join(l)
    line += "    f%d: %s,\n" % (i, rust_type(k, t))
    spec = "f%d:%s:%s:%s:%s:%s:%s" % (i, k, d, t, ("a%d" % i) if a else "-", str(0x2d00 + F_BASE + i) if token else "-",
                                      "y" if auto_default(rust_type(k, t)) else "n")
    return line, spec, "format!(\"f%d={}\", %s(&self.f%d))" % (i, show_fn(k, t), i)


structs = []
n = len(combos)
# every combination appears in four structs, at each of the four positions, with different neighbours
for k in range(n):
    idxs = [k, (k * 7 + 13) % n, (k * 11 + 29) % n, (k * 5 + 47) % n]
    if k % 3 == 2:
        idxs = idxs[:3]
    structs.append(("F%d" % k, [combos[j] for j in idxs], False, "canon"))
# token structs: every field carries `token = …`; kinds / defaults / types / aliases vary
tok_sets = [
    [0, 25, 50, 61], [1, 30, 44, 65], [7, 19, 48], [8, 27, 55, 60], [12, 33, 47, 63], [15, 24, 52],
    [3, 28, 45, 64], [5, 35, 49, 62], [10, 21, 57], [14, 37, 51, 59], [17, 31, 43, 58], [22, 39, 53],
]
for k, s in enumerate(tok_sets):
    structs.append(("T%d" % k, [combos[j] for j in s], True, "canon"))
# attribute-list layout variants: the same field combinations with the items of the `#[jomini(..)]`
# list in another order / spread over several attributes (attribute parsing is where slips live);
# the FieldSpec text is that of the canonical layout
C = {c: i for i, c in enumerate(combos)}
layout_bases = [
    [C[("t", "y", "i", True)], C[("d", "p", "s", True)], C[("t", "p", "o", True)], C[("p", "y", "v", True)]],
    [C[("d", "y", "i", True)], C[("t", "n", "s", True)], C[("p", "p", "i", True)], C[("t", "p", "v", True)]],
    [C[("t", "p", "i", False)], C[("d", "y", "v", False)], C[("p", "p", "s", True)], C[("t", "y", "o", False)]],
]
vk = 0
for base in layout_bases:
    for layout in ["rev", "split", "splitrev", "kindfirst", "two"]:
        structs.append(("V%d" % vk, [combos[j] for j in base], False, layout))
        vk += 1
for layout in ["rev", "split", "splitrev", "kindfirst", "two"]:
    structs.append(("V%d" % vk, [combos[j] for j in layout_bases[0]], True, layout))
    vk += 1

out = []
out.append("// GENERATED by tools/gen_c18_family.py -- do not edit by hand.\n")
out.append("//! A systematic family of real `#[derive(JominiDeserialize)]` structs (C18): every per-field\n")
out.append("//! combination of kind x default x type x alias the macro distinguishes, over 3-4 fields, plus\n")
out.append("//! token-attribute structs; `FAMILY` gives each struct's FieldSpec text (see the generator).\n")
out.append("#![allow(dead_code)]\nuse super::{run_bin, run_text, Show};\nuse crate::common::{hex, Obs};\nuse jomini::JominiDeserialize;\n\n")
out.append("""fn d_i32() -> i32 {
    777
}
fn d_opt() -> Option<i32> {
    Some(777)
}
fn d_str() -> String {
    "dflt".to_string()
}
fn d_vec() -> Vec<i32> {
    vec![7, 7, 7]
}
fn d_vecs() -> Vec<String> {
    vec!["dflt".to_string()]
}
fn d_vecv() -> Vec<Vec<i32>> {
    vec![vec![7]]
}
fn d_box() -> Box<i32> {
    Box::new(777)
}
/// a type alias: resolves to `Option<T>` but is not SPELLED `Option`
type Opt<T> = Option<T>;
fn sh_oo(x: &Option<Option<i32>>) -> String {
    x.flatten().map(|v| v.to_string()).unwrap_or("none".into())
}
fn sh_b(x: &Box<i32>) -> String {
    x.to_string()
}
fn sh_os(x: &Option<String>) -> String {
    x.as_ref().map(sh_s).unwrap_or("none".into())
}
fn sh_i(x: &i32) -> String {
    x.to_string()
}
fn sh_o(x: &Option<i32>) -> String {
    x.map(|v| v.to_string()).unwrap_or("none".into())
}
fn sh_s(x: &String) -> String {
    format!("s:{}", hex(x.as_bytes()))
}
fn sh_v(x: &Vec<i32>) -> String {
    format!("[{}]", x.iter().map(|v| v.to_string()).collect::<Vec<_>>().join("."))
}
fn sh_vs(x: &Vec<String>) -> String {
    format!("[{}]", x.iter().map(sh_s).collect::<Vec<_>>().join("."))
}
fn sh_vv(x: &Vec<Vec<i32>>) -> String {
    format!("[{}]", x.iter().map(sh_v).collect::<Vec<_>>().join("."))
}

""")
table = []
arms = []

# ---------------------------------------------------------------------------------------------
# decisions the macro takes from SYNTAX (read off jomini_derive/src/lib.rs), each with >= 2 values:
#   type spelling      `Option<T>` / `std::option::Option<T>` / `core::option::Option<T>` / `::std::option::Option<T>`
#                      (auto-default: some path segment is `Option`), a type alias `Opt<T>` and `Box<i32>` (not
#                      auto-defaulted), `Option<Option<i32>>`; `Vec<T>` / `std::vec::Vec<T>` / `::std::vec::Vec<T>` for
#                      duplicated fields (element type = first generic argument of the LAST segment);
#                      `String` / `std::string::String`; a type that arrives as `Type::Group` (macro_rules `$t:ty`)
#   attribute spelling `default` / `default()` / `default = "path"`; two `alias` items (the first wins);
#                      `token` in decimal / hex; an empty `#[jomini()]`; foreign attributes on the field
#                      (doc comment, `#[allow]`, `#[serde(rename)]` with an additional `derive(Serialize)`)
#   field identifier   a raw identifier `r#type`: the macro uses `ident.to_string()` = "r#type" as the key and
#                      in error messages (serde's own derive strips the `r#`)
#   struct header      a type parameter (the `Deserialize<'de>` bound is added) / a `where` clause (it is not)
# (field order / position is a dimension of the F structs already.)
# custom field: (attr lines, rust ident, spec name, rust type, kind, default, value letter, alias, token, show)
def cf(attrs, ident, ty, kind="p", dflt="n", letter="i", alias=None, token=None, show=None, name=None, auto=None):
    return dict(attrs=attrs, ident=ident, name=name or ident, ty=ty, kind=kind, dflt=dflt, letter=letter, alias=alias,
                token=token, show=show, auto=auto)


def tokid(i):
    return 0x2d00 + F_BASE + i


customs = []
# S0..S4: the Option spellings, plain / take_last, missing => None
for k, sp in enumerate(["Option<i32>", "std::option::Option<i32>", "core::option::Option<i32>", "::std::option::Option<i32>",
                        "Option<Option<i32>>"]):
    sh = "sh_oo" if "Option<Option" in sp else "sh_o"
    customs.append(("S%d" % k, "", "", "", [
        cf([], "f0", sp, letter="o", show=sh),
        cf(["#[jomini(take_last)]"], "f1", sp, kind="t", letter="o", show=sh),
        cf(['#[jomini(default = "d_opt", alias = "a2")]'], "f2", sp.replace("Option<Option<i32>>", "Option<i32>"), dflt="p", letter="o", alias="a2", show="sh_o"),
        cf([], "f3", "i32", show="sh_i"),
    ]))
# S5: not auto-defaulted although the resolved type is / contains an Option
customs.append(("S5", "", "", "", [
    cf([], "f0", "Opt<i32>", letter="o", show="sh_o"),
    cf(["#[jomini(default)]"], "f1", "Opt<i32>", dflt="y", letter="o", show="sh_o"),
    cf([], "f2", "Box<i32>", show="sh_b"),
    cf(["#[jomini(default)]"], "f3", "Box<i32>", dflt="y", show="sh_b"),
]))
customs.append(("S6", "", "", "", [
    cf(["#[jomini(take_last)]"], "f0", "Opt<i32>", kind="t", letter="o", show="sh_o"),
    cf(['#[jomini(default = "d_box")]'], "f1", "Box<i32>", dflt="p", show="sh_b"),
    cf([], "f2", "Option<i32>", letter="o", show="sh_o"),
]))
# S7, S8: Vec / String spellings
customs.append(("S7", "", "", "", [
    cf(["#[jomini(duplicated)]"], "f0", "std::vec::Vec<i32>", kind="d", show="sh_v"),
    cf(["#[jomini(duplicated, alias = \"a1\")]"], "f1", "::std::vec::Vec<std::string::String>", kind="d", letter="s", alias="a1", show="sh_vs"),
    cf([], "f2", "std::string::String", letter="s", show="sh_s"),
    cf(["#[jomini(default)]"], "f3", "::std::string::String", dflt="y", letter="s", show="sh_s"),
]))
customs.append(("S8", "", "", "", [
    cf(["#[jomini(duplicated)]"], "f0", "Vec<std::vec::Vec<i32>>", kind="d", letter="v", show="sh_vv"),
    cf(["#[jomini(take_last)]"], "f1", "std::vec::Vec<i32>", kind="t", letter="v", show="sh_v"),
    cf([], "f2", "std::option::Option<std::string::String>", letter="z", show="sh_os"),
]))
# S9, S10: attribute spellings
customs.append(("S9", "", "", "", [
    cf(["#[jomini(default())]"], "f0", "i32", dflt="y", show="sh_i"),
    cf(['#[jomini(alias = "a1", alias = "b1")]'], "f1", "i32", alias="a1", show="sh_i"),
    cf(["#[jomini()]", "#[jomini(take_last)]", "#[jomini()]"], "f2", "i32", kind="t", show="sh_i"),
    cf(['#[jomini(alias = "a3")]', '#[jomini(alias = "b3")]', "#[jomini(duplicated)]"], "f3", "Vec<i32>", kind="d", alias="a3", show="sh_v"),
]))
customs.append(("S10", ", serde::Serialize", "", "", [
    cf(["/// a documented field", "#[allow(dead_code)]"], "f0", "i32", show="sh_i"),
    cf(['#[serde(rename = "zz9")]', "#[jomini(take_last)]"], "f1", "i32", kind="t", show="sh_i"),
    cf(["#[jomini(duplicated)]", '#[serde(default, rename = "yy9")]', "/// docs after"], "f2", "Vec<i32>", kind="d", show="sh_v"),
    cf(['#[serde(skip_serializing_if = "Option::is_none")]'], "f3", "Option<i32>", letter="o", show="sh_o"),
]))
# S11, S12: token in decimal / hex
customs.append(("S11", "", "", "", [
    cf(["#[jomini(token = %d)]" % tokid(0)], "f0", "i32", token=tokid(0), show="sh_i"),
    cf(["#[jomini(token = 0x%04X, duplicated)]" % tokid(1)], "f1", "Vec<i32>", kind="d", token=tokid(1), show="sh_v"),
    cf(["#[jomini(take_last, token = 0x%x)]" % tokid(2)], "f2", "core::option::Option<i32>", kind="t", letter="o", token=tokid(2), show="sh_o"),
]))
# S13, S14: raw identifier
customs.append(("S13", "", "", "", [
    cf([], "r#type", "Option<i32>", letter="o", show="sh_o", name="r#type"),
    cf(['#[jomini(alias = "a1")]'], "r#match", "i32", alias="a1", show="sh_i", name="r#match"),
    cf([], "f2", "i32", show="sh_i"),
]))
customs.append(("S14", "", "", "", [
    cf([], "f0", "i32", show="sh_i"),
    cf([], "r#type", "i32", show="sh_i", name="r#type"),
]))
# G0, G1: generics
customs.append(("G0", "", "<T>", "", [
    cf([], "f0", "T", show="sh_i"),
    cf(["#[jomini(duplicated)]"], "f1", "Vec<T>", kind="d", show="sh_v"),
    cf([], "f2", "Option<T>", letter="o", show="sh_o"),
    # (`default` on a bare `T` field needs `T: Default`, which only a `where` clause can supply: G1)
    cf(["#[jomini(take_last)]"], "f3", "T", kind="t", show="sh_i"),
]))
customs.append(("G1", "", "<T>", "where\n    T: serde::de::DeserializeOwned + Default,\n", [
    cf(["#[jomini(default)]"], "f0", "T", dflt="y", show="sh_i"),
    cf(["#[jomini(take_last)]"], "f1", "std::option::Option<T>", kind="t", letter="o", show="sh_o"),
    cf(["#[jomini(duplicated, alias = \"a2\")]"], "f2", "Vec<T>", kind="d", alias="a2", show="sh_v"),
]))

macro_structs = [
    # (name, macro args, fields); the field types arrive as `Type::Group`
    ("M0", ["Option<i32>", "Vec<i32>", "std::option::Option<i32>"], [
        cf([], "f0", "$t0", letter="o", show="sh_o", auto=True),
        cf(["#[jomini(duplicated)]"], "f1", "$t1", kind="d", show="sh_v", auto=False),
        cf(["#[jomini(take_last)]"], "f2", "$t2", kind="t", letter="o", show="sh_o", auto=True),
        cf([], "f3", "i32", show="sh_i"),
    ]),
]


def emit_custom(name, derive_extra, generics, where, fields, as_macro_args=None):
    body = []
    specs, shows = [], []
    for f in fields:
        for a in f["attrs"]:
            body.append("    %s\n" % a)
        body.append("    %s: %s,\n" % (f["ident"], f["ty"]))
        auto = f["auto"] if f["auto"] is not None else auto_default(f["ty"])
        specs.append("%s:%s:%s:%s:%s:%s:%s" % (f["name"], f["kind"], f["dflt"], f["letter"], f["alias"] or "-",
                                               str(f["token"]) if f["token"] else "-", "y" if auto else "n"))
        shows.append("format!(\"%s={}\", %s(&self.%s))" % (f["name"], f["show"], f["ident"]))
    decl = "#[derive(JominiDeserialize, Debug, PartialEq%s)]\npub struct %s%s %s{\n%s}\n" % (
        derive_extra, name, generics, where, "".join(body))
    inst = name + ("<i32>" if generics else "")
    if as_macro_args is not None:
        params = ", ".join("$t%d:ty" % i for i in range(len(as_macro_args)))
        out.append("macro_rules! mk_%s {\n    (%s) => {\n%s    };\n}\nmk_%s!(%s);\n" % (
            name.lower(), params, "".join("        " + l + "\n" for l in decl.rstrip("\n").split("\n")), name.lower(), ", ".join(as_macro_args)))
    else:
        out.append(decl)
    out.append("impl Show for %s {\n    fn show(&self) -> String {\n        [%s].join(\";\")\n    }\n}\n\n" % (inst, ", ".join(shows)))
    table.append('    ("%s", "%s"),\n' % (name, "/".join(specs)))
    arms.append('        "%s" => (run_text::<%s>(text, case, obs), run_bin::<%s>(bin, case, obs)),\n' % (name, inst, inst))


for name, cs, token, layout in structs:
    out.append("#[derive(JominiDeserialize, Debug, PartialEq)]\npub struct %s {\n" % name)
    specs, shows = [], []
    for i, c in enumerate(cs):
        line, spec, show = field(i, c, token, layout)
        out.append(line)
        specs.append(spec)
        shows.append(show)
    out.append("}\n")
    out.append("impl Show for %s {\n    fn show(&self) -> String {\n        [%s].join(\";\")\n    }\n}\n\n" % (name, ", ".join(shows)))
    table.append('    ("%s", "%s"),\n' % (name, "/".join(specs)))
    arms.append('        "%s" => (run_text::<%s>(text, case, obs), run_bin::<%s>(bin, case, obs)),\n' % (name, name, name))
for name, derive_extra, generics, where, fields in customs:
    emit_custom(name, derive_extra, generics, where, fields)
for name, margs, fields in macro_structs:
    emit_custom(name, "", "", "", fields, as_macro_args=margs)
out.append("/// (struct id, FieldSpec text `name:kind:default:type:alias:token:autodefault/...`)\npub const FAMILY: &[(&str, &str)] = &[\n")
out.extend(table)
out.append("];\n\n")
out.append("/// index of `f0` in `NAMES` the token ids above were computed with\npub const F_BASE: usize = %d;\n\n" % F_BASE)
out.append("pub fn run(id: &str, text: &[u8], bin: &[u8], case: &str, obs: &mut Obs) -> Option<(String, String)> {\n    Some(match id {\n")
out.extend(arms)
out.append("        _ => return None,\n    })\n}\n")
open(OUT, "w").write("".join(out))
print("wrote", OUT, len(structs) + len(customs) + len(macro_structs), "structs")
