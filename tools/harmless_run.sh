#!/bin/bash
# harmless_run.sh [log]  -- apply each behaviour-preserving refactor of /verif/seeded-harmless*/ to a scratch copy of
# /repo and run the quick checks that look at the touched code from a scratch copy of /verif; no check may alarm.
# Scratch: /tmp/mv/{repo,verif} (same as tools/mutation_run.sh; do not run both at once).
LOG=${1:-/tmp/mv/harmless-all.log}; : > $LOG
R=/tmp/mv/repo; V=/tmp/mv/verif
mkdir -p /tmp/mv; [ -d $R ] || git -C /repo worktree add -q --detach $R HEAD; [ -d $V ] || git -C /verif worktree add -q --detach $V HEAD
run() { diff=$1; shift
  name=$(basename $diff .diff)
  git -C $R checkout -q -- . ; git -C $R checkout -q --detach $(git -C /repo rev-parse HEAD)
  git -C $V checkout -q -- . ; git -C $V checkout -q --detach $(git -C /verif rev-parse HEAD)
  sed -i 's#path = "/repo"#path = "/tmp/mv/repo"#' $V/harness/Cargo.toml $V/miri-harness/Cargo.toml 2>/dev/null
  git -C $R apply $diff || { echo "$name apply-failed" >> $LOG; return; }
  for p in "$@"; do
    out=$(cd $V && ./check $p 2>&1 | tail -4)
    echo "$name $p alarm=$(echo "$out" | grep -c '^VIOLATION\|^ERROR') :: $(echo "$out" | grep 'obligations=\|^VIOLATION\|^ERROR' | tr '\n' ' ' | cut -c1-260)" >> $LOG
  done
  git -C $R checkout -q -- .
}
H=/verif/seeded-harmless; H2=/verif/seeded-harmless-r2
run $H/H1_rename_private_writer_field.diff C15 C14
run $H/H2_default_buffer_64k.diff C07 C08 C20
run $H/H4_no_sse_scalar_scan.diff C01 C06
run $H/H5_error_messages.diff C02 C04 C19
run $H/H6_binary_tape_reserve.diff C03 C06
run $H/H7_to_bool_if_chain.diff C11 C02
run $H2/T1_tape_resume_state_helper.diff C01 C06 C19 C14
run $H2/T2_reader_drop_skip_unquoted_ws_fastpath.diff C09 C07 C02
run $H2/T3_reader_skip_container_unconditional_count.diff C09 C07 C02 C20
run $H2/T4_scalar_to_f64_restructure.diff C11 C02 C16
run $H2/T5_encoding_iterators_and_capacity.diff C12 C02 C16
run $H2/T6_data_tables_from_const_lists.diff C01 C07 C12
run $H2/T7_dom_entry_api_and_error_helper.diff C17 C16 C02 C14
run $H2/T8_writer_state_table_to_match.diff C15 C14
run $H2/T9_json_lazy_number_narrowing.diff C16
run $H2/T10_text_de_scalar_narrowing_macro.diff C02 C10 C18
run $H2/B1_buffer_fill_tidy.diff C07 C08 C20
run $H2/B2_util_safe_head.diff C03 C08 C05
run $H2/B3_lexer_consume_and_write_helpers.diff C08 C09 C19
run $H2/B4_reader_skip_container_unify.diff C08 C09 C20
run $H2/B5_tape_state_table_reserve_errors.diff C03 C06 C19
run $H2/B6_binary_error_messages.diff C04 C08 C19
run $H2/B7_binde_shared_helpers.diff C04 C10 C19 C20
run $H2/B8_date_tables_and_fastpath.diff C13 C10
run $H2/B9_color_sequence_elements.diff C04 C10
run $H2/B10_derive_attr_helpers.diff C18
echo HARMLESS-DONE >> $LOG
