#!/bin/bash
# validate_seeded.sh <slot> <id>...  : confirm each seeded change in a scratch worktree of /repo
#   builds (both cfgs), passes the unedited test suite, demo fails with it and passes without it.
# Results: /verif/seeded-incoming/<id>/validation.txt
slot=$1; shift
WT=/tmp/sv-$slot
export CARGO_NET_OFFLINE=true
if [ ! -d $WT ]; then git -C /repo worktree add -q --detach $WT HEAD; fi
for id in "$@"; do
  D=/verif/seeded-incoming/$id
  OUT=$D/validation.txt
  : > $OUT
  git -C $WT checkout -q --detach $(git -C /repo rev-parse HEAD) 2>>$OUT
  git -C $WT checkout -q -- . ; git -C $WT clean -fdq tests
  feat=""; grep -q "json" $D/demo.rs && feat="--features json"
  if ! git -C $WT apply --check $D/patch.diff 2>>$OUT; then echo "RESULT apply-failed" >> $OUT; continue; fi
  cp $D/demo.rs $WT/tests/seeded_demo.rs
  # clean tree: demo must pass
  (cd $WT && cargo test --offline $feat --test seeded_demo >/tmp/sv-$slot-clean.log 2>&1); rc_clean=$?
  git -C $WT apply $D/patch.diff
  (cd $WT && cargo build --offline >/dev/null 2>&1); rc_b1=$?
  (cd $WT && RUSTFLAGS="--cfg jomini_verif --cfg unoptimized_build" cargo build --offline --target-dir $WT/target-cfg >/dev/null 2>&1); rc_b2=$?
  (cd $WT && cargo test --offline $feat --test seeded_demo >/tmp/sv-$slot-mut.log 2>&1); rc_mut=$?
  rm -f $WT/tests/seeded_demo.rs
  (cd $WT && cargo test --workspace --no-fail-fast --offline >/tmp/sv-$slot-suite.log 2>&1); rc_suite=$?
  passed=$(grep -E "^test result" /tmp/sv-$slot-suite.log | awk '{p+=$4; f+=$6} END {print p" passed "f" failed"}')
  echo "demo_clean_rc=$rc_clean build_rc=$rc_b1 build_cfg_rc=$rc_b2 demo_mut_rc=$rc_mut suite_rc=$rc_suite suite=[$passed]" >> $OUT
  if [ $rc_clean -eq 0 ] && [ $rc_b1 -eq 0 ] && [ $rc_b2 -eq 0 ] && [ $rc_mut -ne 0 ] && [ $rc_suite -eq 0 ]; then echo "RESULT confirmed" >> $OUT; else echo "RESULT rejected" >> $OUT; tail -5 /tmp/sv-$slot-mut.log >> $OUT; fi
  git -C $WT checkout -q -- . ; git -C $WT clean -fdq tests
done
echo "slot $slot done"
