#!/usr/bin/env python3
"""Runner for one property check (DESIGN.md §4).

  1. build the harness from /repo's current working tree (hooks on)
  2. measure tables -> lean/JominiModel/Generated/Tables.lean
  3. proof obligations: lake build JominiModel.Props.<id>  + axiom audit + textual scan
  4. correspondence: harness (real code) vs jmdriver (Lean model) on generated cases
  5. implementation-only property oracles (L3) recorded by the harness
  6. evidence/<id>.json ; VIOLATION / KNOWN-FINDING lines ; exit status
"""
import sys, os, re, json, time, subprocess, fcntl, hashlib, shutil

ROOT = os.path.dirname(os.path.dirname(os.path.abspath(__file__)))
LEAN = os.path.join(ROOT, "lean")
HARN = os.path.join(ROOT, "harness")
OUT = os.path.join(ROOT, "out")
sys.path.insert(0, os.path.join(ROOT, "tools"))
from props_meta import PROPS, ALLOWED_AXIOMS, NATIVE_AXIOM_PREFIXES  # noqa: E402

ENV = dict(os.environ)
ENV["CARGO_NET_OFFLINE"] = "true"
ENV["RUSTFLAGS"] = "--cfg jomini_verif --cfg unoptimized_build"
ENV.setdefault("CARGO_TERM_COLOR", "never")


def sh(cmd, cwd=None, timeout=None, inp=None):
    p = subprocess.run(cmd, cwd=cwd, env=ENV, stdout=subprocess.PIPE, stderr=subprocess.STDOUT,
                       timeout=timeout, input=inp)
    return p.returncode, p.stdout.decode("utf-8", "replace")


class Lock:
    def __init__(self, name):
        os.makedirs(OUT, exist_ok=True)
        self.f = open(os.path.join(OUT, name + ".lock"), "w")
    def __enter__(self):
        fcntl.flock(self.f, fcntl.LOCK_EX)
    def __exit__(self, *a):
        fcntl.flock(self.f, fcntl.LOCK_UN)


def norm_source(path):
    """file content with comments and whitespace removed (so that reformatting is not drift)"""
    try:
        txt = open(path, encoding="utf-8", errors="replace").read()
    except OSError:
        return ""
    txt = re.sub(r"/\*.*?\*/", "", txt, flags=re.S)
    txt = re.sub(r"//[^\n]*", "", txt)
    return re.sub(r"\s+", "", txt)


def source_drift(prop):
    """names of the anchored source files of this property whose normalised content differs from the
    tree the models were written against (tools/source_hashes.json)."""
    hp = os.path.join(ROOT, "tools", "source_hashes.json")
    if not os.path.exists(hp):
        return []
    pinned = json.load(open(hp))
    files = []
    for line in open(os.path.join(ROOT, "properties.jsonl")):
        pr = json.loads(line)
        if pr["id"] == prop:
            files = pr["anchors"]["files"]
    changed = []
    for f in files:
        h = hashlib.sha256(norm_source(os.path.join("/repo", f)).encode()).hexdigest()
        if pinned.get(f) != h:
            changed.append(f)
    return changed


def build_harness():
    lock = os.path.join(HARN, "Cargo.lock")
    src = "/repo/Cargo.lock"
    if os.path.exists(src) and not os.path.exists(lock):
        shutil.copy(src, lock)
    with Lock("cargo"):
        rc, out = sh(["cargo", "build", "--release", "--offline"], cwd=HARN, timeout=1800)
    if rc != 0:
        print(out[-6000:])
        print("ERROR: harness / repo does not build")
        sys.exit(2)
    return os.path.join(HARN, "target", "release", "jmharness")


def theorem_names(prop):
    """Fully qualified names of the property's theorems: every `theorem` in Props/<id>.lean,
    plus every `theorem <id>_…` in the files listed under meta `theorem_files` (aggregate
    properties re-use theorems proved in other slices' Proofs files)."""
    files = [(os.path.join("Props", prop + ".lean"), None)]
    for f in PROPS.get(prop, {}).get("theorem_files", []):
        files.append((f, prop + "_"))
    names = []
    for rel, prefix in files:
        path = os.path.join(LEAN, "JominiModel", rel)
        if not os.path.exists(path):
            continue
        txt = strip_comments(open(path).read())
        ns = []
        for line in txt.split("\n"):
            m = re.match(r"\s*namespace\s+([A-Za-z0-9_.']+)", line)
            if m:
                ns.append(m.group(1)); continue
            m = re.match(r"\s*end\s+([A-Za-z0-9_.']+)\s*$", line)
            if m and ns and ns[-1] == m.group(1):
                ns.pop(); continue
            m = re.match(r"\s*(?:@\[[^\]]*\]\s*)*(?:private\s+|protected\s+)?theorem\s+([A-Za-z0-9_'.]+)", line)
            if m:
                short = m.group(1)
                if prefix and not short.split(".")[-1].startswith(prefix):
                    continue
                full = ".".join(ns + [short])
                if full not in names:
                    names.append(full)
    return names


def strip_comments(txt):
    # remove /- ... -/ (nested) and -- line comments
    out, depth, i = [], 0, 0
    while i < len(txt):
        if txt.startswith("/-", i):
            depth += 1; i += 2; continue
        if txt.startswith("-/", i) and depth > 0:
            depth -= 1; i += 2; continue
        if depth == 0:
            if txt.startswith("--", i):
                j = txt.find("\n", i)
                i = len(txt) if j < 0 else j
                continue
            out.append(txt[i])
        i += 1
    return "".join(out)


FORBIDDEN = re.compile(r"\bsorry\b|\badmit\b|^\s*axiom\s|\bnative_decide\b|\bimplemented_by\b|\bunsafe\s|maxHeartbeats\s+0\b|\bpartial\s+def\b", re.M)


def textual_scan():
    bad = []
    for sub in ("Model", "Spec", "Proofs", "Props"):
        d = os.path.join(LEAN, "JominiModel", sub)
        if not os.path.isdir(d):
            continue
        for fn in sorted(os.listdir(d)):
            if fn.endswith(".lean"):
                txt = strip_comments(open(os.path.join(d, fn)).read())
                for m in FORBIDDEN.finditer(txt):
                    bad.append(f"{sub}/{fn}: {m.group(0).strip()}")
    return bad


def proofs(prop, thorough):
    """returns dict(ok, obligations, discharged, theorems=[{name, axioms}], failures=[...], log)"""
    res = dict(ok=True, obligations=0, discharged=0, theorems=[], failures=[], log="")
    names = theorem_names(prop)
    res["obligations"] = len(names)
    mod = f"JominiModel.Props.{prop}"
    with Lock("lake"):
        rc, out = sh(["lake", "build", mod, "jmdriver"], cwd=LEAN, timeout=3600)
        res["log"] = out[-8000:]
        if rc != 0:
            # is it only the Props module (proof obligations) or the model/driver itself?
            rc2, out2 = sh(["lake", "build", "jmdriver"], cwd=LEAN, timeout=3600)
            if rc2 != 0:
                print(out2[-6000:])
                print("ERROR: the Lean model / driver does not build")
                sys.exit(2)
            res["ok"] = False
            errs = re.findall(r"error: ([^\n]*)", out)
            res["failures"] = errs[:20] or ["lake build " + mod + " failed"]
            return res
        # axiom audit
        audit_dir = os.path.join(LEAN, "Audit")
        os.makedirs(audit_dir, exist_ok=True)
        audit = os.path.join(audit_dir, prop + ".lean")
        with open(audit, "w") as f:
            f.write(f"import {mod}\n")
            for n in names:
                f.write(f"#print axioms {n}\n")
        rc, out = sh(["lake", "env", "lean", audit], cwd=LEAN, timeout=1800)
        if thorough and rc == 0:
            rc3, out3 = sh(["lake", "env", "leanchecker", mod], cwd=LEAN, timeout=3600)
            res["leanchecker_rc"] = rc3
            if rc3 != 0:
                res["ok"] = False
                res["failures"].append("leanchecker: " + out3[-500:])
    if rc != 0:
        res["ok"] = False
        res["failures"].append("audit failed: " + out[-1000:])
        return res
    allowed_native = PROPS[prop].get("native_axioms_ok", False)
    seen = {}
    for m in re.finditer(r"'([^']+)' depends on axioms: \[([^\]]*)\]", out, re.S):
        seen[m.group(1)] = [a.strip() for a in m.group(2).replace("\n", " ").split(",") if a.strip()]
    for m in re.finditer(r"'([^']+)' does not depend on any axioms", out):
        seen[m.group(1)] = []
    for n in names:
        full = [k for k in seen if k == n or k.endswith("." + n) or n.endswith("." + k)]
        if not full:
            res["ok"] = False
            res["failures"].append(f"audit: no axiom report for {n}")
            continue
        ax = seen[full[0]]
        bad = [a for a in ax if a not in ALLOWED_AXIOMS and not (allowed_native and (a.startswith(NATIVE_AXIOM_PREFIXES) or "._native.bv_decide.ax_" in a))]
        res["theorems"].append(dict(name=n, axioms=ax))
        if bad or "sorryAx" in ax:
            res["ok"] = False
            res["failures"].append(f"audit: {n} depends on disallowed axioms {bad}")
        else:
            res["discharged"] += 1
    scan = textual_scan()
    if scan:
        res["ok"] = False
        res["failures"] += ["scan: " + s for s in scan]
    return res


def trusted_base_of(meta, pr):
    """Common trusted base with the axiom line replaced by what #print axioms reported on this run."""
    native = sorted({t["name"].split(".")[-1] for t in pr["theorems"]
                     for a in t["axioms"] if a not in ALLOWED_AXIOMS})
    out = []
    for t in meta["trusted_base"]:
        if t.startswith("axioms propext") and native:
            t = ("axioms propext, Classical.choice, Quot.sound for every theorem except %d that also depend on bv_decide "
                 "per-use axioms (SAT certificate checked by compiled code, accepted for this property: %s) "
                 "(audited with #print axioms on every run)" % (len(native), ", ".join(native[:12]) + (" ..." if len(native) > 12 else "")))
        out.append(t)
    return out


def load_known(prop):
    known, fixed = [], []
    path = os.path.join(ROOT, "known_findings.txt")
    if os.path.exists(path):
        for line in open(path):
            line = line.strip()
            if not line or line.startswith("#"):
                continue
            if line.startswith("known:"):
                head, _, text = line[len("known:"):].partition(" -- ")
                kv = dict(re.findall(r"(property|kind)=(\S+)", head))
                m = re.search(r"\bmatch=(.*)$", head.strip())
                kv["match"] = m.group(1).strip() if m else ""
                if kv.get("property") == prop:
                    kv["text"] = text or line
                    known.append(kv)
            elif line.startswith("fixed:"):
                fixed.append(line)
    return known, fixed


def match_known(known, kind, case):
    for k in known:
        if k.get("kind") == kind and (k.get("match", "") in case):
            return k
    return None


def run_correspondence(harness, prop, tier, seed, outdir, scale=1):
    os.makedirs(outdir, exist_ok=True)
    for fn in ("cases.txt", "impl.txt", "model.txt", "stats.json", "current_case.txt", "hang.txt"):
        p = os.path.join(outdir, fn)
        if os.path.exists(p):
            os.remove(p)
    corpus = os.path.join(ROOT, "corpus", prop + ".txt")
    env_scale = dict(ENV)
    if scale > 1:
        env_scale["VERIF_SCALE"] = str(scale)
    p0 = subprocess.run([harness, "gen", prop, tier, str(seed), outdir, corpus], env=env_scale, stdout=subprocess.PIPE, stderr=subprocess.STDOUT, timeout=7200)
    rc, out = p0.returncode, p0.stdout.decode("utf-8", "replace")
    if rc != 0:
        # the harness process itself died (abort / stack overflow): that is a C05-type event
        cur = os.path.join(outdir, "current_case.txt")
        case = open(cur, "rb").read().split(b"\0")[0].decode("utf-8", "replace").strip() if os.path.exists(cur) else ""
        hang = os.path.exists(os.path.join(outdir, "hang.txt"))
        return dict(died=True, log=out[-3000:], rc=rc, case=case, hang=hang)
    driver = os.path.join(LEAN, ".lake", "build", "bin", "jmdriver")
    with open(os.path.join(outdir, "cases.txt"), "rb") as fi, open(os.path.join(outdir, "model.txt"), "wb") as fo:
        p = subprocess.run([driver], stdin=fi, stdout=fo, stderr=subprocess.PIPE, timeout=7200)
    if p.returncode != 0:
        print(p.stderr.decode()[-3000:])
        print("ERROR: jmdriver failed")
        sys.exit(2)
    stats = json.load(open(os.path.join(outdir, "stats.json")))
    dis = []
    n = 0
    results = {}
    distinct = set()
    with open(os.path.join(outdir, "cases.txt")) as fc, open(os.path.join(outdir, "impl.txt")) as fi, open(os.path.join(outdir, "model.txt")) as fm:
        rows = []
        for c, i, m in zip(fc, fi, fm):
            n += 1
            c, i, m = c.rstrip("\n"), i.rstrip("\n"), m.rstrip("\n")
            # wildcard: an implementation-side token ending in `:?` (private state that could not be
            # observed) matches whatever the model prints in that position
            if ":?" in i:
                it, mt = i.split(" "), m.split(" ")
                if len(it) == len(mt):
                    mt = [a if a.endswith(":?") else b for a, b in zip(it, mt)]
                    m = " ".join(mt)
            results[i] = results.get(i, 0) + 1
            rows.append((c, i))
            if i != m and m != "skip":
                if len(dis) < 200:
                    dis.append(dict(case=c, impl=i, model=m))
                else:
                    dis.append(None)
    top = max(results.items(), key=lambda kv: kv[1])[0] if results else None
    for c, i in rows:
        if i != top and i != "bad-op":
            distinct.add(hashlib.blake2b(c.encode(), digest_size=8).digest())
    ndis = len(dis)
    dis = [d for d in dis if d]
    return dict(died=False, evaluations=n, distinct_nontrivial=len(distinct), disagreements=dis, n_disagreements=ndis,
                stats=stats, distinct_results=len(results))


def run_miri(outdir, n):
    """C05 only: run short cases of this run under Miri (memory-safety oracle for the library's unsafe
    code: out-of-bounds reads that do not crash, uninitialised memory, invalid pointer arithmetic).
    Returns (note for the evidence, violation tuple or None).  An unavailable Miri is a note, not an alarm."""
    mh = os.path.join(ROOT, "miri-harness")
    cases = os.path.join(outdir, "cases.txt")
    if not os.path.isdir(mh) or not os.path.exists(cases):
        return "miri: harness missing", None
    sel, seen = [], set()
    with open(cases) as f:
        lines = [l.strip() for l in f if l.startswith("x-text ") or l.startswith("x-bin ")]
    # blank runs / short adversarial shapes first (they sit near the scanners' window gates), then a spread
    short = [l for l in lines if len(l) < 64]
    # windows of exactly 7..9 / 15..17 blank bytes (plus a short tail) sit on the scanners' size gates
    gate = re.compile(r"^x-text (?:[0-9a-f]{0,10})?((?:09|0a|20){7,9}|(?:09|0a|20){15,17})(?:[0-9a-f]{0,10})?$")
    for l in short:
        if gate.match(l) and l not in seen and len(sel) < n // 2:
            seen.add(l); sel.append(l)
    step = max(1, len(short) // (n // 3 + 1))
    for l in short[::step]:
        if l not in seen:
            seen.add(l); sel.append(l)
    longer = [l for l in lines if 64 <= len(l) < 400]
    step = max(1, len(longer) // (n // 3 + 1))
    for l in longer[::step]:
        if l not in seen and len(sel) < n:
            seen.add(l); sel.append(l)
    mc = os.path.join(outdir, "miri-cases.txt")
    open(mc, "w").write("\n".join(sel) + "\n")
    lock = os.path.join(mh, "Cargo.lock")
    if not os.path.exists(lock) and os.path.exists("/repo/Cargo.lock"):
        shutil.copy("/repo/Cargo.lock", lock)
    env = dict(ENV); env.pop("RUSTFLAGS", None); env["MIRIFLAGS"] = "-Zmiri-disable-isolation"
    try:
        with Lock("cargo-miri"):
            p = subprocess.run(["cargo", "+nightly", "miri", "run", "--offline", "--", mc], cwd=mh, env=env,
                               stdout=subprocess.PIPE, stderr=subprocess.STDOUT, timeout=1500)
    except Exception as e:  # noqa
        return f"miri: not run ({e})", None
    out = p.stdout.decode("utf-8", "replace")
    if "Undefined Behavior" in out or "error: unsupported operation" in out and "CASE" in out and p.returncode != 0 and "miri-cases" not in out:
        last = [l for l in out.splitlines() if l.startswith("CASE ")]
        case = last[-1][5:] if last else ""
        ub = [l for l in out.splitlines() if "Undefined Behavior" in l or l.startswith("error:")]
        detail = ("Miri: " + " | ".join(ub[:3]))[:600]
        return f"miri: UB on case {case}", ("miri-undefined-behavior", case, detail, True)
    m = re.search(r"miri-cases (\d+)", out)
    if p.returncode == 0 and m:
        return f"miri: {m.group(1)} cases, no undefined behaviour reported", None
    if "panicked at" in out:
        last = [l for l in out.splitlines() if l.startswith("CASE ")]
        case = last[-1][5:] if last else ""
        return f"miri: panic on case {case}", ("panic", case, "panic under Miri: " + out[-400:].replace("\n", " "), True)
    return "miri: could not run (" + out[-200:].replace("\n", " ") + ")", None


def concrete_disagreement(meta, d):
    """A model/implementation disagreement is itself a violating input only for functional
    properties (the model's answer is the proved-correct one) and only when the two sides differ in
    more than the KIND of error they report: no property speaks about error kinds, so `err:x` vs
    `err:y` is a broken correspondence without a failing input."""
    if not meta.get("functional", False):
        return False
    a, b = d["impl"].split(" ")[0], d["model"].split(" ")[0]
    if a.startswith("err") and b.startswith("err"):
        return False
    if incidental_disagreement(d):
        return False
    return True


# Ops whose result lines carry white-box accounting that no property speaks about.  A disagreement confined
# to it is a broken correspondence (the model of the buffer policy no longer matches the code) but not a
# failing input of the property: the implementation-only oracles decide the property on those cases.
WHITEBOX_OPS = {"bufops", "bparts"}             # BufferWindow driven through the hook (fill sizes, window offsets); the raw buffer handed back by into_parts
ACCOUNTING_TAIL_OPS = {"bstream", "bread", "bcalls", "bskip", "breadbytes"}   # last field = bytes delivered so far
FAULT_STEP = re.compile(r"(^|,)[FP](,|$)")


def incidental_disagreement(d):
    w = d["case"].split(" ")
    op = w[0]
    if op in WHITEBOX_OPS:
        return True
    # under an injected fault the point at which the failing read call falls depends on how many read calls the
    # buffer policy makes; every outcome `prefix of the fault-free tokens + I/O error` satisfies C20
    if any(FAULT_STEP.search(x) for x in w[1:4]):
        return True
    if op in ACCOUNTING_TAIL_OPS:
        ia, ma = d["impl"].split(" "), d["model"].split(" ")
        if len(ia) == len(ma) and len(ia) > 1 and ia[:-1] == ma[:-1]:
            return True
    return False


def main():
    args = sys.argv[1:]
    if not args:
        print(__doc__); sys.exit(2)
    prop = args[0]
    tier = os.environ.get("VERIF_TIER", "quick")
    replay = None
    i = 1
    while i < len(args):
        if args[i] == "--tier":
            tier = args[i + 1]; i += 2
        elif args[i] == "--replay":
            replay = args[i + 1]; i += 2
        else:
            i += 1
    if tier not in ("quick", "thorough"):
        tier = "quick"
    seed = int(os.environ.get("VERIF_SEED", "20260930") or 20260930)
    if prop not in PROPS:
        print("unknown property", prop); sys.exit(2)
    meta = PROPS[prop]
    t0 = time.time()
    harness = build_harness()

    if replay:
        do_replay(harness, prop, replay)
        return

    # measured tables
    gen_dir = os.path.join(LEAN, "JominiModel", "Generated")
    os.makedirs(gen_dir, exist_ok=True)
    with Lock("lake"):
        rc, out = sh([harness, "tables", os.path.join(gen_dir, "Tables.lean")])
    table_panic = ""
    if rc == 3 and "TABLE-PROBE-PANICKED" in out:
        # the real code panicked while its tables were being probed (single-byte / tiny inputs): that is a
        # crash of a public entry point; the check goes on with the previous tables
        table_panic = out.strip().replace("\n", "; ")
    elif rc != 0:
        print(out[-3000:]); print("ERROR: table measurement failed"); sys.exit(2)

    pr = proofs(prop, tier == "thorough")
    outdir = os.path.join(OUT, prop)
    drift = source_drift(prop)
    scale = 4 if (drift and tier == "quick") else 1
    if drift:
        print(f"{prop}: anchored source differs from the pinned tree ({', '.join(drift)}): randomized budgets x{scale}")
    corr = run_correspondence(harness, prop, tier, seed, outdir, scale)

    miri_note = ""
    miri_violation = None
    if prop == "C05" and not corr.get("died"):
        miri_note, miri_violation = run_miri(outdir, 300 if tier == "quick" else 3000)

    known, fixed = load_known(prop)
    violations = []       # (kind, case, detail, concrete: bool)
    known_hits = []

    if miri_violation:
        violations.append(miri_violation)
    if table_panic:
        violations.append(("panic", "tables", "the implementation panicked while its tables were measured with exhaustive one-byte probes: " + table_panic, True))
    if corr.get("died"):
        violations.append(("hang" if corr.get("hang") else "abort", corr.get("case", ""), "the harness process died while executing this case (abort / stack overflow / hang watchdog), rc=%s: %s" % (corr.get("rc"), corr["log"][-300:]), True))
        corr = dict(evaluations=0, distinct_nontrivial=0, disagreements=[], n_disagreements=0, stats=dict(hist={}, gen_hist={}, violations=[], samples=[]), distinct_results=0)

    for v in corr["stats"].get("violations", []):
        k = match_known(known, v["kind"], v["case"])
        if k:
            known_hits.append((k, v))
        else:
            violations.append((v["kind"], v["case"], v["detail"], True))
    for d in corr["disagreements"]:
        k = match_known(known, "model-disagreement", d["case"])
        if k:
            known_hits.append((k, dict(kind="model-disagreement", case=d["case"], detail="")))
        else:
            violations.append(("model-disagreement", d["case"], f"impl={d['impl']} model={d['model']}", concrete_disagreement(meta, d)))

    # a broken proof / correspondence with no concrete input yet: search harder (L3, thorough budget)
    search_note = ""
    if (not pr["ok"] or violations) and not any(v[3] for v in violations) and tier == "quick":
        sdir = os.path.join(OUT, prop + "-search")
        c2 = run_correspondence(harness, prop, "thorough", seed + 1, sdir)
        search_note = f"searched {c2.get('evaluations', 0)} further cases at the thorough budget"
        if not c2.get("died"):
            for v in c2["stats"].get("violations", []):
                if not match_known(known, v["kind"], v["case"]):
                    violations.append((v["kind"], v["case"], v["detail"], True))
            for d in c2["disagreements"]:
                if not match_known(known, "model-disagreement", d["case"]):
                    violations.append(("model-disagreement", d["case"], f"impl={d['impl']} model={d['model']}", concrete_disagreement(meta, d)))

    wall = time.time() - t0
    nviol = len(violations) + (0 if pr["ok"] else 1)
    hist = corr["stats"].get("hist", {})
    evidence = dict(
        property_id=prop, tier=tier, seed=seed, level="proof",
        coverage=dict(
            obligations=max(pr["obligations"], 1), discharged=pr["discharged"],
            checker_cmd=f"cd /verif/lean && lake build JominiModel.Props.{prop} && lake env lean Audit/{prop}.lean" + (" && lake env leanchecker JominiModel.Props." + prop if tier == "thorough" else ""),
            trusted_base=trusted_base_of(meta, pr),
            theorems=pr["theorems"], proof_failures=pr["failures"],
            evaluations=max(corr["evaluations"], 0), distinct_nontrivial=corr["distinct_nontrivial"],
            rule="case lines are generated by harness/src/props/%s.rs from one SplitMix64 state (VERIF_SEED) plus exhaustive small-alphabet enumerations and the committed corpus; every line is executed by the real code (harness) and by the Lean model (jmdriver) and the result lines are compared; a case counts as distinct non-trivial when its case line is unique and its implementation result differs from the most frequent result line of the run" % prop.lower(),
            samples=corr["stats"].get("samples", [])[:8] or ["(no cases)"],
            distinct_results=corr["distinct_results"],
            model_disagreements=corr["n_disagreements"],
            oracle_violations=len(corr["stats"].get("violations", [])),
            known_findings_hit=len(known_hits),
            impl_hist=hist, gen_hist=corr["stats"].get("gen_hist", {}),
            search=search_note, source_drift=drift, budget_scale=scale, miri=miri_note,
        ),
        assumptions=meta["assumptions"], wall_s=round(wall, 2), violations=nviol,
    )
    os.makedirs(os.path.join(ROOT, "evidence"), exist_ok=True)
    with open(os.path.join(ROOT, "evidence", prop + ".json"), "w") as f:
        json.dump(evidence, f, indent=1, sort_keys=True)
        f.write("\n")

    seen_known = set()
    for k, v in known_hits:
        key = k.get("kind", "") + k.get("match", "")
        if key not in seen_known:
            seen_known.add(key)
            print(f"KNOWN-FINDING: property={prop} {k['text']}")

    print(f"{prop}: obligations={pr['obligations']} discharged={pr['discharged']} proofs_ok={pr['ok']} "
          f"cases={corr['evaluations']} disagreements={corr['n_disagreements']} oracle_violations={len(corr['stats'].get('violations', []))} "
          f"known={len(known_hits)} wall={wall:.1f}s")

    if nviol == 0:
        sys.exit(0)

    rdir = os.path.join(OUT, "replays")
    os.makedirs(rdir, exist_ok=True)
    rpath = os.path.join(rdir, f"{prop}-{tier}-{seed}.txt")
    concrete = [v for v in violations if v[3]]
    with open(rpath, "w") as f:
        f.write(f"# replay file for property {prop} (re-run with: ./check {prop} --replay {rpath})\n")
        if not pr["ok"]:
            f.write("# proof obligations that no longer check:\n")
            for x in pr["failures"]:
                f.write("#   " + x.replace("\n", " ")[:400] + "\n")
        if violations and not concrete:
            f.write("# correspondence that no longer checks (model vs implementation), no input violating the property itself was found:\n")
        for kind, case, detail, conc in (concrete or violations)[:50]:
            f.write(f"# {kind}: {detail[:400]}\n")
            if case:
                f.write(case + "\n")
    tail = "" if concrete else " no-failing-input-found"
    print(f"VIOLATION property={prop} replay={rpath}{tail}")
    sys.exit(1)


def do_replay(harness, prop, path):
    lines = [l.rstrip("\n") for l in open(path) if l.strip() and not l.startswith("#")]
    inp = ("\n".join(lines) + "\n").encode()
    rc, impl = sh([harness, "exec"], inp=inp)
    driver = os.path.join(LEAN, ".lake", "build", "bin", "jmdriver")
    with Lock("lake"):
        sh(["lake", "build", "jmdriver"], cwd=LEAN)
    rc2, model = sh([driver], inp=inp)
    il = impl.splitlines(); ml = model.splitlines()
    bad = 0
    for k, c in enumerate(lines):
        a = il[k] if k < len(il) else "?"
        b = ml[k] if k < len(ml) else "?"
        flag = "" if a == b else "   <-- DIFFERENT"
        if a != b:
            bad += 1
        print(f"case : {c}\nimpl : {a}\nmodel: {b}{flag}")
    for l in il[len(lines):]:
        print(l)
        if l.startswith("ORACLE"):
            bad += 1
    if bad:
        print(f"VIOLATION property={prop} replay={path}")
        sys.exit(1)
    sys.exit(0)


if __name__ == "__main__":
    main()
