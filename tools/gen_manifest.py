#!/usr/bin/env python3
"""Regenerate /verif/MANIFEST.json from tools/props_meta.py (single source of truth)."""
import json, os, sys
ROOT = os.path.dirname(os.path.dirname(os.path.abspath(__file__)))
sys.path.insert(0, os.path.join(ROOT, "tools"))
from props_meta import PROPS, NOT_CLAIMED, HOOK_COMMITS

ALL = ["C%02d" % i for i in range(1, 21)]
checks = []
for pid in ALL:
    if pid not in PROPS or pid in NOT_CLAIMED:
        continue
    m = PROPS[pid]
    checks.append(dict(
        property_id=pid,
        quick_cmd=f"./check {pid} --tier quick",
        thorough_cmd=f"./check {pid} --tier thorough",
        evidence_file=f"/verif/evidence/{pid}.json",
        replay_cmd_template=f"./check {pid} --replay {{path}}",
        engine="lean4-model+correspondence",
        level_claimed=dict(category="proof", text=m["level_text"], design_ref=m.get("design_ref", "DESIGN.md §8 " + pid)),
        level_note=m["level_note"],
        technique=m.get("technique", "Lean 4 theorems about a hand-written executable model; model tied to the code by a differential correspondence check (real code vs model driver) and measured tables"),
    ))
manifest = dict(
    version=1,
    setup_cmd="cd /verif/lean && (lake build JominiModel jmdriver || lake build jmdriver) && cd /verif/harness && (test -f Cargo.lock || cp /repo/Cargo.lock .) && CARGO_NET_OFFLINE=true RUSTFLAGS='--cfg jomini_verif --cfg unoptimized_build' cargo build --release --offline",
    hooks=dict(
        guard="cfg(jomini_verif)",
        enable="RUSTFLAGS='--cfg jomini_verif --cfg unoptimized_build' (set by /verif/check and /verif/harness/.cargo/config.toml); unoptimized_build is the repository's own pre-existing cfg exposing the reference binary parser",
        baseline_off_cmd="cd /repo && cargo test --workspace --no-fail-fast --offline",
        source_commits=HOOK_COMMITS,
        add_only=True,
    ),
    engines=[dict(name="lean4-model+correspondence", path="/verif/lean + /verif/harness + /verif/tools/run_check.py",
                  serves_properties=[c["property_id"] for c in checks],
                  kind_free_text="Lean 4 library JominiModel (models, specs, proofs, property theorems), jmdriver executable evaluating the same model definitions, Rust harness running the real code in-process, Python runner diffing the two and auditing axioms")],
    checks=checks,
    notes="See DESIGN.md. Every check: rebuild harness from /repo working tree (hooks on) -> measure tables -> lake build Props.<id> + #print axioms audit -> correspondence diff (real code vs Lean model) -> implementation-only property oracles -> evidence.",
    not_applicable=[dict(property_id=p, reason=NOT_CLAIMED[p]) for p in ALL if p in NOT_CLAIMED],
)
with open(os.path.join(ROOT, "MANIFEST.json"), "w") as f:
    json.dump(manifest, f, indent=1)
    f.write("\n")
print("MANIFEST.json:", len(checks), "checks,", len(manifest["not_applicable"]), "not claimed")
