"""Per-property metadata used by the runner (trusted base, assumptions, flags)."""

ALLOWED_AXIOMS = {"propext", "Classical.choice", "Quot.sound"}
# bv_decide certificates are checked by compiled code; accepted only where native_axioms_ok
NATIVE_AXIOM_PREFIXES = ("Lean.ofReduceBool", "Lean.trustCompiler")

COMMON_TB = [
    "Lean 4.33.0 kernel",
    "axioms propext, Classical.choice, Quot.sound only (audited with #print axioms on every run)",
    "hand-written Lean model tied to the code by the correspondence check (harness runs the real code, jmdriver the model, outputs diffed)",
    "harness generators, canonical printing, the diff",
]

HOOK_COMMITS = ["a973137"]

# properties not (yet) claimed, with the reason shown in MANIFEST.not_applicable
NOT_CLAIMED = {p: "check not built yet (construction in progress, see DESIGN.md §11 build order)" for p in
               ["C%02d" % i for i in range(1, 21)] if p != "C11"}

PROPS = {
    "C11": dict(
        functional=True,
        level_text="Lean theorems characterise the model of to_u64/to_i64/to_bool/to_f64 for all byte strings; the model is tied to src/scalar.rs by exhaustive small-alphabet and boundary/random differential runs, and an implementation-only oracle (u128 / correctly-rounded reference) turns any break into a concrete input",
        level_note="theorems are about the hand-written model JominiModel/Model/Scalar.lean; IEEE-754 u64->f64 and division are modelled as exact RNE (hardware trusted); clauses whose theorem is not yet proved are decided by correspondence + oracle only (listed in evidence)",
        trusted_base=COMMON_TB + ["IEEE-754 conformance of hardware u64->f64 conversion and f64 division (modelled as exact round-to-nearest-even)"],
        assumptions=["model JominiModel/Model/Scalar.lean mirrors src/scalar.rs:168-338; measured table maxFractionDigits"],
    ),
}
