"""Per-property metadata used by the runner and the MANIFEST generator.
One JSON file per property in tools/meta/<id>.json with keys:
  functional (bool)   a model/implementation disagreement is itself a violating input
  native_axioms_ok    (optional) bv_decide axioms accepted for this property
  level_text, level_note, technique (optional), trusted_base (list, appended to the common one), assumptions (list)
A property without a meta file is not claimed (listed under MANIFEST.not_applicable with the reason below).
"""
import json, os, glob

ALLOWED_AXIOMS = {"propext", "Classical.choice", "Quot.sound"}
# bv_decide certificates are checked by compiled code; accepted only where native_axioms_ok
NATIVE_AXIOM_PREFIXES = ("Lean.ofReduceBool", "Lean.trustCompiler")

COMMON_TB = [
    "Lean 4.33.0 kernel",
    "axioms propext, Classical.choice, Quot.sound only (audited with #print axioms on every run)",
    "hand-written Lean model tied to the code by the correspondence check (harness runs the real code, jmdriver the model, outputs diffed)",
    "harness generators, canonical printing, the diff",
]

HOOK_COMMITS = ["a973137"]

_here = os.path.dirname(os.path.abspath(__file__))
PROPS = {}
for _p in sorted(glob.glob(os.path.join(_here, "meta", "C*.json"))):
    _m = json.load(open(_p))
    _id = os.path.basename(_p)[:-5]
    _tb = _m.get("trusted_base", [])
    _m["trusted_base"] = COMMON_TB + [t for t in _tb if t not in COMMON_TB]
    _m.setdefault("assumptions", [])
    PROPS[_id] = _m

NOT_CLAIMED = {p: "check not built yet (construction in progress, see DESIGN.md §11 build order)"
               for p in ["C%02d" % i for i in range(1, 21)] if p not in PROPS}
_na = os.path.join(_here, "meta", "not_applicable.json")
if os.path.exists(_na):
    NOT_CLAIMED.update({k: v for k, v in json.load(open(_na)).items() if k not in PROPS})
