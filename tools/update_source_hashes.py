#!/usr/bin/env python3
"""Record the normalised hashes of every anchored source file of /repo's CURRENT tree in
tools/source_hashes.json (run after every hook / fix commit in /repo). The runner compares against it and
raises the randomized budgets of a property whose anchored files have changed since."""
import json, hashlib, importlib.util, os
here = os.path.dirname(os.path.abspath(__file__))
spec = importlib.util.spec_from_file_location('rc', os.path.join(here, 'run_check.py'))
rc = importlib.util.module_from_spec(spec)
spec.loader.exec_module(rc)
files = set()
for l in open(os.path.join(here, '..', 'properties.jsonl')):
    files |= set(json.loads(l)['anchors']['files'])
h = {f: hashlib.sha256(rc.norm_source('/repo/' + f).encode()).hexdigest() for f in sorted(files)}
json.dump(h, open(os.path.join(here, 'source_hashes.json'), 'w'), indent=1)
print(len(h), 'files hashed')
