#!/bin/bash
# mutation_run.sh <seeded-id> <prop>...   run the given checks against a seeded change, in a scratch
# copy of /verif (/tmp/mv/verif, harness pointed at /tmp/mv/repo) so that /repo itself is not disturbed.
id=$1; shift
MV=${MV:-/tmp/mv}; R=$MV/repo; V=$MV/verif
# scratch worktrees are created on demand (remove them with `git worktree remove --force` when done)
mkdir -p $MV; [ -d $R ] || git -C /repo worktree add -q --detach $R HEAD; [ -d $V ] || git -C /verif worktree add -q --detach $V HEAD
git -C $R checkout -q -- . 
git -C $R checkout -q --detach $(git -C /repo rev-parse HEAD)
git -C $V checkout -q -- . ; git -C $V checkout -q --detach $(git -C /verif rev-parse HEAD)
sed -i 's#path = "/repo"#path = "'"$R"'"#' $V/harness/Cargo.toml $V/miri-harness/Cargo.toml 2>/dev/null
if ! git -C $R apply /verif/seeded/$id/patch.diff; then echo "$id apply-failed"; exit 2; fi
for p in "$@"; do
  out=$(cd $V && ./check $p 2>&1 | tail -4)
  v=$(echo "$out" | grep -c "^VIOLATION")
  echo "$id $p detected=$v :: $(echo "$out" | grep "^VIOLATION\|obligations=" | tr '\n' ' ' | cut -c1-300)"
  if [ "$v" != "0" ]; then f=$(echo "$out" | grep "^VIOLATION" | sed 's/.*replay=\([^ ]*\).*/\1/'); head -6 $f | cut -c1-200 | sed 's/^/     /'; fi
done
git -C $R checkout -q -- .
