#!/usr/bin/env python3
"""Rewrite the theorem counts of DESIGN.md §0 (`| Cxx | N: …`) from evidence/Cxx.json (obligations discharged)."""
import json, re, os
root = os.path.dirname(os.path.dirname(os.path.abspath(__file__)))
p = os.path.join(root, "DESIGN.md"); s = open(p).read(); tot = 0
for i in range(1, 21):
    pid = "C%02d" % i
    e = json.load(open(os.path.join(root, "evidence", pid + ".json")))
    n = e["coverage"]["discharged"]; tot += n
    s, k = re.subn(r"^\| %s \| \d+:" % pid, "| %s | %d:" % (pid, n), s, count=1, flags=re.M)
    if k != 1: print("no row for", pid)
open(p, "w").write(s); print("total audited theorems:", tot)
