#!/usr/bin/env python3
"""Record mutation-run results in seeded/<id>/meta.json and print the DESIGN.md §12 matrix.

usage: seeded_matrix.py [log ...]      logs are outputs of tools/mutation_run.sh
Each `"<id> <prop> detected=<n> :: <summary>"` line of a log updates meta.json of <id>:
detected_by / not_detected_by (the latest run of a (change, check) pair wins).  With --table the
markdown table for DESIGN.md is printed from the metas.
"""
import json, os, re, sys, glob

ROOT = os.path.dirname(os.path.dirname(os.path.abspath(__file__)))
SEED = os.path.join(ROOT, "seeded")
HOW = ("tools/mutation_run.sh: patch applied to a scratch worktree of /repo, ./check <property> (quick tier) run from a "
       "scratch copy of /verif whose harness points at that worktree; exit 1 + VIOLATION line = detected "
       "(latest run recorded; logs in notes/mutation-logs/)")


def order(d):
    m = re.match(r"(C\d+)_(?:r(\d+)_)?(\d+)(.*)", d)
    return (m.group(1), int(m.group(2) or 1), int(m.group(3)), m.group(4)) if m else (d, 0, 0, "")


def chk(x):
    return x["check"] if isinstance(x, dict) else str(x)


def update(logs):
    for log in logs:
        for line in open(log, errors="replace"):
            m = re.match(r"(C\d+_\S+) (C\d+) detected=(\d+) :: (.*)", line)
            if not m:
                continue
            sid, prop, det, summary = m.group(1), m.group(2), int(m.group(3)), m.group(4)
            mp = os.path.join(SEED, sid, "meta.json")
            if not os.path.exists(mp):
                continue
            meta = json.load(open(mp))
            db = [x for x in meta.get("detected_by", []) if chk(x) != prop]
            nd = [x for x in meta.get("not_detected_by", []) if chk(x) != prop]
            s = re.search(r"disagreements=(\d+) oracle_violations=(\d+) known=(\d+)", summary)
            pf = "proofs_ok=False" in summary
            if det:
                how = []
                if s:
                    if int(s.group(1)):
                        how.append(f"{s.group(1)} model/implementation disagreements")
                    if int(s.group(2)) - int(s.group(3)) > 0:
                        how.append(f"{int(s.group(2)) - int(s.group(3))} implementation-only oracle violations")
                if pf:
                    how.append("proof obligation no longer discharged")
                if "abort" in summary or "died" in summary:
                    how.append("harness death isolated to a case")
                db.append(dict(check=prop, how="; ".join(how) or "VIOLATION line"))
            else:
                nd.append(dict(check=prop, how="quick tier ran clean"))
            meta["detected_by"], meta["not_detected_by"], meta["how_run"] = db, nd, HOW
            json.dump(meta, open(mp, "w"), indent=1)


def table():
    rows = []
    for d in sorted(os.listdir(SEED), key=order):
        mp = os.path.join(SEED, d, "meta.json")
        if not os.path.exists(mp):
            continue
        m = json.load(open(mp))
        what = (m.get("title") or m.get("what_it_breaks") or "").replace("|", "/").replace("\n", " ")[:80]
        det = ", ".join(sorted({chk(x) for x in m.get("detected_by", [])}))
        nd = ", ".join(sorted({chk(x) for x in m.get("not_detected_by", [])} - {chk(x) for x in m.get("detected_by", [])}))
        rows.append(f"| {d} | {m.get('property', d.split('_')[0])} | {what} | {det} | {nd} |")
    print("| seeded change | target | what it breaks | caught by (quick tier) | run but not caught by |")
    print("|---|---|---|---|---|")
    print("\n".join(rows))
    tot = len(rows)
    caught = sum(1 for d in os.listdir(SEED) if os.path.exists(os.path.join(SEED, d, "meta.json")) and
                 any(chk(x) == json.load(open(os.path.join(SEED, d, "meta.json"))).get("property", d.split("_")[0])
                     for x in json.load(open(os.path.join(SEED, d, "meta.json"))).get("detected_by", [])))
    print(f"\n{tot} changes; {caught} caught by the check of the property they target.", file=sys.stderr)


if __name__ == "__main__":
    args = [a for a in sys.argv[1:] if a != "--table"]
    update(args)
    if "--table" in sys.argv:
        table()
