#!/bin/bash
# run every registered quick check against /repo (rewrites evidence/*.json); summary on stdout
cd "$(dirname "$0")/.."
tier=${1:-quick}
fail=0
for i in $(seq -w 1 20); do
  out=$(./check C$i --tier $tier 2>&1 | tail -4)
  echo "$out" | grep "obligations=" | cut -c1-200
  if echo "$out" | grep -q "^VIOLATION\|^ERROR"; then echo "$out" | grep "^VIOLATION\|^ERROR"; fail=1; fi
done
exit $fail
