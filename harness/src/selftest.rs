//! `jmharness selftest`: sanity of the shared generators against the real parsers
//! (development aid; not part of any check).
use crate::common::*;
use crate::docgen::*;
use crate::show;
use jomini::{BinaryTape, TextTape};

pub fn run() {
    let mut rng = Rng(7);
    let cfg = DocCfg::text_full();
    let (mut ok, mut err, mut diff) = (0, 0, 0);
    let mut shown = 0;
    for i in 0..20000 {
        let doc = gen_doc(&mut rng, &cfg);
        let lex = lexemes(&doc);
        let a = render_canonical(&lex);
        let b = render_layout(&mut rng, &LayoutCfg::full(), &lex);
        let ta = TextTape::from_slice(&a);
        let tb = TextTape::from_slice(&b);
        match (&ta, &tb) {
            (Ok(x), Ok(y)) => {
                ok += 1;
                if show::text_tape(x.tokens()) != show::text_tape(y.tokens()) {
                    diff += 1;
                    if shown < 8 {
                        shown += 1;
                        println!("DIFF #{}\n A={:?}\n B={:?}\n {}\n {}", i, String::from_utf8_lossy(&a), String::from_utf8_lossy(&b), show::text_tape(x.tokens()), show::text_tape(y.tokens()));
                    }
                }
            }
            _ => {
                err += 1;
                if shown < 8 {
                    shown += 1;
                    println!("ERR #{} a_ok={} b_ok={}\n A={:?}\n B={:?}", i, ta.is_ok(), tb.is_ok(), String::from_utf8_lossy(&a), String::from_utf8_lossy(&b));
                }
            }
        }
    }
    println!("text: ok={} err={} layout-diff={}", ok, err, diff);
    let cfg = DocCfg::shared();
    let (mut ok, mut err) = (0, 0);
    for _ in 0..20000 {
        let doc = gen_doc(&mut rng, &cfg);
        let b = render_binary(&mut rng, &BinCfg::default(), &doc);
        match BinaryTape::from_slice(&b) {
            Ok(_) => ok += 1,
            Err(e) => { err += 1; if err < 4 { println!("BINERR {:?} {}", e, hex(&b)); } }
        }
    }
    println!("binary: ok={} err={}", ok, err);
}

pub fn run_ty() {
    use crate::tyseed::*;
    use serde::de::DeserializeSeed;
    let mut rng = Rng(11);
    let cfg = DocCfg::save_style();
    let (mut same, mut differ, mut errs) = (0, 0, 0);
    let mut kinds = std::collections::BTreeMap::<String, usize>::new();
    let mut shown = 0;
    for _ in 0..20000 {
        let doc = gen_doc(&mut rng, &cfg);
        let ty = doc_ty(&mut rng, &doc, true);
        let data = render_layout(&mut rng, &LayoutCfg::reader_safe(), &lexemes(&doc));
        let a = match jomini::TextDeserializer::from_windows1252_slice(&data) {
            Ok(de) => match TySeed(&ty).deserialize(&de) { Ok(v) => v, Err(e) => err_class(&e.to_string()) },
            Err(_) => "err:parse".to_string(),
        };
        let rdr = jomini::text::TokenReader::new(&data[..]);
        let mut de = jomini::TextDeserializer::from_windows1252_reader(rdr);
        let b = match TySeed(&ty).deserialize(&mut de) { Ok(v) => v, Err(e) => err_class(&e.to_string()) };
        if a.starts_with("err") { errs += 1; *kinds.entry(a.clone()).or_insert(0) += 1; }
        if a == b { same += 1; } else {
            differ += 1;
            if shown < 6 { shown += 1; println!("TYDIFF ty={}\n data={:?}\n tape  ={}\n reader={}", show_ty(&ty), String::from_utf8_lossy(&data), a, b); }
        }
    }
    println!("ty: same={} differ={} errs={} {:?}", same, differ, errs, kinds.iter().take(12).collect::<Vec<_>>());
}
