//! `jmharness selftest`: sanity of the shared generators against the real parsers
//! (development aid; not part of any check).
use crate::common::*;
use crate::docgen::*;
use crate::show;
use jomini::{BinaryTape, TextTape};

pub fn run() {
    let mut rng = Rng(7);
    let cfg = DocCfg::text_full();
    let (mut ok, mut err, mut diff) = (0, 0, 0);
    let mut shown = 0;
    for i in 0..20000 {
        let doc = gen_doc(&mut rng, &cfg);
        let lex = lexemes(&doc);
        let a = render_canonical(&lex);
        let b = render_layout(&mut rng, &LayoutCfg::full(), &lex);
        let ta = TextTape::from_slice(&a);
        let tb = TextTape::from_slice(&b);
        match (&ta, &tb) {
            (Ok(x), Ok(y)) => {
                ok += 1;
                if show::text_tape(x.tokens()) != show::text_tape(y.tokens()) {
                    diff += 1;
                    if shown < 8 {
                        shown += 1;
                        println!("DIFF #{}\n A={:?}\n B={:?}\n {}\n {}", i, String::from_utf8_lossy(&a), String::from_utf8_lossy(&b), show::text_tape(x.tokens()), show::text_tape(y.tokens()));
                    }
                }
            }
            _ => {
                err += 1;
                if shown < 8 {
                    shown += 1;
                    println!("ERR #{} a_ok={} b_ok={}\n A={:?}\n B={:?}", i, ta.is_ok(), tb.is_ok(), String::from_utf8_lossy(&a), String::from_utf8_lossy(&b));
                }
            }
        }
    }
    println!("text: ok={} err={} layout-diff={}", ok, err, diff);
    let cfg = DocCfg::shared();
    let (mut ok, mut err) = (0, 0);
    for _ in 0..20000 {
        let doc = gen_doc(&mut rng, &cfg);
        let b = render_binary(&mut rng, &BinCfg::default(), &doc);
        match BinaryTape::from_slice(&b) {
            Ok(_) => ok += 1,
            Err(e) => { err += 1; if err < 4 { println!("BINERR {:?} {}", e, hex(&b)); } }
        }
    }
    println!("binary: ok={} err={}", ok, err);
}
