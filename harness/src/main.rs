//! jmharness: runs the *real* jomini code (path dependency on /repo, built from its
//! current working tree) on generated cases and prints one canonical result line per
//! case.  The same case lines are fed to the Lean model driver (`jmdriver`); the runner
//! diffs the two streams.  See /verif/DESIGN.md §3.1.
//!
//! usage:
//!   jmharness gen <prop> <tier> <seed> <outdir>   -> cases.txt impl.txt stats.json
//!   jmharness exec                                -> case lines on stdin, results on stdout
//!   jmharness tables <file.lean>                  -> measured tables as Lean definitions
mod common;
mod docgen;
mod props;
mod sched;
mod selftest;
mod show;
mod tyseed;
mod tables;

use common::*;
use std::io::{BufRead, Write};

fn exec_line(line: &str, obs: &mut Obs) -> String {
    let words: Vec<&str> = line.split_ascii_whitespace().collect();
    if words.is_empty() {
        return "bad-op".to_string();
    }
    let r = guard(|| {
        let mut local = Obs::default();
        let r = props::exec(&words, &mut local);
        (r, local)
    });
    match r {
        Ok((Some(s), local)) => {
            obs.merge(local);
            s
        }
        Ok((None, _)) => "bad-op".to_string(),
        Err(_) => {
            obs.violation("panic", line, "catch_unwind caught a panic");
            "panic".to_string()
        }
    }
}

fn main() {
    silence_panics();
    let args: Vec<String> = std::env::args().collect();
    match args.get(1).map(|s| s.as_str()) {
        Some("gen") => {
            let prop = &args[2];
            let tier = &args[3];
            let seed: u64 = args[4].parse().expect("seed");
            let outdir = std::path::PathBuf::from(&args[5]);
            std::fs::create_dir_all(&outdir).unwrap();
            let mut g = Gen::new(seed, tier == "thorough");
            // corpus lines (minimised past disagreements) run first
            if let Some(corpus) = args.get(6) {
                if let Ok(txt) = std::fs::read_to_string(corpus) {
                    for l in txt.lines() {
                        let l = l.trim();
                        if !l.is_empty() && !l.starts_with('#') {
                            g.emit(l.to_string());
                        }
                    }
                }
            }
            g.corpus_cases = g.cases.len();
            props::gen(prop, &mut g);
            let mut obs = Obs::default();
            let mut cases = std::io::BufWriter::new(
                std::fs::File::create(outdir.join("cases.txt")).unwrap(),
            );
            let mut imp = std::io::BufWriter::new(
                std::fs::File::create(outdir.join("impl.txt")).unwrap(),
            );
            // watchdog: a case that runs longer than 60 s is a hang (C05); the runner picks up
            // current_case.txt / hang.txt when this process dies
            let progress = std::sync::Arc::new(std::sync::atomic::AtomicUsize::new(0));
            {
                let progress = progress.clone();
                let outdir = outdir.clone();
                std::thread::spawn(move || {
                    let mut last = usize::MAX;
                    let mut since = std::time::Instant::now();
                    loop {
                        std::thread::sleep(std::time::Duration::from_millis(500));
                        let cur = progress.load(std::sync::atomic::Ordering::Relaxed);
                        // usize::MAX: all cases are done; writing the (possibly very large) output files is not a case
                        if cur == usize::MAX { return; }
                        if cur != last { last = cur; since = std::time::Instant::now(); }
                        else if since.elapsed().as_secs() > 60 {
                            let _ = std::fs::write(outdir.join("hang.txt"), format!("{}", cur));
                            std::process::exit(98);
                        }
                    }
                });
            }
            // the case being executed is kept in current_case.txt (one pwrite per case, NUL terminated)
            // so that the runner can name it if this process dies
            let cur_path = outdir.join("current_case.txt");
            let cur_file = std::fs::File::create(&cur_path).unwrap();
            let mut rec: Vec<u8> = Vec::new();
            for (idx, line) in g.cases.iter().enumerate() {
                progress.store(idx, std::sync::atomic::Ordering::Relaxed);
                {
                    use std::os::unix::fs::FileExt;
                    rec.clear();
                    rec.extend_from_slice(line.as_bytes());
                    rec.push(0);
                    let _ = cur_file.write_at(&rec, 0);
                }
                let r = exec_line(line, &mut obs);
                writeln!(cases, "{}", line).unwrap();
                writeln!(imp, "{}", r).unwrap();
            }
            progress.store(usize::MAX, std::sync::atomic::Ordering::Relaxed);
            cases.flush().unwrap();
            imp.flush().unwrap();
            let _ = std::fs::remove_file(&cur_path);
            let stats = serde_json::json!({
                "evaluations": g.cases.len(),
                "corpus_cases": g.corpus_cases,
                "hist": obs.hist,
                "gen_hist": g.hist,
                "violations": obs.violations,
                "samples": g.cases.iter().step_by((g.cases.len() / 8).max(1)).take(8).collect::<Vec<_>>(),
            });
            std::fs::write(
                outdir.join("stats.json"),
                serde_json::to_string_pretty(&stats).unwrap(),
            )
            .unwrap();
        }
        Some("exec") => {
            let stdin = std::io::stdin();
            let mut obs = Obs::default();
            let out = std::io::stdout();
            let mut out = out.lock();
            for line in stdin.lock().lines() {
                let line = line.unwrap();
                let r = exec_line(&line, &mut obs);
                writeln!(out, "{}", r).unwrap();
            }
            for v in &obs.violations {
                writeln!(out, "ORACLE {}", serde_json::to_string(v).unwrap()).unwrap();
            }
        }
        Some("selftest") => { selftest::run(); selftest::run_ty(); }
        Some("tables") => {
            let s = tables::measure();
            let path = &args[2];
            let old = std::fs::read_to_string(path).unwrap_or_default();
            if s.contains("TABLE-PROBE-PANICKED") {
                // keep the previous tables (the model keeps building) and tell the runner
                for l in s.lines().filter(|l| l.contains("TABLE-PROBE-PANICKED")) { println!("{}", l.trim_start_matches("-- ")); }
                std::process::exit(3);
            }
            if old != s {
                std::fs::write(path, s).unwrap();
                println!("tables: rewritten");
            } else {
                println!("tables: unchanged");
            }
        }
        _ => {
            eprintln!("usage: jmharness gen <prop> <tier> <seed> <outdir> [corpus] | exec | tables <file>");
            std::process::exit(2);
        }
    }
}
