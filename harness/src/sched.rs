//! A `Read` driven by an explicit schedule: read sizes and fault steps.
//! Textual form (used in case lines): comma list, e.g. `3,1,F,7,P`
//!   n  = deliver at most n bytes on this call (n >= 1)
//!   F  = this call fails once (transient, ErrorKind::Other)
//!   P  = this and every later call fails (persistent)
//! After the list is exhausted every call delivers as much as fits (`*`), unless the list
//! ends with `R<n>` which repeats size n forever.  "-" is the empty schedule.
#![allow(dead_code)]
use std::io::{self, Read};

#[derive(Clone, Debug, PartialEq)]
pub enum Step {
    Give(usize),
    Fail,
    FailForever,
    Repeat(usize),
}

pub fn parse(s: &str) -> Option<Vec<Step>> {
    if s == "-" {
        return Some(vec![]);
    }
    s.split(',')
        .map(|p| match p {
            "F" => Some(Step::Fail),
            "P" => Some(Step::FailForever),
            _ if p.starts_with('R') => p[1..].parse().ok().filter(|n| *n >= 1).map(Step::Repeat),
            _ => p.parse().ok().filter(|n| *n >= 1).map(Step::Give),
        })
        .collect()
}

pub fn show(s: &[Step]) -> String {
    if s.is_empty() {
        return "-".to_string();
    }
    s.iter()
        .map(|x| match x {
            Step::Give(n) => n.to_string(),
            Step::Fail => "F".to_string(),
            Step::FailForever => "P".to_string(),
            Step::Repeat(n) => format!("R{}", n),
        })
        .collect::<Vec<_>>()
        .join(",")
}

pub struct SchedReader<'a> {
    pub data: &'a [u8],
    pub pos: usize,
    pub steps: Vec<Step>,
    pub idx: usize,
    /// number of read calls made
    pub calls: usize,
    /// number of calls that returned an error
    pub faults: usize,
}

impl<'a> SchedReader<'a> {
    pub fn new(data: &'a [u8], steps: Vec<Step>) -> Self {
        SchedReader { data, pos: 0, steps, idx: 0, calls: 0, faults: 0 }
    }
    pub fn delivered(&self) -> usize {
        self.pos
    }
}

impl<'a> Read for SchedReader<'a> {
    fn read(&mut self, buf: &mut [u8]) -> io::Result<usize> {
        self.calls += 1;
        let remaining = self.data.len() - self.pos;
        let want = match self.steps.get(self.idx) {
            None => usize::MAX,
            Some(Step::Give(n)) => {
                self.idx += 1;
                *n
            }
            Some(Step::Repeat(n)) => *n,
            Some(Step::Fail) => {
                self.idx += 1;
                self.faults += 1;
                return Err(io::Error::new(io::ErrorKind::Other, "injected transient fault"));
            }
            Some(Step::FailForever) => {
                self.faults += 1;
                return Err(io::Error::new(io::ErrorKind::Other, "injected persistent fault"));
            }
        };
        let n = want.min(buf.len()).min(remaining);
        buf[..n].copy_from_slice(&self.data[self.pos..self.pos + n]);
        self.pos += n;
        Ok(n)
    }
}

/// random schedule for `len` bytes
pub fn random(rng: &mut crate::common::Rng, len: usize) -> Vec<Step> {
    match rng.below(6) {
        0 => vec![Step::Repeat(1)],
        1 => vec![Step::Repeat(rng.range(2, 9))],
        2 => vec![],
        3 => {
            // one or two cuts
            let mut v = vec![];
            if len > 0 {
                v.push(Step::Give(rng.range(1, len.max(1))));
                if rng.chance(1, 2) {
                    v.push(Step::Give(rng.range(1, len.max(1))));
                }
            }
            v
        }
        _ => {
            let mut v = vec![];
            let mut left = len + 2;
            while left > 0 && v.len() < 64 {
                let n = rng.range(1, 17.min(left.max(1)));
                v.push(Step::Give(n));
                left = left.saturating_sub(n);
            }
            if rng.chance(1, 2) {
                v.push(Step::Repeat(rng.range(1, 5)));
            }
            v
        }
    }
}

/// every composition of `len` (len <= 12): all ways to cut the input into reads
pub fn compositions(len: usize) -> Vec<Vec<Step>> {
    let mut out = vec![];
    if len == 0 {
        return vec![vec![]];
    }
    for mask in 0..(1u32 << (len - 1)) {
        let mut v = vec![];
        let mut run = 1;
        for i in 0..len - 1 {
            if mask & (1 << i) != 0 {
                v.push(Step::Give(run));
                run = 1;
            } else {
                run += 1;
            }
        }
        v.push(Step::Give(run));
        out.push(v);
    }
    out
}
