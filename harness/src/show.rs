//! Canonical one-line renderings shared by every property module (and mirrored by the
//! Lean driver, JominiModel/Driver/Show.lean).  Scalars are lower-case hex, "-" = empty.
#![allow(dead_code)]
use crate::common::hex;
use jomini::binary::{Rgb, Token as BinTok};
use jomini::text::{Operator, Token as TextTok};
use jomini::{BinaryToken, TextToken};

pub fn op_name(o: Operator) -> &'static str {
    match o {
        Operator::LessThan => "lt",
        Operator::LessThanEqual => "le",
        Operator::GreaterThan => "gt",
        Operator::GreaterThanEqual => "ge",
        Operator::NotEqual => "ne",
        Operator::Exact => "exact",
        Operator::Equal => "eq",
        Operator::Exists => "exists",
    }
}

/// text tape token: A<end> Am<end> O<end> Om<end> E<idx> M U:<hex> Q:<hex> P:<hex> N:<hex> H:<hex> Op:<name>
pub fn text_tape_tok(t: &TextToken) -> String {
    match t {
        TextToken::Array { end, mixed } => format!("A{}{}", if *mixed { "m" } else { "" }, end),
        TextToken::Object { end, mixed } => format!("O{}{}", if *mixed { "m" } else { "" }, end),
        TextToken::MixedContainer => "M".to_string(),
        TextToken::Unquoted(s) => format!("U:{}", hex(s.as_bytes())),
        TextToken::Quoted(s) => format!("Q:{}", hex(s.as_bytes())),
        TextToken::Parameter(s) => format!("P:{}", hex(s.as_bytes())),
        TextToken::UndefinedParameter(s) => format!("N:{}", hex(s.as_bytes())),
        TextToken::Operator(o) => format!("Op:{}", op_name(*o)),
        TextToken::End(i) => format!("E{}", i),
        TextToken::Header(s) => format!("H:{}", hex(s.as_bytes())),
    }
}

/// whole text tape, tokens joined by ',' ("-" when empty)
pub fn text_tape(toks: &[TextToken]) -> String {
    if toks.is_empty() {
        return "-".to_string();
    }
    toks.iter().map(text_tape_tok).collect::<Vec<_>>().join(",")
}

/// Like `text_tape`, but scalars are printed as `<kind>@<offset>+<len>` relative to `input`
/// (identity of position; used by C06 / C19).
pub fn text_tape_offsets(input: &[u8], toks: &[TextToken]) -> String {
    let base = input.as_ptr() as usize;
    let pos = |s: &jomini::Scalar| {
        let p = s.as_bytes().as_ptr() as usize;
        if p >= base && p + s.as_bytes().len() <= base + input.len() {
            format!("{}+{}", p - base, s.as_bytes().len())
        } else {
            format!("OUTSIDE+{}", s.as_bytes().len())
        }
    };
    if toks.is_empty() {
        return "-".to_string();
    }
    toks.iter()
        .map(|t| match t {
            TextToken::Unquoted(s) => format!("U@{}", pos(s)),
            TextToken::Quoted(s) => format!("Q@{}", pos(s)),
            TextToken::Parameter(s) => format!("P@{}", pos(s)),
            TextToken::UndefinedParameter(s) => format!("N@{}", pos(s)),
            TextToken::Header(s) => format!("H@{}", pos(s)),
            other => text_tape_tok(other),
        })
        .collect::<Vec<_>>()
        .join(",")
}

pub fn rgb(c: &Rgb) -> String {
    match c.a {
        Some(a) => format!("Rgb:{}.{}.{}.{}", c.r, c.g, c.b, a),
        None => format!("Rgb:{}.{}.{}", c.r, c.g, c.b),
    }
}

/// binary tape token: A<end> O<end> M Eq E<idx> B:0|1 U32:n U64:n I64:n I32:n Q:<hex> U:<hex> F32:<hex> F64:<hex> T:<id> Rgb:r.g.b[.a]
pub fn bin_tape_tok(t: &BinaryToken) -> String {
    match t {
        BinaryToken::Array(e) => format!("A{}", e),
        BinaryToken::Object(e) => format!("O{}", e),
        BinaryToken::MixedContainer => "M".to_string(),
        BinaryToken::Equal => "Eq".to_string(),
        BinaryToken::End(i) => format!("E{}", i),
        BinaryToken::Bool(b) => format!("B:{}", *b as u8),
        BinaryToken::U32(v) => format!("U32:{}", v),
        BinaryToken::U64(v) => format!("U64:{}", v),
        BinaryToken::I64(v) => format!("I64:{}", v),
        BinaryToken::I32(v) => format!("I32:{}", v),
        BinaryToken::Quoted(s) => format!("Q:{}", hex(s.as_bytes())),
        BinaryToken::Unquoted(s) => format!("U:{}", hex(s.as_bytes())),
        BinaryToken::F32(b) => format!("F32:{}", hex(b)),
        BinaryToken::F64(b) => format!("F64:{}", hex(b)),
        BinaryToken::Token(id) => format!("T:{}", id),
        BinaryToken::Rgb(c) => rgb(c),
    }
}

pub fn bin_tape(toks: &[BinaryToken]) -> String {
    if toks.is_empty() {
        return "-".to_string();
    }
    toks.iter().map(bin_tape_tok).collect::<Vec<_>>().join(",")
}

/// binary lexer token: Open Close Equal U32:n U64:n I32:n Bool:0|1 Q:<hex> U:<hex> F32:<hex> F64:<hex> Rgb:… I64:n Id:n
pub fn bin_lex_tok(t: &BinTok) -> String {
    match t {
        BinTok::Open => "Open".to_string(),
        BinTok::Close => "Close".to_string(),
        BinTok::Equal => "Equal".to_string(),
        BinTok::U32(v) => format!("U32:{}", v),
        BinTok::U64(v) => format!("U64:{}", v),
        BinTok::I32(v) => format!("I32:{}", v),
        BinTok::Bool(b) => format!("Bool:{}", *b as u8),
        BinTok::Quoted(s) => format!("Q:{}", hex(s.as_bytes())),
        BinTok::Unquoted(s) => format!("U:{}", hex(s.as_bytes())),
        BinTok::F32(b) => format!("F32:{}", hex(b)),
        BinTok::F64(b) => format!("F64:{}", hex(b)),
        BinTok::Rgb(c) => rgb(c),
        BinTok::I64(v) => format!("I64:{}", v),
        BinTok::Id(v) => format!("Id:{}", v),
    }
}

/// text reader token: Open Close Op:<name> U:<hex> Q:<hex>
pub fn text_lex_tok(t: &TextTok) -> String {
    match t {
        TextTok::Open => "Open".to_string(),
        TextTok::Close => "Close".to_string(),
        TextTok::Operator(o) => format!("Op:{}", op_name(*o)),
        TextTok::Unquoted(s) => format!("U:{}", hex(s.as_bytes())),
        TextTok::Quoted(s) => format!("Q:{}", hex(s.as_bytes())),
    }
}
