//! Shared pieces: PRNG, hex, case collection, observation/oracle records.
use std::collections::BTreeMap;

/// SplitMix64: every random choice of a run derives from one state (VERIF_SEED).
#[derive(Clone)]
pub struct Rng(pub u64);
impl Rng {
    pub fn next(&mut self) -> u64 {
        self.0 = self.0.wrapping_add(0x9E3779B97F4A7C15);
        let mut z = self.0;
        z = (z ^ (z >> 30)).wrapping_mul(0xBF58476D1CE4E5B9);
        z = (z ^ (z >> 27)).wrapping_mul(0x94D049BB133111EB);
        z ^ (z >> 31)
    }
    /// uniform in 0..n (n > 0)
    pub fn below(&mut self, n: usize) -> usize {
        (self.next() % (n as u64)) as usize
    }
    pub fn range(&mut self, lo: usize, hi: usize) -> usize {
        lo + self.below(hi - lo + 1)
    }
    pub fn chance(&mut self, num: usize, den: usize) -> bool {
        self.below(den) < num
    }
    pub fn pick<'a, T>(&mut self, xs: &'a [T]) -> &'a T {
        &xs[self.below(xs.len())]
    }
    /// heavy-tailed small size: mostly small, sometimes up to `max`
    pub fn size(&mut self, max: usize) -> usize {
        let r = self.below(100);
        let cap = if r < 60 { max.min(4) } else if r < 90 { max.min(12) } else { max };
        self.below(cap + 1)
    }
}

pub fn hex(b: &[u8]) -> String {
    if b.is_empty() {
        return "-".to_string();
    }
    let mut s = String::with_capacity(b.len() * 2);
    for x in b {
        s.push(char::from_digit((x >> 4) as u32, 16).unwrap());
        s.push(char::from_digit((x & 15) as u32, 16).unwrap());
    }
    s
}

pub fn unhex(s: &str) -> Option<Vec<u8>> {
    if s == "-" {
        return Some(vec![]);
    }
    if s.len() % 2 != 0 {
        return None;
    }
    let b = s.as_bytes();
    let mut out = Vec::with_capacity(b.len() / 2);
    for i in (0..b.len()).step_by(2) {
        let hi = (b[i] as char).to_digit(16)?;
        let lo = (b[i + 1] as char).to_digit(16)?;
        out.push((hi * 16 + lo) as u8);
    }
    Some(out)
}

/// Case generator state.
pub struct Gen {
    pub rng: Rng,
    pub thorough: bool,
    /// multiplier for the randomized quick budgets (VERIF_SCALE; the runner raises it when the source files a
    /// property's model mirrors differ from the pinned tree: changed code deserves a closer look)
    pub scale: usize,
    pub cases: Vec<String>,
    pub corpus_cases: usize,
    pub hist: BTreeMap<String, u64>,
}
impl Gen {
    pub fn new(seed: u64, thorough: bool) -> Self {
        let scale = std::env::var("VERIF_SCALE").ok().and_then(|s| s.parse().ok()).filter(|s| *s >= 1).unwrap_or(1);
        Gen { rng: Rng(seed ^ 0x6a6f6d696e69), thorough, scale, cases: Vec::new(), corpus_cases: 0, hist: BTreeMap::new() }
    }
    pub fn emit(&mut self, line: String) {
        self.cases.push(line);
    }
    pub fn count(&mut self, key: &str) {
        *self.hist.entry(key.to_string()).or_insert(0) += 1;
    }
    /// quick / thorough budget selector
    pub fn budget(&self, quick: usize, thorough: usize) -> usize {
        if self.thorough { thorough } else { (quick.saturating_mul(self.scale)).min(thorough.max(quick)) }
    }
}

#[derive(serde::Serialize, Clone, Debug)]
pub struct Violation {
    /// short machine key, used to match known findings
    pub kind: String,
    /// the case line (replayable with `jmharness exec`)
    pub case: String,
    pub detail: String,
}

/// What the implementation side observed while executing cases: a histogram of
/// branches / result kinds, and L3 oracle violations (the implementation itself breaks
/// the property's predicate, no model involved).
#[derive(Default)]
pub struct Obs {
    pub hist: BTreeMap<String, u64>,
    pub violations: Vec<Violation>,
}
impl Obs {
    pub fn count(&mut self, key: &str) {
        *self.hist.entry(key.to_string()).or_insert(0) += 1;
    }
    /// At most `PER_KEY` violations are RECORDED per (kind, op) pair — never a global cap: thousands of hits of a
    /// known finding must not crowd out the first hit of a new kind (or of a known kind reached through another op).
    /// Every hit is counted in the histogram (`violation:<kind>`).
    pub fn violation(&mut self, kind: &str, case: &str, detail: &str) {
        let key = format!("recorded:{}:{}", kind, case.split(' ').next().unwrap_or(""));
        let n = self.hist.get(&key).copied().unwrap_or(0);
        if n < PER_KEY && self.violations.len() < TOTAL_CAP {
            self.violations.push(Violation { kind: kind.to_string(), case: case.to_string(), detail: detail.to_string() });
            *self.hist.entry(key).or_insert(0) += 1;
        }
        self.count(&format!("violation:{}", kind));
    }
    pub fn merge(&mut self, other: Obs) {
        for (k, v) in other.hist {
            if k.starts_with("recorded:") { continue; }
            *self.hist.entry(k).or_insert(0) += v;
        }
        for v in other.violations {
            let key = format!("recorded:{}:{}", v.kind, v.case.split(' ').next().unwrap_or(""));
            let n = self.hist.get(&key).copied().unwrap_or(0);
            if n < PER_KEY && self.violations.len() < TOTAL_CAP {
                self.violations.push(v);
                *self.hist.entry(key).or_insert(0) += 1;
            }
        }
    }
}
const PER_KEY: u64 = 40;
const TOTAL_CAP: usize = 4000;

pub fn silence_panics() {
    std::panic::set_hook(Box::new(|_| {}));
}

pub fn guard<T>(f: impl FnOnce() -> T) -> Result<T, ()> {
    std::panic::catch_unwind(std::panic::AssertUnwindSafe(f)).map_err(|_| ())
}
