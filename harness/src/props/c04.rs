//! C04 — binary deserialization agrees across the tape, on-demand and streaming paths.
//!
//! ops (all replayable; the trailing `<hex>` is what the real code runs on, the token lists are what
//! the Lean model of de.rs runs on):
//!   bde_tape   <cfg> <ty> <tape> <hex>                 tape path; <tape> = show::bin_tape of the real BinaryTape
//!   bde_slice  <cfg> <ty> <raw> <hex>                  on-demand path; <raw> = raw lexeme list (real Lexer primitives)
//!   bde_stream <cfg> <ty> <raw> <hex> <cap> <sched>    streaming path with buffer capacity and read schedule
//!   bde_spec   <cfg> <ty> <bdoc>                       reference value of a binary document (Lean: `valueOfBin`,
//!                                                      Rust: `value_of_bin`); exec renders the document, runs all
//!                                                      three real paths and compares them with the reference (L3)
//!   bde_toks   <bdoc>   /  bde_tapeof <bdoc>           raw lexemes / tape of a binary document (Lean `tokensOf`/`tapeOf`
//!                                                      vs. the real Lexer / BinaryTape on the rendering)
//!   x-c04-real <cfg> <hex>                             fixed real derived structs vs. TySeed with the equivalent Ty
//!   x-c04-mixed <cfg> <ty> <hex>                       object -> array mixed container: the three real paths (known finding
//!                                                      mixed-container-paths-disagree: tape versus sequential)
//!   x-rare-bin <hex>                                   rarely used REAL target types (borrowed str / Cow, char, bytes, unit,
//!                                                      newtype / tuple structs, arrays, i128 / u128, enums, IgnoredAny, maps
//!                                                      keyed by token id) through all paths x resolver kinds x two flavors:
//!                                                      same Debug string or all fail
//!
//! <cfg> = <E|S|I>/<H|L>/<id>:<hexname>,...   strategy / resolver kind (HashMap, from_text_Lines) / entries ("-" none)
//! <ty>  = tyseed syntax, or at the root `tst(name#id:T;...)` = a `#[jomini(token = id)]` struct
//! <raw> = Open Close Equal U32:n U64:n I32:n I64:n Bool:0|1 Q:<hex> U:<hex> F32:<hex> F64:<hex> Id:n
//!         (the rgb marker is the plain lexeme `Id:579`; the on-demand path and both skip loops see it that way),
//!         a truncated input ends with `Trunc` (id read, payload short) or `Stray` (one dangling byte)
//! <bdoc> = field;field;...   field = `~`* key `=` node   node = leaf | O(field;...) | A(node;...) | Rgb:r.g.b[.a]
#![allow(dead_code)]
use crate::common::*;
use crate::docgen::{self, BinCfg, Doc, DocCfg, Field, Leaf, Node};
use crate::sched;
use crate::show;
use crate::tyseed::{err_class, parse_ty, show_ty, Ty, TySeed};
use jomini::binary::{
    BasicTokenResolver, BinaryFlavor, FailedResolveStrategy, LexemeId, Lexer, TokenReader, TokenResolver,
};
use jomini::{BinaryDeserializer, BinaryTape, Encoding, Windows1252Encoding};
use serde::de::{self, DeserializeSeed, Deserializer, MapAccess, Visitor};
use std::collections::HashMap;
use std::fmt;

// ---------------------------------------------------------------------------------------
// flavor: EU4-style fixed point (f32 = i32 / 1000, f64 = Q49.15), Windows-1252 strings

#[derive(Debug, Default, Clone, Copy)]
pub struct VFlavor;
impl Encoding for VFlavor {
    fn decode<'a>(&self, data: &'a [u8]) -> std::borrow::Cow<'a, str> {
        Windows1252Encoding::decode(data)
    }
}
impl BinaryFlavor for VFlavor {
    fn visit_f32(&self, data: [u8; 4]) -> f32 {
        i32::from_le_bytes(data) as f32 / 1000.0
    }
    fn visit_f64(&self, data: [u8; 8]) -> f64 {
        i64::from_le_bytes(data) as f64 / 32768.0
    }
}

// ---------------------------------------------------------------------------------------
// configuration

#[derive(Clone, Debug, PartialEq)]
pub struct Cfg {
    pub strat: FailedResolveStrategy,
    /// resolver kind: 0 = HashMap; text lines (BasicTokenResolver::from_text_lines): 1 = `\n`, 2 = `\r\n`,
    /// 3 = trailing blanks / tabs and no final newline, 4 = mixed endings, ids without the `0x` prefix, upper-case hex
    pub lines: u8,
    pub entries: Vec<(u16, String)>,
}

pub fn show_cfg(c: &Cfg) -> String {
    let s = match c.strat { FailedResolveStrategy::Error => "E", FailedResolveStrategy::Stringify => "S", FailedResolveStrategy::Ignore => "I" };
    let e = if c.entries.is_empty() { "-".to_string() } else { c.entries.iter().map(|(i, n)| format!("{}:{}", i, hex(n.as_bytes()))).collect::<Vec<_>>().join(",") };
    format!("{}/{}/{}", s, ["H", "L", "R", "T", "M"][c.lines as usize % 5], e)
}

pub fn parse_cfg(s: &str) -> Option<Cfg> {
    let mut it = s.splitn(3, '/');
    let strat = match it.next()? { "E" => FailedResolveStrategy::Error, "S" => FailedResolveStrategy::Stringify, "I" => FailedResolveStrategy::Ignore, _ => return None };
    let lines = match it.next()? { "H" => 0, "L" => 1, "R" => 2, "T" => 3, "M" => 4, _ => return None };
    let e = it.next()?;
    let mut entries = vec![];
    if e != "-" {
        for p in e.split(',') {
            let (i, n) = p.split_once(':')?;
            entries.push((i.parse().ok()?, String::from_utf8(unhex(n)?).ok()?));
        }
    }
    Some(Cfg { strat, lines, entries })
}

pub fn make_resolver(c: &Cfg) -> Box<dyn TokenResolver> {
    if c.lines != 0 {
        // (an EMPTY line is refused by from_text_lines: "expected to split line"; not generated)
        let mut txt = String::new();
        let last = c.entries.len().saturating_sub(1);
        for (k, (i, n)) in c.entries.iter().enumerate() {
            match c.lines {
                1 => txt.push_str(&format!("0x{:x} {}\n", i, n)),
                2 => txt.push_str(&format!("0x{:x} {}\r\n", i, n)),
                3 => { txt.push_str(&format!("0x{:x} {}{}", i, n, ["  ", "\t", " \t ", ""][k % 4])); if k != last { txt.push('\n'); } }
                _ => txt.push_str(&match k % 4 { 0 => format!("{:x} {}\r\n", i, n), 1 => format!("0x{:X} {} \n", i, n), 2 => format!("0x{:04x} {}\t\r\n", i, n), _ => format!("{:04X} {}\n", i, n) }),
            }
        }
        Box::new(BasicTokenResolver::from_text_lines(txt.as_bytes()).expect("token text lines"))
    } else {
        let mut m: HashMap<u16, String> = HashMap::new();
        for (i, n) in &c.entries { m.insert(*i, n.clone()); }
        Box::new(m)
    }
}

fn lookup<'a>(c: &'a Cfg, id: u16) -> Option<&'a str> {
    // last entry wins (HashMap::insert semantics)
    c.entries.iter().rev().find(|(i, _)| *i == id).map(|(_, n)| n.as_str())
}

// ---------------------------------------------------------------------------------------
// root target type: tyseed Ty, or a token-attribute struct (mirrors jomini_derive: keys requested with
// deserialize_u16, field visitor has visit_str (by name) and visit_u16 (by token), anything else unknown)

#[derive(Clone, Debug, PartialEq)]
pub enum RootTy {
    Plain(Ty),
    Tok(Vec<(String, u16, Ty)>),
}

pub fn show_root(t: &RootTy) -> String {
    match t {
        RootTy::Plain(t) => show_ty(t),
        RootTy::Tok(fs) => format!("tst({})", fs.iter().map(|(n, i, t)| format!("{}#{}:{}", n, i, show_ty(t))).collect::<Vec<_>>().join(";")),
    }
}

pub fn parse_root(s: &str) -> Option<RootTy> {
    if let Some(r) = s.strip_prefix("tst(") {
        // fields are `name#id:ty` separated by ';' at nesting depth 0
        let body = r.strip_suffix(')')?;
        let mut fs = vec![];
        let mut depth = 0usize;
        let mut start = 0usize;
        let b = body.as_bytes();
        let mut parts = vec![];
        for (i, c) in b.iter().enumerate() {
            match c { b'(' => depth += 1, b')' => depth = depth.checked_sub(1)?, b';' if depth == 0 => { parts.push(&body[start..i]); start = i + 1; } _ => {} }
        }
        if start < body.len() { parts.push(&body[start..]); }
        for p in parts {
            let (name, rest) = p.split_once('#')?;
            let (id, t) = rest.split_once(':')?;
            fs.push((name.to_string(), id.parse().ok()?, parse_ty(t)?));
        }
        Some(RootTy::Tok(fs))
    } else {
        parse_ty(s).map(RootTy::Plain)
    }
}

struct TokFieldId<'a>(&'a [(String, u16, Ty)]);
impl<'de, 'a> DeserializeSeed<'de> for TokFieldId<'a> {
    type Value = Option<usize>;
    fn deserialize<D: Deserializer<'de>>(self, d: D) -> Result<Option<usize>, D::Error> {
        struct V<'a>(&'a [(String, u16, Ty)]);
        impl<'de, 'a> Visitor<'de> for V<'a> {
            type Value = Option<usize>;
            fn expecting(&self, f: &mut fmt::Formatter) -> fmt::Result { f.write_str("field identifier") }
            fn visit_str<E: de::Error>(self, v: &str) -> Result<Option<usize>, E> { Ok(self.0.iter().position(|(n, _, _)| n == v)) }
            fn visit_u16<E: de::Error>(self, v: u16) -> Result<Option<usize>, E> { Ok(self.0.iter().position(|(_, i, _)| *i == v)) }
        }
        d.deserialize_u16(V(self.0))
    }
}

struct TokStructVisitor<'a>(&'a [(String, u16, Ty)]);
impl<'de, 'a> Visitor<'de> for TokStructVisitor<'a> {
    type Value = String;
    fn expecting(&self, f: &mut fmt::Formatter) -> fmt::Result { f.write_str("struct T") }
    fn visit_map<A: MapAccess<'de>>(self, mut map: A) -> Result<String, A::Error> {
        let mut slots: Vec<Option<String>> = vec![None; self.0.len()];
        while let Some(k) = map.next_key_seed(TokFieldId(self.0))? {
            match k {
                Some(i) => {
                    if slots[i].is_some() {
                        return Err(de::Error::duplicate_field(Box::leak(self.0[i].0.clone().into_boxed_str())));
                    }
                    slots[i] = Some(map.next_value_seed(TySeed(&self.0[i].2))?);
                }
                None => { map.next_value::<de::IgnoredAny>()?; }
            }
        }
        let mut items = vec![];
        for (i, (name, _, ty)) in self.0.iter().enumerate() {
            let v = match slots[i].take() {
                Some(v) => v,
                None => match ty { Ty::Opt(_) => "none".to_string(), _ => return Err(de::Error::missing_field(Box::leak(name.clone().into_boxed_str()))) },
            };
            items.push(format!("{}={}", name, v));
        }
        Ok(format!("{{{}}}", items.join(",")))
    }
}

pub struct RootSeed<'a>(pub &'a RootTy);
impl<'de, 'a> DeserializeSeed<'de> for RootSeed<'a> {
    type Value = String;
    fn deserialize<D: Deserializer<'de>>(self, d: D) -> Result<String, D::Error> {
        match self.0 {
            RootTy::Plain(t) => TySeed(t).deserialize(d),
            RootTy::Tok(fs) => d.deserialize_struct("T", &[], TokStructVisitor(fs)),
        }
    }
}

// ---------------------------------------------------------------------------------------
// running the three real paths

fn builder(c: &Cfg) -> jomini::binary::de::BinaryDeserializerBuilder<VFlavor> {
    let mut b = BinaryDeserializer::builder_flavor(VFlavor);
    b.on_failed_resolve(c.strat);
    b
}

fn finish<E: fmt::Display>(r: Result<String, E>) -> String {
    match r { Ok(v) => v, Err(e) => err_class(&e.to_string()) }
}

pub fn run_tape(c: &Cfg, ty: &RootTy, data: &[u8]) -> String {
    let tape = match BinaryTape::from_slice(data) { Ok(t) => t, Err(_) => return "err:parse".to_string() };
    let res = make_resolver(c);
    let de = builder(c).from_tape(&tape, &res);
    finish(RootSeed(ty).deserialize(&de))
}

pub fn run_slice(c: &Cfg, ty: &RootTy, data: &[u8]) -> String {
    let res = make_resolver(c);
    let mut de = builder(c).from_slice(data, &res);
    finish(RootSeed(ty).deserialize(&mut de))
}

pub fn run_stream(c: &Cfg, ty: &RootTy, data: &[u8], cap: usize, steps: Vec<sched::Step>) -> String {
    let res = make_resolver(c);
    let rdr = sched::SchedReader::new(data, steps);
    let mut b = builder(c);
    b.reader_config(TokenReader::builder().buffer_len(cap));
    let mut de = b.from_reader(rdr, &res);
    finish(RootSeed(ty).deserialize(&mut de))
}

// ---------------------------------------------------------------------------------------
// raw lexemes through the real Lexer primitives (what the on-demand path and the skip loops see)

pub fn raw_tokens(data: &[u8]) -> (Vec<String>, usize) {
    let mut lx = Lexer::new(data);
    let mut out = vec![];
    let mut biggest = 2usize;
    loop {
        if lx.remainder().is_empty() { break; }
        let before = lx.position();
        let id = match lx.read_id() { Ok(i) => i, Err(_) => { out.push("Stray".to_string()); break; } };
        macro_rules! pay { ($e:expr, $f:expr) => { match $e { Ok(v) => $f(v), Err(_) => { out.push("Trunc".to_string()); break; } } } }
        let s = match id {
            LexemeId::OPEN => "Open".to_string(),
            LexemeId::CLOSE => "Close".to_string(),
            LexemeId::EQUAL => "Equal".to_string(),
            LexemeId::U32 => pay!(lx.read_u32(), |v| format!("U32:{}", v)),
            LexemeId::U64 => pay!(lx.read_u64(), |v| format!("U64:{}", v)),
            LexemeId::I32 => pay!(lx.read_i32(), |v| format!("I32:{}", v)),
            LexemeId::I64 => pay!(lx.read_i64(), |v| format!("I64:{}", v)),
            LexemeId::BOOL => pay!(lx.read_bool(), |v| format!("Bool:{}", v as u8)),
            LexemeId::QUOTED => pay!(lx.read_string(), |v: jomini::Scalar| format!("Q:{}", hex(v.as_bytes()))),
            LexemeId::UNQUOTED => pay!(lx.read_string(), |v: jomini::Scalar| format!("U:{}", hex(v.as_bytes()))),
            LexemeId::F32 => pay!(lx.read_f32(), |v: [u8; 4]| format!("F32:{}", hex(&v))),
            LexemeId::F64 => pay!(lx.read_f64(), |v: [u8; 8]| format!("F64:{}", hex(&v))),
            LexemeId(n) => format!("Id:{}", n),
        };
        biggest = biggest.max(lx.position() - before);
        out.push(s);
    }
    (out, biggest)
}

pub fn join(v: &[String]) -> String { if v.is_empty() { "-".to_string() } else { v.join(",") } }

/// size of the largest token the streaming reader must hold at once (an rgb block is one token there)
pub fn max_token_len(raw: &[String], biggest_lexeme: usize) -> usize {
    let mut m = biggest_lexeme;
    if raw.iter().any(|t| t == "Id:579") { m = m.max(2 + 2 + 4 * 6 + 2); }
    m
}

// ---------------------------------------------------------------------------------------
// binary documents (the encoding choices of docgen::render_binary made explicit)

#[derive(Clone, Debug, PartialEq)]
pub enum BLeaf { I32(i32), I64(i64), U32(u32), U64(u64), Bool(bool), F32([u8; 4]), F64([u8; 8]), Quoted(Vec<u8>), Unquoted(Vec<u8>), Id(u16) }
#[derive(Clone, Debug, PartialEq)]
pub enum BNode { Leaf(BLeaf), Obj(Vec<BField>), Arr(Vec<BNode>), Rgb(u32, u32, u32, Option<u32>) }
#[derive(Clone, Debug, PartialEq)]
pub struct BField { pub ghosts: usize, pub key: BLeaf, pub val: BNode }
#[derive(Clone, Debug, PartialEq)]
pub struct BDoc { pub fields: Vec<BField> }

fn to_bleaf(rng: &mut Rng, cfg: &BinCfg, l: &Leaf, is_key: bool) -> BLeaf {
    // same order of random draws as docgen::bin_leaf
    match l {
        Leaf::Unq(b) | Leaf::Quo(b) => {
            if is_key {
                if let Some(id) = docgen::key_id(b) {
                    if rng.below(100) < cfg.key_id_pct { return BLeaf::Id(id); }
                }
            }
            let quoted = matches!(l, Leaf::Quo(_)) || rng.below(100) >= cfg.unquoted_pct;
            if quoted { BLeaf::Quoted(b.clone()) } else { BLeaf::Unquoted(b.clone()) }
        }
        Leaf::Int(i) => match i32::try_from(*i) { Ok(v) => BLeaf::I32(v), Err(_) => BLeaf::I64(*i) },
        Leaf::Uint(u) => match u32::try_from(*u) { Ok(v) => BLeaf::U32(v), Err(_) => BLeaf::U64(*u) },
        Leaf::Bool(b) => BLeaf::Bool(*b),
        Leaf::Fixed(t) => BLeaf::F32(t.to_le_bytes()),
        Leaf::Date(y, m, d, h) => BLeaf::I32(docgen::date_to_binary(*y, *m, *d, *h)),
    }
}
fn to_bnode(rng: &mut Rng, cfg: &BinCfg, n: &Node) -> BNode {
    match n {
        Node::Leaf(l) => BNode::Leaf(to_bleaf(rng, cfg, l, false)),
        Node::Obj(fs) => BNode::Obj(fs.iter().map(|f| to_bfield(rng, cfg, f)).collect()),
        Node::Arr(vs) => BNode::Arr(vs.iter().map(|v| to_bnode(rng, cfg, v)).collect()),
        Node::Rgb(r, g, b, a) => BNode::Rgb(*r, *g, *b, *a),
        Node::Header(_, body) => to_bnode(rng, cfg, body),
        Node::Mixed(fs, rest) => { let mut v: Vec<BNode> = vec![]; let _ = (fs, rest); v.clear(); BNode::Arr(v) } // not in the shared subset
    }
}
fn to_bfield(rng: &mut Rng, cfg: &BinCfg, f: &Field) -> BField {
    let key = to_bleaf(rng, cfg, &f.key, true);
    BField { ghosts: f.ghosts, key, val: to_bnode(rng, cfg, &f.val) }
}
pub fn to_bdoc(rng: &mut Rng, cfg: &BinCfg, d: &Doc) -> BDoc { BDoc { fields: d.fields.iter().map(|f| to_bfield(rng, cfg, f)).collect() } }

fn w16(out: &mut Vec<u8>, v: u16) { out.extend_from_slice(&v.to_le_bytes()); }
fn render_leaf(l: &BLeaf, out: &mut Vec<u8>) {
    use docgen::*;
    match l {
        BLeaf::I32(v) => { w16(out, L_I32); out.extend_from_slice(&v.to_le_bytes()); }
        BLeaf::I64(v) => { w16(out, L_I64); out.extend_from_slice(&v.to_le_bytes()); }
        BLeaf::U32(v) => { w16(out, L_U32); out.extend_from_slice(&v.to_le_bytes()); }
        BLeaf::U64(v) => { w16(out, L_U64); out.extend_from_slice(&v.to_le_bytes()); }
        BLeaf::Bool(b) => { w16(out, L_BOOL); out.push(*b as u8); }
        BLeaf::F32(b) => { w16(out, L_F32); out.extend_from_slice(b); }
        BLeaf::F64(b) => { w16(out, L_F64); out.extend_from_slice(b); }
        BLeaf::Quoted(b) => { w16(out, L_QUOTED); w16(out, b.len() as u16); out.extend_from_slice(b); }
        BLeaf::Unquoted(b) => { w16(out, L_UNQUOTED); w16(out, b.len() as u16); out.extend_from_slice(b); }
        BLeaf::Id(i) => w16(out, *i),
    }
}
fn render_node(n: &BNode, out: &mut Vec<u8>) {
    use docgen::*;
    match n {
        BNode::Leaf(l) => render_leaf(l, out),
        BNode::Obj(fs) => { w16(out, L_OPEN); for f in fs { render_field(f, out); } w16(out, L_CLOSE); }
        BNode::Arr(vs) => { w16(out, L_OPEN); for v in vs { render_node(v, out); } w16(out, L_CLOSE); }
        BNode::Rgb(r, g, b, a) => {
            w16(out, L_RGB); w16(out, L_OPEN);
            for c in [Some(*r), Some(*g), Some(*b), *a].iter().flatten() { w16(out, L_U32); out.extend_from_slice(&c.to_le_bytes()); }
            w16(out, L_CLOSE);
        }
    }
}
fn render_field(f: &BField, out: &mut Vec<u8>) {
    use docgen::*;
    for _ in 0..f.ghosts { w16(out, L_OPEN); w16(out, L_CLOSE); }
    render_leaf(&f.key, out);
    w16(out, L_EQUAL);
    render_node(&f.val, out);
}
pub fn render_bdoc(d: &BDoc) -> Vec<u8> { let mut out = vec![]; for f in &d.fields { render_field(f, &mut out); } out }

pub fn show_bleaf(l: &BLeaf) -> String {
    match l {
        BLeaf::I32(v) => format!("I32:{}", v), BLeaf::I64(v) => format!("I64:{}", v), BLeaf::U32(v) => format!("U32:{}", v), BLeaf::U64(v) => format!("U64:{}", v),
        BLeaf::Bool(b) => format!("Bool:{}", *b as u8), BLeaf::F32(b) => format!("F32:{}", hex(b)), BLeaf::F64(b) => format!("F64:{}", hex(b)),
        BLeaf::Quoted(b) => format!("Q:{}", hex(b)), BLeaf::Unquoted(b) => format!("U:{}", hex(b)), BLeaf::Id(i) => format!("Id:{}", i),
    }
}
pub fn show_bnode(n: &BNode) -> String {
    match n {
        BNode::Leaf(l) => show_bleaf(l),
        BNode::Obj(fs) => format!("O({})", fs.iter().map(show_bfield).collect::<Vec<_>>().join(";")),
        BNode::Arr(vs) => format!("A({})", vs.iter().map(show_bnode).collect::<Vec<_>>().join(";")),
        BNode::Rgb(r, g, b, a) => match a { Some(a) => format!("Rgb:{}.{}.{}.{}", r, g, b, a), None => format!("Rgb:{}.{}.{}", r, g, b) },
    }
}
pub fn show_bfield(f: &BField) -> String { format!("{}{}={}", "~".repeat(f.ghosts), show_bleaf(&f.key), show_bnode(&f.val)) }
pub fn show_bdoc(d: &BDoc) -> String { if d.fields.is_empty() { "-".to_string() } else { d.fields.iter().map(show_bfield).collect::<Vec<_>>().join(";") } }

struct P<'a> { s: &'a [u8], i: usize }
impl<'a> P<'a> {
    fn peek(&self) -> Option<u8> { self.s.get(self.i).copied() }
    fn eat(&mut self, c: u8) -> bool { if self.peek() == Some(c) { self.i += 1; true } else { false } }
    fn word(&mut self) -> &'a str {
        let st = self.i;
        while let Some(c) = self.peek() { if matches!(c, b'(' | b')' | b';' | b'=' | b'~') { break; } self.i += 1; }
        std::str::from_utf8(&self.s[st..self.i]).unwrap_or("")
    }
    fn leaf(w: &str) -> Option<BLeaf> {
        let (k, v) = w.split_once(':')?;
        Some(match k {
            "I32" => BLeaf::I32(v.parse().ok()?), "I64" => BLeaf::I64(v.parse().ok()?), "U32" => BLeaf::U32(v.parse().ok()?), "U64" => BLeaf::U64(v.parse().ok()?),
            "Bool" => BLeaf::Bool(v == "1"), "F32" => BLeaf::F32(unhex(v)?.try_into().ok()?), "F64" => BLeaf::F64(unhex(v)?.try_into().ok()?),
            "Q" => BLeaf::Quoted(unhex(v)?), "U" => BLeaf::Unquoted(unhex(v)?), "Id" => BLeaf::Id(v.parse().ok()?), _ => return None,
        })
    }
    fn node(&mut self) -> Option<BNode> {
        let w = self.word();
        if w == "O" && self.eat(b'(') {
            let mut fs = vec![];
            if self.eat(b')') { return Some(BNode::Obj(fs)); }
            loop { fs.push(self.field()?); if self.eat(b')') { break; } if !self.eat(b';') { return None; } }
            Some(BNode::Obj(fs))
        } else if w == "A" && self.eat(b'(') {
            let mut vs = vec![];
            if self.eat(b')') { return Some(BNode::Arr(vs)); }
            loop { vs.push(self.node()?); if self.eat(b')') { break; } if !self.eat(b';') { return None; } }
            Some(BNode::Arr(vs))
        } else if let Some(r) = w.strip_prefix("Rgb:") {
            let p: Vec<u32> = r.split('.').map(|x| x.parse().ok()).collect::<Option<Vec<_>>>()?;
            match p.len() { 3 => Some(BNode::Rgb(p[0], p[1], p[2], None)), 4 => Some(BNode::Rgb(p[0], p[1], p[2], Some(p[3]))), _ => None }
        } else {
            Self::leaf(w).map(BNode::Leaf)
        }
    }
    fn field(&mut self) -> Option<BField> {
        let mut ghosts = 0;
        while self.eat(b'~') { ghosts += 1; }
        let key = Self::leaf(self.word())?;
        if !self.eat(b'=') { return None; }
        Some(BField { ghosts, key, val: self.node()? })
    }
}
pub fn parse_bdoc(s: &str) -> Option<BDoc> {
    if s == "-" { return Some(BDoc { fields: vec![] }); }
    let mut p = P { s: s.as_bytes(), i: 0 };
    let mut fields = vec![];
    loop { fields.push(p.field()?); if p.i == p.s.len() { break; } if !p.eat(b';') { return None; } }
    Some(BDoc { fields })
}

// ---------------------------------------------------------------------------------------
// the reference: what a binary document means for a target type (independent of de.rs; None = the type
// does not fit the document's shape, no claim)

#[derive(Clone, Debug, PartialEq)]
enum Prim { Bool(bool), I32(i32), I64(i64), U32(u32), U64(u64), U16(u16), F32(f32), F64(f64), Str(String) }

type R = Result<String, String>; // Ok(val) | Err(error class)

fn render_prim(p: &Prim) -> String {
    match p {
        Prim::Bool(b) => format!("b{}", *b as u8), Prim::I32(v) => format!("i{}", v), Prim::I64(v) => format!("i{}", v),
        Prim::U32(v) => format!("u{}", v), Prim::U64(v) => format!("u{}", v), Prim::U16(v) => format!("u{}", v),
        Prim::F32(v) => format!("g{}", v.to_bits()), Prim::F64(v) => format!("f{}", v.to_bits()), Prim::Str(s) => format!("s{}", hex(s.as_bytes())),
    }
}

fn as_int(p: &Prim) -> Option<i128> {
    match p { Prim::I32(v) => Some(*v as i128), Prim::I64(v) => Some(*v as i128), Prim::U32(v) => Some(*v as i128), Prim::U64(v) => Some(*v as i128), Prim::U16(v) => Some(*v as i128), _ => None }
}

/// what serde's own impls for bool / integers / floats / String accept (stated from serde's documentation of
/// the primitive impls: lossless integer conversions only, integers widen to floats, nothing else)
fn accept(ty: &Ty, p: &Prim) -> R {
    let ty_err = || Err("err:type".to_string());
    match ty {
        Ty::Bool => match p { Prim::Bool(b) => Ok(format!("b{}", *b as u8)), _ => ty_err() },
        Ty::I64 => match as_int(p) { Some(v) if v >= i64::MIN as i128 && v <= i64::MAX as i128 => Ok(format!("i{}", v)), _ => ty_err() },
        Ty::I32 => match as_int(p) { Some(v) if v >= i32::MIN as i128 && v <= i32::MAX as i128 => Ok(format!("i{}", v)), _ => ty_err() },
        Ty::U64 => match as_int(p) { Some(v) if v >= 0 && v <= u64::MAX as i128 => Ok(format!("u{}", v)), _ => ty_err() },
        Ty::U32 => match as_int(p) { Some(v) if v >= 0 && v <= u32::MAX as i128 => Ok(format!("u{}", v)), _ => ty_err() },
        Ty::U16 => match as_int(p) { Some(v) if v >= 0 && v <= u16::MAX as i128 => Ok(format!("u{}", v)), _ => ty_err() },
        Ty::U8 => match as_int(p) { Some(v) if v >= 0 && v <= u8::MAX as i128 => Ok(format!("u{}", v)), _ => ty_err() },
        Ty::I16 => match as_int(p) { Some(v) if v >= i16::MIN as i128 && v <= i16::MAX as i128 => Ok(format!("i{}", v)), _ => ty_err() },
        Ty::I8 => match as_int(p) { Some(v) if v >= i8::MIN as i128 && v <= i8::MAX as i128 => Ok(format!("i{}", v)), _ => ty_err() },
        Ty::F64 => match p {
            Prim::F64(v) => Ok(format!("f{}", v.to_bits())), Prim::F32(v) => Ok(format!("f{}", (*v as f64).to_bits())),
            _ => match as_int(p) { Some(v) => Ok(format!("f{}", (v as f64).to_bits())), None => ty_err() },
        },
        Ty::F32 => match p {
            Prim::F32(v) => Ok(format!("g{}", v.to_bits())), Prim::F64(v) => Ok(format!("g{}", (*v as f32).to_bits())),
            _ => match as_int(p) { Some(v) => Ok(format!("g{}", (v as f32).to_bits())), None => ty_err() },
        },
        Ty::Str => match p { Prim::Str(s) => Ok(format!("s{}", hex(s.as_bytes()))), _ => ty_err() },
        Ty::Any => Ok(render_prim(p)),
        Ty::Ign => Ok("ign".to_string()),
        Ty::Enum(vs) => match p { Prim::Str(s) => if vs.iter().any(|v| v == s) { Ok(format!("en({})", hex(s.as_bytes()))) } else { Err("err:other".to_string()) }, _ => ty_err() },
        _ => ty_err(),
    }
}

fn leaf_prim(c: &Cfg, l: &BLeaf) -> Result<Prim, String> {
    Ok(match l {
        BLeaf::I32(v) => Prim::I32(*v), BLeaf::I64(v) => Prim::I64(*v), BLeaf::U32(v) => Prim::U32(*v), BLeaf::U64(v) => Prim::U64(*v), BLeaf::Bool(b) => Prim::Bool(*b),
        BLeaf::F32(b) => Prim::F32(i32::from_le_bytes(*b) as f32 / 1000.0),
        BLeaf::F64(b) => Prim::F64(i64::from_le_bytes(*b) as f64 / 32768.0),
        BLeaf::Quoted(b) | BLeaf::Unquoted(b) => Prim::Str(ref_decode(b)),
        BLeaf::Id(i) => match lookup(c, *i) {
            Some(n) => Prim::Str(n.to_string()),
            None => match c.strat {
                FailedResolveStrategy::Error => return Err("err:other".to_string()),
                FailedResolveStrategy::Stringify => Prim::Str(format!("0x{:x}", i)),
                FailedResolveStrategy::Ignore => Prim::Str("__internal_identifier_ignore".to_string()),
            },
        },
    })
}

/// Windows-1252 text of a binary string: trailing ASCII blanks dropped, backslashes dropped, bytes ≥ 0x80 through
/// the code page (reference table from the Unicode consortium's CP1252.TXT, undefined slots = C1 controls)
fn ref_decode(b: &[u8]) -> String {
    const HIGH: [u16; 32] = [0x20AC, 0x81, 0x201A, 0x0192, 0x201E, 0x2026, 0x2020, 0x2021, 0x02C6, 0x2030, 0x0160, 0x2039, 0x0152, 0x8D, 0x017D, 0x8F,
        0x90, 0x2018, 0x2019, 0x201C, 0x201D, 0x2022, 0x2013, 0x2014, 0x02DC, 0x2122, 0x0161, 0x203A, 0x0153, 0x9D, 0x017E, 0x0178];
    let mut end = b.len();
    while end > 0 && matches!(b[end - 1], b' ' | b'\t' | b'\n' | b'\r' | 0x0c) { end -= 1; }
    let mut s = String::new();
    for &c in &b[..end] {
        if c == b'\\' { continue; }
        let cp = if (0x80..0xA0).contains(&c) { HIGH[(c - 0x80) as usize] as u32 } else { c as u32 };
        s.push(char::from_u32(cp).unwrap());
    }
    s
}

fn is_leaf_ty(t: &Ty) -> bool { matches!(t, Ty::Bool | Ty::I64 | Ty::I32 | Ty::U64 | Ty::U32 | Ty::U16 | Ty::I16 | Ty::U8 | Ty::I8 | Ty::F64 | Ty::F32 | Ty::Str | Ty::Any | Ty::Enum(_)) }

/// element of the colour pseudo-sequence `["rgb", [r, g, b(, a)]]`
fn ref_color(t: &Ty, r: u32, g: u32, b: u32, a: Option<u32>) -> Option<R> {
    let comps: Vec<u32> = [Some(r), Some(g), Some(b), a].iter().flatten().copied().collect();
    let head = match t { Ty::Ign => Ok("ign".to_string()), t if is_leaf_ty(t) => accept(t, &Prim::Str("rgb".into())), _ => Err("err:type".to_string()) };
    let head = match head { Ok(h) => h, Err(e) => return Some(Err(e)) };
    let body = match t {
        Ty::Ign => "ign".to_string(),
        Ty::Any => format!("[{}]", comps.iter().map(|c| format!("u{}", c)).collect::<Vec<_>>().join(",")),
        Ty::Seq(e) => {
            let mut items = vec![];
            for c in &comps {
                match e.as_ref() { Ty::Ign => items.push("ign".to_string()), e if is_leaf_ty(e) => match accept(e, &Prim::U32(*c)) { Ok(v) => items.push(v), Err(x) => return Some(Err(x)) }, _ => return Some(Err("err:type".to_string())) }
            }
            format!("[{}]", items.join(","))
        }
        _ => return Some(Err("err:type".to_string())),
    };
    Some(Ok(format!("[{},{}]", head, body)))
}

fn ref_node(c: &Cfg, t: &Ty, n: &BNode) -> Option<R> {
    match t {
        Ty::Ign => return Some(Ok("ign".to_string())),
        Ty::Opt(inner) => return ref_node(c, inner, n).map(|r| r.map(|v| format!("some({})", v))),
        Ty::Prop(_) => return None,
        _ => {}
    }
    match n {
        BNode::Leaf(l) => {
            // a `u16` request on a token id in VALUE position: all three paths hand over the raw id without consulting
            // the resolver (`deserialize_u16` shortcut; the tape path's ValueDeserializer has it since /repo 4ab9b0c,
            // former finding u16-on-token-id).  The case is flagged so that the run counts it as a regression probe.
            if let (Ty::U16, BLeaf::Id(n)) = (t, l) { U16_ON_ID.with(|f| f.set(true)); return Some(accept(t, &Prim::U16(*n))); }
            let p = match leaf_prim(c, l) { Ok(p) => p, Err(e) => return Some(Err(e)) };
            Some(accept(t, &p))
        }
        BNode::Rgb(r, g, b, a) => match t {
            // the element type of the outer pseudo-sequence is what sees "rgb" and then the component list
            Ty::Seq(e) => ref_color(e, *r, *g, *b, *a),
            // full capture: ["rgb",[r,g,b]]
            Ty::Any => ref_color(&Ty::Any, *r, *g, *b, *a),
            // a map / struct request on a colour is a misfit the paths answer differently: no claim
            Ty::Map(_) | Ty::Struct(_) => None,
            _ => Some(Err("err:type".to_string())),
        },
        BNode::Arr(vs) => match t {
            Ty::Seq(e) => {
                // an rgb block in ARRAY position: the tape parser only recognises the rgb lexeme as an object value
                // (tape.rs `L::RGB if state == ObjectValue`), the lexer/reader anywhere: known finding rgb-in-array.
                // The reference is the lexer's reading; the case is flagged so that only the tape path's
                // disagreement is reported under that kind.
                if vs.iter().any(|v| matches!(v, BNode::Rgb(..))) { RGB_IN_ARRAY.with(|f| f.set(true)); }
                let mut items = vec![];
                for v in vs { match ref_node(c, e, v)? { Ok(x) => items.push(x), Err(e) => return Some(Err(e)) } }
                Some(Ok(format!("[{}]", items.join(","))))
            }
            Ty::Any => {
                let mut items = vec![];
                if vs.iter().any(|v| matches!(v, BNode::Rgb(..))) { RGB_IN_ARRAY.with(|f| f.set(true)); }
                for v in vs { if matches!(v, BNode::Obj(_)) { return None; } match ref_node(c, &Ty::Any, v)? { Ok(x) => items.push(x), Err(e) => return Some(Err(e)) } }
                Some(Ok(format!("[{}]", items.join(","))))
            }
            Ty::Map(_) | Ty::Struct(_) if vs.is_empty() => ref_fields(c, t, &[]),
            Ty::Map(_) | Ty::Struct(_) => None,
            _ => Some(Err("err:type".to_string())),
        },
        BNode::Obj(fs) => match t {
            Ty::Map(_) | Ty::Struct(_) => ref_fields(c, t, fs),
            Ty::Any | Ty::Seq(_) => None,
            _ => Some(Err("err:type".to_string())),
        },
    }
}

fn ref_fields(c: &Cfg, t: &Ty, fs: &[BField]) -> Option<R> {
    match t {
        Ty::Map(vt) => {
            let mut items = vec![];
            for f in fs {
                let k = match leaf_prim(c, &f.key).and_then(|p| accept(&Ty::Str, &p)) { Ok(k) => k, Err(e) => return Some(Err(e)) };
                match ref_node(c, vt, &f.val)? { Ok(v) => items.push(format!("{}={}", k, v)), Err(e) => return Some(Err(e)) }
            }
            Some(Ok(format!("{{{}}}", items.join(","))))
        }
        Ty::Struct(decl) => {
            let named: Vec<(String, Option<u16>, Ty)> = decl.iter().map(|(n, t)| (n.clone(), None, t.clone())).collect();
            ref_struct(c, &named, false, fs)
        }
        _ => None,
    }
}

fn ref_struct(c: &Cfg, decl: &[(String, Option<u16>, Ty)], by_token: bool, fs: &[BField]) -> Option<R> {
    let mut slots: Vec<Option<String>> = vec![None; decl.len()];
    for f in fs {
        // which declared field does this key name?
        let which: Option<usize> = if by_token && matches!(f.key, BLeaf::Id(_)) {
            let BLeaf::Id(i) = f.key else { unreachable!() };
            decl.iter().position(|(_, t, _)| *t == Some(i))
        } else {
            match leaf_prim(c, &f.key) {
                Err(e) => return Some(Err(e)),
                Ok(Prim::Str(s)) => decl.iter().position(|(n, _, _)| *n == s),
                // serde_derive field identifiers also accept an unsigned integer as the field's index
                Ok(Prim::U32(v)) if !by_token => if (v as usize) < decl.len() { Some(v as usize) } else { None },
                Ok(Prim::U64(v)) if !by_token => if v < decl.len() as u64 { Some(v as usize) } else { None },
                Ok(_) => return Some(Err("err:type".to_string())),
            }
        };
        if let Some(i) = which {
            if slots[i].is_some() { return Some(Err(format!("err:duplicate:{}", decl[i].0))); }
            match ref_node(c, &decl[i].2, &f.val)? { Ok(v) => slots[i] = Some(v), Err(e) => return Some(Err(e)) }
        }
        // unknown field: skipped in its entirety, whatever it contains
    }
    let mut items = vec![];
    for (i, (name, _, ty)) in decl.iter().enumerate() {
        let v = match slots[i].take() { Some(v) => v, None => match ty { Ty::Opt(_) => "none".to_string(), _ => return Some(Err(format!("err:missing:{}", name))) } };
        items.push(format!("{}={}", name, v));
    }
    Some(Ok(format!("{{{}}}", items.join(","))))
}

thread_local! { static RGB_IN_ARRAY: std::cell::Cell<bool> = std::cell::Cell::new(false); }
thread_local! { static U16_ON_ID: std::cell::Cell<bool> = std::cell::Cell::new(false); }

/// reference value plus the known finding (if any) the case probes: only the TAPE path's disagreement may be
/// reported under that kind
pub fn value_and_kind(c: &Cfg, ty: &RootTy, d: &BDoc) -> (Option<String>, Option<&'static str>) {
    RGB_IN_ARRAY.with(|f| f.set(false));
    U16_ON_ID.with(|f| f.set(false));
    let v = value_of_bin(c, ty, d);
    // a document that STARTS with a ghost object is refused by the tape parser by design (tape.rs `open_empty_err`),
    // while both sequential deserializers skip it
    let kind = if d.fields.first().map(|f| f.ghosts > 0).unwrap_or(false) { Some("leading-ghost-root") }
        else if RGB_IN_ARRAY.with(|f| f.get()) { Some("rgb-in-array") } else { None };
    (v, kind)
}

/// did the last `value_and_kind` meet a `u16` target on a token id in value position (repaired finding)?
pub fn met_u16_on_id() -> bool { U16_ON_ID.with(|f| f.get()) }

pub fn value_of_bin(c: &Cfg, ty: &RootTy, d: &BDoc) -> Option<String> {
    let r = match ty {
        RootTy::Plain(t @ (Ty::Map(_) | Ty::Struct(_))) => ref_fields(c, t, &d.fields)?,
        RootTy::Plain(Ty::Prop(_)) => return None,
        RootTy::Plain(_) => Err("err:other".to_string()), // the root only works with key value pairs
        RootTy::Tok(fs) => {
            let decl: Vec<(String, Option<u16>, Ty)> = fs.iter().map(|(n, i, t)| (n.clone(), Some(*i), t.clone())).collect();
            ref_struct(c, &decl, true, &d.fields)?
        }
    };
    Some(match r { Ok(v) => v, Err(e) => e })
}

// ---------------------------------------------------------------------------------------
// target types that fit a binary document

fn gen_leaf_ty(rng: &mut Rng, l: &BLeaf) -> Ty {
    if rng.chance(1, 8) { return [Ty::U16, Ty::I16, Ty::U8, Ty::I8, Ty::U16][rng.below(5)].clone(); }
    if rng.chance(1, 30) { return [Ty::Bool, Ty::I64, Ty::I32, Ty::U64, Ty::U32, Ty::F64, Ty::F32, Ty::Str, Ty::Any][rng.below(9)].clone(); }
    match l {
        BLeaf::I32(v) => if *v >= 0 { [Ty::I32, Ty::I64, Ty::F64, Ty::Any, Ty::U32, Ty::U64, Ty::F32][rng.below(7)].clone() } else { [Ty::I32, Ty::I64, Ty::F64, Ty::Any, Ty::I64, Ty::I32, Ty::F32, Ty::U64][{ let k = if rng.chance(1, 8) { 8 } else { 7 }; rng.below(k) }].clone() },
        BLeaf::I64(_) => [Ty::I64, Ty::I64, Ty::F64, Ty::Any, Ty::F32, Ty::I32, Ty::U64][{ let k = if rng.chance(1, 6) { 7 } else { 5 }; rng.below(k) }].clone(),
        BLeaf::U32(_) => [Ty::U32, Ty::U64, Ty::I64, Ty::Any, Ty::I32, Ty::F64][rng.below(6)].clone(),
        BLeaf::U64(_) => [Ty::U64, Ty::U64, Ty::F64, Ty::Any, Ty::F32, Ty::I64, Ty::U32][{ let k = if rng.chance(1, 6) { 7 } else { 5 }; rng.below(k) }].clone(),
        BLeaf::Bool(_) => [Ty::Bool, Ty::Bool, Ty::Any][rng.below(3)].clone(),
        BLeaf::F32(_) => [Ty::F32, Ty::F64, Ty::Any][rng.below(3)].clone(),
        BLeaf::F64(_) => [Ty::F64, Ty::F32, Ty::Any][rng.below(3)].clone(),
        BLeaf::Quoted(b) | BLeaf::Unquoted(b) => {
            if rng.chance(1, 8) && b.iter().all(|c| c.is_ascii_lowercase()) && !b.is_empty() {
                let mut vs = vec![String::from_utf8(b.clone()).unwrap(), "other".to_string()];
                if rng.chance(1, 3) { vs.remove(0); }
                Ty::Enum(vs)
            } else if rng.chance(1, 5) { Ty::Any } else { Ty::Str }
        }
        BLeaf::Id(_) => if rng.chance(1, 4) { Ty::Any } else { Ty::Str },
    }
}

pub fn key_field_name(l: &BLeaf) -> Option<String> {
    match l {
        BLeaf::Quoted(b) | BLeaf::Unquoted(b) if !b.is_empty() && b.iter().all(|c| c.is_ascii_alphanumeric() || *c == b'_') && !b[0].is_ascii_digit() => Some(String::from_utf8(b.clone()).unwrap()),
        BLeaf::Id(i) => Some(docgen::id_name(*i).map(|s| s.to_string()).unwrap_or_else(|| format!("0x{:x}", i))), // (unresolved: the Stringify name)
        _ => None,
    }
}

fn gen_fields_ty(rng: &mut Rng, fs: &[BField]) -> Ty {
    let names: Vec<Option<String>> = fs.iter().map(|f| key_field_name(&f.key)).collect();
    // keys that are unresolved ids are visible only through a map (or a field named after the stringified id)
    let odd_keys = fs.iter().any(|f| matches!(f.key, BLeaf::Id(i) if docgen::id_name(i).is_none()));
    let as_struct = !fs.is_empty() && rng.chance(if odd_keys { 2 } else { 4 }, 5);
    if as_struct {
        let mut out: Vec<(String, Ty)> = vec![];
        let mut seen: Vec<String> = vec![];
        for (f, n) in fs.iter().zip(names.iter()) {
            let Some(n) = n else { continue };            // keys that are not identifiers stay unknown fields
            if seen.contains(n) { continue; }                // typed after its first value; a repeated key is then a duplicate
            seen.push(n.clone());
            if rng.chance(1, 5) { continue; }                // partial struct: unknown field to skip
            let t = gen_node_ty(rng, &f.val);
            let t = if rng.chance(1, 6) { Ty::Opt(Box::new(t)) } else { t };
            out.push((n.clone(), t));
        }
        if rng.chance(1, 4) { out.push(("absent_opt".to_string(), Ty::Opt(Box::new(Ty::I64)))); }
        if rng.chance(1, 25) { out.push(("absent_req".to_string(), Ty::I64)); }
        Ty::Struct(out)
    } else {
        let all_leaf = fs.iter().all(|f| matches!(f.val, BNode::Leaf(_)));
        Ty::Map(Box::new(if all_leaf { if rng.chance(1, 2) { Ty::Any } else { Ty::Str } } else { Ty::Ign }))
    }
}

pub fn gen_node_ty(rng: &mut Rng, n: &BNode) -> Ty {
    if rng.chance(1, 25) { return Ty::Ign; }
    match n {
        BNode::Leaf(l) => gen_leaf_ty(rng, l),
        BNode::Obj(fs) => gen_fields_ty(rng, fs),
        BNode::Arr(vs) => {
            if vs.is_empty() && rng.chance(1, 3) { return gen_fields_ty(rng, &[]); }
            if vs.iter().all(|v| matches!(v, BNode::Leaf(_))) {
                Ty::Seq(Box::new(match rng.below(4) { 0 => Ty::Any, 1 => Ty::Str, 2 => Ty::Ign, _ => if let Some(BNode::Leaf(l)) = vs.first() { gen_leaf_ty(rng, l) } else { Ty::I64 } }))
            } else if vs.iter().all(|v| matches!(v, BNode::Obj(_))) {
                if let (Some(BNode::Obj(fs)), true) = (vs.first(), rng.chance(1, 2)) { Ty::Seq(Box::new(gen_fields_ty(rng, fs))) } else { Ty::Seq(Box::new(Ty::Map(Box::new(Ty::Ign)))) }
            } else if vs.iter().all(|v| matches!(v, BNode::Arr(_) | BNode::Leaf(_))) && rng.chance(1, 2) {
                Ty::Seq(Box::new(Ty::Any))
            } else {
                Ty::Seq(Box::new(Ty::Ign))
            }
        }
        BNode::Rgb(..) => match rng.below(9) { 0 => Ty::Ign, 1 => Ty::Seq(Box::new(Ty::Ign)), 2 => Ty::Seq(Box::new(Ty::Seq(Box::new(Ty::U32)))), 3 | 4 => Ty::Any, 5 => Ty::Str, 6 => Ty::I64, _ => Ty::Seq(Box::new(Ty::Any)) },
    }
}

pub fn gen_root_ty(rng: &mut Rng, d: &BDoc) -> RootTy {
    if rng.chance(1, 6) {
        // token-attribute struct over the pool keys present in the document
        let mut fs: Vec<(String, u16, Ty)> = vec![];
        for f in &d.fields {
            let Some(n) = key_field_name(&f.key) else { continue };
            let Some(id) = docgen::key_id(n.as_bytes()) else { continue };
            if fs.iter().any(|(m, _, _)| *m == n) || rng.chance(1, 5) { continue; }
            let t = gen_node_ty(rng, &f.val);
            fs.push((n, id, if rng.chance(1, 6) { Ty::Opt(Box::new(t)) } else { t }));
        }
        if rng.chance(1, 4) { fs.push(("absent_opt".to_string(), 0x3ff0, Ty::Opt(Box::new(Ty::I64)))); }
        return RootTy::Tok(fs);
    }
    RootTy::Plain(gen_fields_ty(rng, &d.fields))
}

/// a type drawn without looking at the document (model fidelity on ill-fitting requests; no cross-path claim)
fn gen_wild_ty(rng: &mut Rng, depth: usize) -> Ty {
    let r = rng.below(if depth >= 3 { 10 } else { 16 });
    match r {
        0 => Ty::Bool, 1 => Ty::I64, 2 => if rng.chance(1, 2) { Ty::U64 } else { Ty::U16 }, 3 => if rng.chance(1, 2) { Ty::I32 } else { Ty::I16 }, 4 => if rng.chance(1, 2) { Ty::U32 } else { Ty::U8 }, 5 => if rng.chance(1, 3) { Ty::I8 } else { Ty::F64 }, 6 => Ty::F32, 7 => Ty::Str, 8 => Ty::Any, 9 => Ty::Ign,
        10 => Ty::Opt(Box::new(gen_wild_ty(rng, depth + 1))),
        11 => Ty::Seq(Box::new(gen_wild_ty(rng, depth + 1))),
        12 => Ty::Map(Box::new(gen_wild_ty(rng, depth + 1))),
        13 => Ty::Enum(vec!["a".to_string(), "name".to_string()]),
        _ => {
            let n = rng.below(4);
            let mut fs: Vec<(String, Ty)> = vec![];
            for _ in 0..n { let k = rng.pick(&docgen::KEY_POOL).to_string(); if fs.iter().all(|(m, _)| *m != k) { fs.push((k, gen_wild_ty(rng, depth + 1))); } }
            Ty::Struct(fs)
        }
    }
}

// ---------------------------------------------------------------------------------------
// fixed real derived structs (cross-check of the Ty interpreter against real `Deserialize` impls)

mod real {
    use jomini::JominiDeserialize;
    use serde::Deserialize;

    #[derive(Deserialize, Debug)]
    pub struct Inner { pub x: i32, pub y: Option<u32> }
    #[derive(Deserialize, Debug)]
    pub struct PlainS { pub a: i64, pub name: String, pub flags: Vec<String>, pub unit: Option<Inner>, pub core: Option<bool> }
    /// tuple, tuple-struct and newtype fields, each followed by further fields
    #[derive(Deserialize, Debug)]
    pub struct P(pub i32, pub i32);
    #[derive(Deserialize, Debug)]
    pub struct N(pub i64);
    #[derive(Deserialize, Debug)]
    pub struct TupS { pub a: (i32, i32), pub name: String, pub b: P, pub id: u32, pub core: N, pub x: i32, pub unit: Option<TupInner>, pub y: Option<i32> }
    #[derive(Deserialize, Debug)]
    pub struct TupInner { pub a: P, pub b: i32, pub list: (i32, i32, i32), pub x: i32 }
    #[derive(JominiDeserialize, Debug)]
    pub struct TokS {
        #[jomini(token = 0x2000)] pub a: i64,
        #[jomini(token = 0x200e)] pub name: String,
        #[jomini(token = 0x2023)] pub flags: Option<Vec<String>>,
    }
    // (serde's derive: tyseed's field identifier mirrors serde_derive, which reads an unsigned integer key as a
    // field index; jomini_derive's identifier visitor has no visit_u64 and answers `invalid type` instead)
    #[derive(Deserialize, Debug)]
    pub struct JomS { pub id: u32, pub x: f32, pub y: Option<f64>, pub list: Vec<i32> }
}

fn hexs(s: &str) -> String { hex(s.as_bytes()) }
fn real_plain(v: &real::PlainS) -> String {
    format!("{{a=i{},name=s{},flags=[{}],unit={},core={}}}", v.a, hexs(&v.name), v.flags.iter().map(|s| format!("s{}", hexs(s))).collect::<Vec<_>>().join(","),
        match &v.unit { Some(i) => format!("some({{x=i{},y={}}})", i.x, match i.y { Some(y) => format!("some(u{})", y), None => "none".into() }), None => "none".into() },
        match v.core { Some(b) => format!("some(b{})", b as u8), None => "none".into() })
}
fn real_tok(v: &real::TokS) -> String {
    format!("{{a=i{},name=s{},flags={}}}", v.a, hexs(&v.name), match &v.flags { Some(f) => format!("some([{}])", f.iter().map(|s| format!("s{}", hexs(s))).collect::<Vec<_>>().join(",")), None => "none".into() })
}
fn real_jom(v: &real::JomS) -> String {
    format!("{{id=u{},x=g{},y={},list=[{}]}}", v.id, v.x.to_bits(), match v.y { Some(y) => format!("some(f{})", y.to_bits()), None => "none".into() }, v.list.iter().map(|i| format!("i{}", i)).collect::<Vec<_>>().join(","))
}
const TY_PLAIN: &str = "st(a:i64;name:str;flags:seq(str);unit:opt(st(x:i32;y:opt(u32)));core:opt(bool))";
const TY_TOK: &str = "tst(a#8192:i64;name#8206:str;flags#8227:opt(seq(str)))";
const TY_JOM: &str = "st(id:u32;x:f32;y:opt(f64);list:seq(i32))";

fn real_all_paths<T: for<'de> serde::Deserialize<'de>>(c: &Cfg, data: &[u8], show: impl Fn(&T) -> String) -> [String; 3] {
    let res = make_resolver(c);
    let fin = |r: Result<T, jomini::Error>| match r { Ok(v) => show(&v), Err(e) => err_class(&e.to_string()) };
    let t = match BinaryTape::from_slice(data) { Ok(tape) => fin(builder(c).deserialize_tape(&tape, &res)), Err(_) => "err:parse".to_string() };
    let s = fin(builder(c).deserialize_slice(data, &res));
    let r = fin(builder(c).deserialize_reader(data, &res));
    [t, s, r]
}


// ---------------------------------------------------------------------------------------
// rarely used target types, resolvers and flavors (implementation-only op `x-rare-bin <hex>`)

pub mod rare {
    use super::*;
    use jomini::Utf8Encoding;
    use serde::de::IgnoredAny;
    use serde::Deserialize;
    use std::borrow::Cow;

    /// second flavor: raw little-endian IEEE floats, UTF-8 strings
    #[derive(Debug, Default, Clone, Copy)]
    pub struct LeFlavor;
    impl Encoding for LeFlavor {
        fn decode<'a>(&self, data: &'a [u8]) -> Cow<'a, str> { Utf8Encoding::decode(data) }
    }
    impl BinaryFlavor for LeFlavor {
        fn visit_f32(&self, data: [u8; 4]) -> f32 { f32::from_le_bytes(data) }
        fn visit_f64(&self, data: [u8; 8]) -> f64 { f64::from_le_bytes(data) }
    }

    pub const FIELDS: &[&str] = &["c", "bb", "by", "us", "un", "nt", "ts", "arr", "big", "ubig", "e1", "e2", "ig", "hm", "ids", "s", "x", "y", "sv", "hv", "vv", "bs", "cow", "raw"];
    pub const VARIANTS: &[&str] = &["Unit", "Newt", "Tup", "St"];
    pub fn field_id(name: &str) -> u16 { 0x3000 + FIELDS.iter().position(|f| *f == name).unwrap() as u16 }
    pub fn variant_id(name: &str) -> u16 { 0x3100 + VARIANTS.iter().position(|f| *f == name).unwrap() as u16 }
    /// the token table every resolver of the op is built from
    pub fn table() -> Vec<(u16, String)> {
        let mut t: Vec<(u16, String)> = FIELDS.iter().map(|f| (field_id(f), f.to_string())).collect();
        t.extend(VARIANTS.iter().map(|v| (variant_id(v), v.to_string())));
        t.push((0x3200, "q".to_string()));
        t.push((0x3201, "some_value".to_string()));
        t
    }

    #[derive(Deserialize, Debug)]
    pub struct UnitS;
    #[derive(Deserialize, Debug)]
    pub struct Newt(pub i32);
    #[derive(Deserialize, Debug)]
    pub struct Tup(pub i32, pub String);
    #[derive(Deserialize, Debug)]
    pub enum En { Unit, Newt(i32), Tup(i32, i32), St { a: i32 } }

    /// hand-written byte-buffer target (`deserialize_byte_buf`)
    #[derive(Debug)]
    pub struct BBuf(pub Vec<u8>);
    /// hand-written bytes target (`deserialize_bytes`)
    #[derive(Debug)]
    pub struct Byt(pub Vec<u8>);
    struct BytesVis;
    impl<'de> Visitor<'de> for BytesVis {
        type Value = Vec<u8>;
        fn expecting(&self, f: &mut fmt::Formatter) -> fmt::Result { f.write_str("bytes") }
        fn visit_bytes<E: de::Error>(self, v: &[u8]) -> Result<Vec<u8>, E> { Ok(v.to_vec()) }
        fn visit_byte_buf<E: de::Error>(self, v: Vec<u8>) -> Result<Vec<u8>, E> { Ok(v) }
        fn visit_str<E: de::Error>(self, v: &str) -> Result<Vec<u8>, E> { Ok(v.as_bytes().to_vec()) }
        fn visit_string<E: de::Error>(self, v: String) -> Result<Vec<u8>, E> { Ok(v.into_bytes()) }
    }
    impl<'de> Deserialize<'de> for BBuf {
        fn deserialize<D: Deserializer<'de>>(d: D) -> Result<Self, D::Error> { d.deserialize_byte_buf(BytesVis).map(BBuf) }
    }
    impl<'de> Deserialize<'de> for Byt {
        fn deserialize<D: Deserializer<'de>>(d: D) -> Result<Self, D::Error> { d.deserialize_bytes(BytesVis).map(Byt) }
    }
    /// hand-written owned string target that asks with `deserialize_str` (what `&str` / `Cow<str>` targets call; owned,
    /// so that the reader path can be asked too)
    #[derive(Debug)]
    pub struct StrVia(pub String);
    struct StrVis;
    impl<'de> Visitor<'de> for StrVis {
        type Value = String;
        fn expecting(&self, f: &mut fmt::Formatter) -> fmt::Result { f.write_str("a string") }
        fn visit_str<E: de::Error>(self, v: &str) -> Result<String, E> { Ok(v.to_string()) }
        fn visit_string<E: de::Error>(self, v: String) -> Result<String, E> { Ok(v) }
    }
    impl<'de> Deserialize<'de> for StrVia {
        fn deserialize<D: Deserializer<'de>>(d: D) -> Result<Self, D::Error> { d.deserialize_str(StrVis).map(StrVia) }
    }
    /// a resolver that only implements `resolve` (the trait's default `is_empty`)
    pub struct TableResolver(pub Vec<(u16, String)>);
    impl TokenResolver for TableResolver {
        fn resolve(&self, token: u16) -> Option<&str> { self.0.iter().find(|e| e.0 == token).map(|e| e.1.as_str()) }
    }
    /// a map keyed by token id (`deserialize_u16` on keys), printed in key order
    #[derive(Deserialize)]
    pub struct HM(pub HashMap<u16, i32>);
    impl fmt::Debug for HM {
        fn fmt(&self, f: &mut fmt::Formatter) -> fmt::Result {
            let mut v: Vec<_> = self.0.iter().collect();
            v.sort();
            write!(f, "HM{:?}", v)
        }
    }

    /// a map with container values (`size_hint` walks over them), printed in key order
    #[derive(Deserialize)]
    pub struct HV(pub HashMap<String, Vec<i32>>);
    impl fmt::Debug for HV {
        fn fmt(&self, f: &mut fmt::Formatter) -> fmt::Result {
            let mut v: Vec<_> = self.0.iter().collect();
            v.sort();
            write!(f, "HV{:?}", v)
        }
    }
    /// the whole document as a map (the root `size_hint`), printed in key order
    /// (asked for directly with `deserialize_map`: the root deserializers only know key-value pairs)
    pub type RootMap = HashMap<String, IgnoredAny>;
    fn show_root(v: &RootMap) -> String { let mut k: Vec<&String> = v.keys().collect(); k.sort(); format!("RootMap{:?}", k) }

    /// owned targets: every path
    #[derive(Deserialize, Debug)]
    pub struct RareO {
        pub c: Option<char>, pub bb: Option<BBuf>, pub by: Option<Byt>, pub us: Option<UnitS>, pub un: Option<()>,
        pub nt: Option<Newt>, pub ts: Option<Tup>, pub arr: Option<[i32; 2]>, pub big: Option<i128>, pub ubig: Option<u128>,
        pub e1: Option<En>, pub e2: Option<En>, pub ig: Option<IgnoredAny>, pub hm: Option<HM>, pub ids: Option<Vec<u16>>,
        pub s: Option<String>, pub x: Option<f32>, pub y: Option<f64>, pub sv: Option<StrVia>, pub hv: Option<HV>, pub vv: Option<Vec<Vec<i32>>>,
    }
    /// borrowed targets: the tape and the slice path
    #[derive(Deserialize, Debug)]
    pub struct RareB<'a> {
        #[serde(borrow)] pub bs: Option<&'a str>,
        #[serde(borrow, default)] pub cow: Cow<'a, str>,
        #[serde(borrow)] pub raw: Option<&'a [u8]>,
        pub s: Option<String>, pub ig: Option<IgnoredAny>, pub c: Option<char>,
    }
    fn show_b(v: &RareB) -> String { format!("{:?} cow_borrowed={}", v, matches!(v.cow, Cow::Borrowed(_))) }

    fn fin<T>(r: Result<T, jomini::Error>, show: impl Fn(&T) -> String) -> String {
        match r { Ok(v) => show(&v), Err(e) => err_class(&e.to_string()) }
    }

    /// every path of the owned target for one flavor / strategy / resolver: (label, result)
    pub fn owned_paths<F: BinaryFlavor, RES: TokenResolver>(mk: &dyn Fn() -> F, strat: FailedResolveStrategy, res: &RES, data: &[u8], need: usize) -> Vec<(&'static str, String)> {
        let b = || { let mut b = BinaryDeserializer::builder_flavor(mk()); b.on_failed_resolve(strat); b };
        let show = |v: &RareO| format!("{:?}", v);
        let mut out = vec![];
        match BinaryTape::from_slice(data) {
            Ok(tape) => {
                out.push(("tape", fin(b().deserialize_tape::<_, RareO>(&tape, res), show)));
                // the deserializer object itself: strategy set after construction
                let mut de = BinaryDeserializer::builder_flavor(mk()).from_tape(&tape, res);
                de.on_failed_resolve(strat);
                out.push(("tape-object", fin(de.deserialize::<RareO>(), show)));
            }
            Err(_) => out.push(("tape", "err:parse".to_string())),
        }
        out.push(("slice", fin(b().deserialize_slice::<_, RareO>(data, res), show)));
        out.push(("reader", fin(b().deserialize_reader::<_, RareO, _>(data, res), show)));
        let mut bt = b();
        bt.reader_config(TokenReader::builder().buffer_len(need));
        out.push(("reader-tight", fin(bt.deserialize_reader::<_, RareO, _>(data, res), show)));
        let mut bm = b();
        bm.reader_config(TokenReader::builder().buffer_len(need + 7));
        out.push(("reader-mid", fin(bm.from_reader(sched::SchedReader::new(data, vec![sched::Step::Repeat(3)]), res).deserialize::<RareO>(), show)));
        out
    }

    pub fn borrowed_paths<F: BinaryFlavor, RES: TokenResolver>(mk: &dyn Fn() -> F, strat: FailedResolveStrategy, res: &RES, data: &[u8]) -> Vec<(&'static str, String)> {
        let b = || { let mut b = BinaryDeserializer::builder_flavor(mk()); b.on_failed_resolve(strat); b };
        let mut out = vec![];
        match BinaryTape::from_slice(data) {
            Ok(tape) => out.push(("tape", fin(b().deserialize_tape::<_, RareB>(&tape, res), show_b))),
            Err(_) => out.push(("tape", "err:parse".to_string())),
        }
        out.push(("slice", fin(b().deserialize_slice::<_, RareB>(data, res), show_b)));
        out
    }

    fn collapse(s: &str) -> &str { if s.starts_with("err") { "err" } else { s } }

    /// all results equal (same Debug string, or all fail)?  Otherwise: every distinct outcome with the paths
    /// (strategy / resolver / flavor / path labels, shortened to what differs) that gave it.
    pub fn disagree(rs: &[(String, String)]) -> Option<String> {
        let first = rs.first()?;
        if rs.iter().all(|r| collapse(&r.1) == collapse(&first.1)) { return None; }
        let mut groups: Vec<(String, Vec<String>)> = vec![];
        for (l, r) in rs {
            let key = collapse(r).to_string();
            match groups.iter_mut().find(|g| g.0 == key) { Some(g) => g.1.push(l.clone()), None => groups.push((key, vec![l.clone()])) }
        }
        let paths_only = groups.iter().all(|g| { let mut ps: Vec<&str> = g.1.iter().map(|l| l.rsplit('/').next().unwrap()).collect(); ps.sort(); ps.dedup();
            groups.iter().filter(|h| h.0 != g.0).all(|h| h.1.iter().all(|l| !ps.contains(&l.rsplit('/').next().unwrap()))) });
        Some(groups.iter().map(|g| {
            let mut ls: Vec<String> = if paths_only { g.1.iter().map(|l| l.rsplit('/').next().unwrap().to_string()).collect() } else { g.1.clone() };
            ls.sort(); ls.dedup();
            format!("[{}] -> {}", ls.join(","), g.0)
        }).collect::<Vec<_>>().join("  VERSUS  "))
    }

    /// the known finding a document probes (read off the real tape): `arr` / `ts` holding more than two elements (the
    /// sequential paths insist on the closing lexeme after a tuple, the tape path leaves the rest unread)
    pub fn probe_kind(data: &[u8], tab: &[(u16, String)]) -> Option<&'static str> {
        use jomini::BinaryToken as T;
        let tape = BinaryTape::from_slice(data).ok()?;
        let toks = tape.tokens();
        let (mut unit, mut wide, mut long) = (false, false, false);
        let mut i = 0;
        while i + 1 < toks.len() {
            let name: Option<String> = match &toks[i] {
                T::Unquoted(s) | T::Quoted(s) => Some(String::from_utf8_lossy(s.as_bytes()).to_string()),
                T::Token(id) => tab.iter().find(|e| e.0 == *id).map(|e| e.1.clone()),
                _ => None,
            };
            let v = &toks[i + 1];
            match name.as_deref() {
                Some("us") | Some("un") => unit = true,
                Some("big") | Some("ubig") => if matches!(v, T::I32(_) | T::I64(_) | T::U32(_) | T::U64(_)) { wide = true },
                Some("arr") | Some("ts") => if let T::Array(e) = v {
                    let (mut n, mut j) = (0, i + 2);
                    while j < *e { n += 1; j = match &toks[j] { T::Array(x) | T::Object(x) => x + 1, _ => j + 1 }; }
                    if n > 2 { long = true; }
                },
                _ => {}
            }
            i = match v { T::Array(e) | T::Object(e) => e + 1, _ => i + 2 };
        }
        let _ = (unit, wide);
        if long { Some("tuple-longer-than-target") } else { None }
    }

    /// former findings the document exercises (regression probes; every path must agree now): a root field `us` / `un`
    /// (unit targets, tape path repaired in /repo c896e07), a root field `big` / `ubig` holding an integer (i128 / u128
    /// targets, sequential paths repaired in /repo 6a6d32a)
    pub fn repaired_probes(data: &[u8], tab: &[(u16, String)]) -> Vec<&'static str> {
        use jomini::BinaryToken as T;
        let mut out = vec![];
        let tape = match BinaryTape::from_slice(data) { Ok(t) => t, Err(_) => return out };
        let toks = tape.tokens();
        let mut i = 0;
        while i + 1 < toks.len() {
            let name: Option<String> = match &toks[i] {
                T::Unquoted(s) | T::Quoted(s) => Some(String::from_utf8_lossy(s.as_bytes()).to_string()),
                T::Token(id) => tab.iter().find(|e| e.0 == *id).map(|e| e.1.clone()),
                _ => None,
            };
            let v = &toks[i + 1];
            match name.as_deref() {
                Some("us") | Some("un") => if !out.contains(&"unit-target-tape-rejects") { out.push("unit-target-tape-rejects") },
                Some("big") | Some("ubig") => if matches!(v, T::I32(_) | T::I64(_) | T::U32(_) | T::U64(_)) && !out.contains(&"i128-target-sequential-unsupported") { out.push("i128-target-sequential-unsupported") },
                _ => {}
            }
            i = match v { T::Array(e) | T::Object(e) => e + 1, _ => i + 2 };
        }
        out
    }

    pub fn run(data: &[u8], obs: &mut Obs, case: &dyn Fn() -> String) -> String {
        let tab = table();
        let (raw, big) = raw_tokens(data);
        let need = max_token_len(&raw, big);
        let dangling = raw.last().map(|t| t == "Stray").unwrap_or(false);
        if dangling { obs.count("rare:dangling-byte:slice-based-paths-compared-separately"); }
        let text: String = tab.iter().map(|(i, n)| format!("0x{:x} {}\n", i, n)).collect();
        let hm_string: HashMap<u16, String> = tab.iter().cloned().collect();
        let hm_str: HashMap<u16, &str> = tab.iter().map(|(i, n)| (*i, n.as_str())).collect();
        let basic = BasicTokenResolver::from_text_lines(text.as_bytes()).expect("token text lines");
        let boxed_h = make_resolver(&Cfg { strat: FailedResolveStrategy::Error, lines: 0, entries: tab.clone() });
        let boxed_m = make_resolver(&Cfg { strat: FailedResolveStrategy::Error, lines: 4, entries: tab.clone() });
        let by_ref = &hm_string;
        // `is_empty` of every resolver kind
        let empty_h: HashMap<u16, String> = HashMap::new();
        let empty_b = BasicTokenResolver::from_text_lines(&b""[..]).expect("empty token text");
        let plain = TableResolver(tab.clone());
        let empty_b2 = BasicTokenResolver::from_text_lines(&b""[..]).expect("empty token text");
        let empties = [TokenResolver::is_empty(&hm_string), TokenResolver::is_empty(&hm_str), TokenResolver::is_empty(&basic), TokenResolver::is_empty(&boxed_h),
            TokenResolver::is_empty(&boxed_m), <&HashMap<u16, String> as TokenResolver>::is_empty(&by_ref), TokenResolver::is_empty(&plain),
            !TokenResolver::is_empty(&empty_h), !TokenResolver::is_empty(&empty_b), !<&HashMap<u16, String> as TokenResolver>::is_empty(&&empty_h),
            !TokenResolver::is_empty(&(Box::new(empty_b2) as Box<dyn TokenResolver>)), TokenResolver::is_empty(&TableResolver(vec![]))];
        if empties.iter().any(|e| *e) { obs.violation("c04-resolver-is-empty", &case(), &format!("{:?}", empties)); }

        // malformed token tables are refused, the reader's error is passed on
        struct Failing;
        impl std::io::Read for Failing { fn read(&mut self, _: &mut [u8]) -> std::io::Result<usize> { Err(std::io::Error::new(std::io::ErrorKind::Other, "boom")) } }
        let bad = [BasicTokenResolver::from_text_lines(&b"0x10\n"[..]).is_err(), BasicTokenResolver::from_text_lines(&b"0xzz name\n"[..]).is_err(),
            BasicTokenResolver::from_text_lines(&b"0x10000 name\n"[..]).is_err(), BasicTokenResolver::from_text_lines(std::io::BufReader::new(Failing)).is_err(),
            BasicTokenResolver::from_text_lines(&b"0x10 a\n0x11 b"[..]).is_ok()];
        if bad.iter().any(|b| !*b) { obs.violation("c04-resolver-text-lines", &case(), &format!("{:?}", bad)); }
        // every id VALUE through the text-line loader, in the spellings a token file uses (`0x` + lower / upper hex, with
        // and without zero padding): boundary ids (0, 1, 0x000f, 0x00ff, 0x0100, 0x0fff, 0x1000, 0xfffe, 0xffff), ids that
        // consist of zeros and `x`-adjacent digits only, and a pseudo-random sample; each must resolve to its own name
        {
            let mut ids: Vec<u16> = vec![0, 1, 0x000f, 0x0010, 0x00ff, 0x0100, 0x0fff, 0x1000, 0x7fff, 0x8000, 0xfffe, 0xffff, 0x0a0b, 0xa000, 0x000a];
            let mut z = 0x9E37u32;
            for _ in 0..40 { z = z.wrapping_mul(1664525).wrapping_add(1013904223); ids.push((z >> 8) as u16); }
            ids.sort(); ids.dedup();
            for style in 0..4 {
                let txt: String = ids.iter().map(|i| match style { 0 => format!("0x{:x} n{}\n", i, i), 1 => format!("0x{:04x} n{}\n", i, i), 2 => format!("0x{:X} n{}\n", i, i), _ => format!("0x{:04X} n{}\r\n", i, i) }).collect();
                match BasicTokenResolver::from_text_lines(txt.as_bytes()) {
                    Err(e) => obs.violation("c04-resolver-text-lines", &case(), &format!("a token table with ids {:x?}.. in spelling style {} is refused: {}", &ids[..3], style, e)),
                    Ok(r) => { for i in &ids { if TokenResolver::resolve(&r, *i) != Some(format!("n{}", i).as_str()) { obs.violation("c04-resolver-text-lines", &case(), &format!("id 0x{:04x} (style {}) resolves to {:?}", i, style, TokenResolver::resolve(&r, *i))); break; } } }
                }
            }
        }
        // the whole document as a map (duplicate keys collapse; keys only)
        {
            let b = || { let mut b = BinaryDeserializer::builder_flavor(VFlavor); b.on_failed_resolve(FailedResolveStrategy::Stringify); b };
            let mut rs: Vec<(String, String)> = vec![];
            if let Ok(tape) = BinaryTape::from_slice(data) { rs.push(("tape".to_string(), fin(b().deserialize_tape::<_, RootMap>(&tape, &hm_string), show_root))); }
            rs.push(("slice".to_string(), fin(b().deserialize_slice::<_, RootMap>(data, &hm_string), show_root)));
            rs.push(("reader".to_string(), fin(b().deserialize_reader::<_, RootMap, _>(data, &hm_string), show_root)));
            if !dangling { if let Some(d) = disagree(&rs) { obs.violation("c04-rare-root-map-disagree", &case(), &d); } }
            obs.count(if rs[0].1.starts_with("err") { "rare:root-map:err" } else { "rare:root-map:ok" });
        }
        let mut any_difference = false;
        let mut first_owned = String::new();
        let mut reported: Vec<&'static str> = vec![];
        let mut per_flavor: Vec<String> = vec![];
        for strat in [FailedResolveStrategy::Error, FailedResolveStrategy::Stringify, FailedResolveStrategy::Ignore] {
            let sname = match strat { FailedResolveStrategy::Error => "E", FailedResolveStrategy::Stringify => "S", FailedResolveStrategy::Ignore => "I" };
            for flavor in 0..2 {
                let mut all: Vec<(String, String)> = vec![];
                let mut allb: Vec<(String, String)> = vec![];
                macro_rules! with_res { ($rname:expr, $res:expr) => {
                    let (o, bo) = if flavor == 0 {
                        (owned_paths(&|| VFlavor, strat, $res, data, need), borrowed_paths(&|| VFlavor, strat, $res, data))
                    } else {
                        (owned_paths(&|| LeFlavor, strat, $res, data, need), borrowed_paths(&|| LeFlavor, strat, $res, data))
                    };
                    for (l, r) in o { all.push((format!("{}/{}/f{}/{}", sname, $rname, flavor, l), r)); }
                    for (l, r) in bo { allb.push((format!("{}/{}/f{}/{}", sname, $rname, flavor, l), r)); }
                } }
                with_res!("hashmap-string", &hm_string);
                with_res!("hashmap-str", &hm_str);
                with_res!("basic-text-lines", &basic);
                with_res!("boxed-hashmap", &boxed_h);
                with_res!("boxed-mixed-lines", &boxed_m);
                with_res!("ref-hashmap", &by_ref);
                with_res!("plain-table", &plain);
                // the flavor as a reference and boxed (forwarding impls), and the trait's own entry points (strategy Ignore)
                if flavor == 0 {
                    for (l, r) in owned_paths(&|| &VFlavor, strat, &hm_string, data, need) { all.push((format!("{}/ref-flavor/f0/{}", sname, l), r)); }
                    for (l, r) in owned_paths(&|| Box::new(VFlavor), strat, &hm_string, data, need) { all.push((format!("{}/box-flavor/f0/{}", sname, l), r)); }
                } else {
                    for (l, r) in owned_paths(&|| &LeFlavor, strat, &hm_string, data, need) { all.push((format!("{}/ref-flavor/f1/{}", sname, l), r)); }
                    for (l, r) in owned_paths(&|| Box::new(LeFlavor) as Box<dyn BinaryFlavor>, strat, &hm_string, data, need) { all.push((format!("{}/box-dyn-flavor/f1/{}", sname, l), r)); }
                }
                if strat == FailedResolveStrategy::Ignore {
                    let show = |v: &RareO| format!("{:?}", v);
                    if flavor == 0 {
                        all.push(("I/trait/f0/slice".to_string(), fin(VFlavor.deserialize_slice::<RareO, _>(data, &hm_string), show)));
                        all.push(("I/trait/f0/reader".to_string(), fin(VFlavor.deserialize_reader::<RareO, _, _>(data, &basic), show)));
                        all.push(("I/trait/f0/builder".to_string(), fin(VFlavor.deserializer().deserialize_slice::<_, RareO>(data, &hm_str), show)));
                    } else {
                        all.push(("I/trait/f1/slice".to_string(), fin(LeFlavor.deserialize_slice::<RareO, _>(data, &hm_string), show)));
                        all.push(("I/trait/f1/reader".to_string(), fin(LeFlavor.deserialize_reader::<RareO, _, _>(data, &basic), show)));
                        all.push(("I/trait/f1/builder".to_string(), fin(LeFlavor.deserializer().deserialize_slice::<_, RareO>(data, &hm_str), show)));
                    }
                }
                // strict inside the tape group and inside the sequential group; a tape-versus-sequential difference is
                // reported under the candidate finding the document probes (exact kind), else as a plain disagreement
                let is_tape = |l: &str| l.ends_with("/tape") || l.ends_with("/tape-object");
                let tapes: Vec<(String, String)> = all.iter().filter(|r| is_tape(&r.0)).cloned().collect();
                // one dangling byte where a lexeme id should start: both slice-based front ends (the tape parser and the on-demand
                // lexer: `read_id` answers Eof, which ends the root map; by design, modelled, see the `example` at the end of
                // Proofs/BinDeCut.lean) take it for the end of the input, the reader refuses the input.  On such an input the
                // from_slice results are compared with the tape path only, the reader results among themselves
                let is_slice = |l: &str| dangling && (l.ends_with("/slice") || l.ends_with("/builder"));
                let is_tape = |l: &str| is_tape(l) || is_slice(l);
                let seqs: Vec<(String, String)> = all.iter().filter(|r| !is_tape(&r.0) && !is_slice(&r.0)).cloned().collect();
                if let Some(d) = disagree(&tapes) { obs.violation("c04-rare-paths-disagree", &case(), &format!("{}/f{}: {}", sname, flavor, d)); }
                if let Some(d) = disagree(&seqs) { obs.violation("c04-rare-paths-disagree", &case(), &format!("{}/f{}: {}", sname, flavor, d)); }
                if let (Some(t), Some(q)) = (tapes.first(), seqs.first()) {
                    if dangling {
                        if collapse(&t.1) != collapse(&q.1) && strat == FailedResolveStrategy::Error && flavor == 0 { obs.count("rare:dangling-byte:slice-based-accept-reader-refuses"); }
                    } else if collapse(&t.1) != collapse(&q.1) {
                        any_difference = true;
                        let kind = probe_kind(data, &tab).unwrap_or("c04-rare-paths-disagree");
                        // (a candidate finding is reported once per case, not once per strategy x flavor)
                        if kind == "c04-rare-paths-disagree" || !reported.contains(&kind) { reported.push(kind); obs.violation(kind, &case(), &format!("{}/f{}: tape paths -> {}  VERSUS  from_slice / from_reader -> {}", sname, flavor, t.1, q.1)); }
                    } else if strat == FailedResolveStrategy::Error && flavor == 0 {
                        if let Some(k) = probe_kind(data, &tab) { obs.count(&format!("rare:probe-without-difference:{}", k)); }
                    }
                }
                if let Some(d) = disagree(&allb) { obs.violation("c04-rare-borrowed-paths-disagree", &case(), &format!("{}/f{}: {}", sname, flavor, d)); }
                obs.count(if all[0].1.starts_with("err") { "rare:owned:err" } else { "rare:owned:ok" });
                obs.count(if allb[0].1.starts_with("err") { "rare:borrowed:err" } else { "rare:borrowed:ok" });
                if first_owned.is_empty() { first_owned = format!("{} | {}", all[0].1, allb[0].1); }
                if strat == FailedResolveStrategy::Error { per_flavor.push(all[0].1.clone()); }
            }
        }
        if !any_difference && !dangling { for k in repaired_probes(data, &tab) { obs.count(&format!("probe:{}-repaired:paths-agree", k)); } }
        if per_flavor.len() == 2 && per_flavor[0] != per_flavor[1] { obs.count("rare:flavors-differ"); } else { obs.count("rare:flavors-same"); }
        first_owned
    }

    // ---- documents

    fn key(rng: &mut Rng, n: &str) -> BLeaf { if rng.chance(1, 2) { BLeaf::Id(field_id(n)) } else { BLeaf::Unquoted(n.as_bytes().to_vec()) } }
    fn i32v(rng: &mut Rng) -> BNode { let sh = rng.below(31); BNode::Leaf(BLeaf::I32(rng.next() as i32 >> sh)) }
    fn strv(rng: &mut Rng, non_ascii: bool) -> BNode {
        let n = rng.below(5);
        let mut b: Vec<u8> = (0..n).map(|_| b'a' + rng.below(26) as u8).collect();
        if non_ascii { b.push([0xe9u8, 0x80, 0xff, 0xc3][rng.below(4)]); if rng.chance(1, 2) { b.push(0xa9); } }
        BNode::Leaf(if rng.chance(1, 2) { BLeaf::Quoted(b) } else { BLeaf::Unquoted(b) })
    }
    fn misfit(rng: &mut Rng) -> BNode {
        match rng.below(7) {
            0 => BNode::Leaf(BLeaf::Bool(rng.chance(1, 2))),
            1 => BNode::Leaf(BLeaf::Quoted(b"zz".to_vec())),
            2 => BNode::Leaf(BLeaf::U64(rng.next())),
            3 => BNode::Leaf(BLeaf::F32((rng.next() as u32).to_le_bytes())),
            4 => BNode::Leaf(BLeaf::Id(0x3200 + rng.below(3) as u16)),
            5 => BNode::Leaf(BLeaf::I64(rng.next() as i64)),
            _ => i32v(rng),
        }
    }

    /// a document for `RareO` / `RareB`: a random subset of the fields, values that fit (`misfits` = false) or with some
    /// scalar-level misfits
    pub fn gen_doc(rng: &mut Rng, misfits: bool, probe: Option<&str>) -> BDoc {
        let mut fields = vec![];
        for name in FIELDS {
            // (too-long arrays, the known finding tuple-longer-than-target, appear only in the documents that probe it)
            let wanted = match probe { Some("unit") => matches!(*name, "us" | "un"), Some("wide") => matches!(*name, "big" | "ubig"), Some("long") => *name == "arr" || *name == "ts", _ => false };
            if !(wanted && rng.chance(2, 3)) && !rng.chance(1, 3) { continue; }
            let fit: BNode = match *name {
                "c" => BNode::Leaf(match rng.below(3) { 0 => BLeaf::Quoted(vec![b'a' + rng.below(26) as u8]), 1 => BLeaf::Unquoted(vec![b'A' + rng.below(26) as u8]), _ => BLeaf::Id(0x3200) }),
                "bb" | "by" | "raw" => strv(rng, false),
                "sv" => match rng.below(3) { 0 => BNode::Leaf(BLeaf::Id(0x3201)), _ => { let na = rng.chance(1, 4); strv(rng, na) } },
                "bs" | "cow" => { let na = rng.chance(1, 4); strv(rng, na) }
                "us" | "un" | "ig" => match rng.below(4) { 0 => i32v(rng), 1 => strv(rng, false), 2 => BNode::Arr(vec![i32v(rng), BNode::Obj(vec![])]), _ => BNode::Obj(vec![BField { ghosts: 0, key: BLeaf::Id(0x3200), val: i32v(rng) }]) },
                "nt" => i32v(rng),
                "ts" => BNode::Arr(vec![i32v(rng), strv(rng, false)]),
                "arr" => BNode::Arr(vec![i32v(rng), i32v(rng)]),
                "big" => BNode::Leaf(match rng.below(3) { 0 => BLeaf::I64(rng.next() as i64), 1 => BLeaf::I32(rng.next() as i32), _ => BLeaf::U64(rng.next()) }),
                "ubig" => BNode::Leaf(if rng.chance(1, 2) { BLeaf::U64(rng.next()) } else { BLeaf::U32(rng.next() as u32) }),
                "e1" => BNode::Leaf(if rng.chance(1, 2) { BLeaf::Id(variant_id("Unit")) } else { BLeaf::Quoted(b"Unit".to_vec()) }),
                "e2" => { let v = VARIANTS[rng.below(4)]; BNode::Leaf(if rng.chance(1, 2) { BLeaf::Id(variant_id(v)) } else { BLeaf::Unquoted(v.as_bytes().to_vec()) }) }
                "hv" => { let n = rng.below(3); BNode::Obj((0..n).map(|i| BField { ghosts: 0, key: if rng.chance(1, 2) { BLeaf::Id(0x3200 + i as u16) } else { BLeaf::Unquoted(vec![b'k', b'0' + i as u8]) }, val: BNode::Arr((0..rng.below(3)).map(|_| i32v(rng)).collect()) }).collect()) }
                "vv" => { let n = rng.below(4); BNode::Arr((0..n).map(|_| BNode::Arr((0..rng.below(3)).map(|_| i32v(rng)).collect())).collect()) }
                "hm" => { let n = rng.below(4); BNode::Obj((0..n).map(|i| BField { ghosts: if rng.chance(1, 8) { 1 } else { 0 }, key: BLeaf::Id(0x3000 + (i as u16) * 7 + rng.below(5) as u16), val: i32v(rng) }).collect()) }
                "ids" => { let n = rng.below(4); BNode::Arr((0..n).map(|_| BNode::Leaf(BLeaf::Id(0x2f00 + rng.below(0x400) as u16))).collect()) }
                "s" => match rng.below(3) { 0 => BNode::Leaf(BLeaf::Id(0x3201)), 1 => BNode::Leaf(BLeaf::Id(0x4444)), _ => { let na = rng.chance(1, 4); strv(rng, na) } },
                "x" => BNode::Leaf(BLeaf::F32(if rng.chance(1, 2) { ((rng.below(200000) as i32) - 100000).to_le_bytes() } else { (rng.below(1000) as f32 / 8.0).to_le_bytes() })),
                _ => BNode::Leaf(BLeaf::F64(if rng.chance(1, 2) { ((rng.next() as i64) >> 30).to_le_bytes() } else { (rng.below(100000) as f64 / 16.0).to_le_bytes() })),
            };
            let val = if probe == Some("long") && wanted {
                if *name == "arr" { BNode::Arr((0..3 + rng.below(2)).map(|_| i32v(rng)).collect()) } else { BNode::Arr(vec![i32v(rng), strv(rng, false), i32v(rng)]) }
            } else if misfits && rng.chance(1, 4) {
                match *name {
                    "arr" if rng.chance(1, 2) => BNode::Arr((0..rng.below(2)).map(|_| i32v(rng)).collect()),
                    "ts" if rng.chance(1, 2) => BNode::Arr(vec![i32v(rng)]),
                    _ => misfit(rng),
                }
            } else { fit };
            let k = key(rng, name);
            fields.push(BField { ghosts: 0, key: k, val });
        }
        if rng.chance(1, 6) { fields.push(BField { ghosts: 0, key: BLeaf::Unquoted(b"unknown".to_vec()), val: misfit(rng) }); }
        for i in (1..fields.len()).rev() { let j = rng.below(i + 1); fields.swap(i, j); }
        if fields.len() > 1 && rng.chance(1, 10) { let k = 1 + rng.below(fields.len() - 1); fields[k].ghosts = 1; }
        BDoc { fields }
    }
}

// ---------------------------------------------------------------------------------------
// exec

fn tok_count(obs: &mut Obs, raw: &[String]) {
    for t in raw { let k = t.split(':').next().unwrap_or(""); obs.count(&format!("tok:{}", k)); }
}

pub fn exec(w: &[&str], obs: &mut Obs) -> Option<String> {
    let case = || w.join(" ");
    match w {
        ["bde_tape", cfg, ty, tape, h] => {
            let (c, ty, data) = (parse_cfg(cfg)?, parse_root(ty)?, unhex(h)?);
            match BinaryTape::from_slice(&data) {
                Ok(t) => if show::bin_tape(t.tokens()) != *tape { return Some("stale-case".to_string()); },
                Err(_) => return Some("stale-case".to_string()),
            }
            let r = run_tape(&c, &ty, &data);
            obs.count(&format!("tape:{}", res_kind(&r)));
            Some(r)
        }
        ["bde_slice", cfg, ty, raw, h] => {
            let (c, ty, data) = (parse_cfg(cfg)?, parse_root(ty)?, unhex(h)?);
            let (toks, _) = raw_tokens(&data);
            if join(&toks) != *raw { return Some("stale-case".to_string()); }
            tok_count(obs, &toks);
            let r = run_slice(&c, &ty, &data);
            obs.count(&format!("slice:{}", res_kind(&r)));
            Some(r)
        }
        ["bde_stream", cfg, ty, raw, h, cap, sc] => {
            let (c, ty, data) = (parse_cfg(cfg)?, parse_root(ty)?, unhex(h)?);
            let (toks, _) = raw_tokens(&data);
            if join(&toks) != *raw { return Some("stale-case".to_string()); }
            let r = run_stream(&c, &ty, &data, cap.parse().ok()?, sched::parse(sc)?);
            obs.count(&format!("stream:{}", res_kind(&r)));
            Some(r)
        }
        ["bde_spec", cfg, ty, bd] => {
            let (c, ty, d) = (parse_cfg(cfg)?, parse_root(ty)?, parse_bdoc(bd)?);
            let (expect, kind) = value_and_kind(&c, &ty, &d);
            let expect = expect?;
            let data = render_bdoc(&d);
            // L3: the three real paths against the reference and each other, both resolver kinds, several buffers
            let (raw, big) = raw_tokens(&data);
            let need = max_token_len(&raw, big);
            let u16_probe = met_u16_on_id();
            let mismatches = std::cell::Cell::new(0usize);
            let mut check = |name: &str, got: String, obs: &mut Obs| {
                if got != expect {
                    mismatches.set(mismatches.get() + 1);
                    // probes of the known findings: only the tape path may disagree, under the finding's kind (rgb-in-array / leading-ghost-root)
                    match kind {
                        Some(k) if name == "tape" => { obs.violation(k, &case(), &format!("{} gives {} reference {}", name, got, expect)); }
                        _ => { obs.violation(&format!("c04-{}-ne-reference", name), &case(), &format!("{} gives {} reference {}", name, got, expect)); }
                    }
                }
            };
            for lines in 0..5u8 {
                let c2 = Cfg { lines, ..c.clone() };
                check("tape", run_tape(&c2, &ty, &data), obs);
                check("ondemand", run_slice(&c2, &ty, &data), obs);
                check("stream", run_stream(&c2, &ty, &data, 32 * 1024, vec![]), obs);
            }
            check("stream-tight", run_stream(&c, &ty, &data, need, vec![sched::Step::Repeat(1)]), obs);
            check("stream-mid", run_stream(&c, &ty, &data, need + 5, vec![sched::Step::Repeat(3)]), obs);
            drop(check);
            if u16_probe && kind.is_none() && mismatches.get() == 0 { obs.count("probe:u16-on-token-id-repaired:paths-agree"); }
            obs.count(&format!("spec:{}", res_kind(&expect)));
            features(&d.fields, 0, obs);
            match &ty { RootTy::Tok(_) => obs.count("rootty:token-struct"), RootTy::Plain(Ty::Map(_)) => obs.count("rootty:map"), RootTy::Plain(Ty::Struct(_)) => obs.count("rootty:struct"), _ => obs.count("rootty:other") }
            obs.count(match c.strat { FailedResolveStrategy::Error => "strategy:error", FailedResolveStrategy::Stringify => "strategy:stringify", FailedResolveStrategy::Ignore => "strategy:ignore" });
            Some(expect)
        }
        ["bde_toks", bd] => { let d = parse_bdoc(bd)?; Some(join(&raw_tokens(&render_bdoc(&d)).0)) }
        ["bde_tapeof", bd] => {
            let d = parse_bdoc(bd)?;
            Some(match BinaryTape::from_slice(&render_bdoc(&d)) { Ok(t) => show::bin_tape(t.tokens()), Err(_) => "err:parse".to_string() })
        }
        ["x-c04-mixed", cfg, ty, h] => {
            // an object that continues as a bare list of scalars: the sequential paths pair the trailing scalars as
            // `key value` (the `=` is optional there), the tape path presents the MixedContainer marker as a key
            // (Lean: Proofs/BinDeMixed.lean); a request that reads into the container sees different things
            let (c, ty, data) = (parse_cfg(cfg)?, parse_root(ty)?, unhex(h)?);
            let (t, sl, st) = (run_tape(&c, &ty, &data), run_slice(&c, &ty, &data), run_stream(&c, &ty, &data, 32 * 1024, vec![]));
            if sl != st { obs.violation("c04-mixed-seq-paths-disagree", &case(), &format!("on-demand {} stream {}", sl, st)); }
            if t != sl { obs.violation("mixed-container-paths-disagree", &case(), &format!("tape {} on-demand / stream {}", t, sl)); }
            else { obs.count("mixed:paths-agree"); }
            Some(format!("{} | {}", t, sl))
        }
        ["x-rare-bin", h] => {
            let data = unhex(h)?;
            Some(rare::run(&data, obs, &case))
        }
        ["x-c04-tup", cfg, h] => {
            let (c, data) = (parse_cfg(cfg)?, unhex(h)?);
            let v = real_all_paths::<real::TupS>(&c, &data, |t| format!("{:?}", t).replace(' ', ""));
            if v[0] != v[1] || v[1] != v[2] { obs.violation("c04-tuple-fields-paths-disagree", &case(), &format!("tape {} on-demand {} stream {}", v[0], v[1], v[2])); }
            obs.count(if v[1].starts_with("err") { "tup:err" } else { "tup:ok" });
            Some(v[1].clone())
        }
        ["x-c04-real", cfg, h] => {
            let (c, data) = (parse_cfg(cfg)?, unhex(h)?);
            let mut out = vec![];
            let mut cmp = |name: &str, ty: &str, real: [String; 3], obs: &mut Obs| {
                let ty = parse_root(ty).unwrap();
                let seed = [run_tape(&c, &ty, &data), run_slice(&c, &ty, &data), run_stream(&c, &ty, &data, 32 * 1024, vec![])];
                for i in 0..3 {
                    if real[i] != seed[i] { obs.violation("c04-tyseed-ne-real-struct", &case(), &format!("{} path {}: real {} tyseed {}", name, i, real[i], seed[i])); }
                }
                obs.count(&format!("real:{}:{}", name, res_kind(&real[1])));
                real[1].clone()
            };
            out.push(cmp("plain", TY_PLAIN, real_all_paths::<real::PlainS>(&c, &data, real_plain), obs));
            out.push(cmp("token", TY_TOK, real_all_paths::<real::TokS>(&c, &data, real_tok), obs));
            out.push(cmp("jomini", TY_JOM, real_all_paths::<real::JomS>(&c, &data, real_jom), obs));
            Some(out.join("|"))
        }
        _ => None,
    }
}

fn res_kind(r: &str) -> &str {
    if r.starts_with("err:missing") { "err:missing" } else if r.starts_with("err:duplicate") { "err:duplicate" } else if r.starts_with("err") { r } else { "ok" }
}

// ---------------------------------------------------------------------------------------
// gen

fn resolver_variants(rng: &mut Rng) -> Vec<(u16, String)> {
    let all: Vec<(u16, String)> = docgen::KEY_POOL.iter().map(|k| (docgen::key_id(k.as_bytes()).unwrap(), k.to_string())).collect();
    match rng.below(4) {
        0 => vec![],
        1 => all.into_iter().filter(|_| rng.chance(1, 2)).collect(),
        _ => all,
    }
}

fn gen_cfg(rng: &mut Rng) -> Cfg {
    let strat = *rng.pick(&[FailedResolveStrategy::Error, FailedResolveStrategy::Stringify, FailedResolveStrategy::Ignore]);
    Cfg { strat, lines: rng.below(5) as u8, entries: resolver_variants(rng) }
}

pub fn gen_bdoc(g: &mut Gen) -> BDoc {
    let dcfg = DocCfg::shared();
    let mut doc = docgen::gen_doc(&mut g.rng, &dcfg);
    // ghost objects in key position belong to well-formed binary documents
    if g.rng.chance(1, 4) { for f in doc.fields.iter_mut() { if g.rng.chance(1, 5) { f.ghosts = 1 + g.rng.below(2); } } }
    let bcfg = BinCfg { key_id_pct: *g.rng.pick(&[0, 50, 70, 100]), unquoted_pct: *g.rng.pick(&[0, 20, 50, 100]), ints_as: 0 };
    let mut r2 = g.rng.clone();
    let bytes = docgen::render_binary(&mut g.rng, &bcfg, &doc);
    let mut bd = to_bdoc(&mut r2, &bcfg, &doc);
    assert_eq!(render_bdoc(&bd), bytes, "to_bdoc/render_bdoc must agree with docgen::render_binary");
    // extras the shared generator has no notion of: token ids and F64 / I64 in value position
    if g.rng.chance(1, 3) { extras(&mut g.rng, &mut bd.fields); }
    // integer / date keys make every struct or map request fail on the key (serde field identifiers and
    // `String` know no signed integer): keep a few, turn the rest into strings or unsigned "index" keys
    rekey(&mut g.rng, &mut bd.fields);
    if g.rng.chance(1, 4) { odd_ids(&mut g.rng, &mut bd.fields); g.count("doc:with-unresolved-ids-whole-range"); }
    if bd.fields.is_empty() && g.rng.chance(4, 5) { return gen_bdoc(g); }
    bd
}

/// token ids across the whole u16 range (none of them known to any generated resolver; leading zeros in hex,
/// neighbours of the 13 lexeme ids, both ends), never one of the lexeme ids themselves
pub const ODD_IDS: [u16; 22] = [0x0002, 0x0005, 0x0006, 0x0007, 0x0008, 0x0009, 0x000a, 0x000b, 0x0010, 0x0013, 0x0015, 0x00ff, 0x0100, 0x0123,
    0x0166, 0x0242, 0x0316, 0x0fff, 0x1000, 0x1fff, 0x8000, 0xffff];

fn odd_id(rng: &mut Rng) -> u16 {
    let i = if rng.chance(3, 4) { *rng.pick(&ODD_IDS) } else { rng.below(0x10000) as u16 };
    if LexemeId(i).is_id() && docgen::id_name(i).is_none() { i } else { 0x0123 }
}

/// unresolved ids as keys and as values
fn odd_ids(rng: &mut Rng, fs: &mut Vec<BField>) {
    for f in fs.iter_mut() {
        if rng.chance(1, 4) { f.key = BLeaf::Id(odd_id(rng)); }
        match &mut f.val {
            BNode::Leaf(l) => if rng.chance(1, 4) { *l = BLeaf::Id(odd_id(rng)); },
            BNode::Obj(inner) => odd_ids(rng, inner),
            BNode::Arr(vs) => { for v in vs.iter_mut() { match v { BNode::Obj(inner) => odd_ids(rng, inner), BNode::Leaf(l) => if rng.chance(1, 6) { *l = BLeaf::Id(odd_id(rng)); }, _ => {} } } }
            _ => {}
        }
    }
}

fn rekey(rng: &mut Rng, fs: &mut Vec<BField>) {
    for f in fs.iter_mut() {
        if let BLeaf::I32(v) = f.key {
            match rng.below(10) {
                0 => {}
                1 | 2 => f.key = BLeaf::U32(rng.below(6) as u32),
                3 => f.key = BLeaf::U64(rng.below(4) as u64),
                _ => f.key = BLeaf::Unquoted(v.to_string().into_bytes()),
            }
        }
        match &mut f.val {
            BNode::Obj(inner) => rekey(rng, inner),
            BNode::Arr(vs) => { for v in vs.iter_mut() { if let BNode::Obj(inner) = v { rekey(rng, inner); } } }
            _ => {}
        }
    }
}

fn features(fs: &[BField], depth: usize, obs: &mut Obs) {
    obs.count(&format!("doc:depth{}", depth.min(5)));
    for f in fs {
        if f.ghosts > 0 { obs.count("doc:ghost"); }
        match &f.key { BLeaf::Id(_) => obs.count("doc:key-id"), BLeaf::Quoted(_) | BLeaf::Unquoted(_) => obs.count("doc:key-string"), _ => obs.count("doc:key-number") }
        match &f.val {
            BNode::Leaf(BLeaf::Id(_)) => obs.count("doc:value-id"),
            BNode::Leaf(_) => obs.count("doc:value-leaf"),
            BNode::Rgb(_, _, _, a) => obs.count(if a.is_some() { "doc:rgba" } else { "doc:rgb" }),
            BNode::Obj(inner) => { obs.count("doc:object"); features(inner, depth + 1, obs); }
            BNode::Arr(vs) => { obs.count(if vs.is_empty() { "doc:empty-container" } else { "doc:array" }); for v in vs { if let BNode::Obj(inner) = v { features(inner, depth + 1, obs); } } }
        }
    }
}

fn extras(rng: &mut Rng, fs: &mut Vec<BField>) {
    for f in fs.iter_mut() {
        match &mut f.val {
            BNode::Leaf(l) => {
                if rng.chance(1, 4) {
                    *l = match rng.below(4) {
                        0 => BLeaf::Id(0x2000 + 7 * rng.below(18) as u16),
                        1 => BLeaf::F64(((rng.next() as i64) >> rng.below(50)).to_le_bytes()),
                        2 => BLeaf::I64(rng.next() as i64 >> rng.below(60)),
                        _ => BLeaf::Id(rng.below(0x10000) as u16),
                    };
                    if let BLeaf::Id(i) = l { if !LexemeId(*i).is_id() { *l = BLeaf::Id(0x2000); } }
                }
            }
            BNode::Obj(inner) => extras(rng, inner),
            BNode::Arr(vs) => { for v in vs.iter_mut() { if let BNode::Obj(inner) = v { extras(rng, inner); } } }
            _ => {}
        }
    }
}

fn emit_paths(g: &mut Gen, c: &Cfg, ty: &RootTy, data: &[u8], slice_ok: bool) {
    let (raw, big) = raw_tokens(data);
    let raws = join(&raw);
    let (cs, ts, hx) = (show_cfg(c), show_root(ty), hex(data));
    if let Ok(t) = BinaryTape::from_slice(data) {
        g.emit(format!("bde_tape {} {} {} {}", cs, ts, show::bin_tape(t.tokens()), hx));
    } else { g.count("tape-parse-error"); }
    if slice_ok { g.emit(format!("bde_slice {} {} {} {}", cs, ts, raws, hx)); } else { g.count("slice-skipped:open-before-payload-lexeme"); }
    let need = max_token_len(&raw, big).max(if raw.last().map(|t| t == "Trunc").unwrap_or(false) { 48 } else { 0 });
    let cap = match g.rng.below(4) { 0 => need, 1 => need + g.rng.below(8), 2 => need + g.rng.below(64), _ => 32 * 1024 };
    let sc = sched::random(&mut g.rng, data.len());
    g.emit(format!("bde_stream {} {} {} {} {} {}", cs, ts, raws, hx, cap, sched::show(&sc)));
}

/// the on-demand path discards ONE lexeme id after an `Open` in key position; on raw lexemes that is exact
/// only when that lexeme carries no payload.  Sufficient syntactic guard used for ill-formed / ill-typed cases.
fn slice_token_level(raw: &[String]) -> bool {
    let payload_free = |t: &str| t == "Open" || t == "Close" || t == "Equal" || t.starts_with("Id:");
    raw.windows(2).all(|p| p[0] != "Open" || payload_free(&p[1]))
}

fn mutate_tokens(rng: &mut Rng, d: &BDoc) -> Vec<u8> {
    // token level mutations of a rendering: delete / duplicate / insert structural lexemes, truncate anywhere
    let data = render_bdoc(d);
    let (raw, _) = raw_tokens(&data);
    // byte offsets of lexeme starts
    let mut offs = vec![];
    { let mut lx = Lexer::new(&data); while !lx.remainder().is_empty() { offs.push(lx.position()); let Ok(id) = lx.read_id() else { break }; if lx.skip_value(if id == LexemeId::OPEN || id == LexemeId::RGB { LexemeId(0x2000) } else { id }).is_err() { break; } } }
    let _ = raw;
    offs.push(data.len());
    let mut out = data.clone();
    let n = 1 + rng.below(2);
    for _ in 0..n {
        if offs.len() < 2 { break; }
        let k = rng.below(offs.len() - 1);
        let (a, b) = (offs[k].min(out.len()), offs[k + 1].min(out.len()));
        match rng.below(6) {
            0 => { out.drain(a..b); }
            1 => { let seg: Vec<u8> = out[a..b].to_vec(); for (i, x) in seg.into_iter().enumerate() { out.insert(a + i, x); } }
            2 => { let t = *rng.pick(&[docgen::L_OPEN, docgen::L_CLOSE, docgen::L_EQUAL]); let bs = t.to_le_bytes(); out.insert(a, bs[1]); out.insert(a, bs[0]); }
            3 => { let p = rng.below(out.len() + 1); out.truncate(p); }
            4 => { out.truncate(a); }
            _ => { let bs = (0x2000u16 + 7 * rng.below(16) as u16).to_le_bytes(); out.insert(a, bs[1]); out.insert(a, bs[0]); }
        }
    }
    out
}

pub fn gen(g: &mut Gen) {
    // fixed corners first
    let c_all = Cfg { strat: FailedResolveStrategy::Error, lines: 0, entries: resolver_variants(&mut Rng(3)).into_iter().chain(docgen::KEY_POOL.iter().map(|k| (docgen::key_id(k.as_bytes()).unwrap(), k.to_string()))).collect() };
    for (ty, bd) in [
        ("st(a:i64)", "Id:8192=I32:5"),
        ("st(a:i64;b:opt(str))", "Id:8192=I64:-9;~~Q:62=U:6869"),
        ("map(any)", "Id:8192=I32:5;U:62=F32:dc050000;Q:6e616d65=Bool:1;Id:8199=F64:0080000000000000"),
        ("st(color:seq(any))", "Id:8276=Rgb:1.2.3"),
        ("st(color:seq(any))", "Id:8276=Rgb:1.2.3.4"),
        ("st(list:seq(i32))", "Id:8290=A(I32:1;I32:2;I32:3)"),
        ("st(unit:st(x:u32))", "Id:8248=O(Id:8255=U32:7;Id:8262=A(A();A(I32:1)))"),
        ("st(a:i64)", "Id:8192=I32:5;Id:8192=I32:6"),
        ("st(a:i64;zz:i64)", "Id:8192=I32:5"),
        ("tst(a#8192:i64;name#8206:str)", "Id:8192=I32:5;Id:8206=Q:656e67"),
        ("st(a:f32;b:f64)", "Id:8192=I32:16777217;Id:8199=U64:18446744073709551615"),
        // probes of the known findings
        ("st(flags:seq(ign))", "Id:8227=A(I32:0;Rgb:1.2.3;F32:dc050000)"),
        ("st(flags:seq(any);a:i64)", "Id:8227=A(Rgb:9.8.7.6);Id:8192=I32:1"),
        ("st(a:i64)", "~Id:8192=I32:5"),
    ] {
        for strat in ["E", "S", "I"] {
            for e in [show_cfg(&c_all).splitn(3, '/').nth(2).unwrap().to_string(), "-".to_string()] {
                g.emit(format!("bde_spec {}/H/{} {} {}", strat, e, ty, bd));
            }
        }
        g.emit(format!("bde_toks {}", bd));
        g.emit(format!("bde_tapeof {}", bd));
    }
    // every odd id as a key and as a value, all strategies, resolver knowing none / the pool
    for id in ODD_IDS {
        for strat in [FailedResolveStrategy::Error, FailedResolveStrategy::Stringify, FailedResolveStrategy::Ignore] {
            let c = Cfg { strat, lines: (id % 5) as u8, entries: if id % 3 == 0 { vec![] } else { c_all.entries.clone() } };
            let bd = BDoc { fields: vec![
                BField { ghosts: 0, key: BLeaf::Id(id), val: BNode::Leaf(BLeaf::Id(id)) },
                BField { ghosts: 0, key: BLeaf::Id(0x2000), val: BNode::Arr(vec![BNode::Leaf(BLeaf::Id(id)), BNode::Leaf(BLeaf::I32(1))]) } ] };
            for ty in [RootTy::Plain(Ty::Map(Box::new(Ty::Any))), RootTy::Plain(Ty::Struct(vec![(format!("0x{:x}", id), Ty::Str), ("a".to_string(), Ty::Seq(Box::new(Ty::Any)))]))] {
                g.emit(format!("bde_spec {} {} {}", show_cfg(&c), show_root(&ty), show_bdoc(&bd)));
                emit_paths(g, &c, &ty, &render_bdoc(&bd), true);
            }
        }
    }
    g.count("fixed-corners");

    // 1. well-formed documents x resolver x strategy x fitting types: all three paths + reference
    let n = g.budget(2500, 60_000);
    for _ in 0..n {
        let bd = gen_bdoc(g);
        let data = render_bdoc(&bd);
        let bds = show_bdoc(&bd);
        if g.rng.chance(1, 6) { g.emit(format!("bde_toks {}", bds)); g.emit(format!("bde_tapeof {}", bds)); }
        let k = 1 + g.rng.below(2);
        for _ in 0..k {
            let c = gen_cfg(&mut g.rng);
            let ty = gen_root_ty(&mut g.rng, &bd);
            let (val, kind) = value_and_kind(&c, &ty, &bd);
            let fits = val.is_some();
            if let (true, Some(k)) = (fits, kind) {
                // known findings are probed with a small number of cases per run (reported under their own kind)
                let key = format!("probe:{}", k);
                if g.hist.get(&key).copied().unwrap_or(0) < 15 { g.emit(format!("bde_spec {} {} {}", show_cfg(&c), show_root(&ty), bds)); g.count(&key); }
            } else if fits {
                g.emit(format!("bde_spec {} {} {}", show_cfg(&c), show_root(&ty), bds));
                g.count("wellformed:fitting-type");
                if met_u16_on_id() { g.count("probe:u16-on-token-id-repaired"); }
            } else { g.count("wellformed:no-claim-type"); }
            let (raw, _) = raw_tokens(&data);
            emit_paths(g, &c, &ty, &data, fits || slice_token_level(&raw));
        }
        if g.rng.chance(1, 10) { let c = gen_cfg(&mut g.rng); g.emit(format!("x-c04-real {} {}", show_cfg(&c), hex(&data))); }
    }
    // documents shaped for the fixed real structs
    let m = g.budget(400, 8000);
    for _ in 0..m {
        let bd = gen_real_doc(&mut g.rng);
        let c = gen_cfg(&mut g.rng);
        g.emit(format!("x-c04-real {} {}", show_cfg(&c), hex(&render_bdoc(&bd))));
    }
    g.count("real-struct-docs");
    let mt = g.budget(400, 8000);
    for i in 0..mt {
        let mut bd = gen_tup_doc(&mut g.rng);
        if i > 0 { if let Some(f) = bd.fields.first_mut() { f.ghosts = 0; } }
        let c = gen_cfg(&mut g.rng);
        g.emit(format!("x-c04-tup {} {}", show_cfg(&c), hex(&render_bdoc(&bd))));
    }
    g.count("tuple-struct-docs");
    // object -> array mixed containers: model fidelity per path (bde_ lines) and the cross-path difference (known finding)
    for i in 0..12usize {
        let mut data = vec![];
        let mut leaf = |l: BLeaf, out: &mut Vec<u8>| render_leaf(&l, out);
        leaf(BLeaf::Unquoted(b"a".to_vec()), &mut data); w16(&mut data, docgen::L_EQUAL); w16(&mut data, docgen::L_OPEN);
        leaf(BLeaf::Unquoted(b"b".to_vec()), &mut data); w16(&mut data, docgen::L_EQUAL); leaf(BLeaf::I32(1 + i as i32), &mut data);
        let ntail = 1 + i % 4;
        for j in 0..ntail {
            if j % 2 == 0 { leaf(if i % 3 == 0 { BLeaf::Id(0x2000 + 7 * j as u16) } else { BLeaf::Unquoted(vec![b'c' + j as u8]) }, &mut data); }
            else { leaf(BLeaf::I32(10 + j as i32), &mut data); }
        }
        w16(&mut data, docgen::L_CLOSE);
        let c = gen_cfg(&mut g.rng);
        let tys = ["map(map(i32))", "map(map(any))", "st(a:st(b:i32;c:opt(any)))", "map(ign)", "st(a:any)"];
        let ty = parse_root(tys[i % tys.len()]).unwrap();
        g.emit(format!("x-c04-mixed {} {} {}", show_cfg(&c), show_root(&ty), hex(&data)));
        emit_paths(g, &c, &ty, &data, true);
        g.count("probe:mixed-container");
    }
    // rarely used real target types x resolver kinds x flavors (implementation-only)
    let mr = g.budget(250, 5000);
    for i in 0..mr {
        // a few documents per run aim at the known finding tuple-longer-than-target (reported under its exact kind) and at
        // the two repaired ones (regression probes: unit targets, i128 / u128 targets)
        let probe = if i < 36 { Some(["unit", "wide", "long"][i % 3]) } else { None };
        let bd = rare::gen_doc(&mut g.rng, probe.is_none() && i % 3 == 2, probe);
        let mut bytes = render_bdoc(&bd);
        // some documents cut short at a random byte (every path must fail, or all accept a cut at a root field boundary)
        let cut = probe.is_none() && i % 7 == 3 && bytes.len() > 2;
        if cut { let n = 1 + g.rng.below(bytes.len() - 1); bytes.truncate(n); g.count("rare-types:truncated"); }
        g.emit(format!("x-rare-bin {}", hex(&bytes)));
        g.count(&match probe { Some(p) => format!("probe:rare-{}", p), None => (if i % 3 == 2 { "rare-types:with-scalar-misfits" } else { "rare-types:fitting" }).to_string() });
    }

    // narrow integer targets x every value token kind
    let n4 = g.budget(800, 15_000);
    for _ in 0..n4 {
        let (bd, ty) = gen_narrow_case(&mut g.rng);
        let c = gen_cfg(&mut g.rng);
        let ty = RootTy::Plain(ty);
        let (val, kind) = value_and_kind(&c, &ty, &bd);
        if val.is_some() {
            match kind {
                Some(k) => { let key = format!("probe:{}", k); if g.hist.get(&key).copied().unwrap_or(0) < 15 { g.emit(format!("bde_spec {} {} {}", show_cfg(&c), show_root(&ty), show_bdoc(&bd))); g.count(&key); } }
                None => { g.emit(format!("bde_spec {} {} {}", show_cfg(&c), show_root(&ty), show_bdoc(&bd))); g.count("narrow:claimed"); if met_u16_on_id() { g.count("probe:u16-on-token-id-repaired"); } }
            }
        } else { g.count("narrow:no-claim"); }
        emit_paths(g, &c, &ty, &render_bdoc(&bd), true);
    }

    // 2. well-formed documents x types drawn blind (model fidelity; no cross-path claim)
    let n2 = g.budget(1500, 30_000);
    for _ in 0..n2 {
        let bd = gen_bdoc(g);
        let data = render_bdoc(&bd);
        let c = gen_cfg(&mut g.rng);
        let ty = match gen_wild_ty(&mut g.rng, 0) { t @ (Ty::Map(_) | Ty::Struct(_)) => t, t => if g.rng.chance(1, 10) { t } else { Ty::Map(Box::new(t)) } };
        let (raw, _) = raw_tokens(&data);
        emit_paths(g, &c, &RootTy::Plain(ty), &data, slice_token_level(&raw));
        g.count("wellformed:blind-type");
    }

    // 3. ill-formed token streams (mutations, truncation) x fitting and blind types
    let n3 = g.budget(2000, 40_000);
    for _ in 0..n3 {
        let bd = gen_bdoc(g);
        let data = mutate_tokens(&mut g.rng, &bd);
        let c = gen_cfg(&mut g.rng);
        let ty = if g.rng.chance(2, 3) { gen_root_ty(&mut g.rng, &bd) } else { RootTy::Plain(Ty::Map(Box::new(gen_wild_ty(&mut g.rng, 1)))) };
        let (raw, _) = raw_tokens(&data);
        emit_paths(g, &c, &ty, &data, slice_token_level(&raw));
        g.count("illformed:mutated");
    }
}

/// narrow integer targets over every value token kind: small magnitudes, the range edges of u8/i8/u16/i16 and
/// the numeric values of lexeme ids (an I64 lexeme is 0x0317 = 791)
fn gen_narrow_case(rng: &mut Rng) -> (BDoc, Ty) {
    const VALS: [i64; 22] = [0, 1, 12, 127, 128, 255, 256, 579, 668, 791, 32767, 32768, 65535, 65536, -1, -128, -129, -32768, -32769, 8192, 3, 4];
    let mut names: Vec<&str> = docgen::KEY_POOL.to_vec();
    for i in (1..names.len()).rev() { let j = rng.below(i + 1); names.swap(i, j); }
    let n = 1 + rng.below(6);
    let mut fs = vec![];
    let mut decl = vec![];
    for name in names.into_iter().take(n) {
        let v = *rng.pick(&VALS);
        let leaf = match rng.below(11) {
            0 | 1 => BLeaf::I64(v),
            2 => match i32::try_from(v) { Ok(x) => BLeaf::I32(x), Err(_) => BLeaf::I64(v) },
            3 => BLeaf::U32(v.unsigned_abs() as u32),
            4 => BLeaf::U64(v.unsigned_abs()),
            5 => BLeaf::F32((v as i32).wrapping_mul(1000).to_le_bytes()),
            6 => BLeaf::F64((v * 32768).to_le_bytes()),
            7 => BLeaf::Bool(v & 1 == 1),
            8 => BLeaf::Quoted(v.to_string().into_bytes()),
            9 => BLeaf::Id(docgen::key_id(name.as_bytes()).unwrap()),
            _ => BLeaf::Id(odd_id(rng)),
        };
        let key = if rng.chance(1, 2) { BLeaf::Id(docgen::key_id(name.as_bytes()).unwrap()) } else { BLeaf::Unquoted(name.as_bytes().to_vec()) };
        let t = rng.pick(&[Ty::U16, Ty::U16, Ty::I16, Ty::U8, Ty::I8]).clone();
        decl.push((name.to_string(), if rng.chance(1, 8) { Ty::Opt(Box::new(t)) } else { t }));
        fs.push(BField { ghosts: 0, key, val: BNode::Leaf(leaf) });
    }
    (BDoc { fields: fs }, Ty::Struct(decl))
}

fn gen_tup_doc(rng: &mut Rng) -> BDoc {
    fn key(rng: &mut Rng, n: &str) -> BLeaf { if rng.chance(2, 3) { BLeaf::Id(docgen::key_id(n.as_bytes()).unwrap()) } else { BLeaf::Unquoted(n.as_bytes().to_vec()) } }
    fn int(rng: &mut Rng) -> BNode { let sh = rng.below(31); BNode::Leaf(BLeaf::I32(rng.next() as i32 >> sh)) }
    fn ints(rng: &mut Rng, n: usize) -> BNode { BNode::Arr((0..n).map(|_| int(rng)).collect()) }
    let mut vals: Vec<(&str, BNode)> = vec![("a", ints(rng, 2)), ("name", BNode::Leaf(BLeaf::Quoted(b"nm".to_vec()))), ("b", ints(rng, 2))];
    let sh = rng.below(32);
    vals.push(("id", BNode::Leaf(BLeaf::U32(rng.next() as u32 >> sh))));
    vals.push(("core", if rng.chance(1, 2) { int(rng) } else { BNode::Leaf(BLeaf::I64(rng.next() as i64 >> 20)) }));
    vals.push(("x", int(rng)));
    if rng.chance(1, 2) {
        let mut inner: Vec<(&str, BNode)> = vec![("a", ints(rng, 2)), ("b", int(rng)), ("list", ints(rng, 3)), ("x", int(rng))];
        for i in (1..inner.len()).rev() { let j = rng.below(i + 1); inner.swap(i, j); }
        let fs = inner.into_iter().map(|(n, v)| { let k = key(rng, n); BField { ghosts: 0, key: k, val: v } }).collect();
        vals.push(("unit", BNode::Obj(fs)));
    }
    if rng.chance(1, 2) { vals.push(("y", int(rng))); }
    for i in (1..vals.len()).rev() { let j = rng.below(i + 1); vals.swap(i, j); }
    BDoc { fields: vals.into_iter().map(|(n, v)| { let k = key(rng, n); BField { ghosts: if rng.chance(1, 15) { 1 } else { 0 }, key: k, val: v } }).collect() }
}

fn gen_real_doc(rng: &mut Rng) -> BDoc {
    fn key(rng: &mut Rng, n: &str) -> BLeaf { if rng.chance(2, 3) { BLeaf::Id(docgen::key_id(n.as_bytes()).unwrap()) } else { BLeaf::Unquoted(n.as_bytes().to_vec()) } }
    fn s(rng: &mut Rng) -> BNode { let n = rng.below(6); BNode::Leaf(BLeaf::Quoted((0..n).map(|_| b'a' + rng.below(26) as u8).collect())) }
    let mut vals: Vec<(&str, BNode)> = vec![];
    let a = if rng.chance(1, 2) { BLeaf::I32(rng.next() as i32) } else { let sh = rng.below(40); BLeaf::I64(rng.next() as i64 >> sh) };
    vals.push(("a", BNode::Leaf(a)));
    let nm = s(rng);
    vals.push(("name", nm));
    let nfl = rng.below(4);
    let fl: Vec<BNode> = (0..nfl).map(|_| s(rng)).collect();
    vals.push(("flags", BNode::Arr(fl)));
    if rng.chance(1, 2) {
        let kx = key(rng, "x");
        let mut inner = vec![BField { ghosts: 0, key: kx, val: BNode::Leaf(BLeaf::I32(rng.next() as i32 >> 8)) }];
        if rng.chance(1, 2) { let ky = key(rng, "y"); inner.push(BField { ghosts: 0, key: ky, val: BNode::Leaf(BLeaf::U32(rng.next() as u32)) }); }
        if rng.chance(1, 3) { let kz = key(rng, "zz_long_key_name"); inner.push(BField { ghosts: 0, key: kz, val: BNode::Arr(vec![BNode::Arr(vec![]), BNode::Leaf(BLeaf::Bool(true))]) }); }
        vals.push(("unit", BNode::Obj(inner)));
    }
    if rng.chance(1, 2) { let b = rng.chance(1, 2); vals.push(("core", BNode::Leaf(BLeaf::Bool(b)))); }
    let sh = rng.below(32);
    vals.push(("id", BNode::Leaf(BLeaf::U32(rng.next() as u32 >> sh))));
    vals.push(("x", BNode::Leaf(BLeaf::F32(((rng.next() % 2_000_001) as i32 - 1_000_000).to_le_bytes()))));
    if rng.chance(1, 2) { let sh = rng.below(50); vals.push(("y", BNode::Leaf(BLeaf::F64((rng.next() as i64 >> sh).to_le_bytes())))); }
    let nl = rng.below(5);
    let li: Vec<BNode> = (0..nl).map(|_| { let sh = rng.below(31); BNode::Leaf(BLeaf::I32(rng.next() as i32 >> sh)) }).collect();
    vals.push(("list", BNode::Arr(li)));
    if rng.chance(1, 8) { vals.push(("a", BNode::Leaf(BLeaf::I32(1)))); }
    if rng.chance(1, 4) { vals.push(("color", BNode::Rgb(1, 2, 3, None))); }
    let mut fs = vec![];
    for (n, v) in vals {
        if rng.chance(1, 10) { continue; }
        let ghosts = if rng.chance(1, 12) { 1 } else { 0 };
        let k = key(rng, n);
        fs.push(BField { ghosts, key: k, val: v });
    }
    for i in (1..fs.len()).rev() { let j = rng.below(i + 1); fs.swap(i, j); }
    BDoc { fields: fs }
}

pub fn tables() -> String {
    // Windows-1252 code page as the compiled decoder has it (bytes 0x80..=0xFF -> code points)
    let mut cps = vec![];
    for b in 0x80u16..=0xff {
        let s = Windows1252Encoding::decode(&[b as u8]).into_owned();
        cps.push(s.chars().next().map(|c| c as u32).unwrap_or(0xfffd).to_string());
    }
    format!("/-- Windows-1252 code points of the bytes 0x80..0xFF, measured through `Windows1252Encoding::decode` -/\ndef binDeWin1252High : List Nat := [{}]\n\n", cps.join(", "))
}
