//! C02 — text deserialization returns the document's values on both parse paths.
//!
//! ops (the model answers both; trailing arguments after the token list are for replay / oracles
//! and are ignored by the model):
//!   tde_tape   <enc> <ty> <tape>    <hex> <expect>
//!   tde_stream <enc> <ty> <rtokens> <hex> <cap> <sched> <expect>
//!   tde_wft <tape> <hex>            the structural hypothesis `WfT` of the totality theorem holds for the real tape
//!   x-tde_stream …   same, for inputs where the token-level stream model is not applicable
//!                    (byte-level skip_container / read_expect_equals differ from token-level reading)
//!   spec_doc <enc> <ty> <doc> <hex> the Lean SPEC on the abstract document (valueOf | lexemes | tapeOf) against the
//!                                   real deserializer / reader / tape parser on its canonical rendering <hex>
//!   x-derive <which> <enc> <hex>    real derived structs against TySeed on the same input
//!   x-probe <kind> <enc> <ty> <hex> known divergences, observed and counted
//! enc = w1252 | utf8.  <tape> = show::text_tape of the REAL tape of <hex>; <rtokens> = the REAL
//! TokenReader::from_slice tokens of <hex> (show::text_lex_tok, plus a final `Err` when the lexer failed).
//! <expect> = value computed from the abstract document by `value_of` (independent reference), `-` = none.
//! result = Val rendering of tyseed.rs or its error class.
use crate::common::*;
use crate::docgen::*;
use crate::sched;
use crate::show;
use crate::tyseed::*;
use jomini::text::{Token, TokenReader};
use jomini::{TextDeserializer, TextTape};
use serde::de::DeserializeSeed;
use std::io::Read;

#[derive(Clone, Copy, PartialEq, Debug)]
enum Enc { W, U }
impl Enc {
    fn name(self) -> &'static str { match self { Enc::W => "w1252", Enc::U => "utf8" } }
    fn parse(s: &str) -> Option<Enc> { match s { "w1252" => Some(Enc::W), "utf8" => Some(Enc::U), _ => None } }
}

// ---------------------------------------------------------------------------------------
// running the real code

fn cls<E: std::fmt::Display>(r: Result<String, E>) -> String {
    match r { Ok(v) => v, Err(e) => err_class(&e.to_string()) }
}

fn run_tape(enc: Enc, ty: &Ty, tape: &TextTape) -> String {
    match enc {
        Enc::W => cls(TySeed(ty).deserialize(&TextDeserializer::from_windows1252_tape(tape))),
        Enc::U => cls(TySeed(ty).deserialize(&TextDeserializer::from_utf8_tape(tape))),
    }
}

fn run_slice(enc: Enc, ty: &Ty, data: &[u8]) -> String {
    match enc {
        Enc::W => match TextDeserializer::from_windows1252_slice(data) { Ok(de) => cls(TySeed(ty).deserialize(&de)), Err(_) => "err:parse".into() },
        Enc::U => match TextDeserializer::from_utf8_slice(data) { Ok(de) => cls(TySeed(ty).deserialize(&de)), Err(_) => "err:parse".into() },
    }
}

/// (result, error was BufferFull)
fn run_reader<R: Read>(enc: Enc, ty: &Ty, rdr: TokenReader<R>) -> (String, bool) {
    let r = match enc {
        Enc::W => { let mut de = TextDeserializer::from_windows1252_reader(rdr); TySeed(ty).deserialize(&mut de) }
        Enc::U => { let mut de = TextDeserializer::from_utf8_reader(rdr); TySeed(ty).deserialize(&mut de) }
    };
    match r {
        Ok(v) => (v, false),
        Err(e) => { let m = e.to_string(); (err_class(&m), m.contains("max buffer size")) }
    }
}

struct Lexed { toks: Vec<String>, ends: Vec<usize>, kinds: Vec<u8>, err: bool }
const K_OPEN: u8 = 0; const K_CLOSE: u8 = 1; const K_OTHER: u8 = 2; const K_EXACT: u8 = 3;

/// the real slice reader's token stream with the end position of every token
fn lex(data: &[u8]) -> Lexed {
    let mut r = TokenReader::from_slice(data);
    let mut out = Lexed { toks: vec![], ends: vec![], kinds: vec![], err: false };
    loop {
        let step = match r.next() {
            Ok(Some(t)) => {
                let k = match t { Token::Open => K_OPEN, Token::Close => K_CLOSE, Token::Operator(jomini::text::Operator::Exact) => K_EXACT, _ => K_OTHER };
                Some((show::text_lex_tok(&t), k))
            }
            Ok(None) => None,
            Err(_) => { out.err = true; None }
        };
        match step {
            Some((s, k)) => { out.toks.push(s); out.kinds.push(k); out.ends.push(r.position()); }
            None => break,
        }
        if out.toks.len() > 100_000 { break; }
    }
    out
}

fn show_lexed(l: &Lexed) -> String {
    let mut v = l.toks.clone();
    if l.err { v.push("Err".to_string()); }
    if v.is_empty() { "-".to_string() } else { v.join(",") }
}

/// Is the token-level stream model applicable?  The streaming deserializer touches bytes in
/// `skip_container` (a byte scanner; `read_expect_equals` peeks bytes too but, since the repair of
/// finding `exact-operator-split`, agrees with `read`).  The token-level model is exact when every
/// byte-level skip started after an Open lands right after the token-level matching Close (or fails
/// when there is none).
fn token_model_applicable(data: &[u8], l: &Lexed) -> Result<(), &'static str> {
    for i in 0..l.toks.len() {
        if l.kinds[i] == K_OPEN {
            let mut depth = 1usize;
            let mut expect = None;
            for j in i + 1..l.toks.len() {
                if l.kinds[j] == K_OPEN { depth += 1; }
                if l.kinds[j] == K_CLOSE { depth -= 1; if depth == 0 { expect = Some(l.ends[j]); break; } }
            }
            let p = l.ends[i];
            let mut r = TokenReader::from_slice(&data[p..]);
            let got = match r.skip_container() { Ok(()) => Some(p + r.position()), Err(_) => None };
            if got != expect { return Err("skip-differs"); }
        }
    }
    Ok(())
}

// ---------------------------------------------------------------------------------------
// independent reference: the value a (type, abstract document) pair denotes

fn w1252_char(b: u8) -> char {
    const HI: [u16; 32] = [0x20ac, 0x81, 0x201a, 0x0192, 0x201e, 0x2026, 0x2020, 0x2021, 0x02c6, 0x2030, 0x0160, 0x2039, 0x0152, 0x8d, 0x017d, 0x8f,
                           0x90, 0x2018, 0x2019, 0x201c, 0x201d, 0x2022, 0x2013, 0x2014, 0x02dc, 0x2122, 0x0161, 0x203a, 0x0153, 0x9d, 0x017e, 0x0178];
    if (0x80..0xa0).contains(&b) { char::from_u32(HI[(b - 0x80) as usize] as u32).unwrap() } else { b as char }
}

/// strings: trailing ASCII whitespace dropped, backslashes deleted, then the chosen encoding
fn decode_ref(enc: Enc, raw: &[u8]) -> Vec<u8> {
    let mut d = raw;
    while let [rest @ .., last] = d { if matches!(last, b' ' | b'\t' | b'\n' | b'\r' | 0x0c) { d = rest } else { break } }
    let body: Vec<u8> = d.iter().copied().filter(|b| *b != b'\\').collect();
    match enc {
        Enc::W => body.iter().map(|b| w1252_char(*b)).collect::<String>().into_bytes(),
        Enc::U => String::from_utf8_lossy(&body).into_owned().into_bytes(),
    }
}

/// (negative, magnitude) of `[+-]?digits+`
fn ref_int(d: &[u8]) -> Option<(bool, u128)> {
    let (neg, body) = match d.first()? { b'+' => (false, &d[1..]), b'-' => (true, &d[1..]), _ => (false, d) };
    if body.is_empty() || body.len() > 30 || !body.iter().all(|b| b.is_ascii_digit()) { return None; }
    Some((neg, body.iter().fold(0u128, |a, b| a * 10 + (*b - b'0') as u128)))
}

thread_local! {
    /// decimal leaves met with a typed float target while computing an expectation (drained into the histogram)
    static FLOAT_HITS: std::cell::RefCell<Vec<String>> = std::cell::RefCell::new(Vec::new());
}

/// `-?digits.digits` → (number of fraction digits, all digits read as one integer; saturating)
fn decimal_text(t: &[u8]) -> Option<(usize, u128)> {
    let body = if t.first() == Some(&b'-') { &t[1..] } else { t };
    let dot = body.iter().position(|b| *b == b'.')?;
    let (a, b) = (&body[..dot], &body[dot + 1..]);
    if a.is_empty() || b.is_empty() || !a.iter().chain(b.iter()).all(|c| c.is_ascii_digit()) { return None; }
    let digits = a.iter().chain(b.iter()).fold(0u128, |acc, c| acc.saturating_mul(10).saturating_add((*c - b'0') as u128));
    Some((b.len(), digits))
}

/// result against expectation; `f~<bits>` / `g~<bits>` in the expectation accept 2 ulp (f64) / 1 ulp (f32)
fn matches_expect(r: &str, e: &str) -> bool {
    if !e.contains('~') { return r == e; }
    let (rb, eb) = (r.as_bytes(), e.as_bytes());
    let (mut i, mut j) = (0usize, 0usize);
    while j < eb.len() {
        if j + 1 < eb.len() && (eb[j] == b'f' || eb[j] == b'g') && eb[j + 1] == b'~' {
            if i >= rb.len() || rb[i] != eb[j] { return false; }
            let num = |s: &[u8], mut k: usize| -> (u64, usize) { let mut v: u64 = 0; while k < s.len() && s[k].is_ascii_digit() { v = v.wrapping_mul(10).wrapping_add((s[k] - b'0') as u64); k += 1; } (v, k) };
            let (ev, j2) = num(eb, j + 2);
            let (rv, i2) = num(rb, i + 1);
            if i2 == i + 1 { return false; }
            // same sign, finite: neighbouring bit patterns are neighbouring values
            let tol = if eb[j] == b'f' { 2 } else { 1 };
            if ev.abs_diff(rv) > tol { return false; }
            i = i2; j = j2;
        } else {
            if i >= rb.len() || rb[i] != eb[j] { return false; }
            i += 1; j += 1;
        }
    }
    i == rb.len()
}

fn raw_bytes(l: &Leaf) -> Vec<u8> {
    match l { Leaf::Quo(b) => b.clone(), other => leaf_text(other).0 }
}

fn value_of_leaf(enc: Enc, ty: &Ty, l: &Leaf) -> Option<String> {
    let text = raw_bytes(l);
    let ty_err = Some("err:type".to_string());
    match ty {
        Ty::Bool => Some(if text == b"yes" { "b1".into() } else if text == b"no" { "b0".into() } else { return ty_err }),
        Ty::I64 | Ty::I32 => {
            let foreign = text.iter().any(|b| !b.is_ascii_digit() && *b != b'+' && *b != b'-');
            let (neg, m) = match ref_int(&text) { Some(x) => x, None => return if foreign { ty_err } else { None } };
            if m > i64::MAX as u128 && !(neg && m == 1u128 << 63) { return ty_err; }
            let v = if neg { (-(m as i128)) as i64 } else { m as i64 };
            if *ty == Ty::I32 && i32::try_from(v).is_err() { return ty_err; }
            Some(format!("i{}", v))
        }
        Ty::U64 | Ty::U32 => {
            let foreign = text.iter().any(|b| !b.is_ascii_digit() && *b != b'+' && *b != b'-');
            let (neg, m) = match ref_int(&text) { Some(x) => x, None => return if foreign { ty_err } else { None } };
            if neg { return ty_err; }
            if m > u64::MAX as u128 { return ty_err; }
            if *ty == Ty::U32 && m > u32::MAX as u128 { return ty_err; }
            Some(format!("u{}", m))
        }
        Ty::F64 | Ty::F32 => {
            // decimal meaning through Rust's correctly rounded `str::parse::<f64>` (never the crate's own
            // conversion): bit-equal when the digits read as an integer are < 2^53, within 2 ulp otherwise
            // (marked `f~` / `g~`); no expectation when the digits do not fit a u64 (the crate may refuse)
            let exact = match l {
                Leaf::Int(i) => { if i.unsigned_abs() >= (1 << 53) { return None; } true }
                Leaf::Uint(u) => { if *u >= (1 << 53) { return None; } true }
                Leaf::Fixed(_) => true,
                Leaf::Unq(_) => {
                    let (k, digits) = decimal_text(&text)?;
                    if digits > u64::MAX as u128 { return None; }
                    FLOAT_HITS.with(|h| h.borrow_mut().push(format!("float-target:{}:frac-digits={:02}:{}", if *ty == Ty::F64 { "f64" } else { "f32" }, k, if digits < (1u128 << 53) { "bit-exact" } else { "2ulp" })));
                    digits < (1u128 << 53)
                }
                _ => return None,
            };
            let v: f64 = std::str::from_utf8(&text).ok()?.parse().ok()?;
            if v == 0.0 && text.first() == Some(&b'-') { return None; }
            let mark = if exact { "" } else { "~" };
            Some(if *ty == Ty::F64 { format!("f{}{}", mark, v.to_bits()) } else { format!("g{}{}", mark, (v as f32).to_bits()) })
        }
        Ty::Str | Ty::Any => Some(format!("s{}", hex(&decode_ref(enc, &text)))),
        Ty::Ign => Some("ign".into()),
        Ty::Opt(t) => value_of_leaf(enc, t, l).map(|v| if v.starts_with("err") { v } else { format!("some({})", v) }),
        Ty::Enum(vs) => {
            let name = decode_ref(enc, &text);
            Some(if vs.iter().any(|v| v.as_bytes() == &name[..]) { format!("en({})", hex(&name)) } else { "err:other".into() })
        }
        _ => None,
    }
}

fn is_err(v: &str) -> bool { v.starts_with("err") }

/// number of sequence elements a node occupies (a header and its body are two values)
fn arr_units(n: &Node) -> usize { match n { Node::Header(..) | Node::Rgb(..) => 2, _ => 1 } }

fn value_of_fields(enc: Enc, ty: &Ty, fs: &[Field]) -> Option<String> {
    if fs.iter().any(|f| f.ghosts > 0 || f.implicit_eq) { return None; }
    match ty {
        Ty::Struct(decl) => {
            let mut slots: Vec<Option<String>> = vec![None; decl.len()];
            for f in fs {
                let key = decode_ref(enc, &raw_bytes(&f.key));
                match decl.iter().position(|(n, _)| n.as_bytes() == &key[..]) {
                    Some(i) => {
                        if slots[i].is_some() { return Some(format!("err:duplicate:{}", decl[i].0)); }
                        let v = value_of_node(enc, &decl[i].1, &f.val, Some(f.op))?;
                        if is_err(&v) { return Some(v); }
                        slots[i] = Some(v);
                    }
                    None => {}
                }
            }
            let mut items = vec![];
            for (i, (name, t)) in decl.iter().enumerate() {
                let v = match slots[i].take() { Some(v) => v, None => match t { Ty::Opt(_) => "none".to_string(), _ => return Some(format!("err:missing:{}", name)) } };
                items.push(format!("{}={}", name, v));
            }
            Some(format!("{{{}}}", items.join(",")))
        }
        Ty::Map(t) => {
            let mut items = vec![];
            for f in fs {
                let k = format!("s{}", hex(&decode_ref(enc, &raw_bytes(&f.key))));
                let v = value_of_node(enc, t, &f.val, Some(f.op))?;
                if is_err(&v) { return Some(v); }
                items.push(format!("{}={}", k, v));
            }
            Some(format!("{{{}}}", items.join(",")))
        }
        _ => None,
    }
}

/// `op` is Some in field position (operator capture), None for sequence elements
fn value_of_node(enc: Enc, ty: &Ty, n: &Node, op: Option<Op>) -> Option<String> {
    match ty {
        Ty::Ign => return Some("ign".into()),
        Ty::Opt(t) => return value_of_node(enc, t, n, op).map(|v| if is_err(&v) { v } else { format!("some({})", v) }),
        Ty::Prop(t) => {
            let op = op?;
            // the captured value is read without its operator: a nested Property has nothing to capture
            if matches!(**t, Ty::Prop(_)) || matches!(&**t, Ty::Opt(x) if matches!(**x, Ty::Prop(_))) { return None; }
            return value_of_node(enc, t, n, None).map(|v| if is_err(&v) { v } else { format!("prop({},{})", op.name(), v) });
        }
        _ => {}
    }
    let typed_leaf = matches!(ty, Ty::Bool | Ty::I64 | Ty::U64 | Ty::I32 | Ty::U32 | Ty::F64 | Ty::F32 | Ty::Str);
    let ty_err = Some("err:type".to_string());
    match n {
        // a map / struct requested for a scalar: both paths refuse with the same class (Lean `Fits.mapOnLeaf` / `stOnLeaf`)
        Node::Leaf(_) if matches!(ty, Ty::Map(_) | Ty::Struct(_)) => ty_err,
        Node::Leaf(l) => value_of_leaf(enc, ty, l),
        // a typed scalar requested for a container: both paths refuse with the same class (`Fits.leafOnObj` / `leafOnArr`)
        Node::Obj(_) | Node::Arr(_) if typed_leaf => ty_err,
        Node::Obj(fs) if !fs.is_empty() => value_of_fields(enc, ty, fs),
        Node::Obj(_) => value_of_node(enc, ty, &Node::Arr(vec![]), op),
        Node::Arr(vs) => match ty {
            Ty::Seq(t) => {
                if matches!(vs.first(), Some(Node::Arr(v)) if v.is_empty()) || matches!(vs.first(), Some(Node::Obj(v)) if v.is_empty()) { return None; }
                let mut items = vec![];
                // inside an array a header value is two values, its name and its body (Lean `expandNodes`)
                for v in expand_nodes(vs)? {
                    let x = value_of_node(enc, t, &v, None)?;
                    if is_err(&x) { return Some(x); }
                    items.push(x);
                }
                Some(format!("[{}]", items.join(",")))
            }
            // `any` on an array of scalars / arrays / header values, any depth (Lean `anyVal`, `Fits.anyArr`)
            Ty::Any => any_val(enc, n),
            // the empty `{}` read as a map / struct (`Fits.emptyMap` / `emptySt`)
            Ty::Map(_) | Ty::Struct(_) if vs.is_empty() => value_of_fields(enc, ty, &[]),
            _ => None,
        },
        // a header value read with a scalar target (not `any`: the tape path would present the body) is its
        // name on both paths; the body is skipped
        Node::Header(name, _) => if has_any(ty) { None } else { value_of_leaf(enc, ty, &Leaf::Unq(name.clone())) },
        Node::Rgb(..) => if has_any(ty) { None } else { value_of_leaf(enc, ty, &Leaf::Unq(b"rgb".to_vec())) },
        Node::Mixed(..) => None,
    }
}

/// a header value as (name, body); `Rgb` is `rgb { r g b [a] }`
fn hdr_parts(n: &Node) -> Option<(Vec<u8>, Node)> {
    match n {
        Node::Header(name, body) if matches!(**body, Node::Obj(_) | Node::Arr(_)) => Some((name.clone(), (**body).clone())),
        Node::Rgb(r, g, b, a) => Some((b"rgb".to_vec(), Node::Arr([Some(*r), Some(*g), Some(*b), *a].iter().flatten().map(|c| Node::Leaf(Leaf::Unq(c.to_string().into_bytes()))).collect()))),
        _ => None,
    }
}

/// Lean `expandNodes`
fn expand_nodes(vs: &[Node]) -> Option<Vec<Node>> {
    let mut out = vec![];
    for v in vs {
        match v {
            Node::Header(..) | Node::Rgb(..) => { let (n, b) = hdr_parts(v)?; out.push(Node::Leaf(Leaf::Unq(n))); out.push(b); }
            Node::Mixed(..) => return None,
            _ => out.push(v.clone()),
        }
    }
    Some(out)
}

/// Lean `anyVal`: the tree serde's `deserialize_any` builds on BOTH paths (objects excluded: the paths differ there)
fn any_val(enc: Enc, n: &Node) -> Option<String> {
    match n {
        Node::Leaf(l) => value_of_leaf(enc, &Ty::Any, l),
        Node::Obj(fs) if fs.is_empty() => Some("[]".into()),
        Node::Arr(vs) => {
            if matches!(vs.first(), Some(Node::Arr(v)) if v.is_empty()) || matches!(vs.first(), Some(Node::Obj(v)) if v.is_empty()) { return None; }
            let items = expand_nodes(vs)?.iter().map(|v| any_val(enc, v)).collect::<Option<Vec<_>>>()?;
            Some(format!("[{}]", items.join(",")))
        }
        _ => None,
    }
}

/// Lean `Bad` (Spec/TextDoc.lean), plus everything outside the abstract document of the spec: `false` means
/// the Lean theorem `C02_error_agreement` CLAIMS that both paths return the same result (value or error class)
fn bad(enc: Enc, field_pos: bool, ty: &Ty, n: &Node) -> bool {
    match n {
        Node::Mixed(..) => return true,
        Node::Header(_, body) if !matches!(**body, Node::Obj(_) | Node::Arr(_)) => return true,
        Node::Obj(fs) if fs.iter().any(|f| f.ghosts > 0 || f.implicit_eq || matches!(f.key, Leaf::Quo(_))) => return true,
        // the recorded finding `array-leading-empty` (a byte-level difference of the two parsers)
        Node::Arr(vs) if vs.len() > 1 && (matches!(vs.first(), Some(Node::Arr(v)) if v.is_empty()) || matches!(vs.first(), Some(Node::Obj(v)) if v.is_empty())) => return true,
        _ => {}
    }
    let is_hdr = matches!(n, Node::Header(..) | Node::Rgb(..));
    let empty = matches!(n, Node::Arr(v) if v.is_empty()) || matches!(n, Node::Obj(f) if f.is_empty());
    match ty {
        Ty::Bool | Ty::I64 | Ty::U64 | Ty::I32 | Ty::U32 | Ty::F64 | Ty::F32 | Ty::Str | Ty::Ign => false,
        Ty::Any => match n {
            Node::Leaf(_) => false,
            Node::Arr(vs) => !any_oks(vs),
            Node::Obj(_) if empty => false,
            _ => true,
        },
        Ty::Enum(_) => !(matches!(n, Node::Leaf(_)) || is_hdr),
        Ty::Opt(t) => bad(enc, field_pos, t, n),
        Ty::Prop(t) => !field_pos || bad(enc, false, t, n),
        Ty::Seq(t) => match n {
            Node::Arr(vs) => match expand_nodes(vs) { Some(xs) => xs.iter().any(|x| bad(enc, false, t, x)), None => true },
            Node::Obj(_) if empty => false,
            _ => true,
        },
        Ty::Map(t) => match n {
            Node::Leaf(_) => false,
            _ if empty => false,
            Node::Obj(fs) => fs.iter().any(|f| bad(enc, true, t, &f.val)),
            _ => true,
        },
        Ty::Struct(decl) => match n {
            Node::Leaf(_) => false,
            _ if empty => false,
            Node::Obj(fs) => fs.iter().any(|f| {
                let key = decode_ref(enc, &raw_bytes(&f.key));
                match decl.iter().find(|(name, _)| name.as_bytes() == &key[..]) { Some((_, t)) => bad(enc, true, t, &f.val), None => false }
            }),
            _ => true,
        },
        // outside the Lean models' type grammar
        Ty::U16 | Ty::I16 | Ty::U8 | Ty::I8 | Ty::Tuple(_) | Ty::Unit => true,
    }
}

/// Lean `anyOks`
fn any_oks(vs: &[Node]) -> bool {
    match expand_nodes(vs) {
        Some(xs) => xs.iter().all(|x| match x { Node::Leaf(_) => true, Node::Arr(ys) => !bad_leading(ys) && any_oks(ys), Node::Obj(f) => f.is_empty(), _ => false }),
        None => false,
    }
}
fn bad_leading(vs: &[Node]) -> bool {
    vs.len() > 1 && (matches!(vs.first(), Some(Node::Arr(v)) if v.is_empty()) || matches!(vs.first(), Some(Node::Obj(v)) if v.is_empty()))
}

/// the whole document against a root type: does `C02_error_agreement` claim agreement?
fn agreement_claimed(enc: Enc, ty: &Ty, doc: &Doc) -> bool {
    matches!(ty, Ty::Struct(_) | Ty::Map(_)) && !doc.fields.is_empty() && !bad(enc, false, ty, &Node::Obj(doc.fields.clone()))
}

fn has_any(t: &Ty) -> bool {
    match t { Ty::Any => true, Ty::Opt(x) | Ty::Seq(x) | Ty::Map(x) | Ty::Prop(x) => has_any(x), Ty::Struct(fs) => fs.iter().any(|(_, x)| has_any(x)), _ => false }
}

fn value_of(enc: Enc, ty: &Ty, doc: &Doc) -> Option<String> {
    FLOAT_HITS.with(|h| h.borrow_mut().clear());
    value_of_fields(enc, ty, &doc.fields)
}

/// count the decimal leaves the last successful `value_of` read with a typed float target
fn count_float_hits(g: &mut Gen, expect: &Option<String>) {
    let hits: Vec<String> = FLOAT_HITS.with(|h| h.borrow_mut().drain(..).collect());
    if expect.is_some() { for k in hits { g.count(&k); } }
}

// ---------------------------------------------------------------------------------------
// target type generation (shape-directed full capture, partial structs, typed scalars, Property, enums)

const VARIANT_POOL: [&str; 6] = ["alpha", "beta", "core", "name", "x", "zz"];

fn ident(b: &[u8]) -> bool { !b.is_empty() && b.len() <= 12 && b.iter().all(|c| c.is_ascii_alphanumeric() || *c == b'_') }

fn gen_leaf_ty(rng: &mut Rng, l: &Leaf) -> Ty {
    if rng.chance(1, 40) { return rng.pick(&[Ty::Bool, Ty::I64, Ty::U64, Ty::F64, Ty::Str]).clone(); }
    match l {
        Leaf::Int(i) => match rng.below(8) { 0 => Ty::F64, 1 => Ty::Any, 2 => Ty::Str, 3 => Ty::I32, 4 if *i >= 0 || rng.chance(1, 4) => Ty::U64, 5 => Ty::F32, 6 => Ty::U32, _ => Ty::I64 },
        Leaf::Uint(u) => match rng.below(7) { 0 => Ty::Any, 1 => Ty::Str, 2 => Ty::U32, 3 => Ty::I64, 4 if *u < (1 << 53) => Ty::F64, 5 => Ty::I32, _ => Ty::U64 },
        Leaf::Bool(_) => match rng.below(5) { 0 => Ty::Any, 1 => Ty::Str, _ => Ty::Bool },
        Leaf::Fixed(_) => match rng.below(5) { 0 => Ty::Any, 1 => Ty::Str, 2 => Ty::F32, _ => Ty::F64 },
        Leaf::Date(..) => if rng.chance(1, 3) { Ty::Any } else { Ty::Str },
        Leaf::Unq(b) if decimal_text(b).is_some() => match rng.below(8) { 0 => Ty::Str, 1 => Ty::Any, 2 => Ty::F32, _ => Ty::F64 },
        Leaf::Unq(b) | Leaf::Quo(b) => {
            if ident(b) && rng.chance(1, 4) {
                let mut vs: Vec<String> = (0..rng.below(3)).map(|_| rng.pick(&VARIANT_POOL).to_string()).collect();
                if rng.chance(4, 5) { vs.push(String::from_utf8(b.clone()).unwrap()); }
                vs.sort(); vs.dedup();
                Ty::Enum(vs)
            } else if rng.chance(1, 4) { Ty::Any } else { Ty::Str }
        }
    }
}

struct TyCfg { prop: bool }

fn gen_fields_ty(rng: &mut Rng, fs: &[Field], cfg: &TyCfg) -> Ty {
    let names: Vec<Option<String>> = fs.iter().map(|f| key_name(&f.key)).collect();
    let all_named = names.iter().all(|n| n.is_some());
    if all_named && !fs.is_empty() && rng.chance(5, 6) {
        let mut out: Vec<(String, Ty)> = vec![];
        for (f, n) in fs.iter().zip(names.iter()) {
            let n = n.clone().unwrap();
            // duplicate keys: declare once (the expected value is then err:duplicate)
            if out.iter().any(|(x, _)| *x == n) { continue; }
            if rng.chance(1, 5) { continue; } // partial struct: this field is unknown to the target
            let mut t = gen_node_ty(rng, &f.val, cfg);
            if cfg.prop && rng.chance(1, 6) { t = Ty::Prop(Box::new(t)); }
            if rng.chance(1, 6) { t = Ty::Opt(Box::new(t)); }
            out.push((n, t));
        }
        if rng.chance(1, 4) { out.push(("absent_opt".to_string(), Ty::Opt(Box::new(Ty::I64)))); }
        if rng.chance(1, 60) { out.push(("absent_req".to_string(), Ty::I64)); }
        if rng.chance(1, 8) && out.len() > 1 { let i = rng.below(out.len()); let j = rng.below(out.len()); out.swap(i, j); }
        Ty::Struct(out)
    } else {
        let v = if fs.iter().all(|f| matches!(f.val, Node::Leaf(_))) { if rng.chance(1, 2) { Ty::Any } else { Ty::Str } } else { Ty::Ign };
        let v = if cfg.prop && rng.chance(1, 6) { Ty::Prop(Box::new(v)) } else { v };
        Ty::Map(Box::new(v))
    }
}

fn gen_node_ty(rng: &mut Rng, n: &Node, cfg: &TyCfg) -> Ty {
    if rng.chance(1, 25) { return Ty::Ign; }
    match n {
        Node::Leaf(l) => gen_leaf_ty(rng, l),
        Node::Obj(fs) => gen_fields_ty(rng, fs, cfg),
        Node::Arr(vs) => {
            if vs.iter().all(|v| matches!(v, Node::Leaf(_))) {
                // element type fitting every element: from the first element when they are alike, else a string
                let t = match vs.first() {
                    Some(Node::Leaf(l0)) if rng.chance(1, 2) && vs.iter().all(|v| matches!((v, l0), (Node::Leaf(Leaf::Int(_)), Leaf::Int(_)) | (Node::Leaf(Leaf::Uint(_)), Leaf::Uint(_)) | (Node::Leaf(Leaf::Bool(_)), Leaf::Bool(_)) | (Node::Leaf(Leaf::Fixed(_)), Leaf::Fixed(_)))) => gen_leaf_ty(rng, l0),
                    _ => if rng.chance(1, 2) { Ty::Any } else { Ty::Str },
                };
                Ty::Seq(Box::new(if rng.chance(1, 10) { Ty::Opt(Box::new(t)) } else { t }))
            } else if vs.iter().all(|v| matches!(v, Node::Obj(_))) {
                let t = match rng.below(3) {
                    0 => {
                        // struct of optional fields drawn from the first element
                        let mut out: Vec<(String, Ty)> = vec![];
                        if let Some(Node::Obj(fs)) = vs.first() {
                            for f in fs {
                                if let Some(n) = key_name(&f.key) {
                                    if out.iter().any(|(x, _)| *x == n) { continue; }
                                    let leaf_everywhere = vs.iter().all(|v| match v { Node::Obj(g) => g.iter().all(|h| key_name(&h.key).as_deref() != Some(&n) || matches!(h.val, Node::Leaf(_))), _ => true });
                                    out.push((n, Ty::Opt(Box::new(if leaf_everywhere { Ty::Any } else { Ty::Ign }))));
                                }
                            }
                        }
                        Ty::Struct(out)
                    }
                    1 if vs.iter().all(|v| matches!(v, Node::Obj(g) if g.iter().all(|h| matches!(h.val, Node::Leaf(_))))) => Ty::Map(Box::new(Ty::Str)),
                    _ => Ty::Map(Box::new(Ty::Ign)),
                };
                Ty::Seq(Box::new(t))
            } else if vs.iter().all(|v| matches!(v, Node::Arr(_))) && rng.chance(1, 2) {
                Ty::Seq(Box::new(Ty::Seq(Box::new(Ty::Ign))))
            } else {
                Ty::Seq(Box::new(Ty::Ign))
            }
        }
        Node::Rgb(..) | Node::Header(..) | Node::Mixed(..) => match rng.below(8) {
            0 => Ty::Opt(Box::new(Ty::Ign)),
            1 => Ty::Str,
            2 => Ty::Enum(vec!["LIST".into(), "hsv".into(), "rgb".into()]),
            _ => Ty::Ign,
        },
    }
}

/// a deliberately ill-fitting type somewhere (robustness of the correspondence; no expectation)
fn misfit(rng: &mut Rng, t: &Ty) -> Ty {
    let pool = [Ty::Bool, Ty::I64, Ty::U64, Ty::F64, Ty::Str, Ty::Any, Ty::Ign, Ty::Seq(Box::new(Ty::Any)), Ty::Map(Box::new(Ty::Any)),
                Ty::Seq(Box::new(Ty::Str)), Ty::Map(Box::new(Ty::Str)), Ty::Enum(vec!["a".into(), "b".into()]), Ty::Prop(Box::new(Ty::Any)),
                Ty::Struct(vec![("a".into(), Ty::Any), ("b".into(), Ty::Opt(Box::new(Ty::Any)))]), Ty::Opt(Box::new(Ty::Seq(Box::new(Ty::Ign)))),
                Ty::Struct(vec![("remainder".into(), Ty::Seq(Box::new(Ty::Any)))]), Ty::Seq(Box::new(Ty::Prop(Box::new(Ty::Str))))];
    match t {
        Ty::Struct(fs) if !fs.is_empty() && rng.chance(3, 4) => {
            let i = rng.below(fs.len());
            let mut fs = fs.clone();
            fs[i].1 = misfit(rng, &fs[i].1);
            Ty::Struct(fs)
        }
        Ty::Seq(x) if rng.chance(1, 2) => Ty::Seq(Box::new(misfit(rng, x))),
        Ty::Map(x) if rng.chance(1, 2) => Ty::Map(Box::new(misfit(rng, x))),
        Ty::Opt(x) if rng.chance(1, 2) => Ty::Opt(Box::new(misfit(rng, x))),
        _ => rng.pick(&pool).clone(),
    }
}

// ---------------------------------------------------------------------------------------
// real derived target types (cross-check of the Ty interpreter)

mod derived {
    use jomini::text::Property;
    use jomini::JominiDeserialize;
    use serde::Deserialize;
    use std::collections::HashMap;

    #[derive(Deserialize, Debug, PartialEq)]
    #[serde(rename_all = "lowercase")]
    pub enum Kind { Alpha, Beta, Core }

    #[derive(Deserialize, Debug, PartialEq)]
    pub struct Unit { pub x: i64, pub y: Option<f64>, #[serde(rename = "type")] pub ty: Option<Kind> }

    #[derive(Deserialize, Debug, PartialEq)]
    pub struct Top {
        pub name: String,
        pub id: u32,
        pub core: Option<String>,
        pub flags: Vec<String>,
        pub army: HashMap<String, i64>,
        pub unit: Unit,
        pub list: Vec<Unit>,
        pub date: Property<i64>,
        pub a: bool,
        pub b: Option<bool>,
    }

    /// jomini's own derive: duplicated keys collected, defaults
    #[derive(JominiDeserialize, Debug, PartialEq)]
    pub struct Dup {
        #[jomini(duplicated)]
        pub core: Vec<String>,
        #[jomini(default)]
        pub id: u32,
        pub name: String,
    }

    pub const TOP_TY: &str = "st(name:str;id:u32;core:opt(str);flags:seq(str);army:map(i64);unit:st(x:i64;y:opt(f64);type:opt(en(alpha;beta;core)));list:seq(st(x:i64;y:opt(f64);type:opt(en(alpha;beta;core))));date:prop(i64);a:bool;b:opt(bool))";

    fn h(b: &[u8]) -> String { crate::common::hex(b) }
    fn unit(u: &Unit) -> String {
        format!("{{x=i{},y={},type={}}}", u.x, match u.y { Some(v) => format!("some(f{})", v.to_bits()), None => "none".into() },
            match &u.ty { Some(k) => format!("some(en({}))", h(match k { Kind::Alpha => b"alpha", Kind::Beta => b"beta", Kind::Core => b"core" })), None => "none".into() })
    }
    pub fn show_top(t: &Top) -> String {
        let mut army: Vec<(&String, &i64)> = t.army.iter().collect();
        army.sort();
        let op = match t.date.operator().symbol() { "=" => "eq", "<" => "lt", "<=" => "le", ">" => "gt", ">=" => "ge", "!=" => "ne", "==" => "exact", "?=" => "exists", _ => "unknown" };
        format!("{{name=s{},id=u{},core={},flags=[{}],army={{{}}},unit={},list=[{}],date=prop({},i{}),a=b{},b={}}}",
            h(t.name.as_bytes()), t.id, match &t.core { Some(c) => format!("some(s{})", h(c.as_bytes())), None => "none".into() },
            t.flags.iter().map(|f| format!("s{}", h(f.as_bytes()))).collect::<Vec<_>>().join(","),
            army.iter().map(|(k, v)| format!("s{}=i{}", h(k.as_bytes()), v)).collect::<Vec<_>>().join(","),
            unit(&t.unit), t.list.iter().map(unit).collect::<Vec<_>>().join(","), op, t.date.value(), t.a as u8,
            match t.b { Some(b) => format!("some(b{})", b as u8), None => "none".into() })
    }
    pub fn show_dup(d: &Dup) -> String {
        format!("{{core=[{}],id=u{},name=s{}}}", d.core.iter().map(|f| format!("s{}", h(f.as_bytes()))).collect::<Vec<_>>().join(","), d.id, h(d.name.as_bytes()))
    }
}

/// a document shaped for `derived::Top` (sometimes with a missing / duplicated / ill-typed field)
fn gen_top_doc(rng: &mut Rng) -> Vec<u8> {
    // mostly ASCII; now and then a character outside ASCII, so that the two encodings (and a convenience
    // constructor that picks the wrong one) are told apart
    let word = |rng: &mut Rng| -> String { (0..rng.range(1, 7)).map(|_| if rng.chance(1, 9) { *rng.pick(&['\u{e9}', '\u{df}', '\u{3a9}', '\u{20ac}', '\u{153}', '\u{81}']) } else { (b'a' + rng.below(26) as u8) as char }).collect() };
    let unit = |rng: &mut Rng| -> String {
        let mut s = format!("x={}", rng.below(2000) as i64 - 1000);
        if rng.chance(1, 2) { s += &format!(" y={}.{:03}", rng.below(50), rng.below(1000)); }
        if rng.chance(1, 2) { s += &format!(" type={}", rng.pick(&["alpha", "beta", "core"])); }
        if rng.chance(1, 4) { s += &format!(" extra={{ {} {} }}", word(rng), word(rng)); }
        s
    };
    let mut fields: Vec<String> = vec![];
    fields.push(if rng.chance(1, 2) { format!("name=\"{} {}\"", word(rng), word(rng)) } else { format!("name={}", word(rng)) });
    fields.push(format!("id={}", rng.below(100000)));
    if rng.chance(1, 2) { fields.push(format!("core=\"{}\\\"{}\"", word(rng), word(rng))); }
    fields.push(format!("flags={{ {} }}", (0..rng.below(4)).map(|_| word(rng)).collect::<Vec<_>>().join(" ")));
    // map keys stay ASCII: the derived side prints a HashMap sorted by decoded key, the Ty interpreter in document
    // order, and the two orders only coincide when decoding preserves the byte order of the keys
    let mut keys: Vec<String> = (0..rng.below(4)).map(|_| (0..rng.range(1, 7)).map(|_| (b'a' + rng.below(26) as u8) as char).collect::<String>()).collect();
    keys.sort(); keys.dedup();
    fields.push(format!("army={{ {} }}", keys.iter().map(|k| format!("{}={}", k, rng.below(500) as i64 - 250)).collect::<Vec<_>>().join(" ")));
    fields.push(format!("unit={{ {} }}", unit(rng)));
    fields.push(format!("list={{ {} }}", (0..rng.below(3)).map(|_| format!("{{ {} }}", unit(rng))).collect::<Vec<_>>().join(" ")));
    fields.push(format!("date{}{}", if rng.chance(1, 3) { *rng.pick(&[" < ", " >= ", " != ", " ?= ", " == ", "==", "<=", ">"]) } else { "=" }, rng.below(3000)));
    fields.push(format!("a={}", if rng.chance(1, 2) { "yes" } else { "no" }));
    if rng.chance(1, 2) { fields.push(format!("b={}", if rng.chance(1, 2) { "yes" } else { "no" })); }
    for _ in 0..rng.below(3) { let w = word(rng); fields.push(format!("unk_{}={}", w, if rng.chance(1, 2) { format!("{{ {}={{ {} }} }}", w, w) } else { w.clone() })); }
    // order is irrelevant to a struct
    for i in (1..fields.len()).rev() { let j = rng.below(i + 1); fields.swap(i, j); }
    match rng.below(12) {
        0 => { let i = rng.below(fields.len()); fields.remove(i); }
        1 => { let i = rng.below(fields.len()); let f = fields[i].clone(); fields.push(f); }
        2 => { fields.push("id=abc".into()); fields.retain(|f| !f.starts_with("id=") || f == "id=abc"); }
        _ => {}
    }
    let sep = *rng.pick(&[" ", "\n", "\n\t", "  "]);
    fields.join(sep).into_bytes()
}

fn gen_dup_doc(rng: &mut Rng) -> Vec<u8> {
    let word = |rng: &mut Rng| -> String { (0..rng.range(1, 5)).map(|_| if rng.chance(1, 9) { *rng.pick(&['\u{e9}', '\u{df}', '\u{3a9}', '\u{20ac}', '\u{153}']) } else { (b'a' + rng.below(26) as u8) as char }).collect() };
    let mut fields: Vec<String> = (0..rng.below(4)).map(|_| format!("core={}", word(rng))).collect();
    if rng.chance(2, 3) { fields.push(format!("id={}", rng.below(1000))); }
    if rng.chance(9, 10) { fields.push(format!("name={}", word(rng))); }
    for i in (1..fields.len()).rev() { let j = rng.below(i + 1); fields.swap(i, j); }
    fields.join(" ").into_bytes()
}

// ---------------------------------------------------------------------------------------

/// abstract document in the syntax the Lean driver parses (`Spec/TextDoc.lean`): no header values,
/// unquoted keys.  node := u<hex> | q<hex> | o[field;..] | a[node;..]   field := <keyhex>~<op>~node
fn ser_node(n: &Node) -> Option<String> {
    match n {
        Node::Leaf(l) => Some(match l { Leaf::Quo(b) => format!("q{}", hex(b)), other => format!("u{}", hex(&leaf_text(other).0)) }),
        Node::Obj(fs) if !fs.is_empty() => Some(format!("o[{}]", ser_fields(fs)?)),
        Node::Arr(vs) => Some(format!("a[{}]", vs.iter().map(ser_node).collect::<Option<Vec<_>>>()?.join(";"))),
        Node::Header(name, body) if matches!(**body, Node::Obj(_) | Node::Arr(_)) => Some(format!("h{}:{}", hex(name), ser_node(body)?)),
        Node::Rgb(r, g, b, a) => {
            let cs: Vec<String> = [Some(*r), Some(*g), Some(*b), *a].iter().flatten().map(|c| format!("u{}", hex(c.to_string().as_bytes()))).collect();
            Some(format!("h{}:a[{}]", hex(b"rgb"), cs.join(";")))
        }
        _ => None,
    }
}
fn ser_fields(fs: &[Field]) -> Option<String> {
    let mut out = vec![];
    for f in fs {
        if f.ghosts > 0 || f.implicit_eq || matches!(f.key, Leaf::Quo(_)) { return None; }
        out.push(format!("{}~{}~{}", hex(&leaf_text(&f.key).0), f.op.name(), ser_node(&f.val)?));
    }
    Some(out.join(";"))
}

fn emit_spec(g: &mut Gen, enc: Enc, ty: &Ty, doc: &Doc, expect: Option<&str>) {
    if expect.is_none() { return; }
    if let Some(d) = ser_fields(&doc.fields) {
        let data = render_canonical(&lexemes(doc));
        g.count("spec-doc");
        g.emit(format!("spec_doc {} {} d[{}] {}", enc.name(), show_ty(ty), d, hex(&data)));
    }
}

fn parse_enc_ty(enc: &str, ty: &str) -> Option<(Enc, Ty)> { Some((Enc::parse(enc)?, parse_ty(ty)?)) }

fn count_val(obs: &mut Obs, path: &str, v: &str) {
    let k = if v.starts_with("err:missing") { "err:missing" } else if v.starts_with("err:duplicate") { "err:duplicate" } else if is_err(v) { v } else { "ok" };
    obs.count(&format!("{}:{}", path, k));
}

fn count_ty(g: &mut Gen, t: &Ty) {
    let k = match t { Ty::Bool => "bool", Ty::I64 => "i64", Ty::U64 => "u64", Ty::I32 => "i32", Ty::U32 => "u32", Ty::F64 => "f64", Ty::F32 => "f32", Ty::Str => "str", Ty::Any => "any", Ty::Ign => "ign", Ty::U16 => "u16", Ty::I16 => "i16", Ty::U8 => "u8", Ty::I8 => "i8",
        Ty::Opt(x) => { count_ty(g, x); "opt" } Ty::Seq(x) => { count_ty(g, x); "seq" } Ty::Map(x) => { count_ty(g, x); "map" } Ty::Prop(x) => { count_ty(g, x); "prop" }
        Ty::Struct(fs) => { for (_, x) in fs { count_ty(g, x); } "struct" } Ty::Enum(_) => "enum", Ty::Tuple(ts) => { for x in ts { count_ty(g, x); } "tuple" } Ty::Unit => "unit" };
    g.count(&format!("ty:{}", k));
}

/// implementation-only: 128-bit integer targets on both text paths (a real derived struct; `Ty` has no
/// 128-bit leaves). Repaired defect: the reader path had no deserialize_i128 / deserialize_u128.
fn exec_wide(w: &[&str], obs: &mut Obs) -> Option<String> {
    if let ["x-wide-ints", h] = w {
        #[derive(serde::Deserialize, Debug, PartialEq)]
        struct Wide { a: i128, b: u128, c: Option<i128> }
        let d = unhex(h)?;
        let tape: Result<Wide, _> = jomini::text::de::from_windows1252_slice(&d);
        let rdr: Result<Wide, _> = jomini::text::de::from_windows1252_reader(&d[..]);
        let show = |r: &Result<Wide, jomini::Error>| match r { Ok(v) => format!("{:?}", v).replace(' ', ""), Err(_) => "err".to_string() };
        if show(&tape) != show(&rdr) {
            obs.violation("paths-disagree-wide-ints", &w.join(" "), &format!("tape {} reader {}", show(&tape), show(&rdr)));
        }
        return Some(format!("ok {}", show(&tape)));
    }
    None
}

/// implementation-only: tape path == reader path (every capacity / read size) for target types outside the
/// Lean models' `Ty` grammar (unit, fixed-length tuples): `x-paths <enc> <ty> <hex>`
fn exec_paths(w: &[&str], obs: &mut Obs) -> Option<String> {
    if let ["x-paths", enc, ty, h] = w {
        use serde::de::DeserializeSeed;
        let ty = crate::tyseed::parse_ty(ty)?;
        let d = unhex(h)?;
        let utf8 = *enc == "u";
        let tape = (|| -> Result<String, String> {
            if utf8 { let de = jomini::TextDeserializer::from_utf8_slice(&d).map_err(|e| e.to_string())?; crate::tyseed::TySeed(&ty).deserialize(&de).map_err(|e| e.to_string()) }
            else { let de = jomini::TextDeserializer::from_windows1252_slice(&d).map_err(|e| e.to_string())?; crate::tyseed::TySeed(&ty).deserialize(&de).map_err(|e| e.to_string()) }
        })();
        let show = |r: &Result<String, String>| match r { Ok(v) => v.clone(), Err(e) => crate::tyseed::err_class(e) };
        for (cap, step) in [(32 * 1024usize, usize::MAX), (64, 1), (64, 3), (256, 7)] {
            let steps = if step == usize::MAX { vec![] } else { vec![crate::sched::Step::Repeat(step)] };
            let rd = crate::sched::SchedReader::new(&d, steps);
            let tr = jomini::text::TokenReader::builder().buffer_len(cap).build(rd);
            let r = if utf8 { let mut de = jomini::TextDeserializer::from_utf8_reader(tr); crate::tyseed::TySeed(&ty).deserialize(&mut de).map_err(|e| e.to_string()) }
                    else { let mut de = jomini::TextDeserializer::from_windows1252_reader(tr); crate::tyseed::TySeed(&ty).deserialize(&mut de).map_err(|e| e.to_string()) };
            let full = r.as_ref().err().map(|e| e.to_lowercase().contains("buffer")).unwrap_or(false);
            if !full && show(&r) != show(&tape) && !(show(&r).starts_with("err") && show(&tape).starts_with("err")) {
                obs.violation("paths-disagree-extra-types", &w.join(" "), &format!("tape {} reader(cap {}, step {}) {}", show(&tape), cap, step, show(&r)));
                break;
            }
        }
        obs.count("x-paths");
        return Some(format!("ok {}", show(&tape)));
    }
    None
}

/// documents with container- and scalar-valued fields typed as `unit`, fixed-length tuples and 128-bit ints
pub fn gen_extra_types(g: &mut Gen) {
    use crate::docgen::*;
    let n = g.budget(1500, 30000);
    for _ in 0..n {
        let doc = gen_doc(&mut g.rng, &DocCfg { max_fields: 4, ..DocCfg::save_style() });
        let mut fs: Vec<(String, crate::tyseed::Ty)> = vec![];
        let mut seen = std::collections::BTreeSet::new();
        for f in &doc.fields {
            let Some(name) = crate::tyseed::key_name(&f.key) else { continue };
            if !seen.insert(name.clone()) { continue; }
            use crate::tyseed::Ty;
            let t = match &f.val {
                Node::Arr(vs) if !vs.is_empty() && vs.len() <= 5 && vs.iter().all(|v| matches!(v, Node::Leaf(_))) && g.rng.chance(1, 2) => Ty::Tuple(vec![Ty::Any; vs.len()]),
                Node::Obj(_) | Node::Arr(_) if g.rng.chance(1, 2) => Ty::Unit,
                Node::Leaf(_) if g.rng.chance(1, 6) => Ty::Unit,
                Node::Leaf(_) => if g.rng.chance(1, 2) { Ty::Any } else { Ty::Str },
                _ => Ty::Ign,
            };
            fs.push((name, t));
        }
        if fs.is_empty() { continue; }
        let ty = crate::tyseed::Ty::Struct(fs);
        let bytes = render_layout(&mut g.rng, &LayoutCfg::reader_safe(), &lexemes(&doc));
        let enc = if g.rng.chance(1, 2) { "w" } else { "u" };
        g.emit(format!("x-paths {} {} {}", enc, crate::tyseed::show_ty(&ty), hex(&bytes)));
    }
    for txt in ["a={ b=1 c=2 } d=3", "a={ 1 2 3 } d=3 e=4", "a=x d=3", "d=1 a={ k={ z=1 } } e=2", "a={} d=3"] {
        g.emit(format!("x-paths w st(a:unit;d:opt(i64);e:opt(i64);b:opt(i64);c:opt(i64);z:opt(i64)) {}", hex(txt.as_bytes())));
    }
    g.count("extra-type-paths");
}

pub fn gen_wide(g: &mut Gen) {
    gen_extra_types(g);
    for txt in ["a=1 b=2", "a=-170141183460469231731687303715884105728 b=5", "a=-9223372036854775808 b=18446744073709551615 c=7", "b=3 a=4 c=-1", "a=x b=1", "a=1"] {
        g.emit(format!("x-wide-ints {}", hex(txt.as_bytes())));
    }
    for _ in 0..50 {
        let a = g.rng.next() as i64; let b = g.rng.next();
        g.emit(format!("x-wide-ints {}", hex(format!("a={} b={}\nc = {}", a, b, a / 3).as_bytes())));
    }
}

pub fn exec(w: &[&str], obs: &mut Obs) -> Option<String> {
    if let Some(r) = exec_wide(w, obs) { return Some(r); }
    if let Some(r) = exec_paths(w, obs) { return Some(r); }
    let case = || w.join(" ");
    match w {
        ["tde_tape", enc, ty, tape, h, expect] => {
            let (enc, ty) = parse_enc_ty(enc, ty)?;
            let data = unhex(h)?;
            let real = match TextTape::from_slice(&data) { Ok(t) => t, Err(_) => { obs.violation("bad-case", &case(), "input does not parse to a tape"); return Some("bad-case".into()); } };
            if show::text_tape(real.tokens()) != *tape { obs.violation("bad-case", &case(), "tape argument is not the real tape of the input"); return Some("bad-case".into()); }
            let r = run_tape(enc, &ty, &real);
            count_val(obs, "tape", &r);
            // L3: the slice front end is the same path
            let s = run_slice(enc, &ty, &data);
            if s != r { obs.violation("tape-vs-slice", &case(), &format!("tape {} slice {}", r, s)); }
            if let Some(kind) = expect.strip_prefix('!') {
                // probe of a RECORDED known divergence (known_findings.txt): reported under its own kind
                let (x, _) = run_reader(enc, &ty, TokenReader::new(&data[..]));
                if kind == "array-leading-empty" {
                    if x != r { obs.violation(kind, &case(), &format!("tape {} reader {}", r, x)); } else { obs.count("probe-agrees:array-leading-empty"); }
                }
            } else if *expect == "%" {
                // a witness of Lean `C02_divergent_witnesses`: the models differ here; each real path is diffed
                // against its model by the runner, the observed relation of the real paths is counted
                let (x, _) = run_reader(enc, &ty, TokenReader::from_slice(&data));
                obs.count(if x != r { "divergent-witness:real-paths-differ" } else { "divergent-witness:real-paths-agree" });
            } else if *expect == "=" {
                // Lean `C02_error_agreement`: outside `Bad` both paths return the same value or the same error class
                obs.count("tape:agreement-claimed");
                let (x, _) = run_reader(enc, &ty, TokenReader::from_slice(&data));
                if x != r { obs.violation("error-agreement", &case(), &format!("tape {} reader {}", r, x)); }
            } else if *expect != "-" {
                obs.count("tape:with-expectation");
                if !matches_expect(&r, expect) { obs.violation("value-of", &case(), &format!("tape path {} reference {}", r, expect)); }
                // L3: the reader path over the same bytes yields an equal value
                let (x, _) = run_reader(enc, &ty, TokenReader::from_slice(&data));
                if x != r { obs.violation("paths-disagree", &case(), &format!("tape {} reader {}", r, x)); }
            }
            Some(r)
        }
        [op, enc, ty, rtoks, h, cap, sch, expect] if *op == "tde_stream" || *op == "x-tde_stream" => {
            let (enc, ty) = parse_enc_ty(enc, ty)?;
            let data = unhex(h)?;
            let cap: usize = cap.parse().ok()?;
            let steps = sched::parse(sch)?;
            let l = lex(&data);
            if show_lexed(&l) != *rtoks { obs.violation("bad-case", &case(), "token argument is not the real token stream of the input"); return Some("bad-case".into()); }
            let applicable = token_model_applicable(&data, &l);
            if *op == "tde_stream" { if let Err(why) = applicable { obs.violation("bad-case", &case(), why); return Some("bad-case".into()); } }
            let (r, _) = run_reader(enc, &ty, TokenReader::from_slice(&data));
            count_val(obs, "stream", &r);
            let violation = |obs: &mut Obs, kind: &str, detail: String| obs.violation(kind, &case(), &detail);
            // L3: independent of buffer size and read schedule
            let (c, full) = run_reader(enc, &ty, TokenReader::builder().buffer_len(cap).build(sched::SchedReader::new(&data, steps)));
            if full { obs.count("stream:chunked-buffer-full"); }
            else if c != r { violation(obs, "stream-chunking", format!("slice reader {} chunked {}", r, c)); }
            // the default 32 KiB reader as well (a quarter of the cases: allocating the buffer dominates the run)
            if data.len() % 4 == 0 {
                let (d, _) = run_reader(enc, &ty, TokenReader::new(&data[..]));
                if d != r { violation(obs, "stream-chunking", format!("slice reader {} default reader {}", r, d)); }
            }
            if let Some(kind) = expect.strip_prefix('!') {
                let s = run_slice(enc, &ty, &data);
                if s != r { obs.violation(kind, &case(), &format!("reader {} tape {}", r, s)); } else { obs.count(&format!("probe-agrees:{}", kind)); }
            } else if *expect == "%" {
                obs.count("stream:divergent-witness");
            } else if *expect == "=" {
                obs.count("stream:agreement-claimed");
                let s = run_slice(enc, &ty, &data);
                if s != r { violation(obs, "error-agreement", format!("reader {} tape {}", r, s)); }
            } else if *expect != "-" {
                obs.count("stream:with-expectation");
                if !matches_expect(&r, expect) { violation(obs, "value-of", format!("stream path {} reference {}", r, expect)); }
                let s = run_slice(enc, &ty, &data);
                if s != r { violation(obs, "paths-disagree", format!("reader {} tape {}", r, s)); }
            }
            Some(r)
        }
        ["tde_wft", tape, h] => {
            // the structural hypothesis of the totality theorem (Lean `WfT`) holds for every parsed tape
            let data = unhex(h)?;
            let real = match TextTape::from_slice(&data) { Ok(t) => t, Err(_) => return Some("bad-case".into()) };
            if show::text_tape(real.tokens()) != *tape { obs.violation("bad-case", &case(), "tape argument is not the real tape of the input"); return Some("bad-case".into()); }
            obs.count("wft");
            Some("wf".into())
        }
        ["spec_doc", enc, ty, _doc, h] => {
            // the Lean SPEC (valueOf / lexemes / tapeOf of the abstract document) against the real
            // deserializer, reader and tape parser on the canonical rendering of that document
            let (enc, ty) = parse_enc_ty(enc, ty)?;
            let data = unhex(h)?;
            let tape = match TextTape::from_slice(&data) { Ok(t) => t, Err(_) => return Some("err:parse".into()) };
            let r = run_tape(enc, &ty, &tape);
            let (x, _) = run_reader(enc, &ty, TokenReader::from_slice(&data));
            if x != r { obs.violation("paths-disagree", &case(), &format!("tape {} reader {}", r, x)); }
            obs.count("spec-doc");
            Some(format!("{}|{}|{}", r, show_lexed(&lex(&data)), show::text_tape(tape.tokens())))
        }
        ["x-derive", which, enc, h] => {
            let enc = Enc::parse(enc)?;
            let data = unhex(h)?;
            let (ty, real_tape, real_stream): (Ty, String, String) = match *which {
                "top" => {
                    let a = match enc { Enc::W => jomini::text::de::from_windows1252_slice::<derived::Top>(&data), Enc::U => jomini::text::de::from_utf8_slice::<derived::Top>(&data) };
                    let b = match enc { Enc::W => jomini::text::de::from_windows1252_reader::<derived::Top, _>(&data[..]), Enc::U => jomini::text::de::from_utf8_reader::<derived::Top, _>(&data[..]) };
                    (parse_ty(derived::TOP_TY)?, cls(a.map(|t| derived::show_top(&t))), cls(b.map(|t| derived::show_top(&t))))
                }
                "dup" => {
                    let a = match enc { Enc::W => jomini::text::de::from_windows1252_slice::<derived::Dup>(&data), Enc::U => jomini::text::de::from_utf8_slice::<derived::Dup>(&data) };
                    let b = match enc { Enc::W => jomini::text::de::from_windows1252_reader::<derived::Dup, _>(&data[..]), Enc::U => jomini::text::de::from_utf8_reader::<derived::Dup, _>(&data[..]) };
                    let (a, b) = (cls(a.map(|t| derived::show_dup(&t))), cls(b.map(|t| derived::show_dup(&t))));
                    if a != b { obs.violation("paths-disagree", &case(), &format!("derived Dup: tape {} reader {}", a, b)); }
                    obs.count(&format!("derive:dup:{}", if is_err(&a) { "err" } else { "ok" }));
                    return Some(a);
                }
                _ => return None,
            };
            let ts = run_slice(enc, &ty, &data);
            let (tr, _) = run_reader(enc, &ty, TokenReader::from_slice(&data));
            // a HashMap keeps the last of duplicated keys; the generator writes distinct sorted keys
            if real_tape != ts { obs.violation("tyseed-vs-derive", &case(), &format!("tape path: derived {} tyseed {}", real_tape, ts)); }
            if real_stream != tr { obs.violation("tyseed-vs-derive", &case(), &format!("reader path: derived {} tyseed {}", real_stream, tr)); }
            if real_tape != real_stream { obs.violation("paths-disagree", &case(), &format!("derived Top: tape {} reader {}", real_tape, real_stream)); }
            obs.count(&format!("derive:top:{}", if is_err(&real_tape) { "err" } else { "ok" }));
            Some(real_tape)
        }
        ["x-probe", kind, enc, ty, h] => {
            let (enc, ty) = parse_enc_ty(enc, ty)?;
            let data = unhex(h)?;
            let a = run_slice(enc, &ty, &data);
            let (b, _) = run_reader(enc, &ty, TokenReader::from_slice(&data));
            obs.count(&format!("probe:{}:{}", kind, if a == b { "paths-agree" } else { "paths-differ" }));
            Some(format!("{} | {}", a, b))
        }
        _ => None,
    }
}

/// (type of field `x`, text of its value): Lean `Jomini.TextE2E.divergentWitnesses`, same order
const DIVERGENT_WITNESSES: [(&str, &str); 14] = [
    ("any", "{ a=1 }"), ("any", "{ { a=1 } }"), ("any", "rgb { 1 }"),
    ("en(a)", "{ a=1 }"), ("en(p)", "{ p q }"),
    ("seq(str)", "s"), ("seq(str)", "{ a=1 }"), ("seq(any)", "rgb { 1 }"),
    ("map(str)", "{ p q }"), ("map(str)", "rgb { a=1 }"),
    ("st(a:opt(str))", "{ p }"), ("st(a:opt(str))", "rgb { a=1 }"),
    ("seq(prop(str))", "{ p q }"), ("prop(prop(str))", "s"),
];

fn emit_pair(g: &mut Gen, enc: Enc, ty: &Ty, data: &[u8], expect: Option<&str>) {
    emit_pair_with(g, enc, ty, data, expect, None)
}

fn emit_pair_with(g: &mut Gen, enc: Enc, ty: &Ty, data: &[u8], expect: Option<&str>, fixed: Option<(usize, &str)>) {
    let e = expect.unwrap_or("-");
    let tys = show_ty(ty);
    match TextTape::from_slice(data) {
        Ok(t) => {
            g.emit(format!("tde_tape {} {} {} {} {}", enc.name(), tys, show::text_tape(t.tokens()), hex(data), e));
            if g.rng.chance(1, 3) { g.emit(format!("tde_wft {} {}", show::text_tape(t.tokens()), hex(data))); }
        }
        Err(_) => g.count("tape-parse-error"),
    }
    let l = lex(data);
    let maxtok = l.toks.iter().map(|t| t.len() / 2).max().unwrap_or(1);
    let cap = match g.rng.below(4) { 0 => maxtok + 8 + g.rng.below(8), 1 => 16 + g.rng.below(48), 2 => 64 + g.rng.below(200), _ => 32768 }.max(8);
    let sch = sched::show(&sched::random(&mut g.rng, data.len()).into_iter().filter(|s| !matches!(s, sched::Step::Fail | sched::Step::FailForever)).collect::<Vec<_>>());
    let (cap, sch) = match fixed { Some((c, s)) => (c, s.to_string()), None => (cap, sch) };
    let op = match token_model_applicable(data, &l) { Ok(()) => "tde_stream", Err(why) => { g.count(&format!("stream-model-not-applicable:{}", why)); "x-tde_stream" } };
    g.emit(format!("{} {} {} {} {} {} {} {}", op, enc.name(), tys, show_lexed(&l), hex(data), cap, sch, e));
}

pub fn gen(g: &mut Gen) {
    gen_wide(g);
    // 0. fixed witnesses of repaired findings (also kept in corpus/C02.txt): `==` after a key on the
    //    streaming path (layout- and chunk-dependent before 42b6207), operators on a first field (F9)
    for (ty, text, expect) in [
        ("st(a:prop(str);b:opt(str))", &b"a==b"[..], "{a=prop(exact,s62),b=none}"),
        ("st(a:prop(str);b:opt(str))", b"a == b            ", "{a=prop(exact,s62),b=none}"),
        ("st(a:prop(str);b:opt(str))", b"a == b", "{a=prop(exact,s62),b=none}"),
        ("st(a:prop(i64);b:opt(str))", b"a=1 b==c a2 == 3 ", "{a=prop(eq,i1),b=some(s63)}"),
        ("st(a:st(b:prop(str)))", b"a={ b ?= c }", "{a={b=prop(exists,s63)}}"),
        ("st(a:st(b:prop(str)))", b"a={ b != c }", "{a={b=prop(ne,s63)}}"),
    ] {
        let ty = parse_ty(ty).unwrap();
        for (cap, sch) in [(32768usize, "-"), (8, "R1"), (9, "R2"), (16, "3,1,R5")] {
            emit_pair_with(g, Enc::W, &ty, text, Some(expect), Some((cap, sch)));
        }
    }
    // 0b. the witnesses of Lean `C02_divergent_witnesses` (one per atomic combination of `Bad`), run on the
    //     real code: the two paths legitimately differ, each is compared with its model
    for (ty, text) in DIVERGENT_WITNESSES {
        let ty = parse_ty(&format!("st(x:{};w:opt(str))", ty)).unwrap();
        let text = format!("x={} w=z", text);
        for enc in [Enc::U, Enc::W] {
            for (cap, sch) in [(32768usize, "-"), (8, "R1"), (16, "3,1,R5")] {
                emit_pair_with(g, enc, &ty, text.as_bytes(), Some("%"), Some((cap, sch)));
            }
        }
    }
    // 1. well-formed save-style documents x layouts x encodings x target types
    let n = g.budget(30_000, 300_000);
    let cfg = DocCfg::save_style();
    for i in 0..n {
        let mut doc = gen_doc(&mut g.rng, &cfg);
        // the shared generator returns an empty document 1 time in 5: keep a few, redraw the rest
        while doc.fields.is_empty() && g.rng.chance(19, 20) { doc = gen_doc(&mut g.rng, &cfg); }
        let data = render_layout(&mut g.rng, &LayoutCfg::reader_safe(), &lexemes(&doc));
        let mut ty = if g.rng.chance(1, 8) { doc_ty(&mut g.rng, &doc, true) } else { gen_fields_ty(&mut g.rng, &doc.fields, &TyCfg { prop: true }) };
        if g.rng.chance(1, 12) { ty = misfit(&mut g.rng, &ty); g.count("ty-misfit"); }
        count_ty(g, &ty);
        let encs: &[Enc] = if i % 3 == 0 { &[Enc::W, Enc::U] } else if i % 3 == 1 { &[Enc::W] } else { &[Enc::U] };
        for &enc in encs {
            let expect = value_of(enc, &ty, &doc);
            count_float_hits(g, &expect);
            g.count(if expect.is_some() { "wf:with-expectation" } else { "wf:no-expectation" });
            // no reference value, but the pair is outside Lean's `Bad`: the two paths must still agree
            let claimed = expect.is_none() && agreement_claimed(enc, &ty, &doc);
            if claimed { g.count("wf:agreement-claimed-without-value"); }
            if let Some(e) = &expect { if is_err(e) { g.count(&format!("wf:expected-error:{}", e.split(':').nth(1).unwrap_or("?"))); } }
            let expect = if claimed { Some("=".to_string()) } else { expect };
            emit_pair(g, enc, &ty, &data, expect.as_deref());
            let expect = if claimed { None } else { expect };
            emit_spec(g, enc, &ty, &doc, expect.as_deref());
        }
    }
    // 1b. decimal sweep: every number of fraction digits 1..=22 (each entry of the crate's power-of-ten
    //     table) with typed float targets; the reference is Rust's correctly rounded `str::parse`
    let reps = g.budget(12, 120);
    for k in 1..=22usize {
        for rep in 0..reps {
            let mk = |rng: &mut Rng| -> Vec<u8> {
                let int = match rng.below(4) { 0 => 0u64, 1 => rng.below(10) as u64, 2 => rng.below(1000) as u64, _ => rng.next() >> rng.range(20, 60) };
                // keep the digits within u64 so that the crate does not refuse: leading zeros / short integer parts
                let lead = match rng.below(3) { 0 => 0, 1 => k / 2, _ => k.saturating_sub(3) }.max(k.saturating_sub(18));
                let int = if k > 15 { 0 } else { int };
                let frac: String = (0..k).map(|i| if i < lead { '0' } else if rng.chance(1, 3) { '0' } else { char::from(b'0' + rng.below(10) as u8) }).collect();
                let z = k.saturating_sub(19);
                let frac = if rep == 0 { format!("{}5{}", "0".repeat(z), "0".repeat(k - 1 - z)) } else { frac };
                let int = if rep == 0 { 0 } else { int };
                format!("{}{}.{}", if rng.chance(1, 4) { "-" } else { "" }, int, frac).into_bytes()
            };
            let (a, b) = (mk(&mut g.rng), mk(&mut g.rng));
            let fld = |k: &str, v: Vec<u8>| Field { key: Leaf::Unq(k.as_bytes().to_vec()), op: Op::Eq, val: Node::Leaf(Leaf::Unq(v)), ghosts: 0, implicit_eq: false };
            let doc = Doc { fields: vec![fld("x", a.clone()), fld("list", b.clone()), fld("y", a)] };
            let ty = Ty::Struct(vec![("x".into(), Ty::F64), ("y".into(), if rep % 3 == 0 { Ty::Prop(Box::new(Ty::F32)) } else { Ty::F32 }), ("list".into(), Ty::Opt(Box::new(Ty::F64)))]);
            let data = render_layout(&mut g.rng, &LayoutCfg::reader_safe(), &lexemes(&doc));
            let enc = if rep % 2 == 0 { Enc::W } else { Enc::U };
            let expect = value_of(enc, &ty, &doc);
            count_float_hits(g, &expect);
            g.count(if expect.is_some() { "decimal-sweep:with-expectation" } else { "decimal-sweep:no-expectation" });
            emit_pair(g, enc, &ty, &data, expect.as_deref());
            emit_spec(g, enc, &ty, &doc, expect.as_deref());
        }
    }
    // 2. documents with operators: Property capture (operators on any field, first fields included since the F9 repair)
    let n = g.budget(6_000, 60_000);
    let cfg_ops = DocCfg { operators: true, ..DocCfg::save_style() };
    for _ in 0..n {
        let mut doc = gen_doc(&mut g.rng, &cfg_ops);
        let data = render_layout(&mut g.rng, &LayoutCfg::reader_safe(), &lexemes(&doc));
        // operators are only observable through Property: wrap every field with a non-'=' operator
        fn wrap(rng: &mut Rng, fs: &[Field]) -> Ty {
            let t = gen_fields_ty(rng, fs, &TyCfg { prop: true });
            t
        }
        let ty = wrap(&mut g.rng, &doc.fields);
        count_ty(g, &ty);
        let enc = if g.rng.chance(1, 2) { Enc::W } else { Enc::U };
        // a non-'=' operator under a non-Property type is dropped on both paths; value_of agrees with that
        let expect = value_of(enc, &ty, &doc);
        count_float_hits(g, &expect);
        g.count(if expect.is_some() { "ops:with-expectation" } else { "ops:no-expectation" });
        emit_pair(g, enc, &ty, &data, expect.as_deref());
        emit_spec(g, enc, &ty, &doc, expect.as_deref());
    }
    // 3. malformed stream: mutations of rendered documents, random text; no expectation, correspondence only
    let n = g.budget(12_000, 120_000);
    for _ in 0..n {
        let doc = gen_doc(&mut g.rng, &DocCfg { max_fields: 4, ..DocCfg::text_full() });
        let base = render_layout(&mut g.rng, &LayoutCfg::reader_safe(), &lexemes(&doc));
        let data = if g.rng.chance(1, 8) { random_text(&mut g.rng, 24) } else if g.rng.chance(1, 3) { base } else { mutate(&mut g.rng, &base, TEXT_ALPHABET) };
        let mut ty = if g.rng.chance(1, 2) { doc_ty(&mut g.rng, &doc, true) } else { gen_fields_ty(&mut g.rng, &doc.fields, &TyCfg { prop: true }) };
        if g.rng.chance(1, 4) { ty = misfit(&mut g.rng, &ty); }
        let enc = if g.rng.chance(1, 2) { Enc::W } else { Enc::U };
        g.count("malformed");
        emit_pair(g, enc, &ty, &data, None);
    }
    // 4. real derived structs against the Ty interpreter
    let n = g.budget(5_000, 50_000);
    for i in 0..n {
        let enc = if i % 2 == 0 { Enc::W } else { Enc::U };
        if i % 4 == 3 {
            let data = gen_dup_doc(&mut g.rng);
            g.emit(format!("x-derive dup {} {}", enc.name(), hex(&data)));
        } else {
            let data = gen_top_doc(&mut g.rng);
            g.emit(format!("x-derive top {} {}", enc.name(), hex(&data)));
            if i % 8 == 0 { emit_pair(g, enc, &parse_ty(derived::TOP_TY).unwrap(), &data, None); }
        }
    }
    // 5. RECORDED known divergences (known_findings.txt), probed with the real ops and reported under their
    //    own oracle kinds; they are not part of the well-formed document model
    let word = |rng: &mut Rng| -> String { (0..rng.range(1, 5)).map(|_| (b'a' + rng.below(26) as u8) as char).collect() };
    for i in 0..12 {
        // an empty `{}` as FIRST element of an array: dropped by the tape parser, kept by the reader path
        let key = *g.rng.pick(&["a", "list", "flags"]);
        let rest: Vec<String> = (0..g.rng.below(4)).map(|_| if g.rng.chance(1, 4) { format!("{{ {} }}", word(&mut g.rng)) } else { word(&mut g.rng) }).collect();
        let text = format!("{}={{ {{}} {} }} id={}", key, rest.join(" "), g.rng.below(100));
        let ty = if rest.iter().all(|r| r.starts_with('{')) && g.rng.chance(1, 2) { format!("st({}:seq(seq(any)))", key) } else { format!("st({}:seq(ign);id:opt(i64))", key) };
        let enc = if i % 2 == 0 { Enc::W } else { Enc::U };
        emit_pair_with(g, enc, &parse_ty(&ty).unwrap(), text.as_bytes(), Some("!array-leading-empty"), None);
    }
    for i in 0..12 {
        // a header value read as a sequence: the tape path yields [name, body], the reader path ignores the
        // current token in deserialize_seq
        let hdr = *g.rng.pick(&["rgb", "hsv", "LIST", "hsv360"]);
        let n = g.rng.range(1, 4);
        let body: Vec<String> = (0..n).map(|_| g.rng.below(256).to_string()).collect();
        let tail = if g.rng.chance(1, 2) { format!(" name={}", word(&mut g.rng)) } else { String::new() };
        let text = format!("color = {} {{ {} }}{}", hdr, body.join(" "), tail);
        let ty = *g.rng.pick(&["st(color:seq(any))", "st(color:seq(any);name:opt(str))", "map(seq(any))", "st(color:opt(seq(ign)))"]);
        let enc = if i % 2 == 0 { Enc::W } else { Enc::U };
        emit_pair_with(g, enc, &parse_ty(ty).unwrap(), text.as_bytes(), Some("!text-reader-header"), None);
    }
    for (kind, ty, text) in [
        ("exact-operator-split-repaired", "st(a:prop(str);b:opt(str))", &b"a==b"[..]),
        ("exact-operator-split-repaired", "st(a:prop(str);b:opt(str))", b"a == b            "),
        ("first-field-operator-repaired", "st(a:st(b:prop(str)))", b"a={ b ?= c }"),
    ] {
        g.emit(format!("x-probe {} w1252 {} {}", kind, ty, hex(text)));
    }
}

pub fn tables() -> String {
    String::new()
}
