//! C02 — text deserialization returns the document's values on both parse paths.
//!
//! ops (the model answers both; trailing arguments after the token list are for replay / oracles
//! and are ignored by the model):
//!   tde_tape   <enc> <ty> <tape>    <hex> <expect>
//!   tde_stream <enc> <ty> <rtokens> <hex> <cap> <sched> <expect>
//!   tde_wft <tape> <hex>            the structural hypothesis `WfT` of the totality theorem holds for the real tape
//!   x-tde_stream …   same, for inputs where the token-level stream model is not applicable
//!                    (byte-level skip_container / read_expect_equals differ from token-level reading)
//!   spec_doc <enc> <ty> <doc> <hex> the Lean SPEC on the abstract document (valueOf | lexemes | tapeOf) against the
//!                                   real deserializer / reader / tape parser on its canonical rendering <hex>
//!   x-derive <which> <enc> <hex>    real derived structs against TySeed on the same input
//!   x-probe <kind> <enc> <ty> <hex> known divergences, observed and counted
//!   x-rare <which> <enc> <hex> <expect>   REAL Rust target types on the rarely used serde entry points (narrow ints, char,
//!                    &str / Cow, bytes / byte_buf, unit, newtype / tuple structs, arrays, 128-bit ints, enums with
//!                    content, IgnoredAny, Property) through EVERY constructor; oracle: all constructors give the same
//!                    Debug string or all refuse with the same class, and the expected Debug string / error class
//! enc = w1252 | utf8.  <tape> = show::text_tape of the REAL tape of <hex>; <rtokens> = the REAL
//! TokenReader::from_slice tokens of <hex> (show::text_lex_tok, plus a final `Err` when the lexer failed).
//! <expect> = value computed from the abstract document by `value_of` (independent reference), `-` = none.
//! result = Val rendering of tyseed.rs or its error class.
use crate::common::*;
use crate::docgen::*;
use crate::sched;
use crate::show;
use crate::tyseed::*;
use jomini::text::{Token, TokenReader};
use jomini::{TextDeserializer, TextTape};
use serde::de::DeserializeSeed;
use std::io::Read;

#[derive(Clone, Copy, PartialEq, Debug)]
enum Enc { W, U }
impl Enc {
    fn name(self) -> &'static str { match self { Enc::W => "w1252", Enc::U => "utf8" } }
    fn parse(s: &str) -> Option<Enc> { match s { "w1252" => Some(Enc::W), "utf8" => Some(Enc::U), _ => None } }
}

// ---------------------------------------------------------------------------------------
// running the real code

fn cls<E: std::fmt::Display>(r: Result<String, E>) -> String {
    match r { Ok(v) => v, Err(e) => err_class(&e.to_string()) }
}

fn run_tape(enc: Enc, ty: &Ty, tape: &TextTape) -> String {
    match enc {
        Enc::W => cls(TySeed(ty).deserialize(&TextDeserializer::from_windows1252_tape(tape))),
        Enc::U => cls(TySeed(ty).deserialize(&TextDeserializer::from_utf8_tape(tape))),
    }
}

fn run_slice(enc: Enc, ty: &Ty, data: &[u8]) -> String {
    match enc {
        Enc::W => match TextDeserializer::from_windows1252_slice(data) { Ok(de) => cls(TySeed(ty).deserialize(&de)), Err(_) => "err:parse".into() },
        Enc::U => match TextDeserializer::from_utf8_slice(data) { Ok(de) => cls(TySeed(ty).deserialize(&de)), Err(_) => "err:parse".into() },
    }
}

/// (result, error was BufferFull)
fn run_reader<R: Read>(enc: Enc, ty: &Ty, rdr: TokenReader<R>) -> (String, bool) {
    let r = match enc {
        Enc::W => { let mut de = TextDeserializer::from_windows1252_reader(rdr); TySeed(ty).deserialize(&mut de) }
        Enc::U => { let mut de = TextDeserializer::from_utf8_reader(rdr); TySeed(ty).deserialize(&mut de) }
    };
    match r {
        Ok(v) => (v, false),
        // BufferFull is recognised by error KIND (message texts are free to change)
        Err(e) => { let full = matches!(e.kind(), jomini::ErrorKind::BufferFull); (err_class(&e.to_string()), full) }
    }
}

struct Lexed { toks: Vec<String>, ends: Vec<usize>, kinds: Vec<u8>, err: bool }
const K_OPEN: u8 = 0; const K_CLOSE: u8 = 1; const K_OTHER: u8 = 2; const K_EXACT: u8 = 3;

/// the real slice reader's token stream with the end position of every token
fn lex(data: &[u8]) -> Lexed {
    let mut r = TokenReader::from_slice(data);
    let mut out = Lexed { toks: vec![], ends: vec![], kinds: vec![], err: false };
    loop {
        let step = match r.next() {
            Ok(Some(t)) => {
                let k = match t { Token::Open => K_OPEN, Token::Close => K_CLOSE, Token::Operator(jomini::text::Operator::Exact) => K_EXACT, _ => K_OTHER };
                Some((show::text_lex_tok(&t), k))
            }
            Ok(None) => None,
            Err(_) => { out.err = true; None }
        };
        match step {
            Some((s, k)) => { out.toks.push(s); out.kinds.push(k); out.ends.push(r.position()); }
            None => break,
        }
        if out.toks.len() > 100_000 { break; }
    }
    out
}

fn show_lexed(l: &Lexed) -> String {
    let mut v = l.toks.clone();
    if l.err { v.push("Err".to_string()); }
    if v.is_empty() { "-".to_string() } else { v.join(",") }
}

/// Is the token-level stream model applicable?  The streaming deserializer touches bytes in
/// `skip_container` (a byte scanner; `read_expect_equals` peeks bytes too but, since the repair of
/// finding `exact-operator-split`, agrees with `read`).  The token-level model is exact when every
/// byte-level skip started after an Open lands right after the token-level matching Close (or fails
/// when there is none).
fn token_model_applicable(data: &[u8], l: &Lexed) -> Result<(), &'static str> {
    for i in 0..l.toks.len() {
        if l.kinds[i] == K_OPEN {
            let mut depth = 1usize;
            let mut expect = None;
            for j in i + 1..l.toks.len() {
                if l.kinds[j] == K_OPEN { depth += 1; }
                if l.kinds[j] == K_CLOSE { depth -= 1; if depth == 0 { expect = Some(l.ends[j]); break; } }
            }
            let p = l.ends[i];
            let mut r = TokenReader::from_slice(&data[p..]);
            let got = match r.skip_container() { Ok(()) => Some(p + r.position()), Err(_) => None };
            if got != expect { return Err("skip-differs"); }
        }
    }
    Ok(())
}

// ---------------------------------------------------------------------------------------
// independent reference: the value a (type, abstract document) pair denotes

fn w1252_char(b: u8) -> char {
    const HI: [u16; 32] = [0x20ac, 0x81, 0x201a, 0x0192, 0x201e, 0x2026, 0x2020, 0x2021, 0x02c6, 0x2030, 0x0160, 0x2039, 0x0152, 0x8d, 0x017d, 0x8f,
                           0x90, 0x2018, 0x2019, 0x201c, 0x201d, 0x2022, 0x2013, 0x2014, 0x02dc, 0x2122, 0x0161, 0x203a, 0x0153, 0x9d, 0x017e, 0x0178];
    if (0x80..0xa0).contains(&b) { char::from_u32(HI[(b - 0x80) as usize] as u32).unwrap() } else { b as char }
}

/// strings: trailing ASCII whitespace dropped, backslashes deleted, then the chosen encoding
fn decode_ref(enc: Enc, raw: &[u8]) -> Vec<u8> {
    let mut d = raw;
    while let [rest @ .., last] = d { if matches!(last, b' ' | b'\t' | b'\n' | b'\r' | 0x0c) { d = rest } else { break } }
    let body: Vec<u8> = d.iter().copied().filter(|b| *b != b'\\').collect();
    match enc {
        Enc::W => body.iter().map(|b| w1252_char(*b)).collect::<String>().into_bytes(),
        Enc::U => String::from_utf8_lossy(&body).into_owned().into_bytes(),
    }
}

/// (negative, magnitude) of `[+-]?digits+`
fn ref_int(d: &[u8]) -> Option<(bool, u128)> {
    let (neg, body) = match d.first()? { b'+' => (false, &d[1..]), b'-' => (true, &d[1..]), _ => (false, d) };
    if body.is_empty() || body.len() > 30 || !body.iter().all(|b| b.is_ascii_digit()) { return None; }
    Some((neg, body.iter().fold(0u128, |a, b| a * 10 + (*b - b'0') as u128)))
}

thread_local! {
    /// decimal leaves met with a typed float target while computing an expectation (drained into the histogram)
    static FLOAT_HITS: std::cell::RefCell<Vec<String>> = std::cell::RefCell::new(Vec::new());
}

/// `-?digits.digits` → (number of fraction digits, all digits read as one integer; saturating)
fn decimal_text(t: &[u8]) -> Option<(usize, u128)> {
    let body = if t.first() == Some(&b'-') { &t[1..] } else { t };
    let dot = body.iter().position(|b| *b == b'.')?;
    let (a, b) = (&body[..dot], &body[dot + 1..]);
    if a.is_empty() || b.is_empty() || !a.iter().chain(b.iter()).all(|c| c.is_ascii_digit()) { return None; }
    let digits = a.iter().chain(b.iter()).fold(0u128, |acc, c| acc.saturating_mul(10).saturating_add((*c - b'0') as u128));
    Some((b.len(), digits))
}

/// result against expectation; `f~<bits>` / `g~<bits>` in the expectation accept 2 ulp (f64) / 1 ulp (f32)
fn matches_expect(r: &str, e: &str) -> bool {
    if !e.contains('~') { return r == e; }
    let (rb, eb) = (r.as_bytes(), e.as_bytes());
    let (mut i, mut j) = (0usize, 0usize);
    while j < eb.len() {
        if j + 1 < eb.len() && (eb[j] == b'f' || eb[j] == b'g') && eb[j + 1] == b'~' {
            if i >= rb.len() || rb[i] != eb[j] { return false; }
            let num = |s: &[u8], mut k: usize| -> (u64, usize) { let mut v: u64 = 0; while k < s.len() && s[k].is_ascii_digit() { v = v.wrapping_mul(10).wrapping_add((s[k] - b'0') as u64); k += 1; } (v, k) };
            let (ev, j2) = num(eb, j + 2);
            let (rv, i2) = num(rb, i + 1);
            if i2 == i + 1 { return false; }
            // same sign, finite: neighbouring bit patterns are neighbouring values
            let tol = if eb[j] == b'f' { 2 } else { 1 };
            if ev.abs_diff(rv) > tol { return false; }
            i = i2; j = j2;
        } else {
            if i >= rb.len() || rb[i] != eb[j] { return false; }
            i += 1; j += 1;
        }
    }
    i == rb.len()
}

fn raw_bytes(l: &Leaf) -> Vec<u8> {
    match l { Leaf::Quo(b) => b.clone(), other => leaf_text(other).0 }
}

fn value_of_leaf(enc: Enc, ty: &Ty, l: &Leaf) -> Option<String> {
    let text = raw_bytes(l);
    let ty_err = Some("err:type".to_string());
    match ty {
        Ty::Bool => Some(if text == b"yes" { "b1".into() } else if text == b"no" { "b0".into() } else { return ty_err }),
        Ty::I64 | Ty::I32 | Ty::I16 | Ty::I8 => {
            let foreign = text.iter().any(|b| !b.is_ascii_digit() && *b != b'+' && *b != b'-');
            let (neg, m) = match ref_int(&text) { Some(x) => x, None => return if foreign { ty_err } else { None } };
            if m > i64::MAX as u128 && !(neg && m == 1u128 << 63) { return ty_err; }
            let v = if neg { (-(m as i128)) as i64 } else { m as i64 };
            if *ty == Ty::I32 && i32::try_from(v).is_err() { return ty_err; }
            if *ty == Ty::I16 && i16::try_from(v).is_err() { return ty_err; }
            if *ty == Ty::I8 && i8::try_from(v).is_err() { return ty_err; }
            Some(format!("i{}", v))
        }
        Ty::U64 | Ty::U32 | Ty::U16 | Ty::U8 => {
            let foreign = text.iter().any(|b| !b.is_ascii_digit() && *b != b'+' && *b != b'-');
            let (neg, m) = match ref_int(&text) { Some(x) => x, None => return if foreign { ty_err } else { None } };
            if neg { return ty_err; }
            if m > u64::MAX as u128 { return ty_err; }
            if *ty == Ty::U32 && m > u32::MAX as u128 { return ty_err; }
            if *ty == Ty::U16 && m > u16::MAX as u128 { return ty_err; }
            if *ty == Ty::U8 && m > u8::MAX as u128 { return ty_err; }
            Some(format!("u{}", m))
        }
        Ty::F64 | Ty::F32 => {
            // decimal meaning through Rust's correctly rounded `str::parse::<f64>` (never the crate's own
            // conversion): bit-equal when the digits read as an integer are < 2^53, within 2 ulp otherwise
            // (marked `f~` / `g~`); no expectation when the digits do not fit a u64 (the crate may refuse)
            let exact = match l {
                Leaf::Int(i) => { if i.unsigned_abs() >= (1 << 53) { return None; } true }
                Leaf::Uint(u) => { if *u >= (1 << 53) { return None; } true }
                Leaf::Fixed(_) => true,
                Leaf::Unq(_) => {
                    let (k, digits) = decimal_text(&text)?;
                    if digits > u64::MAX as u128 { return None; }
                    FLOAT_HITS.with(|h| h.borrow_mut().push(format!("float-target:{}:frac-digits={:02}:{}", if *ty == Ty::F64 { "f64" } else { "f32" }, k, if digits < (1u128 << 53) { "bit-exact" } else { "2ulp" })));
                    digits < (1u128 << 53)
                }
                _ => return None,
            };
            let v: f64 = std::str::from_utf8(&text).ok()?.parse().ok()?;
            if v == 0.0 && text.first() == Some(&b'-') { return None; }
            let mark = if exact { "" } else { "~" };
            Some(if *ty == Ty::F64 { format!("f{}{}", mark, v.to_bits()) } else { format!("g{}{}", mark, (v as f32).to_bits()) })
        }
        Ty::Str | Ty::Any => Some(format!("s{}", hex(&decode_ref(enc, &text)))),
        Ty::Ign => Some("ign".into()),
        Ty::Opt(t) => value_of_leaf(enc, t, l).map(|v| if v.starts_with("err") { v } else { format!("some({})", v) }),
        Ty::Enum(vs) => {
            let name = decode_ref(enc, &text);
            Some(if vs.iter().any(|v| v.as_bytes() == &name[..]) { format!("en({})", hex(&name)) } else { "err:other".into() })
        }
        _ => None,
    }
}

fn is_err(v: &str) -> bool { v.starts_with("err") }

/// number of sequence elements a node occupies (a header and its body are two values)
fn arr_units(n: &Node) -> usize { match n { Node::Header(..) | Node::Rgb(..) => 2, _ => 1 } }

fn value_of_fields(enc: Enc, ty: &Ty, fs: &[Field]) -> Option<String> {
    match ty {
        Ty::Struct(decl) => {
            let mut slots: Vec<Option<String>> = vec![None; decl.len()];
            for f in fs {
                let key = decode_ref(enc, &raw_bytes(&f.key));
                match decl.iter().position(|(n, _)| n.as_bytes() == &key[..]) {
                    Some(i) => {
                        if slots[i].is_some() { return Some(format!("err:duplicate:{}", decl[i].0)); }
                        let v = value_of_node(enc, &decl[i].1, &f.val, Some(f.op))?;
                        if is_err(&v) { return Some(v); }
                        slots[i] = Some(v);
                    }
                    None => {}
                }
            }
            let mut items = vec![];
            for (i, (name, t)) in decl.iter().enumerate() {
                let v = match slots[i].take() { Some(v) => v, None => match t { Ty::Opt(_) => "none".to_string(), _ => return Some(format!("err:missing:{}", name)) } };
                items.push(format!("{}={}", name, v));
            }
            Some(format!("{{{}}}", items.join(",")))
        }
        Ty::Map(t) => {
            let mut items = vec![];
            for f in fs {
                let k = format!("s{}", hex(&decode_ref(enc, &raw_bytes(&f.key))));
                let v = value_of_node(enc, t, &f.val, Some(f.op))?;
                if is_err(&v) { return Some(v); }
                items.push(format!("{}={}", k, v));
            }
            Some(format!("{{{}}}", items.join(",")))
        }
        _ => None,
    }
}

/// `op` is Some in field position (operator capture), None for sequence elements
fn value_of_node(enc: Enc, ty: &Ty, n: &Node, op: Option<Op>) -> Option<String> {
    match ty {
        Ty::Ign => return Some("ign".into()),
        Ty::Opt(t) => return value_of_node(enc, t, n, op).map(|v| if is_err(&v) { v } else { format!("some({})", v) }),
        Ty::Prop(t) => {
            let op = op?;
            // the captured value is read without its operator: a nested Property has nothing to capture
            if matches!(**t, Ty::Prop(_)) || matches!(&**t, Ty::Opt(x) if matches!(**x, Ty::Prop(_))) { return None; }
            return value_of_node(enc, t, n, None).map(|v| if is_err(&v) { v } else { format!("prop({},{})", op.name(), v) });
        }
        _ => {}
    }
    let typed_leaf = matches!(ty, Ty::Bool | Ty::I64 | Ty::U64 | Ty::I32 | Ty::U32 | Ty::I16 | Ty::U16 | Ty::I8 | Ty::U8 | Ty::F64 | Ty::F32 | Ty::Str);
    let ty_err = Some("err:type".to_string());
    match n {
        // a map / struct requested for a scalar: both paths refuse with the same class (Lean `Fits.mapOnLeaf` / `stOnLeaf`)
        Node::Leaf(_) if matches!(ty, Ty::Map(_) | Ty::Struct(_)) => ty_err,
        Node::Leaf(l) => value_of_leaf(enc, ty, l),
        // a typed scalar requested for a container: both paths refuse with the same class (`Fits.leafOnObj` / `leafOnArr`)
        Node::Obj(_) | Node::Arr(_) if typed_leaf => ty_err,
        Node::Obj(fs) if !fs.is_empty() => if nested_first_implicit(fs) { None } else { value_of_fields(enc, ty, fs) },
        Node::Obj(_) => value_of_node(enc, ty, &Node::Arr(vec![]), op),
        Node::Arr(vs) => match ty {
            Ty::Seq(t) => {
                if matches!(vs.first(), Some(Node::Arr(v)) if v.is_empty()) || matches!(vs.first(), Some(Node::Obj(v)) if v.is_empty()) { return None; }
                let mut items = vec![];
                // inside an array a header value is two values, its name and its body (Lean `expandNodes`)
                for v in expand_nodes(vs)? {
                    let x = value_of_node(enc, t, &v, None)?;
                    if is_err(&x) { return Some(x); }
                    items.push(x);
                }
                Some(format!("[{}]", items.join(",")))
            }
            // a fixed-length target on an array that is not longer (Lean `tupVals`, `Fits.tup`): a missing element is
            // `invalid length`; a longer array has no shared value (the paths differ)
            Ty::Tuple(ts) => {
                if matches!(vs.first(), Some(Node::Arr(v)) if v.is_empty()) || matches!(vs.first(), Some(Node::Obj(v)) if v.is_empty()) { return None; }
                let xs = expand_nodes(vs)?;
                if xs.len() > ts.len() { return None; }
                let mut items = vec![];
                for (i, t) in ts.iter().enumerate() {
                    let Some(v) = xs.get(i) else { return Some("err:other".into()) };
                    let x = value_of_node(enc, t, v, None)?;
                    if is_err(&x) { return Some(x); }
                    items.push(x);
                }
                Some(format!("({})", items.join(",")))
            }
            // `any` on an array of scalars / arrays / header values, any depth (Lean `anyVal`, `Fits.anyArr`)
            Ty::Any => any_val(enc, n),
            // the empty `{}` read as a map / struct (`Fits.emptyMap` / `emptySt`)
            Ty::Map(_) | Ty::Struct(_) if vs.is_empty() => value_of_fields(enc, ty, &[]),
            _ => None,
        },
        // a header value read with a scalar target (not `any`: the tape path would present the body) is its
        // name on both paths; the body is skipped
        Node::Header(name, _) => if has_any(ty) { None } else { value_of_leaf(enc, ty, &Leaf::Unq(name.clone())) },
        Node::Rgb(..) => if has_any(ty) { None } else { value_of_leaf(enc, ty, &Leaf::Unq(b"rgb".to_vec())) },
        Node::Mixed(..) => None,
    }
}

/// a header value as (name, body); `Rgb` is `rgb { r g b [a] }`
fn hdr_parts(n: &Node) -> Option<(Vec<u8>, Node)> {
    match n {
        Node::Header(name, body) if matches!(**body, Node::Obj(_) | Node::Arr(_)) => Some((name.clone(), (**body).clone())),
        Node::Rgb(r, g, b, a) => Some((b"rgb".to_vec(), Node::Arr([Some(*r), Some(*g), Some(*b), *a].iter().flatten().map(|c| Node::Leaf(Leaf::Unq(c.to_string().into_bytes()))).collect()))),
        _ => None,
    }
}

/// Lean `expandNodes`
fn expand_nodes(vs: &[Node]) -> Option<Vec<Node>> {
    let mut out = vec![];
    for v in vs {
        match v {
            Node::Header(..) | Node::Rgb(..) => { let (n, b) = hdr_parts(v)?; out.push(Node::Leaf(Leaf::Unq(n))); out.push(b); }
            Node::Mixed(..) => return None,
            _ => out.push(v.clone()),
        }
    }
    Some(out)
}

/// Lean `anyVal`: the tree serde's `deserialize_any` builds on BOTH paths (objects excluded: the paths differ there)
fn any_val(enc: Enc, n: &Node) -> Option<String> {
    match n {
        Node::Leaf(l) => value_of_leaf(enc, &Ty::Any, l),
        Node::Obj(fs) if fs.is_empty() => Some("[]".into()),
        Node::Arr(vs) => {
            if matches!(vs.first(), Some(Node::Arr(v)) if v.is_empty()) || matches!(vs.first(), Some(Node::Obj(v)) if v.is_empty()) { return None; }
            let items = expand_nodes(vs)?.iter().map(|v| any_val(enc, v)).collect::<Option<Vec<_>>>()?;
            Some(format!("[{}]", items.join(",")))
        }
        _ => None,
    }
}

/// Lean `Bad` (Spec/TextDoc.lean), plus everything outside the abstract document of the spec: `false` means
/// the Lean theorem `C02_error_agreement` CLAIMS that both paths return the same result (value or error class)
fn bad(enc: Enc, field_pos: bool, ty: &Ty, n: &Node) -> bool {
    match n {
        Node::Mixed(..) => return true,
        Node::Header(_, body) if !matches!(**body, Node::Obj(_) | Node::Arr(_)) => return true,
        Node::Obj(fs) if nested_first_implicit(fs) => return true,
        // the recorded finding `array-leading-empty` (a byte-level difference of the two parsers)
        Node::Arr(vs) if vs.len() > 1 && (matches!(vs.first(), Some(Node::Arr(v)) if v.is_empty()) || matches!(vs.first(), Some(Node::Obj(v)) if v.is_empty())) => return true,
        _ => {}
    }
    let is_hdr = matches!(n, Node::Header(..) | Node::Rgb(..));
    let empty = matches!(n, Node::Arr(v) if v.is_empty()) || matches!(n, Node::Obj(f) if f.is_empty());
    match ty {
        Ty::Bool | Ty::I64 | Ty::U64 | Ty::I32 | Ty::U32 | Ty::I16 | Ty::U16 | Ty::I8 | Ty::U8 | Ty::F64 | Ty::F32 | Ty::Str | Ty::Ign => false,
        Ty::Any => match n {
            Node::Leaf(_) => false,
            Node::Arr(vs) => !any_oks(vs),
            Node::Obj(_) if empty => false,
            _ => true,
        },
        Ty::Enum(_) => !(matches!(n, Node::Leaf(_)) || is_hdr),
        Ty::Opt(t) => bad(enc, field_pos, t, n),
        Ty::Prop(t) => !field_pos || bad(enc, false, t, n),
        Ty::Seq(t) => match n {
            Node::Arr(vs) => match expand_nodes(vs) { Some(xs) => xs.iter().any(|x| bad(enc, false, t, x)), None => true },
            Node::Obj(_) if empty => false,
            _ => true,
        },
        Ty::Map(t) => match n {
            Node::Leaf(_) => false,
            _ if empty => false,
            Node::Obj(fs) => fs.iter().any(|f| bad(enc, true, t, &f.val)),
            _ => true,
        },
        Ty::Struct(decl) => match n {
            Node::Leaf(_) => false,
            _ if empty => false,
            Node::Obj(fs) => fs.iter().any(|f| {
                let key = decode_ref(enc, &raw_bytes(&f.key));
                match decl.iter().find(|(name, _)| name.as_bytes() == &key[..]) { Some((_, t)) => bad(enc, true, t, &f.val), None => false }
            }),
            _ => true,
        },
        Ty::Tuple(ts) => match n {
            Node::Arr(vs) => match expand_nodes(vs) { Some(xs) => xs.len() > ts.len() || ts.iter().zip(xs.iter()).any(|(t, x)| bad(enc, false, t, x)), None => true },
            Node::Obj(_) if empty => false,
            _ => true,
        },
        // outside the Lean models' type grammar
        Ty::Unit => true,
    }
}

/// Lean `anyOks`
fn any_oks(vs: &[Node]) -> bool {
    match expand_nodes(vs) {
        Some(xs) => xs.iter().all(|x| match x { Node::Leaf(_) => true, Node::Arr(ys) => !bad_leading(ys) && any_oks(ys), Node::Obj(f) => f.is_empty(), _ => false }),
        None => false,
    }
}
fn bad_leading(vs: &[Node]) -> bool {
    vs.len() > 1 && (matches!(vs.first(), Some(Node::Arr(v)) if v.is_empty()) || matches!(vs.first(), Some(Node::Obj(v)) if v.is_empty()))
}

/// the whole document against a root type: does `C02_error_agreement` claim agreement?
fn agreement_claimed(enc: Enc, ty: &Ty, doc: &Doc) -> bool {
    // (at the root a first field without its `=` is an ordinary field)
    let mut fields = doc.fields.clone();
    if let Some(f) = fields.first_mut() { f.implicit_eq = false; }
    matches!(ty, Ty::Struct(_) | Ty::Map(_)) && !doc.fields.is_empty() && !bad(enc, false, ty, &Node::Obj(fields))
}

fn has_any(t: &Ty) -> bool {
    match t { Ty::Any => true, Ty::Opt(x) | Ty::Seq(x) | Ty::Map(x) | Ty::Prop(x) => has_any(x), Ty::Struct(fs) => fs.iter().any(|(_, x)| has_any(x)), _ => false }
}

fn value_of(enc: Enc, ty: &Ty, doc: &Doc) -> Option<String> {
    FLOAT_HITS.with(|h| h.borrow_mut().clear());
    value_of_fields(enc, ty, &doc.fields)
}

/// count the decimal leaves the last successful `value_of` read with a typed float target
fn count_float_hits(g: &mut Gen, expect: &Option<String>) {
    let hits: Vec<String> = FLOAT_HITS.with(|h| h.borrow_mut().drain(..).collect());
    if expect.is_some() { for k in hits { g.count(&k); } }
}

// ---------------------------------------------------------------------------------------
// target type generation (shape-directed full capture, partial structs, typed scalars, Property, enums)

const VARIANT_POOL: [&str; 6] = ["alpha", "beta", "core", "name", "x", "zz"];

fn ident(b: &[u8]) -> bool { !b.is_empty() && b.len() <= 12 && b.iter().all(|c| c.is_ascii_alphanumeric() || *c == b'_') }

fn gen_leaf_ty(rng: &mut Rng, l: &Leaf) -> Ty {
    if rng.chance(1, 40) { return rng.pick(&[Ty::Bool, Ty::I64, Ty::U64, Ty::F64, Ty::Str, Ty::I16, Ty::U8]).clone(); }
    match l {
        // the narrow integer targets (serde's range-checked conversions after deserialize_i64 / _u64): in and out of range
        Leaf::Int(_) | Leaf::Uint(_) if rng.chance(1, 5) => rng.pick(&[Ty::I16, Ty::U16, Ty::I8, Ty::U8]).clone(),
        Leaf::Int(i) => match rng.below(8) { 0 => Ty::F64, 1 => Ty::Any, 2 => Ty::Str, 3 => Ty::I32, 4 if *i >= 0 || rng.chance(1, 4) => Ty::U64, 5 => Ty::F32, 6 => Ty::U32, _ => Ty::I64 },
        Leaf::Uint(u) => match rng.below(7) { 0 => Ty::Any, 1 => Ty::Str, 2 => Ty::U32, 3 => Ty::I64, 4 if *u < (1 << 53) => Ty::F64, 5 => Ty::I32, _ => Ty::U64 },
        Leaf::Bool(_) => match rng.below(5) { 0 => Ty::Any, 1 => Ty::Str, _ => Ty::Bool },
        Leaf::Fixed(_) => match rng.below(5) { 0 => Ty::Any, 1 => Ty::Str, 2 => Ty::F32, _ => Ty::F64 },
        Leaf::Date(..) => if rng.chance(1, 3) { Ty::Any } else { Ty::Str },
        Leaf::Unq(b) if decimal_text(b).is_some() => match rng.below(8) { 0 => Ty::Str, 1 => Ty::Any, 2 => Ty::F32, _ => Ty::F64 },
        Leaf::Unq(b) | Leaf::Quo(b) => {
            if ident(b) && rng.chance(1, 4) {
                let mut vs: Vec<String> = (0..rng.below(3)).map(|_| rng.pick(&VARIANT_POOL).to_string()).collect();
                if rng.chance(4, 5) { vs.push(String::from_utf8(b.clone()).unwrap()); }
                vs.sort(); vs.dedup();
                Ty::Enum(vs)
            } else if rng.chance(1, 4) { Ty::Any } else { Ty::Str }
        }
    }
}

struct TyCfg { prop: bool }

fn gen_fields_ty(rng: &mut Rng, fs: &[Field], cfg: &TyCfg) -> Ty {
    let names: Vec<Option<String>> = fs.iter().map(|f| key_name(&f.key)).collect();
    let all_named = names.iter().all(|n| n.is_some());
    if all_named && !fs.is_empty() && rng.chance(5, 6) {
        let mut out: Vec<(String, Ty)> = vec![];
        for (f, n) in fs.iter().zip(names.iter()) {
            let n = n.clone().unwrap();
            // duplicate keys: declare once (the expected value is then err:duplicate)
            if out.iter().any(|(x, _)| *x == n) { continue; }
            if rng.chance(1, 5) { continue; } // partial struct: this field is unknown to the target
            let mut t = gen_node_ty(rng, &f.val, cfg);
            if cfg.prop && rng.chance(1, 6) { t = Ty::Prop(Box::new(t)); }
            if rng.chance(1, 6) { t = Ty::Opt(Box::new(t)); }
            out.push((n, t));
        }
        if rng.chance(1, 4) { out.push(("absent_opt".to_string(), Ty::Opt(Box::new(Ty::I64)))); }
        if rng.chance(1, 60) { out.push(("absent_req".to_string(), Ty::I64)); }
        if rng.chance(1, 8) && out.len() > 1 { let i = rng.below(out.len()); let j = rng.below(out.len()); out.swap(i, j); }
        Ty::Struct(out)
    } else {
        let v = if fs.iter().all(|f| matches!(f.val, Node::Leaf(_))) { if rng.chance(1, 2) { Ty::Any } else { Ty::Str } } else { Ty::Ign };
        let v = if cfg.prop && rng.chance(1, 6) { Ty::Prop(Box::new(v)) } else { v };
        Ty::Map(Box::new(v))
    }
}

fn gen_node_ty(rng: &mut Rng, n: &Node, cfg: &TyCfg) -> Ty {
    if rng.chance(1, 25) { return Ty::Ign; }
    match n {
        Node::Leaf(l) => gen_leaf_ty(rng, l),
        Node::Obj(fs) => gen_fields_ty(rng, fs, cfg),
        // a fixed-length target: one type per element (fitting length), one too few (the tape path takes the prefix,
        // the reader path refuses: finding `tuple-longer-than-target`) or one too many (both refuse)
        Node::Arr(vs) if vs.len() <= 6 && !vs.iter().any(|v| matches!(v, Node::Mixed(..))) && rng.chance(1, 7) => {
            let mut ts: Vec<Ty> = vs.iter().flat_map(|v| match v {
                Node::Header(..) | Node::Rgb(..) => vec![if rng.chance(1, 2) { Ty::Str } else { Ty::Ign }, Ty::Seq(Box::new(Ty::Ign))],
                other => vec![gen_node_ty(rng, other, cfg)] }).collect();
            match rng.below(8) { 0 => { ts.pop(); } 1 => ts.push(Ty::Any), _ => {} }
            Ty::Tuple(ts)
        }
        Node::Arr(vs) => {
            if vs.iter().all(|v| matches!(v, Node::Leaf(_))) {
                // element type fitting every element: from the first element when they are alike, else a string
                let t = match vs.first() {
                    Some(Node::Leaf(l0)) if rng.chance(1, 2) && vs.iter().all(|v| matches!((v, l0), (Node::Leaf(Leaf::Int(_)), Leaf::Int(_)) | (Node::Leaf(Leaf::Uint(_)), Leaf::Uint(_)) | (Node::Leaf(Leaf::Bool(_)), Leaf::Bool(_)) | (Node::Leaf(Leaf::Fixed(_)), Leaf::Fixed(_)))) => gen_leaf_ty(rng, l0),
                    _ => if rng.chance(1, 2) { Ty::Any } else { Ty::Str },
                };
                Ty::Seq(Box::new(if rng.chance(1, 10) { Ty::Opt(Box::new(t)) } else { t }))
            } else if vs.iter().all(|v| matches!(v, Node::Obj(_))) {
                let t = match rng.below(3) {
                    0 => {
                        // struct of optional fields drawn from the first element
                        let mut out: Vec<(String, Ty)> = vec![];
                        if let Some(Node::Obj(fs)) = vs.first() {
                            for f in fs {
                                if let Some(n) = key_name(&f.key) {
                                    if out.iter().any(|(x, _)| *x == n) { continue; }
                                    let leaf_everywhere = vs.iter().all(|v| match v { Node::Obj(g) => g.iter().all(|h| key_name(&h.key).as_deref() != Some(&n) || matches!(h.val, Node::Leaf(_))), _ => true });
                                    out.push((n, Ty::Opt(Box::new(if leaf_everywhere { Ty::Any } else { Ty::Ign }))));
                                }
                            }
                        }
                        Ty::Struct(out)
                    }
                    1 if vs.iter().all(|v| matches!(v, Node::Obj(g) if g.iter().all(|h| matches!(h.val, Node::Leaf(_))))) => Ty::Map(Box::new(Ty::Str)),
                    _ => Ty::Map(Box::new(Ty::Ign)),
                };
                Ty::Seq(Box::new(t))
            } else if vs.iter().all(|v| matches!(v, Node::Arr(_))) && rng.chance(1, 2) {
                Ty::Seq(Box::new(Ty::Seq(Box::new(Ty::Ign))))
            } else {
                Ty::Seq(Box::new(Ty::Ign))
            }
        }
        Node::Rgb(..) | Node::Header(..) | Node::Mixed(..) => match rng.below(8) {
            0 => Ty::Opt(Box::new(Ty::Ign)),
            1 => Ty::Str,
            2 => Ty::Enum(vec!["LIST".into(), "hsv".into(), "rgb".into()]),
            _ => Ty::Ign,
        },
    }
}

/// a deliberately ill-fitting type somewhere (robustness of the correspondence; no expectation)
fn misfit(rng: &mut Rng, t: &Ty) -> Ty {
    let pool = [Ty::Bool, Ty::I64, Ty::U64, Ty::F64, Ty::Str, Ty::I8, Ty::U16, Ty::Any, Ty::Ign, Ty::Seq(Box::new(Ty::Any)), Ty::Map(Box::new(Ty::Any)),
                Ty::Seq(Box::new(Ty::Str)), Ty::Map(Box::new(Ty::Str)), Ty::Enum(vec!["a".into(), "b".into()]), Ty::Prop(Box::new(Ty::Any)),
                Ty::Struct(vec![("a".into(), Ty::Any), ("b".into(), Ty::Opt(Box::new(Ty::Any)))]), Ty::Opt(Box::new(Ty::Seq(Box::new(Ty::Ign)))),
                Ty::Struct(vec![("remainder".into(), Ty::Seq(Box::new(Ty::Any)))]), Ty::Seq(Box::new(Ty::Prop(Box::new(Ty::Str))))];
    match t {
        Ty::Struct(fs) if !fs.is_empty() && rng.chance(3, 4) => {
            let i = rng.below(fs.len());
            let mut fs = fs.clone();
            fs[i].1 = misfit(rng, &fs[i].1);
            Ty::Struct(fs)
        }
        Ty::Seq(x) if rng.chance(1, 2) => Ty::Seq(Box::new(misfit(rng, x))),
        Ty::Map(x) if rng.chance(1, 2) => Ty::Map(Box::new(misfit(rng, x))),
        Ty::Opt(x) if rng.chance(1, 2) => Ty::Opt(Box::new(misfit(rng, x))),
        _ => rng.pick(&pool).clone(),
    }
}

// ---------------------------------------------------------------------------------------
// real derived target types (cross-check of the Ty interpreter)

mod derived {
    use jomini::text::Property;
    use jomini::JominiDeserialize;
    use serde::Deserialize;
    use std::collections::HashMap;

    #[derive(Deserialize, Debug, PartialEq)]
    #[serde(rename_all = "lowercase")]
    pub enum Kind { Alpha, Beta, Core }

    #[derive(Deserialize, Debug, PartialEq)]
    pub struct Unit { pub x: i64, pub y: Option<f64>, #[serde(rename = "type")] pub ty: Option<Kind> }

    #[derive(Deserialize, Debug, PartialEq)]
    pub struct Top {
        pub name: String,
        pub id: u32,
        pub core: Option<String>,
        pub flags: Vec<String>,
        pub army: HashMap<String, i64>,
        pub unit: Unit,
        pub list: Vec<Unit>,
        pub date: Property<i64>,
        pub a: bool,
        pub b: Option<bool>,
    }

    /// jomini's own derive: duplicated keys collected, defaults
    #[derive(JominiDeserialize, Debug, PartialEq)]
    pub struct Dup {
        #[jomini(duplicated)]
        pub core: Vec<String>,
        #[jomini(default)]
        pub id: u32,
        pub name: String,
    }

    pub const TOP_TY: &str = "st(name:str;id:u32;core:opt(str);flags:seq(str);army:map(i64);unit:st(x:i64;y:opt(f64);type:opt(en(alpha;beta;core)));list:seq(st(x:i64;y:opt(f64);type:opt(en(alpha;beta;core))));date:prop(i64);a:bool;b:opt(bool))";

    fn h(b: &[u8]) -> String { crate::common::hex(b) }
    fn unit(u: &Unit) -> String {
        format!("{{x=i{},y={},type={}}}", u.x, match u.y { Some(v) => format!("some(f{})", v.to_bits()), None => "none".into() },
            match &u.ty { Some(k) => format!("some(en({}))", h(match k { Kind::Alpha => b"alpha", Kind::Beta => b"beta", Kind::Core => b"core" })), None => "none".into() })
    }
    pub fn show_top(t: &Top) -> String {
        let mut army: Vec<(&String, &i64)> = t.army.iter().collect();
        army.sort();
        let op = match t.date.operator().symbol() { "=" => "eq", "<" => "lt", "<=" => "le", ">" => "gt", ">=" => "ge", "!=" => "ne", "==" => "exact", "?=" => "exists", _ => "unknown" };
        format!("{{name=s{},id=u{},core={},flags=[{}],army={{{}}},unit={},list=[{}],date=prop({},i{}),a=b{},b={}}}",
            h(t.name.as_bytes()), t.id, match &t.core { Some(c) => format!("some(s{})", h(c.as_bytes())), None => "none".into() },
            t.flags.iter().map(|f| format!("s{}", h(f.as_bytes()))).collect::<Vec<_>>().join(","),
            army.iter().map(|(k, v)| format!("s{}=i{}", h(k.as_bytes()), v)).collect::<Vec<_>>().join(","),
            unit(&t.unit), t.list.iter().map(unit).collect::<Vec<_>>().join(","), op, t.date.value(), t.a as u8,
            match t.b { Some(b) => format!("some(b{})", b as u8), None => "none".into() })
    }
    pub fn show_dup(d: &Dup) -> String {
        format!("{{core=[{}],id=u{},name=s{}}}", d.core.iter().map(|f| format!("s{}", h(f.as_bytes()))).collect::<Vec<_>>().join(","), d.id, h(d.name.as_bytes()))
    }
}

/// a document shaped for `derived::Top` (sometimes with a missing / duplicated / ill-typed field)
fn gen_top_doc(rng: &mut Rng) -> Vec<u8> {
    // mostly ASCII; now and then a character outside ASCII, so that the two encodings (and a convenience
    // constructor that picks the wrong one) are told apart
    let word = |rng: &mut Rng| -> String { (0..rng.range(1, 7)).map(|_| if rng.chance(1, 9) { *rng.pick(&['\u{e9}', '\u{df}', '\u{3a9}', '\u{20ac}', '\u{153}', '\u{81}']) } else { (b'a' + rng.below(26) as u8) as char }).collect() };
    let unit = |rng: &mut Rng| -> String {
        let mut s = format!("x={}", rng.below(2000) as i64 - 1000);
        if rng.chance(1, 2) { s += &format!(" y={}.{:03}", rng.below(50), rng.below(1000)); }
        if rng.chance(1, 2) { s += &format!(" type={}", rng.pick(&["alpha", "beta", "core"])); }
        if rng.chance(1, 4) { s += &format!(" extra={{ {} {} }}", word(rng), word(rng)); }
        s
    };
    let mut fields: Vec<String> = vec![];
    fields.push(if rng.chance(1, 2) { format!("name=\"{} {}\"", word(rng), word(rng)) } else { format!("name={}", word(rng)) });
    fields.push(format!("id={}", rng.below(100000)));
    if rng.chance(1, 2) { fields.push(format!("core=\"{}\\\"{}\"", word(rng), word(rng))); }
    fields.push(format!("flags={{ {} }}", (0..rng.below(4)).map(|_| word(rng)).collect::<Vec<_>>().join(" ")));
    // map keys stay ASCII: the derived side prints a HashMap sorted by decoded key, the Ty interpreter in document
    // order, and the two orders only coincide when decoding preserves the byte order of the keys
    let mut keys: Vec<String> = (0..rng.below(4)).map(|_| (0..rng.range(1, 7)).map(|_| (b'a' + rng.below(26) as u8) as char).collect::<String>()).collect();
    keys.sort(); keys.dedup();
    fields.push(format!("army={{ {} }}", keys.iter().map(|k| format!("{}={}", k, rng.below(500) as i64 - 250)).collect::<Vec<_>>().join(" ")));
    fields.push(format!("unit={{ {} }}", unit(rng)));
    fields.push(format!("list={{ {} }}", (0..rng.below(3)).map(|_| format!("{{ {} }}", unit(rng))).collect::<Vec<_>>().join(" ")));
    fields.push(format!("date{}{}", if rng.chance(1, 3) { *rng.pick(&[" < ", " >= ", " != ", " ?= ", " == ", "==", "<=", ">"]) } else { "=" }, rng.below(3000)));
    fields.push(format!("a={}", if rng.chance(1, 2) { "yes" } else { "no" }));
    if rng.chance(1, 2) { fields.push(format!("b={}", if rng.chance(1, 2) { "yes" } else { "no" })); }
    for _ in 0..rng.below(3) { let w = word(rng); fields.push(format!("unk_{}={}", w, if rng.chance(1, 2) { format!("{{ {}={{ {} }} }}", w, w) } else { w.clone() })); }
    // order is irrelevant to a struct
    for i in (1..fields.len()).rev() { let j = rng.below(i + 1); fields.swap(i, j); }
    match rng.below(12) {
        0 => { let i = rng.below(fields.len()); fields.remove(i); }
        1 => { let i = rng.below(fields.len()); let f = fields[i].clone(); fields.push(f); }
        2 => { fields.push("id=abc".into()); fields.retain(|f| !f.starts_with("id=") || f == "id=abc"); }
        _ => {}
    }
    let sep = *rng.pick(&[" ", "\n", "\n\t", "  "]);
    fields.join(sep).into_bytes()
}

fn gen_dup_doc(rng: &mut Rng) -> Vec<u8> {
    let word = |rng: &mut Rng| -> String { (0..rng.range(1, 5)).map(|_| if rng.chance(1, 9) { *rng.pick(&['\u{e9}', '\u{df}', '\u{3a9}', '\u{20ac}', '\u{153}']) } else { (b'a' + rng.below(26) as u8) as char }).collect() };
    let mut fields: Vec<String> = (0..rng.below(4)).map(|_| format!("core={}", word(rng))).collect();
    if rng.chance(2, 3) { fields.push(format!("id={}", rng.below(1000))); }
    if rng.chance(9, 10) { fields.push(format!("name={}", word(rng))); }
    for i in (1..fields.len()).rev() { let j = rng.below(i + 1); fields.swap(i, j); }
    fields.join(" ").into_bytes()
}

// ---------------------------------------------------------------------------------------

/// abstract document in the syntax the Lean driver parses (`Spec/TextDoc.lean`): no header values,
/// node := u<hex> | q<hex> | o[field;..] | a[node;..]   field := <keyhex>~<op>~node
fn ser_node(n: &Node) -> Option<String> {
    match n {
        Node::Leaf(l) => Some(match l { Leaf::Quo(b) => format!("q{}", hex(b)), other => format!("u{}", hex(&leaf_text(other).0)) }),
        Node::Obj(fs) if !fs.is_empty() && !nested_first_implicit(fs) => Some(format!("o[{}]", ser_fields(fs)?)),
        Node::Arr(vs) => Some(format!("a[{}]", vs.iter().map(ser_node).collect::<Option<Vec<_>>>()?.join(";"))),
        Node::Header(name, body) if matches!(**body, Node::Obj(_) | Node::Arr(_)) => Some(format!("h{}:{}", hex(name), ser_node(body)?)),
        Node::Rgb(r, g, b, a) => {
            let cs: Vec<String> = [Some(*r), Some(*g), Some(*b), *a].iter().flatten().map(|c| format!("u{}", hex(c.to_string().as_bytes()))).collect();
            Some(format!("h{}:a[{}]", hex(b"rgb"), cs.join(";")))
        }
        _ => None,
    }
}
/// the implicit `=` takes effect (docgen `lex_field`)
fn eff_implicit(f: &Field) -> bool { f.implicit_eq && f.op == Op::Eq && matches!(f.val, Node::Obj(_) | Node::Arr(_) | Node::Mixed(..)) }

/// `{ b{ … } … }`: without its `=` the first field of a nested container makes the tape parser read an ARRAY that
/// starts with `b` (the reader path still sees a field): outside the document model of both specs
fn nested_first_implicit(fs: &[Field]) -> bool { fs.first().map_or(false, eff_implicit) }

/// field := [+<ghosts>+][!][^]<keyhex>~<op>~node   (`!` quoted key, `^` the `=` is left out before `{`)
fn ser_fields(fs: &[Field]) -> Option<String> {
    let mut out = vec![];
    for f in fs {
        let (kb, quoted) = match &f.key { Leaf::Quo(b) => (b.clone(), true), other => (leaf_text(other).0, false) };
        let ghosts = if f.ghosts > 0 { format!("+{}+", f.ghosts) } else { String::new() };
        out.push(format!("{}{}{}{}~{}~{}", ghosts, if quoted { "!" } else { "" }, if eff_implicit(f) { "^" } else { "" }, hex(&kb), f.op.name(), ser_node(&f.val)?));
    }
    Some(out.join(";"))
}

fn emit_spec(g: &mut Gen, enc: Enc, ty: &Ty, doc: &Doc, expect: Option<&str>) {
    if expect.is_none() { return; }
    if let Some(d) = ser_fields(&doc.fields) {
        let data = render_canonical(&lexemes(doc));
        g.count("spec-doc");
        g.emit(format!("spec_doc {} {} d[{}] {}", enc.name(), show_ty(ty), d, hex(&data)));
    }
}

fn parse_enc_ty(enc: &str, ty: &str) -> Option<(Enc, Ty)> { Some((Enc::parse(enc)?, parse_ty(ty)?)) }

fn count_val(obs: &mut Obs, path: &str, v: &str) {
    let k = if v.starts_with("err:missing") { "err:missing" } else if v.starts_with("err:duplicate") { "err:duplicate" } else if is_err(v) { v } else { "ok" };
    obs.count(&format!("{}:{}", path, k));
}

fn count_ty(g: &mut Gen, t: &Ty) {
    let k = match t { Ty::Bool => "bool", Ty::I64 => "i64", Ty::U64 => "u64", Ty::I32 => "i32", Ty::U32 => "u32", Ty::F64 => "f64", Ty::F32 => "f32", Ty::Str => "str", Ty::Any => "any", Ty::Ign => "ign", Ty::U16 => "u16", Ty::I16 => "i16", Ty::U8 => "u8", Ty::I8 => "i8",
        Ty::Opt(x) => { count_ty(g, x); "opt" } Ty::Seq(x) => { count_ty(g, x); "seq" } Ty::Map(x) => { count_ty(g, x); "map" } Ty::Prop(x) => { count_ty(g, x); "prop" }
        Ty::Struct(fs) => { for (_, x) in fs { count_ty(g, x); } "struct" } Ty::Enum(_) => "enum", Ty::Tuple(ts) => { for x in ts { count_ty(g, x); } "tuple" } Ty::Unit => "unit" };
    g.count(&format!("ty:{}", k));
}

/// implementation-only: 128-bit integer targets on both text paths (a real derived struct; `Ty` has no
/// 128-bit leaves). Repaired defect: the reader path had no deserialize_i128 / deserialize_u128.
fn exec_wide(w: &[&str], obs: &mut Obs) -> Option<String> {
    if let ["x-wide-ints", h] = w {
        #[derive(serde::Deserialize, Debug, PartialEq)]
        struct Wide { a: i128, b: u128, c: Option<i128> }
        let d = unhex(h)?;
        let tape: Result<Wide, _> = jomini::text::de::from_windows1252_slice(&d);
        let rdr: Result<Wide, _> = jomini::text::de::from_windows1252_reader(&d[..]);
        let show = |r: &Result<Wide, jomini::Error>| match r { Ok(v) => format!("{:?}", v).replace(' ', ""), Err(_) => "err".to_string() };
        if show(&tape) != show(&rdr) {
            obs.violation("paths-disagree-wide-ints", &w.join(" "), &format!("tape {} reader {}", show(&tape), show(&rdr)));
        }
        return Some(format!("ok {}", show(&tape)));
    }
    None
}

/// implementation-only: tape path == reader path (every capacity / read size) for target types outside the
/// Lean models' `Ty` grammar (unit, fixed-length tuples): `x-paths <enc> <ty> <hex>`
// ---------------------------------------------------------------------------------------
// x-rare: REAL Rust target types on the rarely used serde entry points, through every constructor

mod rare {
    use jomini::text::Property;
    use serde::de::{self, Deserializer, IgnoredAny, Visitor};
    use serde::Deserialize;
    use std::borrow::Cow;
    use std::fmt;

    struct BytesVisitor;
    impl<'de> Visitor<'de> for BytesVisitor {
        type Value = Vec<u8>;
        fn expecting(&self, f: &mut fmt::Formatter) -> fmt::Result { f.write_str("bytes") }
        fn visit_bytes<E: de::Error>(self, v: &[u8]) -> Result<Vec<u8>, E> { Ok(v.to_vec()) }
        fn visit_borrowed_bytes<E: de::Error>(self, v: &'de [u8]) -> Result<Vec<u8>, E> { Ok(v.to_vec()) }
        fn visit_byte_buf<E: de::Error>(self, v: Vec<u8>) -> Result<Vec<u8>, E> { Ok(v) }
    }
    /// hand-written: `deserialize_byte_buf`
    #[derive(Debug, PartialEq, Clone)]
    pub struct ByteBuf(pub Vec<u8>);
    impl<'de> Deserialize<'de> for ByteBuf {
        fn deserialize<D: Deserializer<'de>>(d: D) -> Result<Self, D::Error> { d.deserialize_byte_buf(BytesVisitor).map(ByteBuf) }
    }
    /// hand-written: `deserialize_bytes`
    #[derive(Debug, PartialEq, Clone)]
    pub struct BytesV(pub Vec<u8>);
    impl<'de> Deserialize<'de> for BytesV {
        fn deserialize<D: Deserializer<'de>>(d: D) -> Result<Self, D::Error> { d.deserialize_bytes(BytesVisitor).map(BytesV) }
    }

    #[derive(Deserialize, Debug, PartialEq, Clone)]
    pub struct UnitS;
    #[derive(Deserialize, Debug, PartialEq, Clone)]
    pub struct Newt(pub i32);
    #[derive(Deserialize, Debug, PartialEq, Clone)]
    pub struct Pair(pub i32, pub String);
    #[derive(Deserialize, Debug, PartialEq, Clone)]
    #[serde(rename_all = "lowercase")]
    pub enum Shape { Dot, Circle(u16), Rect(i32, i32), Poly { n: u8, name: String } }

    /// every constructor (`DeserializeOwned`)
    #[derive(Deserialize, Debug, PartialEq, Default)]
    pub struct Owned {
        pub a: Option<i8>, pub b: Option<i16>, pub c: Option<u8>, pub d: Option<u16>,
        pub ch: Option<char>, pub bb: Option<ByteBuf>, pub bv: Option<BytesV>,
        pub us: Option<UnitS>, pub un: Option<()>, pub nt: Option<Newt>, pub pr: Option<Pair>,
        pub arr: Option<[i32; 2]>, pub big: Option<i128>, pub ubig: Option<u128>, pub f: Option<f32>,
        pub sh: Option<Shape>, pub ig: Option<IgnoredAny>, pub pp: Option<Property<i16>>,
        pub id: u8,
    }

    /// borrowing targets: the tape-backed constructors only (the reader constructors demand `DeserializeOwned`)
    #[derive(Deserialize, Debug, PartialEq, Default)]
    pub struct Borrowed<'a> {
        #[serde(borrow)] pub s: Option<&'a str>,
        #[serde(borrow)] pub cow: Option<Cow<'a, str>>,
        #[serde(borrow)] pub by: Option<&'a [u8]>,
        pub ch: Option<char>,
        pub id: u8,
    }

    /// enum variants with content, written as `{ variant content }`: the tape path reads them, the reader path
    /// answers "unsupported enum deserialization" by design (Lean `Bad.enArr`)
    #[derive(Deserialize, Debug, PartialEq, Default)]
    pub struct Enums { pub e1: Option<Shape>, pub e2: Option<Shape>, pub e3: Option<Shape>, pub id: u8 }
}

fn rare_cls<T: std::fmt::Debug>(r: Result<T, jomini::Error>) -> String {
    match r { Ok(v) => format!("{:?}", v), Err(e) => err_class(&e.to_string()) }
}

/// every tape-backed constructor (None: the input does not parse to a tape)
fn rare_tape_family<'a, T: serde::Deserialize<'a> + std::fmt::Debug>(enc: Enc, data: &'a [u8], tape: &'a TextTape<'a>) -> Vec<(&'static str, String)> {
    use jomini::{Utf8Encoding, Windows1252Encoding};
    let mut out = vec![];
    match enc {
        Enc::W => {
            out.push(("fn from_windows1252_slice", rare_cls(jomini::text::de::from_windows1252_slice::<T>(data))));
            out.push(("TextDeserializer::from_windows1252_slice", rare_cls(TextDeserializer::from_windows1252_slice(data).and_then(|de| de.deserialize::<T>()))));
            out.push(("TextDeserializer::from_windows1252_tape", rare_cls(TextDeserializer::from_windows1252_tape(tape).deserialize::<T>())));
            out.push(("TextDeserializer::from_encoded_tape", rare_cls(TextDeserializer::from_encoded_tape(tape, Windows1252Encoding::new()).deserialize::<T>())));
            let rd = tape.windows1252_reader();
            out.push(("ObjectReader::deserialize", rare_cls(rd.deserialize::<T>())));
        }
        Enc::U => {
            out.push(("fn from_utf8_slice", rare_cls(jomini::text::de::from_utf8_slice::<T>(data))));
            out.push(("TextDeserializer::from_utf8_slice", rare_cls(TextDeserializer::from_utf8_slice(data).and_then(|de| de.deserialize::<T>()))));
            out.push(("TextDeserializer::from_utf8_tape", rare_cls(TextDeserializer::from_utf8_tape(tape).deserialize::<T>())));
            out.push(("TextDeserializer::from_encoded_tape", rare_cls(TextDeserializer::from_encoded_tape(tape, Utf8Encoding::new()).deserialize::<T>())));
            let rd = tape.utf8_reader();
            out.push(("ObjectReader::deserialize", rare_cls(rd.deserialize::<T>())));
        }
    }
    out
}

/// `TextDeserializer::from_reader(&ObjectReader)`: the reader has to outlive the deserializer AND carry the data lifetime
fn rare_from_object_reader<T: serde::de::DeserializeOwned + std::fmt::Debug>(enc: Enc, tape: &TextTape) -> String {
    match enc {
        Enc::W => { let rd = tape.windows1252_reader(); let de = TextDeserializer::from_reader(&rd); rare_cls(de.deserialize::<T>()) }
        Enc::U => { let rd = tape.utf8_reader(); let de = TextDeserializer::from_reader(&rd); rare_cls(de.deserialize::<T>()) }
    }
}

/// every streaming constructor, two buffer sizes, whole / byte-by-byte delivery
fn rare_reader_family<T: serde::de::DeserializeOwned + std::fmt::Debug>(enc: Enc, data: &[u8]) -> Vec<(&'static str, String)> {
    let mut out = vec![];
    match enc {
        Enc::W => {
            out.push(("fn from_windows1252_reader", rare_cls(jomini::text::de::from_windows1252_reader::<T, _>(data))));
            out.push(("from_windows1252_reader(from_slice)", rare_cls(TextDeserializer::from_windows1252_reader(TokenReader::from_slice(data)).deserialize::<T>())));
            out.push(("from_windows1252_reader(buffer 96, 1 byte per read)", rare_cls(TextDeserializer::from_windows1252_reader(TokenReader::builder().buffer_len(96).build(sched::SchedReader::new(data, vec![sched::Step::Repeat(1)]))).deserialize::<T>())));
            out.push(("from_windows1252_reader(buffer 4096)", rare_cls(TextDeserializer::from_windows1252_reader(TokenReader::builder().buffer_len(4096).build(data)).deserialize::<T>())));
        }
        Enc::U => {
            out.push(("fn from_utf8_reader", rare_cls(jomini::text::de::from_utf8_reader::<T, _>(data))));
            out.push(("from_utf8_reader(from_slice)", rare_cls(TextDeserializer::from_utf8_reader(TokenReader::from_slice(data)).deserialize::<T>())));
            out.push(("from_utf8_reader(buffer 96, 1 byte per read)", rare_cls(TextDeserializer::from_utf8_reader(TokenReader::builder().buffer_len(96).build(sched::SchedReader::new(data, vec![sched::Step::Repeat(1)]))).deserialize::<T>())));
            out.push(("from_utf8_reader(buffer 4096)", rare_cls(TextDeserializer::from_utf8_reader(TokenReader::builder().buffer_len(4096).build(data)).deserialize::<T>())));
        }
    }
    out
}

/// all results equal? (None) or the first differing pair
fn rare_first_difference(rs: &[(&'static str, String)]) -> Option<String> {
    let (n0, r0) = rs.first()?;
    rs.iter().find(|(_, r)| r != r0).map(|(n, r)| format!("{}: {} | {}: {}", n0, r0, n, r))
}

/// `x-rare <which> <enc> <hex> <expect>`; expect = `-` | hex of the expected Debug string | `err:<class>`
fn exec_rare(w: &[&str], obs: &mut Obs) -> Option<String> {
    let ["x-rare", which, enc, h, expect] = w else { return None };
    let enc = Enc::parse(enc)?;
    let data = unhex(h)?;
    let case = w.join(" ");
    if *which == "unparsable" {
        // input the tape parser refuses: the slice constructors return the parse error, the streaming ones refuse too
        let slices = match enc {
            Enc::W => vec![rare_cls(jomini::text::de::from_windows1252_slice::<rare::Owned>(&data)), rare_cls(TextDeserializer::from_windows1252_slice(&data).and_then(|de| de.deserialize::<rare::Owned>()))],
            Enc::U => vec![rare_cls(jomini::text::de::from_utf8_slice::<rare::Owned>(&data)), rare_cls(TextDeserializer::from_utf8_slice(&data).and_then(|de| de.deserialize::<rare::Owned>()))],
        };
        let readers = rare_reader_family::<rare::Owned>(enc, &data);
        if TextTape::from_slice(&data).is_ok() { obs.violation("bad-case", &case, "input parses"); }
        if slices.iter().any(|r| !is_err(r)) { obs.violation("rare-value", &case, &format!("a slice constructor accepted unparsable input: {:?}", slices)); }
        if let Some(d) = rare_first_difference(&readers) { obs.violation("constructors-disagree", &case, &format!("streaming constructors: {}", d)); }
        obs.count(&format!("rare:unparsable:reader-{}", if is_err(&readers[0].1) { "err" } else { "ok" }));
        return Some(format!("{} | {}", slices[0], readers[0].1));
    }
    let tape = match TextTape::from_slice(&data) { Ok(t) => t, Err(_) => { obs.violation("bad-case", &case, "input does not parse to a tape"); return Some("bad-case".into()); } };
    let expect: Option<String> = if *expect == "-" { None } else if expect.starts_with("err") { Some(expect.to_string()) } else { Some(String::from_utf8(unhex(expect)?).ok()?) };
    let (tapes, readers): (Vec<(&'static str, String)>, Vec<(&'static str, String)>) = match *which {
        "owned" => {
            let mut t = rare_tape_family::<rare::Owned>(enc, &data, &tape);
            t.push(("TextDeserializer::from_reader(&ObjectReader)", rare_from_object_reader::<rare::Owned>(enc, &tape)));
            (t, rare_reader_family::<rare::Owned>(enc, &data))
        }
        "borrowed" => (rare_tape_family::<rare::Borrowed>(enc, &data, &tape), vec![]),
        // probes (relation of the two families counted, agreement inside each family required):
        // a fixed-length array / tuple target on a LONGER array; a sequence requested for a map KEY
        "long" => {
            let mut t = rare_tape_family::<rare::Owned>(enc, &data, &tape);
            t.push(("TextDeserializer::from_reader(&ObjectReader)", rare_from_object_reader::<rare::Owned>(enc, &tape)));
            (t, rare_reader_family::<rare::Owned>(enc, &data))
        }
        "keyseq" => {
            type K = std::collections::BTreeMap<Vec<String>, i32>;
            let mut t = rare_tape_family::<K>(enc, &data, &tape);
            t.push(("TextDeserializer::from_reader(&ObjectReader)", rare_from_object_reader::<K>(enc, &tape)));
            (t, rare_reader_family::<K>(enc, &data))
        }
        "enums" => {
            let mut t = rare_tape_family::<rare::Enums>(enc, &data, &tape);
            t.push(("TextDeserializer::from_reader(&ObjectReader)", rare_from_object_reader::<rare::Enums>(enc, &tape)));
            (t, rare_reader_family::<rare::Enums>(enc, &data))
        }
        _ => return None,
    };
    if let Some(d) = rare_first_difference(&tapes) { obs.violation("constructors-disagree", &case, &format!("tape-backed constructors: {}", d)); }
    if let Some(d) = rare_first_difference(&readers) { obs.violation("constructors-disagree", &case, &format!("streaming constructors: {}", d)); }
    let t0 = tapes[0].1.clone();
    let r0 = readers.first().map(|r| r.1.clone());
    if *which == "enums" || *which == "long" || *which == "keyseq" {
        // enums: content-carrying variants, by design only the tape path reads them; the relation is counted
        if let Some(r0) = &r0 { obs.count(&format!("rare:{}:tape-{}:reader-{}", which, if is_err(&t0) { "err" } else { "ok" }, if is_err(r0) { "err" } else { "ok" })); }
    } else if let Some(r0) = &r0 {
        if *r0 != t0 { obs.violation("constructors-disagree", &case, &format!("tape-backed {} streaming {}", t0, r0)); }
    }
    if let Some(e) = &expect {
        if t0 != *e { obs.violation("rare-value", &case, &format!("got {} expected {}", t0, e)); }
        obs.count(&format!("rare:{}:expected-{}", which, if is_err(e) { e.as_str() } else { "value" }));
    }
    // Property: Debug / PartialEq / Clone / accessors agree with each other
    if *which == "owned" {
        if let Ok(v) = match enc { Enc::W => jomini::text::de::from_windows1252_slice::<rare::Owned>(&data), Enc::U => jomini::text::de::from_utf8_slice::<rare::Owned>(&data) } {
            if let Some(p) = v.pp {
                let q = p.clone();
                let rebuilt = jomini::text::Property::new(q.operator(), *q.value());
                if !(p == q && rebuilt == p && format!("{:?}", p) == format!("{:?}", rebuilt) && p.into_value() == q.into_value()) { obs.violation("rare-value", &case, "Property clone / eq / new / into_value"); }
                obs.count("rare:property-checked");
            }
        }
    }
    obs.count(&format!("rare:{}:{}", which, if is_err(&t0) { "err" } else { "ok" }));
    Some(match r0 { Some(r) if r != t0 => format!("{} | {}", t0, r), _ => t0 })
}

/// text of a string in the given encoding (the characters used by `gen_rare` exist in both)
fn rare_encode(enc: Enc, s: &str) -> Vec<u8> {
    match enc {
        Enc::U => s.as_bytes().to_vec(),
        Enc::W => s.chars().map(|c| match c { '\u{e9}' => 0xe9, '\u{df}' => 0xdf, '\u{20ac}' => 0x80, '\u{153}' => 0x9c, c => c as u8 }).collect(),
    }
}

/// documents for the real target types of `mod rare`: field values that FIT the types (expected value known
/// without the crate), and one scalar-level misfit per document in a quarter of the cases (expected error class)
pub fn gen_rare(g: &mut Gen) {
    use jomini::text::{Operator, Property};
    // probes: `[i32; 2]` / a 2-tuple struct on a longer array (the tape path stops after two elements, the reader
    // path demands the closing brace); a sequence requested for a map key
    for (which, txt) in [("long", "id=1 arr={ 1 2 3 }"), ("long", "arr={ 1 2 3 4 } id=2"), ("long", "id=3 pr={ 5 abc def }"), ("long", "id=4 arr={ 1 2 { 3 } }"),
                         ("keyseq", "a=1"), ("keyseq", "a=1 b=2"),
                         ("unparsable", "id=1 arr={ 1 2"), ("unparsable", "id=1 pr={ 5 abc"), ("unparsable", "id=1 ch=\"x")] {
        for enc in [Enc::W, Enc::U] { g.emit(format!("x-rare {} {} {} -", which, enc.name(), hex(txt.as_bytes()))); }
    }
    const EXTRA: [char; 4] = ['\u{e9}', '\u{df}', '\u{20ac}', '\u{153}'];
    let n = g.budget(4_000, 40_000);
    for i in 0..n {
        let enc = if i % 2 == 0 { Enc::W } else { Enc::U };
        let rng = &mut g.rng;
        let word = |rng: &mut Rng, extra: bool| -> String { (0..rng.range(1, 6)).map(|_| if extra && rng.chance(1, 6) { *rng.pick(&EXTRA) } else { (b'a' + rng.below(26) as u8) as char }).collect() };
        let quote = |rng: &mut Rng, b: Vec<u8>| -> Vec<u8> { if rng.chance(1, 3) { let mut q = vec![b'"']; q.extend(b); q.push(b'"'); q } else { b } };
        let edge = |rng: &mut Rng, lo: i128, hi: i128| -> i128 { match rng.below(6) { 0 => lo, 1 => hi, 2 => 0, _ => lo + (rng.below(1 << 30) as i128 * 7919) % (hi - lo + 1) } };
        let mut parts: Vec<Vec<u8>> = vec![];
        let mut err: Option<String> = None;
        let kv = |k: &str, v: Vec<u8>| -> Vec<u8> { let mut o = k.as_bytes().to_vec(); o.push(b'='); o.extend(v); o };
        let junk = |rng: &mut Rng| -> Vec<u8> { rng.pick(&[&b"yes"[..], b"{ 1 2 }", b"{ a=1 b={ c=2 } }", b"\"q q\"", b"{}", b"rgb { 1 2 3 }"]).to_vec() };
        let which = match i % 5 { 3 => "borrowed", 4 => "enums", _ => "owned" };
        let misfit = rng.chance(1, 4);
        let expect: String = match which {
            "owned" => {
                let mut e = rare::Owned::default();
                let mut order: Vec<usize> = (0..18).collect();
                for k in (1..order.len()).rev() { let j = rng.below(k + 1); order.swap(k, j); }
                let bad_field = if misfit { Some(*rng.pick(&[0usize, 1, 2, 3, 4, 5, 6, 9, 10, 11, 15])) } else { None };
                for f in order {
                    let bad = bad_field == Some(f);
                    if !bad && rng.chance(1, 3) { continue; }
                    if err.is_some() { continue; }   // nothing after the misfit is read; keep the document short
                    let int_field = |rng: &mut Rng, lo: i128, hi: i128, bad: bool| -> (i128, Vec<u8>) {
                        if bad { let v = match rng.below(3) { 0 => hi + 1 + rng.below(1000) as i128, 1 => lo - 1 - rng.below(1000) as i128, _ => hi + 1 }; (v, v.to_string().into_bytes()) }
                        else { let v = edge(rng, lo, hi); (v, v.to_string().into_bytes()) }
                    };
                    match f {
                        0 => { let (v, t) = int_field(rng, -128, 127, bad); parts.push(kv("a", t)); if bad { err = Some("err:type".into()) } else { e.a = Some(v as i8) } }
                        1 => { let (v, t) = int_field(rng, -32768, 32767, bad); parts.push(kv("b", t)); if bad { err = Some("err:type".into()) } else { e.b = Some(v as i16) } }
                        2 => { let (v, t) = int_field(rng, 0, 255, bad); parts.push(kv("c", t)); if bad { err = Some("err:type".into()) } else { e.c = Some(v as u8) } }
                        3 => { let (v, t) = int_field(rng, 0, 65535, bad); parts.push(kv("d", t)); if bad { err = Some("err:type".into()) } else { e.d = Some(v as u16) } }
                        4 => {
                            if bad && rng.chance(1, 4) { parts.push(kv("ch", b"{ a }".to_vec())); err = Some("err:type".into()); }
                            else if bad { let t = if rng.chance(1, 3) { b"\"\"".to_vec() } else { let w = word(rng, true) + "z"; quote(rng, rare_encode(enc, &w)) }; parts.push(kv("ch", t)); err = Some("err:type".into()); }
                            else { let c = if rng.chance(1, 3) { *rng.pick(&EXTRA) } else { *rng.pick(&['x', 'Z', '7', '_', '-']) }; let t = quote(rng, rare_encode(enc, &c.to_string())); parts.push(kv("ch", t)); e.ch = Some(c); }
                        }
                        5 | 6 => {
                            let k = if f == 5 { "bb" } else { "bv" };
                            if bad { parts.push(kv(k, b"{ 1 2 }".to_vec())); err = Some("err:type".into()); }
                            else {
                                // raw bytes of the scalar, undecoded (any byte that may stand in an unquoted scalar)
                                let raw: Vec<u8> = (0..rng.range(1, 6)).map(|_| if rng.chance(1, 5) { *rng.pick(&[0xe9u8, 0x80, 0xff, 0xc3]) } else { b'a' + rng.below(26) as u8 }).collect();
                                parts.push(kv(k, quote(rng, raw.clone())));
                                if f == 5 { e.bb = Some(rare::ByteBuf(raw)) } else { e.bv = Some(rare::BytesV(raw)) }
                            }
                        }
                        7 => { parts.push(kv("us", junk(rng))); e.us = Some(rare::UnitS); }
                        8 => { parts.push(kv("un", junk(rng))); e.un = Some(()); }
                        9 => {
                            if bad { parts.push(kv("nt", word(rng, false).into_bytes())); err = Some("err:type".into()); }
                            else { let v = edge(rng, i32::MIN as i128, i32::MAX as i128); parts.push(kv("nt", v.to_string().into_bytes())); e.nt = Some(rare::Newt(v as i32)); }
                        }
                        10 => {
                            let v = edge(rng, -1000, 1000); let w = word(rng, false);
                            if bad { parts.push(kv("pr", format!("{{ {} }}", v).into_bytes())); err = Some("err:other".into()); }
                            else { parts.push(kv("pr", format!("{{ {} {} }}", v, w).into_bytes())); e.pr = Some(rare::Pair(v as i32, w)); }
                        }
                        11 => {
                            let (x, y) = (edge(rng, -1000, 1000), edge(rng, -1000, 1000));
                            if bad { parts.push(kv("arr", format!("{{ {} }}", x).into_bytes())); err = Some("err:other".into()); }
                            else { parts.push(kv("arr", format!("{{ {} {} }}", x, y).into_bytes())); e.arr = Some([x as i32, y as i32]); }
                        }
                        12 => { let v = edge(rng, i64::MIN as i128, i64::MAX as i128); parts.push(kv("big", v.to_string().into_bytes())); e.big = Some(v); }
                        13 => { let v = edge(rng, 0, u64::MAX as i128); parts.push(kv("ubig", v.to_string().into_bytes())); e.ubig = Some(v as u128); }
                        14 => {
                            let t = format!("{}{}.{}", if rng.chance(1, 3) { "-" } else { "" }, rng.below(1000), rng.pick(&["0", "125", "25", "375", "5", "625", "75", "875"]));
                            e.f = Some(t.parse::<f32>().unwrap()); parts.push(kv("f", t.into_bytes()));
                        }
                        15 => {
                            // a content-carrying or unknown variant written as a scalar: both paths must refuse
                            if bad { parts.push(kv("sh", rng.pick(&[&b"circle"[..], b"rect", b"poly", b"nosuch", b"\"circle\""]).to_vec())); err = Some("err:other".into()); }
                            else { parts.push(kv("sh", quote(rng, b"dot".to_vec()))); e.sh = Some(rare::Shape::Dot); }
                        }
                        16 => { parts.push(kv("ig", junk(rng))); e.ig = Some(serde::de::IgnoredAny); }
                        _ => {
                            let v = edge(rng, -32768, 32767);
                            let (sym, op) = *rng.pick(&[("=", Operator::Equal), ("<", Operator::LessThan), ("<=", Operator::LessThanEqual), (">", Operator::GreaterThan), (">=", Operator::GreaterThanEqual), ("!=", Operator::NotEqual), ("==", Operator::Exact), ("?=", Operator::Exists)]);
                            parts.push(format!("pp {} {}", sym, v).into_bytes()); e.pp = Some(Property::new(op, v as i16));
                        }
                    }
                }
                let pos = rng.below(parts.len() + 1);
                if err.is_none() && rng.chance(1, 20) { err = Some("err:missing:id".into()); }
                else if err.is_some() { let id = rng.below(256); parts.insert(0.max(pos.min(parts.len().saturating_sub(1))), format!("id={}", id).into_bytes()); e.id = id as u8; }
                else { let id = rng.below(256); parts.insert(pos, format!("id={}", id).into_bytes()); e.id = id as u8; }
                format!("{:?}", e)
            }
            "borrowed" => {
                let mut e_s: Option<String> = None; let mut e_cow: Option<String> = None; let mut e_by: Option<Vec<u8>> = None; let mut e_ch = None;
                if rng.chance(2, 3) {
                    // `&str` borrows from the input: possible when decoding leaves the bytes alone (ASCII; valid UTF-8 under utf8)
                    let w = word(rng, misfit);
                    let t = quote(rng, rare_encode(enc, &w)); parts.push(kv("s", t));
                    if !w.is_ascii() && enc == Enc::W { err = Some("err:type".into()); } else { e_s = Some(w); }
                }
                if err.is_none() && rng.chance(2, 3) { let w = word(rng, true); let t = quote(rng, rare_encode(enc, &w)); parts.push(kv("cow", t)); e_cow = Some(w); }
                if err.is_none() && rng.chance(2, 3) { let raw: Vec<u8> = (0..rng.range(1, 6)).map(|_| if rng.chance(1, 5) { *rng.pick(&[0xe9u8, 0x80, 0xff]) } else { b'a' + rng.below(26) as u8 }).collect(); parts.push(kv("by", quote(rng, raw.clone()))); e_by = Some(raw); }
                if err.is_none() && rng.chance(1, 2) { let c = *rng.pick(&['x', '7', '\u{e9}', '\u{20ac}']); parts.push(kv("ch", rare_encode(enc, &c.to_string()))); e_ch = Some(c); }
                let id = rng.below(256);
                let pos = if err.is_some() { 0 } else { rng.below(parts.len() + 1) };
                parts.insert(pos, format!("id={}", id).into_bytes());
                let e = rare::Borrowed { s: e_s.as_deref(), cow: e_cow.as_deref().map(std::borrow::Cow::Borrowed), by: e_by.as_deref(), ch: e_ch, id: id as u8 };
                format!("{:?}", e)
            }
            _ => {
                let mut e = rare::Enums::default();
                let mut slots = [None, None, None];
                for (k, slot) in slots.iter_mut().enumerate() {
                    if rng.chance(1, 3) || err.is_some() { continue; }
                    let key = ["e1", "e2", "e3"][k];
                    let bad = misfit && rng.chance(1, 2);
                    let (t, v): (String, Option<rare::Shape>) = match rng.below(5) {
                        0 => ("dot".into(), Some(rare::Shape::Dot)),
                        1 => { let r = rng.below(65536); if bad { ("{ circle }".into(), None) } else { (format!("{{ circle {} }}", r), Some(rare::Shape::Circle(r as u16))) } }
                        2 => { let (a, b) = (rng.below(100) as i32 - 50, rng.below(100) as i32); if bad { (format!("{{ rect {} {} }}", a, b), None) } else { (format!("{{ rect {{ {} {} }} }}", a, b), Some(rare::Shape::Rect(a, b))) } }
                        3 => { let (nn, w) = (rng.below(256), word(rng, false)); if bad { (format!("{{ poly {{ n={} }} }}", nn), None) } else { (format!("{{ poly {{ n={} name={} }} }}", nn, w), Some(rare::Shape::Poly { n: nn as u8, name: w })) } }
                        _ => if bad { ("{ dot }".into(), None) } else { ("{ dot x }".into(), Some(rare::Shape::Dot)) },
                    };
                    parts.push(kv(key, t.into_bytes()));
                    match v { Some(v) => *slot = Some(v), None => err = Some("err".into()) }
                }
                let [a, b, c] = slots; e.e1 = a; e.e2 = b; e.e3 = c;
                let id = rng.below(256); e.id = id as u8;
                let pos = if err.is_some() { 0 } else { rng.below(parts.len() + 1) };
                parts.insert(pos, format!("id={}", id).into_bytes());
                format!("{:?}", e)
            }
        };
        let sep: &[u8] = if rng.chance(1, 3) { b"\n" } else { b" " };
        let mut data = parts.join(sep);
        if rng.chance(1, 4) { data.push(b'\n'); }
        // enums: the class of a refusal is not predicted (several `Unsupported` / serde messages), only that it is one
        let e = match &err { Some(c) if c == "err" => "-".to_string(), Some(c) => c.clone(), None => hex(expect.as_bytes()) };
        g.count(&format!("rare-gen:{}:{}", which, if err.is_some() { "misfit" } else { "fits" }));
        g.emit(format!("x-rare {} {} {} {}", which, enc.name(), hex(&data), e));
    }
}

fn exec_paths(w: &[&str], obs: &mut Obs) -> Option<String> {
    if let ["x-paths", enc, ty, h] = w {
        use serde::de::DeserializeSeed;
        let ty = crate::tyseed::parse_ty(ty)?;
        let d = unhex(h)?;
        let utf8 = *enc == "u";
        let tape = (|| -> Result<String, String> {
            if utf8 { let de = jomini::TextDeserializer::from_utf8_slice(&d).map_err(|e| e.to_string())?; crate::tyseed::TySeed(&ty).deserialize(&de).map_err(|e| e.to_string()) }
            else { let de = jomini::TextDeserializer::from_windows1252_slice(&d).map_err(|e| e.to_string())?; crate::tyseed::TySeed(&ty).deserialize(&de).map_err(|e| e.to_string()) }
        })();
        let show = |r: &Result<String, String>| match r { Ok(v) => v.clone(), Err(e) => crate::tyseed::err_class(e) };
        for (cap, step) in [(32 * 1024usize, usize::MAX), (64, 1), (64, 3), (256, 7)] {
            let steps = if step == usize::MAX { vec![] } else { vec![crate::sched::Step::Repeat(step)] };
            let rd = crate::sched::SchedReader::new(&d, steps);
            let tr = jomini::text::TokenReader::builder().buffer_len(cap).build(rd);
            let mut full = false;
            let r = if utf8 { let mut de = jomini::TextDeserializer::from_utf8_reader(tr); crate::tyseed::TySeed(&ty).deserialize(&mut de).map_err(|e| { full = matches!(e.kind(), jomini::ErrorKind::BufferFull); e.to_string() }) }
                    else { let mut de = jomini::TextDeserializer::from_windows1252_reader(tr); crate::tyseed::TySeed(&ty).deserialize(&mut de).map_err(|e| { full = matches!(e.kind(), jomini::ErrorKind::BufferFull); e.to_string() }) };
            if !full && show(&r) != show(&tape) && !(show(&r).starts_with("err") && show(&tape).starts_with("err")) {
                obs.violation("paths-disagree-extra-types", &w.join(" "), &format!("tape {} reader(cap {}, step {}) {}", show(&tape), cap, step, show(&r)));
                break;
            }
        }
        obs.count("x-paths");
        return Some(format!("ok {}", show(&tape)));
    }
    None
}

/// documents with container- and scalar-valued fields typed as `unit`, fixed-length tuples and 128-bit ints
pub fn gen_extra_types(g: &mut Gen) {
    use crate::docgen::*;
    let n = g.budget(1500, 30000);
    for _ in 0..n {
        let doc = gen_doc(&mut g.rng, &DocCfg { max_fields: 4, ..DocCfg::save_style() });
        let mut fs: Vec<(String, crate::tyseed::Ty)> = vec![];
        let mut seen = std::collections::BTreeSet::new();
        for f in &doc.fields {
            let Some(name) = crate::tyseed::key_name(&f.key) else { continue };
            if !seen.insert(name.clone()) { continue; }
            use crate::tyseed::Ty;
            let t = match &f.val {
                Node::Arr(vs) if !vs.is_empty() && vs.len() <= 5 && vs.iter().all(|v| matches!(v, Node::Leaf(_))) && g.rng.chance(1, 2) => Ty::Tuple(vec![Ty::Any; vs.len()]),
                Node::Obj(_) | Node::Arr(_) if g.rng.chance(1, 2) => Ty::Unit,
                Node::Leaf(_) if g.rng.chance(1, 6) => Ty::Unit,
                Node::Leaf(_) => if g.rng.chance(1, 2) { Ty::Any } else { Ty::Str },
                _ => Ty::Ign,
            };
            fs.push((name, t));
        }
        if fs.is_empty() { continue; }
        let ty = crate::tyseed::Ty::Struct(fs);
        let bytes = render_layout(&mut g.rng, &LayoutCfg::reader_safe(), &lexemes(&doc));
        let enc = if g.rng.chance(1, 2) { "w" } else { "u" };
        g.emit(format!("x-paths {} {} {}", enc, crate::tyseed::show_ty(&ty), hex(&bytes)));
    }
    for txt in ["a={ b=1 c=2 } d=3", "a={ 1 2 3 } d=3 e=4", "a=x d=3", "d=1 a={ k={ z=1 } } e=2", "a={} d=3"] {
        g.emit(format!("x-paths w st(a:unit;d:opt(i64);e:opt(i64);b:opt(i64);c:opt(i64);z:opt(i64)) {}", hex(txt.as_bytes())));
    }
    g.count("extra-type-paths");
}

pub fn gen_wide(g: &mut Gen) {
    gen_extra_types(g);
    for txt in ["a=1 b=2", "a=-170141183460469231731687303715884105728 b=5", "a=-9223372036854775808 b=18446744073709551615 c=7", "b=3 a=4 c=-1", "a=x b=1", "a=1"] {
        g.emit(format!("x-wide-ints {}", hex(txt.as_bytes())));
    }
    for _ in 0..50 {
        let a = g.rng.next() as i64; let b = g.rng.next();
        g.emit(format!("x-wide-ints {}", hex(format!("a={} b={}\nc = {}", a, b, a / 3).as_bytes())));
    }
}

pub fn exec(w: &[&str], obs: &mut Obs) -> Option<String> {
    if let Some(r) = exec_wide(w, obs) { return Some(r); }
    if let Some(r) = exec_paths(w, obs) { return Some(r); }
    if let Some(r) = exec_rare(w, obs) { return Some(r); }
    let case = || w.join(" ");
    match w {
        ["tde_tape", enc, ty, tape, h, expect] => {
            let (enc, ty) = parse_enc_ty(enc, ty)?;
            let data = unhex(h)?;
            let real = match TextTape::from_slice(&data) { Ok(t) => t, Err(_) => { obs.violation("bad-case", &case(), "input does not parse to a tape"); return Some("bad-case".into()); } };
            if show::text_tape(real.tokens()) != *tape { obs.violation("bad-case", &case(), "tape argument is not the real tape of the input"); return Some("bad-case".into()); }
            let r = run_tape(enc, &ty, &real);
            count_val(obs, "tape", &r);
            // L3: the slice front end is the same path
            let s = run_slice(enc, &ty, &data);
            if s != r { obs.violation("tape-vs-slice", &case(), &format!("tape {} slice {}", r, s)); }
            if let Some(kind) = expect.strip_prefix('!') {
                // probe of a RECORDED known divergence (known_findings.txt): reported under its own kind
                let (x, _) = run_reader(enc, &ty, TokenReader::new(&data[..]));
                if kind == "array-leading-empty" {
                    if x != r { obs.violation(kind, &case(), &format!("tape {} reader {}", r, x)); } else { obs.count("probe-agrees:array-leading-empty"); }
                }
            } else if *expect == "%" {
                // a witness of Lean `C02_divergent_witnesses`: the models differ here; each real path is diffed
                // against its model by the runner, the observed relation of the real paths is counted
                let (x, _) = run_reader(enc, &ty, TokenReader::from_slice(&data));
                obs.count(if x != r { "divergent-witness:real-paths-differ" } else { "divergent-witness:real-paths-agree" });
            } else if *expect == "=" {
                // Lean `C02_error_agreement`: outside `Bad` both paths return the same value or the same error class
                obs.count("tape:agreement-claimed");
                let (x, _) = run_reader(enc, &ty, TokenReader::from_slice(&data));
                if x != r { obs.violation("error-agreement", &case(), &format!("tape {} reader {}", r, x)); }
            } else if *expect != "-" {
                obs.count("tape:with-expectation");
                if !matches_expect(&r, expect) { obs.violation("value-of", &case(), &format!("tape path {} reference {}", r, expect)); }
                // L3: the reader path over the same bytes yields an equal value
                let (x, _) = run_reader(enc, &ty, TokenReader::from_slice(&data));
                if x != r { obs.violation("paths-disagree", &case(), &format!("tape {} reader {}", r, x)); }
            }
            Some(r)
        }
        [op, enc, ty, rtoks, h, cap, sch, expect] if *op == "tde_stream" || *op == "x-tde_stream" => {
            let (enc, ty) = parse_enc_ty(enc, ty)?;
            let data = unhex(h)?;
            let cap: usize = cap.parse().ok()?;
            let steps = sched::parse(sch)?;
            let l = lex(&data);
            if show_lexed(&l) != *rtoks { obs.violation("bad-case", &case(), "token argument is not the real token stream of the input"); return Some("bad-case".into()); }
            let applicable = token_model_applicable(&data, &l);
            if *op == "tde_stream" { if let Err(why) = applicable { obs.violation("bad-case", &case(), why); return Some("bad-case".into()); } }
            let (r, _) = run_reader(enc, &ty, TokenReader::from_slice(&data));
            count_val(obs, "stream", &r);
            let violation = |obs: &mut Obs, kind: &str, detail: String| obs.violation(kind, &case(), &detail);
            // L3: independent of buffer size and read schedule
            let (c, full) = run_reader(enc, &ty, TokenReader::builder().buffer_len(cap).build(sched::SchedReader::new(&data, steps)));
            if full { obs.count("stream:chunked-buffer-full"); }
            else if c != r { violation(obs, "stream-chunking", format!("slice reader {} chunked {}", r, c)); }
            // the default 32 KiB reader as well (a quarter of the cases: allocating the buffer dominates the run)
            if data.len() % 4 == 0 {
                let (d, _) = run_reader(enc, &ty, TokenReader::new(&data[..]));
                if d != r { violation(obs, "stream-chunking", format!("slice reader {} default reader {}", r, d)); }
            }
            if let Some(kind) = expect.strip_prefix('!') {
                let s = run_slice(enc, &ty, &data);
                if s != r { obs.violation(kind, &case(), &format!("reader {} tape {}", r, s)); } else { obs.count(&format!("probe-agrees:{}", kind)); }
            } else if *expect == "%" {
                obs.count("stream:divergent-witness");
            } else if *expect == "=" {
                obs.count("stream:agreement-claimed");
                let s = run_slice(enc, &ty, &data);
                if s != r { violation(obs, "error-agreement", format!("reader {} tape {}", r, s)); }
            } else if *expect != "-" {
                obs.count("stream:with-expectation");
                if !matches_expect(&r, expect) { violation(obs, "value-of", format!("stream path {} reference {}", r, expect)); }
                let s = run_slice(enc, &ty, &data);
                if s != r { violation(obs, "paths-disagree", format!("reader {} tape {}", r, s)); }
            }
            Some(r)
        }
        ["tde_wft", tape, h] => {
            // the structural hypothesis of the totality theorem (Lean `WfT`) holds for every parsed tape
            let data = unhex(h)?;
            let real = match TextTape::from_slice(&data) { Ok(t) => t, Err(_) => return Some("bad-case".into()) };
            if show::text_tape(real.tokens()) != *tape { obs.violation("bad-case", &case(), "tape argument is not the real tape of the input"); return Some("bad-case".into()); }
            obs.count("wft");
            Some("wf".into())
        }
        ["spec_doc", enc, ty, _doc, h] => {
            // the Lean SPEC (valueOf / lexemes / tapeOf of the abstract document) against the real
            // deserializer, reader and tape parser on the canonical rendering of that document
            let (enc, ty) = parse_enc_ty(enc, ty)?;
            let data = unhex(h)?;
            let tape = match TextTape::from_slice(&data) { Ok(t) => t, Err(_) => return Some("err:parse".into()) };
            let r = run_tape(enc, &ty, &tape);
            let (x, _) = run_reader(enc, &ty, TokenReader::from_slice(&data));
            if x != r { obs.violation("paths-disagree", &case(), &format!("tape {} reader {}", r, x)); }
            obs.count("spec-doc");
            Some(format!("{}|{}|{}", r, show_lexed(&lex(&data)), show::text_tape(tape.tokens())))
        }
        ["x-derive", which, enc, h] => {
            let enc = Enc::parse(enc)?;
            let data = unhex(h)?;
            let (ty, real_tape, real_stream): (Ty, String, String) = match *which {
                "top" => {
                    let a = match enc { Enc::W => jomini::text::de::from_windows1252_slice::<derived::Top>(&data), Enc::U => jomini::text::de::from_utf8_slice::<derived::Top>(&data) };
                    let b = match enc { Enc::W => jomini::text::de::from_windows1252_reader::<derived::Top, _>(&data[..]), Enc::U => jomini::text::de::from_utf8_reader::<derived::Top, _>(&data[..]) };
                    (parse_ty(derived::TOP_TY)?, cls(a.map(|t| derived::show_top(&t))), cls(b.map(|t| derived::show_top(&t))))
                }
                "dup" => {
                    let a = match enc { Enc::W => jomini::text::de::from_windows1252_slice::<derived::Dup>(&data), Enc::U => jomini::text::de::from_utf8_slice::<derived::Dup>(&data) };
                    let b = match enc { Enc::W => jomini::text::de::from_windows1252_reader::<derived::Dup, _>(&data[..]), Enc::U => jomini::text::de::from_utf8_reader::<derived::Dup, _>(&data[..]) };
                    let (a, b) = (cls(a.map(|t| derived::show_dup(&t))), cls(b.map(|t| derived::show_dup(&t))));
                    if a != b { obs.violation("paths-disagree", &case(), &format!("derived Dup: tape {} reader {}", a, b)); }
                    obs.count(&format!("derive:dup:{}", if is_err(&a) { "err" } else { "ok" }));
                    return Some(a);
                }
                _ => return None,
            };
            let ts = run_slice(enc, &ty, &data);
            let (tr, _) = run_reader(enc, &ty, TokenReader::from_slice(&data));
            // a HashMap keeps the last of duplicated keys; the generator writes distinct sorted keys
            if real_tape != ts { obs.violation("tyseed-vs-derive", &case(), &format!("tape path: derived {} tyseed {}", real_tape, ts)); }
            if real_stream != tr { obs.violation("tyseed-vs-derive", &case(), &format!("reader path: derived {} tyseed {}", real_stream, tr)); }
            if real_tape != real_stream { obs.violation("paths-disagree", &case(), &format!("derived Top: tape {} reader {}", real_tape, real_stream)); }
            obs.count(&format!("derive:top:{}", if is_err(&real_tape) { "err" } else { "ok" }));
            Some(real_tape)
        }
        ["x-probe", kind, enc, ty, h] => {
            let (enc, ty) = parse_enc_ty(enc, ty)?;
            let data = unhex(h)?;
            let a = run_slice(enc, &ty, &data);
            let (b, _) = run_reader(enc, &ty, TokenReader::from_slice(&data));
            obs.count(&format!("probe:{}:{}", kind, if a == b { "paths-agree" } else { "paths-differ" }));
            Some(format!("{} | {}", a, b))
        }
        _ => None,
    }
}

/// (type of field `x`, text of its value): Lean `Jomini.TextE2E.divergentWitnesses`, same order
const DIVERGENT_WITNESSES: [(&str, &str); 14] = [
    ("any", "{ a=1 }"), ("any", "{ { a=1 } }"), ("any", "rgb { 1 }"),
    ("en(a)", "{ a=1 }"), ("en(p)", "{ p q }"),
    ("seq(str)", "s"), ("seq(str)", "{ a=1 }"), ("seq(any)", "rgb { 1 }"),
    ("map(str)", "{ p q }"), ("map(str)", "rgb { a=1 }"),
    ("st(a:opt(str))", "{ p }"), ("st(a:opt(str))", "rgb { a=1 }"),
    ("seq(prop(str))", "{ p q }"), ("prop(prop(str))", "s"),
];

fn emit_pair(g: &mut Gen, enc: Enc, ty: &Ty, data: &[u8], expect: Option<&str>) {
    emit_pair_with(g, enc, ty, data, expect, None)
}

fn emit_pair_with(g: &mut Gen, enc: Enc, ty: &Ty, data: &[u8], expect: Option<&str>, fixed: Option<(usize, &str)>) {
    let e = expect.unwrap_or("-");
    let tys = show_ty(ty);
    match TextTape::from_slice(data) {
        Ok(t) => {
            g.emit(format!("tde_tape {} {} {} {} {}", enc.name(), tys, show::text_tape(t.tokens()), hex(data), e));
            if g.rng.chance(1, 3) { g.emit(format!("tde_wft {} {}", show::text_tape(t.tokens()), hex(data))); }
        }
        Err(_) => g.count("tape-parse-error"),
    }
    let l = lex(data);
    let maxtok = l.toks.iter().map(|t| t.len() / 2).max().unwrap_or(1);
    let cap = match g.rng.below(4) { 0 => maxtok + 8 + g.rng.below(8), 1 => 16 + g.rng.below(48), 2 => 64 + g.rng.below(200), _ => 32768 }.max(8);
    let sch = sched::show(&sched::random(&mut g.rng, data.len()).into_iter().filter(|s| !matches!(s, sched::Step::Fail | sched::Step::FailForever)).collect::<Vec<_>>());
    let (cap, sch) = match fixed { Some((c, s)) => (c, s.to_string()), None => (cap, sch) };
    let op = match token_model_applicable(data, &l) { Ok(()) => "tde_stream", Err(why) => { g.count(&format!("stream-model-not-applicable:{}", why)); "x-tde_stream" } };
    g.emit(format!("{} {} {} {} {} {} {} {}", op, enc.name(), tys, show_lexed(&l), hex(data), cap, sch, e));
}

pub fn gen(g: &mut Gen) {
    gen_wide(g);
    gen_rare(g);
    // 0. fixed witnesses of repaired findings (also kept in corpus/C02.txt): `==` after a key on the
    //    streaming path (layout- and chunk-dependent before 42b6207), operators on a first field (F9)
    for (ty, text, expect) in [
        ("st(a:prop(str);b:opt(str))", &b"a==b"[..], "{a=prop(exact,s62),b=none}"),
        ("st(a:prop(str);b:opt(str))", b"a == b            ", "{a=prop(exact,s62),b=none}"),
        ("st(a:prop(str);b:opt(str))", b"a == b", "{a=prop(exact,s62),b=none}"),
        ("st(a:prop(i64);b:opt(str))", b"a=1 b==c a2 == 3 ", "{a=prop(eq,i1),b=some(s63)}"),
        ("st(a:st(b:prop(str)))", b"a={ b ?= c }", "{a={b=prop(exists,s63)}}"),
        ("st(a:st(b:prop(str)))", b"a={ b != c }", "{a={b=prop(ne,s63)}}"),
    ] {
        let ty = parse_ty(ty).unwrap();
        for (cap, sch) in [(32768usize, "-"), (8, "R1"), (9, "R2"), (16, "3,1,R5")] {
            emit_pair_with(g, Enc::W, &ty, text, Some(expect), Some((cap, sch)));
        }
    }
    // 0b. the witnesses of Lean `C02_divergent_witnesses` (one per atomic combination of `Bad`), run on the
    //     real code: the two paths legitimately differ, each is compared with its model
    for (ty, text) in DIVERGENT_WITNESSES {
        let ty = parse_ty(&format!("st(x:{};w:opt(str))", ty)).unwrap();
        let text = format!("x={} w=z", text);
        for enc in [Enc::U, Enc::W] {
            for (cap, sch) in [(32768usize, "-"), (8, "R1"), (16, "3,1,R5")] {
                emit_pair_with(g, enc, &ty, text.as_bytes(), Some("%"), Some((cap, sch)));
            }
        }
    }
    // 0c. the byte-level witnesses of Lean `C02_mixed_container_paths_differ`, `C02_implicit_eq_first_field_paths_differ`,
    //     `C02_parameter_block_paths_differ` on the real code (each real path against its model; the paths differ)
    for (ty, text) in [("st(a:map(str))", "a={ b=1 c d }"), ("st(a:st(b:opt(map(str));d:opt(str)))", "a={ b{ c=1 } d=2 }"),
                       ("st(a:str;b:opt(str);c:opt(str))", "a=1 [[x] b=2 ] c=3"),
                       // Lean `C02_tuple_longer_paths_differ` (finding `tuple-longer-than-target`)
                       ("st(id:u8;arr:tup(i32;i32))", "id=1 arr={ 1 2 3 }"),
                       // Lean `C02_question_scalar_paths_differ` (C07_known_question_scalar: the reader takes `?` for an operator)
                       ("st(a:str)", "a=?b\n")] {
        let ty = parse_ty(ty).unwrap();
        for (cap, sch) in [(32768usize, "-"), (8, "R1"), (16, "3,1,R5")] {
            emit_pair_with(g, Enc::U, &ty, text.as_bytes(), Some("%"), Some((cap, sch)));
        }
    }
    // 1. well-formed save-style documents x layouts x encodings x target types
    let n = g.budget(30_000, 300_000);
    let cfg = DocCfg::save_style();
    for i in 0..n {
        let mut doc = gen_doc(&mut g.rng, &cfg);
        // the shared generator returns an empty document 1 time in 5: keep a few, redraw the rest
        while doc.fields.is_empty() && g.rng.chance(19, 20) { doc = gen_doc(&mut g.rng, &cfg); }
        let data = render_layout(&mut g.rng, &LayoutCfg::reader_safe(), &lexemes(&doc));
        let mut ty = if g.rng.chance(1, 8) { doc_ty(&mut g.rng, &doc, true) } else { gen_fields_ty(&mut g.rng, &doc.fields, &TyCfg { prop: true }) };
        if g.rng.chance(1, 12) { ty = misfit(&mut g.rng, &ty); g.count("ty-misfit"); }
        count_ty(g, &ty);
        let encs: &[Enc] = if i % 3 == 0 { &[Enc::W, Enc::U] } else if i % 3 == 1 { &[Enc::W] } else { &[Enc::U] };
        for &enc in encs {
            let expect = value_of(enc, &ty, &doc);
            count_float_hits(g, &expect);
            g.count(if expect.is_some() { "wf:with-expectation" } else { "wf:no-expectation" });
            // no reference value, but the pair is outside Lean's `Bad`: the two paths must still agree
            let claimed = expect.is_none() && agreement_claimed(enc, &ty, &doc);
            if claimed { g.count("wf:agreement-claimed-without-value"); }
            if let Some(e) = &expect { if is_err(e) { g.count(&format!("wf:expected-error:{}", e.split(':').nth(1).unwrap_or("?"))); } }
            let expect = if claimed { Some("=".to_string()) } else { expect };
            emit_pair(g, enc, &ty, &data, expect.as_deref());
            let expect = if claimed { None } else { expect };
            emit_spec(g, enc, &ty, &doc, expect.as_deref());
        }
    }
    // 1a. narrow integer targets at the edges of their ranges (serde's range-checked conversions after
    //     deserialize_i64 / deserialize_u64; Lean `leafConv`): every edge value x every narrow type
    for v in [-32769i64, -32768, -129, -128, -1, 0, 127, 128, 255, 256, 32767, 32768, 65535, 65536] {
        for t in [Ty::I8, Ty::U8, Ty::I16, Ty::U16] {
            let fld = |k: &str, v: Vec<u8>| Field { key: Leaf::Unq(k.as_bytes().to_vec()), op: Op::Eq, val: Node::Leaf(Leaf::Unq(v)), ghosts: 0, implicit_eq: false };
            let txt = if v > 0 && g.rng.chance(1, 4) { format!("+{}", v) } else { v.to_string() };
            let doc = Doc { fields: vec![fld("x", txt.clone().into_bytes()), fld("y", txt.into_bytes())] };
            let ty = Ty::Struct(vec![("x".into(), t.clone()), ("y".into(), Ty::Opt(Box::new(Ty::Prop(Box::new(t.clone())))))]);
            let data = render_layout(&mut g.rng, &LayoutCfg::reader_safe(), &lexemes(&doc));
            let enc = if v % 2 == 0 { Enc::W } else { Enc::U };
            let expect = value_of(enc, &ty, &doc);
            g.count(match &expect { Some(e) if is_err(e) => "narrow-int-edge:refused", Some(_) => "narrow-int-edge:accepted", None => "narrow-int-edge:no-expectation" });
            emit_pair(g, enc, &ty, &data, expect.as_deref());
            emit_spec(g, enc, &ty, &doc, expect.as_deref());
        }
    }
    // 1b. decimal sweep: every number of fraction digits 1..=22 (each entry of the crate's power-of-ten
    //     table) with typed float targets; the reference is Rust's correctly rounded `str::parse`
    let reps = g.budget(12, 120);
    for k in 1..=22usize {
        for rep in 0..reps {
            let mk = |rng: &mut Rng| -> Vec<u8> {
                let int = match rng.below(4) { 0 => 0u64, 1 => rng.below(10) as u64, 2 => rng.below(1000) as u64, _ => rng.next() >> rng.range(20, 60) };
                // keep the digits within u64 so that the crate does not refuse: leading zeros / short integer parts
                let lead = match rng.below(3) { 0 => 0, 1 => k / 2, _ => k.saturating_sub(3) }.max(k.saturating_sub(18));
                let int = if k > 15 { 0 } else { int };
                let frac: String = (0..k).map(|i| if i < lead { '0' } else if rng.chance(1, 3) { '0' } else { char::from(b'0' + rng.below(10) as u8) }).collect();
                let z = k.saturating_sub(19);
                let frac = if rep == 0 { format!("{}5{}", "0".repeat(z), "0".repeat(k - 1 - z)) } else { frac };
                let int = if rep == 0 { 0 } else { int };
                format!("{}{}.{}", if rng.chance(1, 4) { "-" } else { "" }, int, frac).into_bytes()
            };
            let (a, b) = (mk(&mut g.rng), mk(&mut g.rng));
            let fld = |k: &str, v: Vec<u8>| Field { key: Leaf::Unq(k.as_bytes().to_vec()), op: Op::Eq, val: Node::Leaf(Leaf::Unq(v)), ghosts: 0, implicit_eq: false };
            let doc = Doc { fields: vec![fld("x", a.clone()), fld("list", b.clone()), fld("y", a)] };
            let ty = Ty::Struct(vec![("x".into(), Ty::F64), ("y".into(), if rep % 3 == 0 { Ty::Prop(Box::new(Ty::F32)) } else { Ty::F32 }), ("list".into(), Ty::Opt(Box::new(Ty::F64)))]);
            let data = render_layout(&mut g.rng, &LayoutCfg::reader_safe(), &lexemes(&doc));
            let enc = if rep % 2 == 0 { Enc::W } else { Enc::U };
            let expect = value_of(enc, &ty, &doc);
            count_float_hits(g, &expect);
            g.count(if expect.is_some() { "decimal-sweep:with-expectation" } else { "decimal-sweep:no-expectation" });
            emit_pair(g, enc, &ty, &data, expect.as_deref());
            emit_spec(g, enc, &ty, &doc, expect.as_deref());
        }
    }
    // 2. documents with operators: Property capture (operators on any field, first fields included since the F9 repair)
    let n = g.budget(6_000, 60_000);
    let cfg_ops = DocCfg { operators: true, ..DocCfg::save_style() };
    for _ in 0..n {
        let mut doc = gen_doc(&mut g.rng, &cfg_ops);
        let data = render_layout(&mut g.rng, &LayoutCfg::reader_safe(), &lexemes(&doc));
        // operators are only observable through Property: wrap every field with a non-'=' operator
        fn wrap(rng: &mut Rng, fs: &[Field]) -> Ty {
            let t = gen_fields_ty(rng, fs, &TyCfg { prop: true });
            t
        }
        let ty = wrap(&mut g.rng, &doc.fields);
        count_ty(g, &ty);
        let enc = if g.rng.chance(1, 2) { Enc::W } else { Enc::U };
        // a non-'=' operator under a non-Property type is dropped on both paths; value_of agrees with that
        let expect = value_of(enc, &ty, &doc);
        count_float_hits(g, &expect);
        g.count(if expect.is_some() { "ops:with-expectation" } else { "ops:no-expectation" });
        emit_pair(g, enc, &ty, &data, expect.as_deref());
        emit_spec(g, enc, &ty, &doc, expect.as_deref());
    }
    // 2b. what the full text syntax adds and both deserializers accept: operators, quoted keys, variables as
    //     scalars, the implicit `=` before `{`, ghost `{}` in key position (no mixed containers: see x-probe)
    let n = g.budget(8_000, 80_000);
    let cfg_full = DocCfg { mixed: false, ..DocCfg::text_full() };
    for i in 0..n {
        let mut doc = gen_doc(&mut g.rng, &cfg_full);
        while doc.fields.is_empty() { doc = gen_doc(&mut g.rng, &cfg_full); }
        let data = render_layout(&mut g.rng, &LayoutCfg::reader_safe(), &lexemes(&doc));
        let mut ty = if g.rng.chance(1, 8) { doc_ty(&mut g.rng, &doc, true) } else { gen_fields_ty(&mut g.rng, &doc.fields, &TyCfg { prop: true }) };
        if g.rng.chance(1, 12) { ty = misfit(&mut g.rng, &ty); }
        count_ty(g, &ty);
        let enc = if i % 2 == 0 { Enc::W } else { Enc::U };
        let expect = value_of(enc, &ty, &doc);
        count_float_hits(g, &expect);
        fn deco(fs: &[Field], c: &mut [usize; 4]) {
            for f in fs {
                if f.ghosts > 0 { c[0] += 1; } if eff_implicit(f) { c[1] += 1; } if matches!(f.key, Leaf::Quo(_)) { c[2] += 1; } if f.op != Op::Eq { c[3] += 1; }
                match &f.val { Node::Obj(x) => deco(x, c), Node::Arr(vs) => for v in vs { if let Node::Obj(x) = v { deco(x, c) } }, Node::Header(_, b) => if let Node::Obj(x) = &**b { deco(x, c) }, _ => {} }
            }
        }
        let mut c = [0usize; 4]; deco(&doc.fields, &mut c);
        if expect.is_some() { for (k, name) in ["ghost", "implicit-eq", "quoted-key", "operator"].iter().enumerate() { if c[k] > 0 { g.count(&format!("full:with-expectation:{}", name)); } } }
        g.count(if expect.is_some() { "full:with-expectation" } else { "full:no-expectation" });
        let claimed = expect.is_none() && agreement_claimed(enc, &ty, &doc);
        if claimed { g.count("full:agreement-claimed-without-value"); }
        let e = if claimed { Some("=".to_string()) } else { expect.clone() };
        emit_pair(g, enc, &ty, &data, e.as_deref());
        emit_spec(g, enc, &ty, &doc, expect.as_deref());
    }
    // 3. malformed stream: mutations of rendered documents, random text; no expectation, correspondence only
    let n = g.budget(12_000, 120_000);
    for _ in 0..n {
        let doc = gen_doc(&mut g.rng, &DocCfg { max_fields: 4, ..DocCfg::text_full() });
        let base = render_layout(&mut g.rng, &LayoutCfg::reader_safe(), &lexemes(&doc));
        let data = if g.rng.chance(1, 8) { random_text(&mut g.rng, 24) } else if g.rng.chance(1, 3) { base } else { mutate(&mut g.rng, &base, TEXT_ALPHABET) };
        let mut ty = if g.rng.chance(1, 2) { doc_ty(&mut g.rng, &doc, true) } else { gen_fields_ty(&mut g.rng, &doc.fields, &TyCfg { prop: true }) };
        if g.rng.chance(1, 4) { ty = misfit(&mut g.rng, &ty); }
        let enc = if g.rng.chance(1, 2) { Enc::W } else { Enc::U };
        g.count("malformed");
        emit_pair(g, enc, &ty, &data, None);
    }
    // 4. real derived structs against the Ty interpreter
    let n = g.budget(5_000, 50_000);
    for i in 0..n {
        let enc = if i % 2 == 0 { Enc::W } else { Enc::U };
        if i % 4 == 3 {
            let data = gen_dup_doc(&mut g.rng);
            g.emit(format!("x-derive dup {} {}", enc.name(), hex(&data)));
        } else {
            let data = gen_top_doc(&mut g.rng);
            g.emit(format!("x-derive top {} {}", enc.name(), hex(&data)));
            if i % 8 == 0 { emit_pair(g, enc, &parse_ty(derived::TOP_TY).unwrap(), &data, None); }
        }
    }
    // 5. RECORDED known divergences (known_findings.txt), probed with the real ops and reported under their
    //    own oracle kinds; they are not part of the well-formed document model
    let word = |rng: &mut Rng| -> String { (0..rng.range(1, 5)).map(|_| (b'a' + rng.below(26) as u8) as char).collect() };
    for i in 0..12 {
        // an empty `{}` as FIRST element of an array: dropped by the tape parser, kept by the reader path
        let key = *g.rng.pick(&["a", "list", "flags"]);
        let rest: Vec<String> = (0..g.rng.below(4)).map(|_| if g.rng.chance(1, 4) { format!("{{ {} }}", word(&mut g.rng)) } else { word(&mut g.rng) }).collect();
        let text = format!("{}={{ {{}} {} }} id={}", key, rest.join(" "), g.rng.below(100));
        let ty = if rest.iter().all(|r| r.starts_with('{')) && g.rng.chance(1, 2) { format!("st({}:seq(seq(any)))", key) } else { format!("st({}:seq(ign);id:opt(i64))", key) };
        let enc = if i % 2 == 0 { Enc::W } else { Enc::U };
        emit_pair_with(g, enc, &parse_ty(&ty).unwrap(), text.as_bytes(), Some("!array-leading-empty"), None);
    }
    for i in 0..12 {
        // a header value read as a sequence: the tape path yields [name, body], the reader path ignores the
        // current token in deserialize_seq
        let hdr = *g.rng.pick(&["rgb", "hsv", "LIST", "hsv360"]);
        let n = g.rng.range(1, 4);
        let body: Vec<String> = (0..n).map(|_| g.rng.below(256).to_string()).collect();
        let tail = if g.rng.chance(1, 2) { format!(" name={}", word(&mut g.rng)) } else { String::new() };
        let text = format!("color = {} {{ {} }}{}", hdr, body.join(" "), tail);
        let ty = *g.rng.pick(&["st(color:seq(any))", "st(color:seq(any);name:opt(str))", "map(seq(any))", "st(color:opt(seq(ign)))"]);
        let enc = if i % 2 == 0 { Enc::W } else { Enc::U };
        emit_pair_with(g, enc, &parse_ty(ty).unwrap(), text.as_bytes(), Some("!text-reader-header"), None);
    }
    for (kind, ty, text) in [
        ("exact-operator-split-repaired", "st(a:prop(str);b:opt(str))", &b"a==b"[..]),
        ("exact-operator-split-repaired", "st(a:prop(str);b:opt(str))", b"a == b            "),
        ("first-field-operator-repaired", "st(a:st(b:prop(str)))", b"a={ b ?= c }"),
    ] {
        g.emit(format!("x-probe {} w1252 {} {}", kind, ty, hex(text)));
    }
}

pub fn tables() -> String {
    String::new()
}
