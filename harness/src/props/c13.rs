//! C13 — date codecs are mutually inverse and date arithmetic is consistent.
//!
//! ops (one canonical result line each: `ok …` / `none` / `panic`):
//!   dparse|dhparse|udparse|rawparse <hex>        Date / DateHour / UniformDate / RawDate ::parse
//!   frombin|frombinh|dhfrombin|dhfrombinh|rawfrombin <i32>
//!   tobin y m d [h]                              Date / DateHour ::to_binary
//!   fmt y m d [h] | ufmt y m d                   typed game_fmt
//!   iso y m d [h] | uiso y m d
//!   rawfmt short|wide|iso y m d h                PdsDateFormatter on a RawDate
//!   adddays y m d n | until y m d y m d | cmp y m d y m d | dhcmp … | rawcmp …
//!   dvisit|dhvisit|udvisit <kind> <arg>          the serde Deserialize impls driven by serde's value deserializers
//!   dser y m d [h]                               the serde Serialize impls (through serde_json)
//!   fdp <u64>                                    util::fast_digit_parse (hook)
//!   i64t <hex>                                   scalar::to_i64_t (hook)
//!   frombin-block <start> <count>                FNV fold of Date/DateHour::from_binary over a range
//!   ymd-block full|ends <year> <count>           FNV fold of all codecs over every day (month ends) of the years
//!   shape-block <hex>                            FNV fold of the four parsers over all one-byte corruptions of a text
//!   fdp-block <seed> <count>                     FNV fold of fast_digit_parse over pseudo-random words
//!
//! L3 oracles (implementation only, straight from the property text) are evaluated inside
//! every op: format→parse round trip, to_binary∘from_binary, from_binary re-encode, typed
//! parsers vs a naive component-wise reference parser, add_days/days_until inverse on one
//! side of year 0, ordering vs sign of days_until for years ≥ 1, fast_digit_parse vs a
//! per-byte reference.
use crate::common::*;
use jomini::common::{Date, DateFormat, DateHour, PdsDate, PdsDateFormatter, RawDate, UniformDate};
use std::cmp::Ordering;

const DPM: [u32; 13] = [0, 31, 28, 31, 30, 31, 30, 31, 31, 30, 31, 30, 31];

// ---------------------------------------------------------------------------------------
// canonical printing and hashing (mirrors Driver/C13.lean)

fn show_date(d: &Date) -> String { format!("ok {} {} {}", d.year(), d.month(), d.day()) }
fn show_dh(d: &DateHour) -> String { format!("ok {} {} {} {}", d.year(), d.month(), d.day(), d.hour()) }
fn show_ud(d: &UniformDate) -> String { format!("ok {} {} {}", d.year(), d.month(), d.day()) }
fn show_raw(d: &RawDate) -> String { format!("ok {} {} {} {}", d.year(), d.month(), d.day(), d.hour()) }
fn none() -> String { "none".to_string() }
fn show_ord(o: Ordering) -> &'static str {
    match o { Ordering::Less => "ok lt", Ordering::Equal => "ok eq", Ordering::Greater => "ok gt" }
}

const FNV_OFFSET: u64 = 0xcbf29ce484222325;
#[inline]
fn mix(h: u64, c: u64) -> u64 { (h ^ c).wrapping_mul(0x100000001b3) }
#[inline]
fn code_ymdh(y: i16, m: u8, d: u8, h: u8) -> u64 {
    ((y as i64 + 32768) as u64) * 16777216 + (m as u64) * 65536 + (d as u64) * 256 + h as u64 + 2
}
fn code_date(d: Option<Date>) -> u64 { d.map(|d| code_ymdh(d.year(), d.month(), d.day(), 0)).unwrap_or(0) }
fn code_dh(d: Option<DateHour>) -> u64 { d.map(|d| code_ymdh(d.year(), d.month(), d.day(), d.hour())).unwrap_or(0) }
fn code_ud(d: Option<UniformDate>) -> u64 { d.map(|d| code_ymdh(d.year(), d.month(), d.day(), 0)).unwrap_or(0) }
fn code_raw(d: Option<RawDate>) -> u64 { d.map(|d| code_ymdh(d.year(), d.month(), d.day(), d.hour())).unwrap_or(0) }
fn code_int(v: i32) -> u64 { (v as i64 + 4294967296) as u64 + 2 }
fn code_bytes(b: &[u8]) -> u64 { b.iter().fold(FNV_OFFSET, |h, x| mix(h, *x as u64)) }

const CHUNK: u64 = 65536;

// ---------------------------------------------------------------------------------------
// naive reference parser: "Y.M.D[.H]" read component-wise

#[derive(Clone, Copy, Debug, PartialEq)]
struct Comp {
    y: i64,
    m: u32,
    d: u32,
    h: Option<u32>,
    /// the hour was written with a leading zero ("05")
    hour_lead_zero: bool,
}

/// optional sign, then only digits (possibly none): the scalar parser's integer grammar
fn bare_int(s: &[u8]) -> Option<i128> {
    let (neg, body) = match s.first()? {
        b'-' => (true, &s[1..]),
        b'+' => (false, &s[1..]),
        _ => (false, s),
    };
    let mut v: i128 = 0;
    for &b in body {
        if !b.is_ascii_digit() { return None; }
        v = (v * 10 + (b - b'0') as i128).min(1 << 100);
    }
    Some(if neg { -v } else { v })
}

fn small_num(p: &[u8]) -> Option<u32> {
    if p.is_empty() || p.len() > 2 || !p.iter().all(|b| b.is_ascii_digit()) { return None; }
    Some(p.iter().fold(0u32, |a, b| a * 10 + (b - b'0') as u32))
}

/// Err(true) = "shape is Y.M.D[.H] but the year has a sign and no digits"
fn ref_components(s: &[u8]) -> Result<Comp, bool> {
    let parts: Vec<&[u8]> = s.split(|b| *b == b'.').collect();
    if parts.len() != 3 && parts.len() != 4 { return Err(false); }
    let m = small_num(parts[1]).ok_or(false)?;
    let d = small_num(parts[2]).ok_or(false)?;
    let (h, hour_lead_zero) = if parts.len() == 4 {
        (Some(small_num(parts[3]).ok_or(false)?), parts[3][0] == b'0')
    } else { (None, false) };
    let ydigits = match parts[0].first() { Some(b'-') | Some(b'+') => &parts[0][1..], _ => parts[0] };
    let y = bare_int(parts[0]).ok_or(false)?;
    if ydigits.is_empty() { return Err(!parts[0].is_empty()); }
    if y < i16::MIN as i128 || y > i16::MAX as i128 { return Err(false); }
    Ok(Comp { y: y as i64, m, d, h, hour_lead_zero })
}

#[derive(Clone, Copy, PartialEq)]
enum Ty { Date, DateHour, Uniform, Raw }

fn calendar_ok(ty: Ty, c: &Comp) -> bool {
    if c.m < 1 || c.m > 12 || c.d < 1 { return false; }
    match ty {
        Ty::Date => c.h.is_none() && c.d <= DPM[c.m as usize],
        Ty::DateHour => matches!(c.h, Some(1..=24)) && c.d <= DPM[c.m as usize],
        Ty::Uniform => c.h.is_none() && c.d <= 30,
        Ty::Raw => c.d <= 31 && (c.h.is_none() || matches!(c.h, Some(1..=24))),
    }
}

/// what the property lets a typed parser return for `s`, as (y, m, d, h) with h = 0 for "no hour".
/// `Err(kind)`: nothing, with the reason class.
fn ref_parse(ty: Ty, s: &[u8]) -> Result<(i64, u32, u32, u32), &'static str> {
    if let Some(v) = bare_int(s) {
        // a bare number is the text of the binary form: documented for Date only (a Date's
        // binary form has hour 0; Date::parse refuses other hours although from_binary drops them)
        if ty == Ty::Date && v >= i32::MIN as i128 && v <= i32::MAX as i128 && v % 24 == 0 && s.iter().any(|b| b.is_ascii_digit()) {
            return Date::from_binary(v as i32)
                .map(|d| (d.year() as i64, d.month() as u32, d.day() as u32, 0))
                .ok_or("bare-invalid");
        }
        return Err("bare");
    }
    match ref_components(s) {
        Ok(c) if calendar_ok(ty, &c) => Ok((c.y, c.m, c.d, c.h.unwrap_or(0))),
        Ok(c) => {
            // same components but the hour written "0x"?
            let _ = c;
            Err("calendar")
        }
        Err(true) => Err("empty-year"),
        Err(false) => Err("shape"),
    }
}

fn typed_oracle(ty: Ty, s: &[u8], got: Option<(i64, u32, u32, u32)>, both_directions: bool, case: &str, obs: &mut Obs) {
    let want = ref_parse(ty, s);
    match (got, want) {
        (Some(g), Ok(w)) => {
            if g != w { obs.violation("parse-wrong-components", case, &format!("impl {:?} reference {:?}", g, w)); }
        }
        (None, Err(_)) => {}
        (Some(g), Err(why)) => {
            let kind = match why {
                "bare" | "bare-invalid" => "bare-number-accepted",
                "empty-year" => "empty-year-accepted",
                _ => "parse-accepts-foreign",
            };
            obs.violation(kind, case, &format!("impl {:?} reference refuses ({})", g, why));
        }
        (None, Ok(w)) => {
            if both_directions {
                let lead0 = ref_components(s).map(|c| c.hour_lead_zero).unwrap_or(false);
                let kind = if lead0 { "zero-padded-hour-refused" } else { "parse-refuses-valid" };
                obs.violation(kind, case, &format!("impl refuses, reference {:?}", w));
            }
        }
    }
}

// ---------------------------------------------------------------------------------------
// other oracles

/// iso-8601 rendering shows the same components (hour as 0-23)
fn iso_oracle(txt: &str, y: i16, m: u8, d: u8, h: u8, case: &str, obs: &mut Obs) {
    let (date, hour) = match txt.split_once('T') { Some((a, b)) => (a, Some(b)), None => (txt, None) };
    let ok = (|| {
        let n = date.len();
        if n < 10 || !date.is_char_boundary(n - 6) { return false; }
        let (ys, rest) = date.split_at(n - 6);
        let rb = rest.as_bytes();
        if rb[0] != b'-' || rb[3] != b'-' || ys.len() < 4 { return false; }
        if ys.parse::<i32>().ok() != Some(y as i32) { return false; }
        if rest[1..3].parse::<u8>().ok() != Some(m) || rest[4..6].parse::<u8>().ok() != Some(d) { return false; }
        match (hour, h) {
            (None, 0) => true,
            (Some(hs), h) if h >= 1 => hs.len() == 2 && hs.parse::<u8>().ok() == Some(h - 1) && h - 1 <= 23,
            _ => false,
        }
    })();
    if !ok { obs.violation("iso-components", case, &format!("{:?} for {} {} {} {}", txt, y, m, d, h)); }
}

/// own linear day number with the implementation's convention (mirrored before year 0)
fn own_days(y: i64, m: u32, d: u32) -> i64 {
    let before: u32 = DPM[1..m as usize].iter().sum();
    let doy = (before + d - 1) as i64; // 0-based
    if y * 365 < 0 { y * 365 - doy } else { y * 365 + doy }
}

fn date_of(y: &str, m: &str, d: &str) -> Option<Option<Date>> {
    Some(Date::from_ymd_opt(y.parse().ok()?, m.parse().ok()?, d.parse().ok()?))
}
fn dh_of(y: &str, m: &str, d: &str, h: &str) -> Option<Option<DateHour>> {
    Some(DateHour::from_ymdh_opt(y.parse().ok()?, m.parse().ok()?, d.parse().ok()?, h.parse().ok()?))
}
fn raw_of(y: &str, m: &str, d: &str, h: &str) -> Option<Option<RawDate>> {
    Some(RawDate::from_ymdh_opt(y.parse().ok()?, m.parse().ok()?, d.parse().ok()?, h.parse().ok()?))
}

fn construct_oracle(ty: Ty, y: &str, m: &str, d: &str, h: &str, made: bool, case: &str, obs: &mut Obs) {
    let c = Comp { y: y.parse().unwrap_or(0), m: m.parse().unwrap_or(0), d: d.parse().unwrap_or(0), h: match h.parse::<u32>() { Ok(0) | Err(_) => None, Ok(v) => Some(v) }, hour_lead_zero: false };
    let want = calendar_ok(ty, &c) && !(ty == Ty::DateHour && h == "0");
    if made != want { obs.violation("constructor-calendar", case, &format!("constructed={} reference={}", made, want)); }
}

fn ord_oracle(a: &Date, b: &Date, case: &str, obs: &mut Obs) {
    if a.year() >= 1 && b.year() >= 1 {
        let n = a.days_until(b);
        let want = 0.cmp(&n); // a < b  <=>  days_until > 0
        if a.cmp(b) != want { obs.violation("ord-vs-days-until", case, &format!("cmp {:?} days_until {}", a.cmp(b), n)); }
    }
    if (a == b) != (a.cmp(b) == Ordering::Equal) { obs.violation("ord-eq", case, ""); }
}

fn fdp_reference(v: u64) -> Option<u64> {
    let b = v.to_le_bytes();
    if !b.iter().all(|x| x.is_ascii_digit()) { return None; }
    Some(b.iter().fold(0u64, |a, x| a * 10 + (x - b'0') as u64))
}

// ---------------------------------------------------------------------------------------
// serde glue: drive the real Deserialize impls with serde's value deserializers, whose
// deserialize_any calls exactly one visit_* method

fn visit_with<'de, T: serde::Deserialize<'de>>(kind: &str, arg: &'de str, bytes: &'de [u8]) -> Option<Option<T>> {
    use serde::de::value::*;
    type E = serde::de::value::Error;
    let text = || std::str::from_utf8(bytes).ok();
    Some(match kind {
        "i32" => T::deserialize(I32Deserializer::<E>::new(arg.parse().ok()?)).ok(),
        "i8" => T::deserialize(I8Deserializer::<E>::new(arg.parse().ok()?)).ok(),
        "i16" => T::deserialize(I16Deserializer::<E>::new(arg.parse().ok()?)).ok(),
        "i64" => T::deserialize(I64Deserializer::<E>::new(arg.parse().ok()?)).ok(),
        "u8" => T::deserialize(U8Deserializer::<E>::new(arg.parse().ok()?)).ok(),
        "u16" => T::deserialize(U16Deserializer::<E>::new(arg.parse().ok()?)).ok(),
        "u32" => T::deserialize(U32Deserializer::<E>::new(arg.parse().ok()?)).ok(),
        "u64" => T::deserialize(U64Deserializer::<E>::new(arg.parse().ok()?)).ok(),
        "f64" => T::deserialize(F64Deserializer::<E>::new(arg.parse().ok()?)).ok(),
        "bool" => T::deserialize(BoolDeserializer::<E>::new(arg == "1")).ok(),
        "unit" => T::deserialize(UnitDeserializer::<E>::new()).ok(),
        "bytes" => T::deserialize(BytesDeserializer::<E>::new(bytes)).ok(),
        "str" => T::deserialize(StrDeserializer::<E>::new(text()?)).ok(),
        "string" => T::deserialize(StringDeserializer::<E>::new(text()?.to_string())).ok(),
        "char" => { let t = text()?; let mut it = t.chars(); let c = it.next()?; if it.next().is_some() { return None; } T::deserialize(CharDeserializer::<E>::new(c)).ok() }
        _ => return None,
    })
}

fn visit_op(op: &str, kind: &str, arg: &str, case: &str, obs: &mut Obs) -> Option<String> {
    let is_text = matches!(kind, "str" | "string" | "char" | "bytes");
    let bytes: Vec<u8> = if is_text { unhex(arg)? } else { vec![] };
    // what the core entry points say for the same input
    let as_i32: Option<i32> = if kind == "i32" { arg.parse().ok() } else { None };
    let as_str: Option<&[u8]> = if matches!(kind, "str" | "string" | "char") { Some(&bytes) } else { None };
    Some(match op {
        "dvisit" => {
            let r: Option<Date> = visit_with(kind, arg, &bytes)?;
            let core = as_i32.and_then(Date::from_binary).or_else(|| as_str.and_then(|s| Date::parse(s).ok()));
            if r != core { obs.violation("visitor-vs-core", case, &format!("visitor {:?} core {:?}", r, core)); }
            if let (Some(d), Some(v)) = (r, as_i32) { if d.to_binary() != v - v % 24 { obs.violation("visitor-i32-wrapped", case, ""); } }
            r.map(|d| show_date(&d)).unwrap_or_else(none)
        }
        "dhvisit" => {
            let r: Option<DateHour> = visit_with(kind, arg, &bytes)?;
            let core = as_i32.and_then(DateHour::from_binary).or_else(|| as_str.and_then(|s| DateHour::parse(s).ok()));
            if r != core { obs.violation("visitor-vs-core", case, &format!("visitor {:?} core {:?}", r, core)); }
            if let (Some(d), Some(v)) = (r, as_i32) { if d.to_binary() != v { obs.violation("visitor-i32-wrapped", case, ""); } }
            r.map(|d| show_dh(&d)).unwrap_or_else(none)
        }
        _ => {
            let r: Option<UniformDate> = visit_with(kind, arg, &bytes)?;
            let core = as_str.and_then(|s| UniformDate::parse(s).ok());
            if r != core { obs.violation("visitor-vs-core", case, &format!("visitor {:?} core {:?}", r, core)); }
            r.map(|d| show_ud(&d)).unwrap_or_else(none)
        }
    })
}

// ---------------------------------------------------------------------------------------
// block ops

struct BlockOut { hash: u64, violations: Vec<(String, String)> }

fn frombin_chunk(start: i64, n: u64, viol: &mut Vec<(String, String)>) -> u64 {
    let mut h = FNV_OFFSET;
    for k in 0..n as i64 {
        let s = (start + k) as i32;
        let d = Date::from_binary(s);
        let dh = DateHour::from_binary(s);
        h = mix(h, code_date(d));
        h = mix(h, code_dh(dh));
        // L3: whatever it accepts re-encodes to the same day (and hour)
        if let Some(d) = d {
            if d.to_binary() != s - s % 24 && viol.len() < 4 { viol.push(("frombin-reencode".into(), format!("Date {}", s))); }
        }
        if let Some(x) = dh {
            if x.to_binary() != s && viol.len() < 4 { viol.push(("frombin-reencode".into(), format!("DateHour {}", s))); }
        }
        if d.is_some() != dh.is_some() && viol.len() < 4 { viol.push(("frombin-date-vs-datehour".into(), format!("{}", s))); }
    }
    h
}

fn run_chunks<F>(items: Vec<(i64, u64)>, f: F) -> BlockOut
where F: Fn(i64, u64, &mut Vec<(String, String)>) -> u64 + Sync {
    let n = items.len();
    let threads = std::thread::available_parallelism().map(|x| x.get()).unwrap_or(4).min(16).min(n.max(1));
    let mut hashes = vec![0u64; n];
    let mut violations = Vec::new();
    let results: Vec<Vec<(usize, u64, Vec<(String, String)>)>> = std::thread::scope(|sc| {
        let hs: Vec<_> = (0..threads).map(|t| {
            let items = &items;
            let f = &f;
            sc.spawn(move || {
                let mut out = Vec::new();
                let mut i = t;
                while i < items.len() {
                    let mut v = Vec::new();
                    let h = f(items[i].0, items[i].1, &mut v);
                    out.push((i, h, v));
                    i += threads;
                }
                out
            })
        }).collect();
        hs.into_iter().map(|h| h.join().expect("block worker panicked")).collect()
    });
    for r in results { for (i, h, v) in r { hashes[i] = h; violations.extend(v); } }
    BlockOut { hash: hashes.iter().fold(FNV_OFFSET, |h, c| mix(h, *c)), violations }
}

fn frombin_block(start: i64, count: u64) -> BlockOut {
    let mut items = Vec::new();
    let (mut s, mut left) = (start, count);
    while left > 0 { let n = left.min(CHUNK); items.push((s, n)); s += n as i64; left -= n; }
    run_chunks(items, frombin_chunk)
}

fn year_codes(y: i64, full: u64, viol: &mut Vec<(String, String)>) -> u64 {
    let full = full != 0;
    let y = y as i16;
    let mut h = FNV_OFFSET;
    let mut idx: u64 = 0;
    let mut bad = |kind: &str, detail: String| { if viol.len() < 4 { viol.push((kind.to_string(), detail)); } };
    for m in 1u8..=12 {
        let n = DPM[m as usize] as u8;
        let days: Vec<u8> = if full { (1..=n).collect() } else { vec![1, n] };
        for d in days {
            let od = Date::from_ymd_opt(y, m, d).expect("valid date");
            let fs = od.game_fmt().to_string();
            h = mix(h, code_bytes(fs.as_bytes()));
            let p = Date::parse(&fs).ok();
            h = mix(h, code_date(p));
            if p != Some(od) { bad("fmt-parse-roundtrip", format!("Date {}", fs)); }
            let raw = RawDate::from_ymdh_opt(y, m, d, 0).expect("raw");
            let fw = PdsDateFormatter::new(raw, DateFormat::DotWide).to_string();
            h = mix(h, code_bytes(fw.as_bytes()));
            let pw = Date::parse(&fw).ok();
            h = mix(h, code_date(pw));
            if pw != Some(od) { bad("fmt-parse-roundtrip", format!("Date wide {}", fw)); }
            let pu = UniformDate::parse(&fw).ok();
            h = mix(h, code_ud(pu));
            if d <= 30 && pu != UniformDate::from_ymd_opt(y, m, d) { bad("fmt-parse-roundtrip", format!("UniformDate {}", fw)); }
            if d > 30 && pu.is_some() { bad("uniform-accepts-day-31", fw.clone()); }
            let pr = RawDate::parse(&fs).ok();
            h = mix(h, code_raw(pr));
            if pr != Some(raw) { bad("fmt-parse-roundtrip", format!("RawDate {}", fs)); }
            h = mix(h, code_bytes(od.iso_8601().to_string().as_bytes()));
            let bin = od.to_binary();
            h = mix(h, code_int(bin));
            let back = Date::from_binary(bin);
            h = mix(h, code_date(back));
            if y >= -5000 && back != Some(od) { bad("bin-roundtrip", format!("Date {} -> {}", fs, bin)); }
            for k in 0u8..(if full { 24 } else { 0 }) {
                let dh = DateHour::from_ymdh_opt(y, m, d, k + 1).expect("valid datehour");
                let b = dh.to_binary();
                let back = DateHour::from_binary(b);
                h = mix(mix(h, code_int(b)), code_dh(back));
                if y >= -5000 && back != Some(dh) { bad("bin-roundtrip", format!("DateHour {} -> {}", dh.game_fmt(), b)); }
            }
            for k in [(idx % 24 + 1) as u8, ((idx * 7 + 11) % 24 + 1) as u8] {
                let dh = DateHour::from_ymdh_opt(y, m, d, k).expect("valid datehour");
                let f = dh.game_fmt().to_string();
                let fw = PdsDateFormatter::new(RawDate::from_ymdh_opt(y, m, d, k).expect("raw"), DateFormat::DotWide).to_string();
                h = mix(h, code_bytes(f.as_bytes()));
                let p = DateHour::parse(&f).ok();
                h = mix(h, code_dh(p));
                if p != Some(dh) { bad("fmt-parse-roundtrip", format!("DateHour {}", f)); }
                let pw = DateHour::parse(&fw).ok();
                h = mix(h, code_dh(pw));
                if pw != Some(dh) {
                    if k < 10 { bad("zero-padded-hour-refused", format!("DateHour wide {}", fw)); } else { bad("fmt-parse-roundtrip", format!("DateHour wide {}", fw)); }
                }
                h = mix(h, code_bytes(dh.iso_8601().to_string().as_bytes()));
            }
            idx += 1;
        }
    }
    h
}

fn ymd_block(full: bool, year: i64, count: u64) -> BlockOut {
    run_chunks((0..count as i64).map(|k| (year + k, full as u64)).collect(), year_codes)
}

/// fold of the four text parsers over every one-byte corruption of `base` (+ the parser oracles)
fn shape_block(base: &[u8], case: &str, obs: &mut Obs) -> u64 {
    let alpha: [u8; 12] = [48, 49, 50, 57, 46, 47, 58, 45, 43, 32, 0, 255];
    let mut h = FNV_OFFSET;
    let mut local = Obs::default();
    for pos in 0..base.len() {
        for v in 0..=255u8 {
            let mut t = base.to_vec();
            t[pos] = v;
            let r = Date::parse(&t).ok();
            h = mix(h, code_date(r));
            let both = t.len() >= 5 && t.len() <= 12 && (t[0] == b'-' || t[0].is_ascii_digit());
            let c = format!("{} [dparse {}]", case, hex(&t));
            typed_oracle(Ty::Date, &t, r.map(|d| (d.year() as i64, d.month() as u32, d.day() as u32, 0)), both, &c, &mut local);
        }
        for &v in &alpha {
            let mut t = base.to_vec();
            t[pos] = v;
            let (a, b, c) = (DateHour::parse(&t).ok(), UniformDate::parse(&t).ok(), RawDate::parse(&t).ok());
            h = mix(mix(mix(h, code_dh(a)), code_ud(b)), code_raw(c));
            let cs = format!("{} [parse {}]", case, hex(&t));
            typed_oracle(Ty::DateHour, &t, a.map(|d| (d.year() as i64, d.month() as u32, d.day() as u32, d.hour() as u32)), true, &cs, &mut local);
            typed_oracle(Ty::Uniform, &t, b.map(|d| (d.year() as i64, d.month() as u32, d.day() as u32, 0)), true, &cs, &mut local);
            typed_oracle(Ty::Raw, &t, c.map(|d| (d.year() as i64, d.month() as u32, d.day() as u32, d.hour() as u32)), true, &cs, &mut local);
        }
    }
    for v in local.violations.into_iter().take(4) { obs.violation(&v.kind, &v.case, &v.detail); }
    h
}

fn splitmix(s: &mut u64) -> u64 {
    *s = s.wrapping_add(0x9E3779B97F4A7C15);
    let mut z = *s;
    z = (z ^ (z >> 30)).wrapping_mul(0xBF58476D1CE4E5B9);
    z = (z ^ (z >> 27)).wrapping_mul(0x94D049BB133111EB);
    z ^ (z >> 31)
}
fn digit_word(r: u64) -> u64 {
    let mut w = 0u64;
    for i in 0..8 { w |= (48 + ((r >> (8 * i)) & 0xFF) % 10) << (8 * i); }
    w
}
fn set_byte(w: u64, pos: u64, v: u64) -> u64 { (w & !(0xFFu64 << (8 * pos))) | (v << (8 * pos)) }

fn fdp_block(seed: u64, n: u64, case: &str, obs: &mut Obs) -> u64 {
    let mut st = seed;
    let mut h = FNV_OFFSET;
    let mut bad = 0;
    for _ in 0..n {
        let (r0, r1, r2) = (splitmix(&mut st), splitmix(&mut st), splitmix(&mut st));
        let w = match r0 % 4 {
            0 => r1,
            1 => digit_word(r1),
            2 => set_byte(digit_word(r1), r2 % 8, (r2 >> 8) & 0xFF),
            _ => set_byte(digit_word(r1), r2 % 8, if (r2 >> 8) % 2 == 0 { 0x2f } else { 0x3a }),
        };
        let r = jomini::verif_hooks::fast_digit_parse(w);
        if r != fdp_reference(w) && bad < 4 { bad += 1; obs.violation("fast-digit-parse", case, &format!("word {} impl {:?}", w, r)); }
        h = mix(h, match r { Some(v) => v.wrapping_add(1), None => 0 });
    }
    h
}

// ---------------------------------------------------------------------------------------

pub fn exec(w: &[&str], obs: &mut Obs) -> Option<String> {
    let case = || w.join(" ");
    match w {
        ["dparse", h] => {
            let s = unhex(h)?;
            let r = Date::parse(&s).ok();
            let both = s.len() >= 5 && s.len() <= 12 && (s[0] == b'-' || s[0].is_ascii_digit());
            typed_oracle(Ty::Date, &s, r.map(|d| (d.year() as i64, d.month() as u32, d.day() as u32, 0)), both, &case(), obs);
            if let Ok(t) = std::str::from_utf8(&s) {
                if t.parse::<Date>().ok() != r { obs.violation("fromstr-differs", &case(), ""); }
            }
            obs.count(match (&r, s.len()) { (Some(_), 8) => "dparse:ok:len8", (Some(_), 9) => "dparse:ok:len9", (Some(_), 10) => "dparse:ok:len10", (Some(_), _) => "dparse:ok:other", (None, _) => "dparse:none" });
            Some(r.map(|d| show_date(&d)).unwrap_or_else(none))
        }
        ["dhparse", h] => {
            let s = unhex(h)?;
            let r = DateHour::parse(&s).ok();
            typed_oracle(Ty::DateHour, &s, r.map(|d| (d.year() as i64, d.month() as u32, d.day() as u32, d.hour() as u32)), true, &case(), obs);
            obs.count(if r.is_some() { "dhparse:ok" } else { "dhparse:none" });
            Some(r.map(|d| show_dh(&d)).unwrap_or_else(none))
        }
        ["udparse", h] => {
            let s = unhex(h)?;
            let r = UniformDate::parse(&s).ok();
            typed_oracle(Ty::Uniform, &s, r.map(|d| (d.year() as i64, d.month() as u32, d.day() as u32, 0)), true, &case(), obs);
            obs.count(if r.is_some() { "udparse:ok" } else { "udparse:none" });
            Some(r.map(|d| show_ud(&d)).unwrap_or_else(none))
        }
        ["rawparse", h] => {
            let s = unhex(h)?;
            let r = RawDate::parse(&s).ok();
            typed_oracle(Ty::Raw, &s, r.map(|d| (d.year() as i64, d.month() as u32, d.day() as u32, d.hour() as u32)), true, &case(), obs);
            obs.count(if r.is_some() { "rawparse:ok" } else { "rawparse:none" });
            Some(r.map(|d| show_raw(&d)).unwrap_or_else(none))
        }
        ["frombin", s] => {
            let s: i32 = s.parse().ok()?;
            let r = Date::from_binary(s);
            if let Some(d) = r {
                if d.to_binary() != s - s % 24 { obs.violation("frombin-reencode", &case(), &format!("to_binary {}", d.to_binary())); }
            }
            obs.count(if r.is_some() { "frombin:ok" } else { "frombin:none" });
            Some(r.map(|d| show_date(&d)).unwrap_or_else(none))
        }
        ["frombinh", s] => {
            let s: i32 = s.parse().ok()?;
            let r = Date::from_binary_heuristic(s);
            if let Some(d) = r {
                if Date::from_binary(s) != Some(d) || d.to_binary() != s { obs.violation("frombin-heuristic", &case(), ""); }
            }
            Some(r.map(|d| show_date(&d)).unwrap_or_else(none))
        }
        ["dhfrombin", s] => {
            let s: i32 = s.parse().ok()?;
            let r = DateHour::from_binary(s);
            if let Some(d) = r {
                if d.to_binary() != s { obs.violation("frombin-reencode", &case(), &format!("to_binary {}", d.to_binary())); }
            }
            obs.count(if r.is_some() { "dhfrombin:ok" } else { "dhfrombin:none" });
            Some(r.map(|d| show_dh(&d)).unwrap_or_else(none))
        }
        ["dhfrombinh", s] => {
            let s: i32 = s.parse().ok()?;
            let r = DateHour::from_binary_heuristic(s);
            if let Some(d) = r {
                if DateHour::from_binary(s) != Some(d) { obs.violation("frombin-heuristic", &case(), ""); }
            }
            Some(r.map(|d| show_dh(&d)).unwrap_or_else(none))
        }
        ["rawfrombin", s] => {
            let s: i32 = s.parse().ok()?;
            let r = RawDate::from_binary(s);
            Some(r.map(|d| show_raw(&d)).unwrap_or_else(none))
        }
        ["tobin", y, m, d] => {
            let od = date_of(y, m, d)?;
            construct_oracle(Ty::Date, y, m, d, "0", od.is_some(), &case(), obs);
            Some(match od {
                None => none(),
                Some(x) => {
                    let b = x.to_binary();
                    if x.year() >= -5000 && Date::from_binary(b) != Some(x) { obs.violation("bin-roundtrip", &case(), &format!("to_binary {}", b)); }
                    format!("ok {}", b)
                }
            })
        }
        ["tobin", y, m, d, h] => {
            let od = dh_of(y, m, d, h)?;
            construct_oracle(Ty::DateHour, y, m, d, h, od.is_some(), &case(), obs);
            Some(match od {
                None => none(),
                Some(x) => {
                    let b = x.to_binary();
                    if x.year() >= -5000 && DateHour::from_binary(b) != Some(x) { obs.violation("bin-roundtrip", &case(), &format!("to_binary {}", b)); }
                    format!("ok {}", b)
                }
            })
        }
        ["fmt", y, m, d] => {
            let od = date_of(y, m, d)?;
            Some(match od {
                None => none(),
                Some(x) => {
                    let t = x.game_fmt().to_string();
                    if Date::parse(&t) != Ok(x) { obs.violation("fmt-parse-roundtrip", &case(), &t); }
                    let c = ref_components(t.as_bytes());
                    if c.map(|c| (c.y, c.m, c.d, c.h)) != Ok((x.year() as i64, x.month() as u32, x.day() as u32, None)) { obs.violation("fmt-components", &case(), &t); }
                    format!("ok {}", hex(t.as_bytes()))
                }
            })
        }
        ["fmt", y, m, d, h] => {
            let od = dh_of(y, m, d, h)?;
            Some(match od {
                None => none(),
                Some(x) => {
                    let t = x.game_fmt().to_string();
                    if DateHour::parse(&t) != Ok(x) { obs.violation("fmt-parse-roundtrip", &case(), &t); }
                    format!("ok {}", hex(t.as_bytes()))
                }
            })
        }
        ["ufmt", y, m, d] => {
            let od = UniformDate::from_ymd_opt(y.parse().ok()?, m.parse().ok()?, d.parse().ok()?);
            construct_oracle(Ty::Uniform, y, m, d, "0", od.is_some(), &case(), obs);
            Some(match od {
                None => none(),
                Some(x) => {
                    let t = x.game_fmt().to_string();
                    if UniformDate::parse(&t) != Ok(x) { obs.violation("fmt-parse-roundtrip", &case(), &t); }
                    format!("ok {}", hex(t.as_bytes()))
                }
            })
        }
        ["iso", y, m, d] => {
            let od = date_of(y, m, d)?;
            Some(match od {
                None => none(),
                Some(x) => {
                    let t = x.iso_8601().to_string();
                    iso_oracle(&t, x.year(), x.month(), x.day(), 0, &case(), obs);
                    format!("ok {}", hex(t.as_bytes()))
                }
            })
        }
        ["iso", y, m, d, h] => {
            let od = dh_of(y, m, d, h)?;
            Some(match od {
                None => none(),
                Some(x) => {
                    let t = x.iso_8601().to_string();
                    iso_oracle(&t, x.year(), x.month(), x.day(), x.hour(), &case(), obs);
                    format!("ok {}", hex(t.as_bytes()))
                }
            })
        }
        ["uiso", y, m, d] => {
            let od = UniformDate::from_ymd_opt(y.parse().ok()?, m.parse().ok()?, d.parse().ok()?);
            Some(match od {
                None => none(),
                Some(x) => {
                    let t = x.iso_8601().to_string();
                    iso_oracle(&t, x.year(), x.month(), x.day(), 0, &case(), obs);
                    format!("ok {}", hex(t.as_bytes()))
                }
            })
        }
        ["rawfmt", f, y, m, d, h] => {
            let fmt = match *f { "short" => DateFormat::DotShort, "wide" => DateFormat::DotWide, "iso" => DateFormat::Iso8601, _ => return None };
            let or = raw_of(y, m, d, h)?;
            construct_oracle(Ty::Raw, y, m, d, h, or.is_some(), &case(), obs);
            Some(match or {
                None => none(),
                Some(x) => {
                    let t = PdsDateFormatter::new(x, fmt).to_string();
                    if (x.year(), x.month(), x.day(), x.hour()) != (y.parse().ok()?, m.parse().ok()?, d.parse().ok()?, h.parse().ok()?) {
                        obs.violation("raw-accessors", &case(), "");
                    }
                    if x.has_hour() != (x.hour() != 0) { obs.violation("raw-has-hour", &case(), ""); }
                    match fmt {
                        DateFormat::Iso8601 => iso_oracle(&t, x.year(), x.month(), x.day(), x.hour(), &case(), obs),
                        _ => {
                            // game format (short or zero padded) parses back to the same raw date
                            let p = RawDate::parse(&t).ok();
                            if p != Some(x) {
                                let kind = if fmt == DateFormat::DotWide && x.hour() >= 1 && x.hour() < 10 { "zero-padded-hour-refused" } else { "fmt-parse-roundtrip" };
                                obs.violation(kind, &case(), &t);
                            }
                        }
                    }
                    format!("ok {}", hex(t.as_bytes()))
                }
            })
        }
        ["adddays", y, m, d, n] => {
            let od = date_of(y, m, d)?;
            let n: i32 = n.parse().ok()?;
            Some(match od {
                None => none(),
                Some(x) => {
                    let dd = own_days(x.year() as i64, x.month() as u32, x.day() as u32);
                    let nd = dd + n as i64;
                    let fits = nd >= i32::MIN as i64 && nd <= i32::MAX as i64 && nd / 365 >= i16::MIN as i64 && nd / 365 <= i16::MAX as i64;
                    match guard(|| x.add_days(n)) {
                        Err(()) => {
                            // documented: "Will panic on overflow or underflow"
                            if fits { obs.violation("adddays-panic", &case(), "result representable"); }
                            obs.count("adddays:panic");
                            "panic".to_string()
                        }
                        Ok(r) => {
                            if !fits { obs.violation("adddays-no-panic", &case(), "result not representable"); }
                            let one_side = (dd >= 0 && nd >= 0) || (dd <= -365 && nd <= -365);
                            if one_side && x.days_until(&r) != n {
                                obs.violation("adddays-until-inverse", &case(), &format!("days_until {}", x.days_until(&r)));
                            }
                            if one_side && own_days(r.year() as i64, r.month() as u32, r.day() as u32) != nd {
                                obs.violation("adddays-linear", &case(), &format!("{}", show_date(&r)));
                            }
                            if Date::from_ymd_opt(r.year(), r.month(), r.day()) != Some(r) { obs.violation("adddays-invalid-date", &case(), &show_date(&r)); }
                            obs.count(if one_side { "adddays:one-side" } else { "adddays:crossing" });
                            show_date(&r)
                        }
                    }
                }
            })
        }
        ["until", y1, m1, d1, y2, m2, d2] => {
            let (a, b) = (date_of(y1, m1, d1)?, date_of(y2, m2, d2)?);
            Some(match (a, b) {
                (Some(a), Some(b)) => {
                    let n = a.days_until(&b);
                    if b.days_until(&a) != -n { obs.violation("until-antisymmetric", &case(), ""); }
                    ord_oracle(&a, &b, &case(), obs);
                    let (da, db) = (own_days(a.year() as i64, a.month() as u32, a.day() as u32), own_days(b.year() as i64, b.month() as u32, b.day() as u32));
                    if (db - da) != n as i64 { obs.violation("until-linear", &case(), &format!("{} vs {}", n, db - da)); }
                    // inverse the other way round: a.add_days(n) == b when on one side of year 0
                    if (da >= 0 && db >= 0) || (da <= -365 && db <= -365) {
                        if guard(|| a.add_days(n)) != Ok(b) { obs.violation("until-adddays-inverse", &case(), ""); }
                    }
                    format!("ok {}", n)
                }
                _ => none(),
            })
        }
        ["cmp", y1, m1, d1, y2, m2, d2] => {
            let (a, b) = (date_of(y1, m1, d1)?, date_of(y2, m2, d2)?);
            Some(match (a, b) {
                (Some(a), Some(b)) => {
                    ord_oracle(&a, &b, &case(), obs);
                    let want = (a.year(), a.month(), a.day()).cmp(&(b.year(), b.month(), b.day()));
                    if a.cmp(&b) != want { obs.violation("ord-lexicographic", &case(), ""); }
                    show_ord(a.cmp(&b)).to_string()
                }
                _ => none(),
            })
        }
        ["dhcmp", y1, m1, d1, h1, y2, m2, d2, h2] => {
            let (a, b) = (dh_of(y1, m1, d1, h1)?, dh_of(y2, m2, d2, h2)?);
            Some(match (a, b) {
                (Some(a), Some(b)) => {
                    let want = (a.year(), a.month(), a.day(), a.hour()).cmp(&(b.year(), b.month(), b.day(), b.hour()));
                    if a.cmp(&b) != want { obs.violation("ord-lexicographic", &case(), ""); }
                    show_ord(a.cmp(&b)).to_string()
                }
                _ => none(),
            })
        }
        ["udcmp", y1, m1, d1, y2, m2, d2] => {
            let a = UniformDate::from_ymd_opt(y1.parse().ok()?, m1.parse().ok()?, d1.parse().ok()?);
            let b = UniformDate::from_ymd_opt(y2.parse().ok()?, m2.parse().ok()?, d2.parse().ok()?);
            Some(match (a, b) {
                (Some(a), Some(b)) => {
                    let want = (a.year(), a.month(), a.day()).cmp(&(b.year(), b.month(), b.day()));
                    if a.cmp(&b) != want { obs.violation("ord-lexicographic", &case(), ""); }
                    show_ord(a.cmp(&b)).to_string()
                }
                _ => none(),
            })
        }
        ["rawcmp", y1, m1, d1, h1, y2, m2, d2, h2] => {
            let (a, b) = (raw_of(y1, m1, d1, h1)?, raw_of(y2, m2, d2, h2)?);
            Some(match (a, b) {
                (Some(a), Some(b)) => {
                    let want = (a.year(), a.month(), a.day(), a.hour()).cmp(&(b.year(), b.month(), b.day(), b.hour()));
                    if a.cmp(&b) != want { obs.violation("ord-lexicographic", &case(), ""); }
                    show_ord(a.cmp(&b)).to_string()
                }
                _ => none(),
            })
        }
        [op @ ("dvisit" | "dhvisit" | "udvisit"), kind, arg] => {
            let r = visit_op(op, kind, arg, &case(), obs)?;
            obs.count(&format!("{}:{}:{}", op, kind, if r == "none" { "none" } else { "ok" }));
            Some(r)
        }
        ["dser", y, m, d] => {
            let od = date_of(y, m, d)?;
            Some(match od {
                None => none(),
                Some(x) => {
                    let j = serde_json::to_string(&x).ok()?;
                    let iso = x.iso_8601().to_string();
                    if j != format!("\"{}\"", iso) { obs.violation("serialize-iso", &case(), &j); }
                    // what is serialized deserializes... as text only through the game format; iso is output only
                    format!("ok {}", hex(j.trim_matches('"').as_bytes()))
                }
            })
        }
        ["dser", y, m, d, h] => {
            let od = dh_of(y, m, d, h)?;
            Some(match od {
                None => none(),
                Some(x) => {
                    let j = serde_json::to_string(&x).ok()?;
                    let iso = x.iso_8601().to_string();
                    if j != format!("\"{}\"", iso) { obs.violation("serialize-iso", &case(), &j); }
                    format!("ok {}", hex(j.trim_matches('"').as_bytes()))
                }
            })
        }
        [op @ ("dfromstr" | "dhfromstr" | "udfromstr" | "rawfromstr"), h] => {
            let b = unhex(h)?;
            let t = std::str::from_utf8(&b).ok()?;
            Some(match *op {
                "dfromstr" => { let r = t.parse::<Date>().ok(); if r != Date::parse(&b).ok() { obs.violation("fromstr-differs", &case(), ""); } r.map(|d| show_date(&d)).unwrap_or_else(none) }
                "dhfromstr" => { let r = t.parse::<DateHour>().ok(); if r != DateHour::parse(&b).ok() { obs.violation("fromstr-differs", &case(), ""); } r.map(|d| show_dh(&d)).unwrap_or_else(none) }
                "udfromstr" => { let r = t.parse::<UniformDate>().ok(); if r != UniformDate::parse(&b).ok() { obs.violation("fromstr-differs", &case(), ""); } r.map(|d| show_ud(&d)).unwrap_or_else(none) }
                _ => { let r = t.parse::<RawDate>().ok(); if r != RawDate::parse(&b).ok() { obs.violation("fromstr-differs", &case(), ""); } r.map(|d| show_raw(&d)).unwrap_or_else(none) }
            })
        }
        // the panicking constructors: equal to the _opt ones when those are Some, panic (documented) exactly when None
        ["fromymd", y, m, d] => {
            let (y, m, d): (i16, u8, u8) = (y.parse().ok()?, m.parse().ok()?, d.parse().ok()?);
            let opt = Date::from_ymd_opt(y, m, d);
            let r = guard(|| Date::from_ymd(y, m, d)).ok();
            if r != opt { obs.violation("from-ymd-vs-opt", &case(), &format!("{:?} vs {:?}", r, opt)); }
            Some(r.map(|d| show_date(&d)).unwrap_or_else(|| "panic".to_string()))
        }
        ["udfromymd", y, m, d] => {
            let (y, m, d): (i16, u8, u8) = (y.parse().ok()?, m.parse().ok()?, d.parse().ok()?);
            let opt = UniformDate::from_ymd_opt(y, m, d);
            let r = guard(|| UniformDate::from_ymd(y, m, d)).ok();
            if r != opt { obs.violation("from-ymd-vs-opt", &case(), &format!("{:?} vs {:?}", r, opt)); }
            Some(r.map(|d| show_ud(&d)).unwrap_or_else(|| "panic".to_string()))
        }
        ["dhfromymdh", y, m, d, h] => {
            let (y, m, d, h): (i16, u8, u8, u8) = (y.parse().ok()?, m.parse().ok()?, d.parse().ok()?, h.parse().ok()?);
            let opt = DateHour::from_ymdh_opt(y, m, d, h);
            let r = guard(|| DateHour::from_ymdh(y, m, d, h)).ok();
            if r != opt { obs.violation("from-ymd-vs-opt", &case(), &format!("{:?} vs {:?}", r, opt)); }
            Some(r.map(|d| show_dh(&d)).unwrap_or_else(|| "panic".to_string()))
        }
        ["rawfromymdh", y, m, d, h] => {
            let (y, m, d, h): (i16, u8, u8, u8) = (y.parse().ok()?, m.parse().ok()?, d.parse().ok()?, h.parse().ok()?);
            let opt = RawDate::from_ymdh_opt(y, m, d, h);
            let r = guard(|| RawDate::from_ymdh(y, m, d, h)).ok();
            if r != opt { obs.violation("from-ymd-vs-opt", &case(), &format!("{:?} vs {:?}", r, opt)); }
            Some(r.map(|d| show_raw(&d)).unwrap_or_else(|| "panic".to_string()))
        }
        ["rawpds", f, y, m, d, h] => {
            let or = raw_of(y, m, d, h)?;
            Some(match or {
                None => none(),
                Some(x) => {
                    let (t, direct) = match *f {
                        "game" => (x.game_fmt().to_string(), PdsDateFormatter::new(x, DateFormat::DotShort).to_string()),
                        "iso" => (x.iso_8601().to_string(), PdsDateFormatter::new(x, DateFormat::Iso8601).to_string()),
                        _ => return None,
                    };
                    if t != direct { obs.violation("pds-trait-vs-formatter", &case(), &t); }
                    format!("ok {}", hex(t.as_bytes()))
                }
            })
        }
        ["debug", y, m, d] => {
            let od = date_of(y, m, d)?;
            Some(match od { None => none(), Some(x) => {
                let t = format!("{:?}", x);
                // Debug TEXT is free to change: it must exist; the model's answer is matched by the wildcard
                if t.is_empty() { obs.violation("debug-fmt", &case(), &t); }
                "ok dbg:?".to_string() } })
        }
        ["debug", y, m, d, h] => {
            let od = dh_of(y, m, d, h)?;
            Some(match od { None => none(), Some(x) => {
                let t = format!("{:?}", x);
                // Debug TEXT is free to change: it must exist; the model's answer is matched by the wildcard
                if t.is_empty() { obs.violation("debug-fmt", &case(), &t); }
                "ok dbg:?".to_string() } })
        }
        ["uddebug", y, m, d] => {
            let od = UniformDate::from_ymd_opt(y.parse().ok()?, m.parse().ok()?, d.parse().ok()?);
            Some(match od { None => none(), Some(x) => {
                let t = format!("{:?}", x);
                // Debug TEXT is free to change: it must exist; the model's answer is matched by the wildcard
                if t.is_empty() { obs.violation("debug-fmt", &case(), &t); }
                "ok dbg:?".to_string() } })
        }
        ["rawdebug", y, m, d, h] => {
            let or = raw_of(y, m, d, h)?;
            Some(match or { None => none(), Some(x) => {
                let t = format!("{:?}", x);
                if t.is_empty() { obs.violation("debug-fmt", &case(), &t); }
                "ok dbg:?".to_string() } })
        }
        ["pcmp", ty, y1, m1, d1, h1, y2, m2, d2, h2] => {
            fn show(o: Option<Ordering>) -> String { match o { Some(o) => show_ord(o).to_string(), None => "ok incomparable".to_string() } }
            Some(match *ty {
                "raw" => match (raw_of(y1, m1, d1, h1)?, raw_of(y2, m2, d2, h2)?) { (Some(a), Some(b)) => { if a.partial_cmp(&b) != Some(a.cmp(&b)) || (a < b) != (a.cmp(&b) == Ordering::Less) { obs.violation("partial-cmp", &case(), ""); } show(a.partial_cmp(&b)) } _ => none() },
                "date" => match (date_of(y1, m1, d1)?, date_of(y2, m2, d2)?) { (Some(a), Some(b)) => { if a.partial_cmp(&b) != Some(a.cmp(&b)) || (a <= b) != (a.cmp(&b) != Ordering::Greater) { obs.violation("partial-cmp", &case(), ""); } show(a.partial_cmp(&b)) } _ => none() },
                "datehour" => match (dh_of(y1, m1, d1, h1)?, dh_of(y2, m2, d2, h2)?) { (Some(a), Some(b)) => { if a.partial_cmp(&b) != Some(a.cmp(&b)) || (a > b) != (a.cmp(&b) == Ordering::Greater) { obs.violation("partial-cmp", &case(), ""); } show(a.partial_cmp(&b)) } _ => none() },
                "uniform" => {
                    let a = UniformDate::from_ymd_opt(y1.parse().ok()?, m1.parse().ok()?, d1.parse().ok()?);
                    let b = UniformDate::from_ymd_opt(y2.parse().ok()?, m2.parse().ok()?, d2.parse().ok()?);
                    match (a, b) { (Some(a), Some(b)) => { if a.partial_cmp(&b) != Some(a.cmp(&b)) || (a >= b) != (a.cmp(&b) != Ordering::Less) { obs.violation("partial-cmp", &case(), ""); } show(a.partial_cmp(&b)) } _ => none() }
                }
                _ => return None,
            })
        }
        ["dateerror"] => {
            let e = Date::parse("x").unwrap_err();
            let src = std::error::Error::source(&e).is_none();
            if e != jomini::common::DateError { obs.violation("dateerror", &case(), ""); }
            // the message TEXT is free to change; it must exist
            if e.to_string().is_empty() { obs.violation("dateerror", &case(), "empty message"); }
            Some(format!("ok msg:? {}", if src { "nosource" } else { "source" }))
        }
        ["fdp", v] => {
            let v: u64 = v.parse().ok()?;
            let r = jomini::verif_hooks::fast_digit_parse(v);
            if r != fdp_reference(v) { obs.violation("fast-digit-parse", &case(), &format!("impl {:?} reference {:?}", r, fdp_reference(v))); }
            obs.count(if r.is_some() { "fdp:ok" } else { "fdp:none" });
            Some(match r { Some(x) => format!("ok {}", x), None => none() })
        }
        ["i64t", h] => {
            let s = unhex(h)?;
            Some(match jomini::verif_hooks::to_i64_t(&s) {
                Ok((v, rest)) => format!("ok {} {}", v, hex(rest)),
                Err(_) => none(),
            })
        }
        ["frombin-block", s, n] => {
            let s: i64 = s.parse().ok()?;
            let n: u64 = n.parse().ok()?;
            if s < i32::MIN as i64 || s + n as i64 > i32::MAX as i64 + 1 { return None; }
            let out = frombin_block(s, n);
            for (k, d) in out.violations { obs.violation(&k, &case(), &d); }
            obs.count("frombin-block");
            Some(format!("ok {}", out.hash))
        }
        ["shape-block", h] => {
            let s = unhex(h)?;
            let r = shape_block(&s, &case(), obs);
            obs.count("shape-block");
            Some(format!("ok {}", r))
        }
        ["fdp-block", seed, n] => {
            let r = fdp_block(seed.parse().ok()?, n.parse().ok()?, &case(), obs);
            obs.count("fdp-block");
            Some(format!("ok {}", r))
        }
        ["ymd-block", mode, y, n] => {
            let y: i64 = y.parse().ok()?;
            let n: u64 = n.parse().ok()?;
            let full = match *mode { "full" => true, "ends" => false, _ => return None };
            if y < i16::MIN as i64 || y + n as i64 > i16::MAX as i64 + 1 { return None; }
            let out = ymd_block(full, y, n);
            for (k, d) in out.violations { obs.violation(&k, &case(), &d); }
            obs.count("ymd-block");
            Some(format!("ok {}", out.hash))
        }
        _ => None,
    }
}

// ---------------------------------------------------------------------------------------
// generators

fn rand_date(g: &mut Gen) -> (i32, u32, u32) {
    let y: i32 = match g.rng.below(10) {
        0 => g.rng.range(0, 65535) as i32 - 32768,
        1 => *g.rng.pick(&[-32768, -10000, -5001, -5000, -4999, -1000, -999, -100, -99, -10, -9, -1, 0, 1, 9, 10, 99, 100, 999, 1000, 9999, 10000, 32767]),
        2 | 3 => g.rng.range(0, 400) as i32 - 200,
        _ => g.rng.range(1, 9999) as i32,
    };
    let m = g.rng.range(1, 12) as u32;
    let d = match g.rng.below(4) { 0 => 1, 1 => DPM[m as usize], _ => g.rng.range(1, DPM[m as usize] as usize) as u32 };
    (y, m, d)
}

fn interesting_years() -> Vec<i32> {
    let mut v = vec![-32768, -32767, -10000, -9999, -5001, -5000, -4999, -2500, -1000, -999, -101, -100, -99, -11, -10, -9, -2, -1, 0, 1, 2, 9, 10, 11, 99, 100, 101, 999, 1000, 1001, 1444, 1836, 1936, 2200, 9999, 10000, 10001, 32766, 32767];
    v.dedup();
    v
}

pub fn gen(g: &mut Gen) {
    let ops4 = ["dparse", "dhparse", "udparse", "rawparse"];

    // 1. the four fast-path shapes, every one-byte corruption at every position ----------
    // (block folds: one line per base string; a couple of dates also as individual lines)
    let nshape = g.budget(60, 3000);
    let mut shape_dates: Vec<(i32, u32, u32)> = vec![(1444, 11, 11), (1000, 1, 1), (9999, 12, 31), (2200, 2, 28), (1, 9, 9), (0, 1, 1)];
    for _ in 0..nshape { let (_, m, d) = rand_date(g); shape_dates.push((g.rng.range(0, 9999) as i32, m, d)); }
    for (k, (y, m, d)) in shape_dates.iter().enumerate() {
        let shapes = [
            format!("{:04}.{:02}.{:02}", y, m, d),
            format!("{:04}.{}.{:02}", y, m % 10, d),
            format!("{:04}.{:02}.{}", y, m, d % 10),
            format!("{:04}.{}.{}", y, m % 10, d % 10),
        ];
        for s in shapes.iter() {
            let base = s.as_bytes().to_vec();
            g.emit(format!("shape-block {}", hex(&base)));
            g.emit(format!("dparse {}", hex(&base)));
            if k >= 2 { continue; }
            for pos in 0..base.len() {
                for v in (0..=255u8).step_by(if k == 0 { 1 } else { 5 }) {
                    if v == base[pos] { continue; }
                    let mut t = base.clone();
                    t[pos] = v;
                    g.emit(format!("dparse {}", hex(&t)));
                }
                for &v in b"09./-" {
                    let mut t = base.clone();
                    t[pos] = v;
                    for op in &ops4[1..] { g.emit(format!("{} {}", op, hex(&t))); }
                }
            }
            // one byte inserted / removed (moves the string between the shapes)
            for pos in 0..=base.len() {
                for &v in b"0.9-" {
                    let mut t = base.clone();
                    t.insert(pos, v);
                    g.emit(format!("dparse {}", hex(&t)));
                }
                if pos < base.len() { let mut t = base.clone(); t.remove(pos); g.emit(format!("dparse {}", hex(&t))); }
            }
        }
    }
    // the same for texts that are not of a fast shape (negative, short and long years, hours)
    for t in ["-17.1.1", "1.1.1", "-2500.12.31", "32767.10.5", "-32768.1.01", "1936.1.1.24", "1936.01.01.05", "12.3.4.5", "43808760", "-43800000"] {
        g.emit(format!("shape-block {}", hex(t.as_bytes())));
    }
    g.count("fast-path-shapes-x-corruptions");
    // all digit strings of the fast shapes with the month/day fields swept (valid and invalid)
    for y in (if g.thorough { vec![0, 1, 999, 1000, 1444, 9999] } else { vec![0, 1444] }) {
        for m in 0..=19u32 {
            for d in (0..=39u32).chain([99]) {
                for s in [format!("{:04}.{:02}.{:02}", y, m, d), format!("{:04}.{}.{:02}", y, m, d), format!("{:04}.{:02}.{}", y, m, d), format!("{:04}.{}.{}", y, m, d)] {
                    g.emit(format!("dparse {}", hex(s.as_bytes())));
                }
            }
        }
    }
    g.count("fast-path-field-sweep");

    // 2. years × first/last day of each month ------------------------------------------
    let mut years: Vec<i32> = interesting_years();
    let ny = g.budget(40, 1500);
    for _ in 0..ny { years.push(g.rng.range(0, 65535) as i32 - 32768); }
    for y in (-120..=120).step_by(if g.thorough { 1 } else { 17 }) { years.push(y); }
    for &y in &years {
        for m in 1..=12u32 {
            for d in [1, DPM[m as usize]] {
                g.emit(format!("fmt {} {} {}", y, m, d));
                g.emit(format!("tobin {} {} {}", y, m, d));
                if m % 3 == (y.rem_euclid(3)) as u32 {
                    g.emit(format!("iso {} {} {}", y, m, d));
                    g.emit(format!("rawfmt wide {} {} {} 0", y, m, d));
                    let h = (y.rem_euclid(24) + 1) as u32;
                    g.emit(format!("fmt {} {} {} {}", y, m, d, h));
                    g.emit(format!("tobin {} {} {} {}", y, m, d, h));
                    g.emit(format!("iso {} {} {} {}", y, m, d, h));
                    if d <= 30 { g.emit(format!("ufmt {} {} {}", y, m, d)); g.emit(format!("uiso {} {} {}", y, m, d)); }
                }
            }
        }
    }
    g.count("years-x-month-ends");
    // every day and hour of a few years through the individual ops
    for &y in &[-5000, -1, 0, 1, 1444] {
        for m in 1..=12u32 { for d in 1..=DPM[m as usize] {
            g.emit(format!("fmt {} {} {}", y, m, d));
            g.emit(format!("tobin {} {} {}", y, m, d));
        } }
    }
    for h in 0..=25u32 { for (y, m, d) in [(1936, 1, 1), (-17, 12, 31), (5, 2, 28)] {
        g.emit(format!("fmt {} {} {} {}", y, m, d, h));
        g.emit(format!("tobin {} {} {} {}", y, m, d, h));
        g.emit(format!("iso {} {} {} {}", y, m, d, h));
        for f in ["short", "wide", "iso"] { g.emit(format!("rawfmt {} {} {} {} {}", f, y, m, d, h)); }
    } }
    // block folds: every codec over the days of whole years
    if g.thorough {
        // all 65536 years x month ends
        let mut y = -32768i64;
        while y < 32768 { g.emit(format!("ymd-block ends {} 256", y)); y += 256; }
        // every day (and all 24 hours) of the years where digit counts / signs / the binary epoch change
        for (a, b) in [(-32768i64, -32760), (-10003, -9997), (-5004, -4996), (-1002, -998), (-102, 102), (990, 2300), (9990, 10010), (32760, 32767)] {
            let mut y = a;
            while y <= b { let n = (b - y + 1).min(16); g.emit(format!("ymd-block full {} {}", y, n)); y += n; }
        }
        let mut y = -32768i64 + 29;
        while y < 32768 { g.emit(format!("ymd-block full {} 1", y)); y += 64; }
    } else {
        for y in interesting_years() { g.emit(format!("ymd-block full {} 1", y)); }
        let mut y = -32768i64;
        while y < 32768 { g.emit(format!("ymd-block ends {} 16", y)); y += 1024; }
        for _ in 0..12 { let y = g.rng.range(0, 65535 - 4) as i64 - 32768; g.emit(format!("ymd-block full {} 2", y)); }
    }
    g.count("ymd-blocks");

    // 3. binary values -----------------------------------------------------------------
    let mut bins: Vec<i64> = vec![i32::MIN as i64, i32::MIN as i64 + 1, -1, 0, 1, 23, 24, 25, -24, -25, 8759, 8760, 8761, -8760, i32::MAX as i64 - 1, i32::MAX as i64,
        56379360, 60759371, 43808760, 43800000, 43791240, 21900000, -43800000, 999379360, 59611248, 57781584];
    for y in [-32769i64, -32768, -32767, -5001, -5000, -4999, -1, 0, 1, 32766, 32767, 32768, 32769] {
        let base = (y + 5000) * 8760;
        for delta in [-25i64, -24, -1, 0, 1, 23, 24, 8735, 8736, 8759] { bins.push(base + delta); }
    }
    // start of every month of a year, ± one hour
    for k in [0i64, 31, 59, 90, 120, 151, 181, 212, 243, 273, 304, 334, 364] { for delta in [-1i64, 0, 1] { bins.push((1444 + 5000) * 8760 + k * 24 + delta); } }
    let nb = g.budget(1500, 8_000);
    for _ in 0..nb {
        let v = match g.rng.below(3) {
            0 => (g.rng.next() as u32) as i32 as i64,
            1 => g.rng.range(0, 600_000_000) as i64 - 260_000_000,
            _ => g.rng.range(0, 20_000 * 8760) as i64 + 4000 * 8760,
        };
        bins.push(v);
    }
    for v in bins {
        if v < i32::MIN as i64 || v > i32::MAX as i64 { continue; }
        for op in ["frombin", "dhfrombin", "frombinh", "dhfrombinh", "rawfrombin"] { g.emit(format!("{} {}", op, v)); }
        // and the same number as text
        let t = v.to_string();
        for op in ops4 { g.emit(format!("{} {}", op, hex(t.as_bytes()))); }
    }
    g.count("binary-values");
    if g.thorough {
        // all 2^32 values, 4096 blocks of 2^20
        let mut s = i32::MIN as i64;
        while s <= i32::MAX as i64 { g.emit(format!("frombin-block {} {}", s, 1u64 << 20)); s += 1 << 20; }
    } else {
        for y in [-32768i64, -5000, 0, 1444, 32767] { g.emit(format!("frombin-block {} {}", (y + 5000) * 8760 - 32768, 65536)); }
        for s in [i32::MIN as i64, -32768, i32::MAX as i64 - 65535] { g.emit(format!("frombin-block {} 65536", s)); }
        for _ in 0..24 { let s = g.rng.range(0, 600_000_000) as i64 - 260_000_000; g.emit(format!("frombin-block {} 65536", s)); }
    }
    g.count("frombin-blocks");

    // 4. invalid days / months / hours, trailing garbage ---------------------------------
    for y in [1444i32, -17, 5] {
        for m in (0..=15u32).chain([20, 99]) {
            for d in (0..=33u32).chain([40, 99]) {
                let s1 = format!("{}.{}.{}", y, m, d);
                let s2 = format!("{}.{:02}.{:02}", y, m, d);
                for op in ops4 { g.emit(format!("{} {}", op, hex(s1.as_bytes()))); g.emit(format!("{} {}", op, hex(s2.as_bytes()))); }
                if y == 1444 { g.emit(format!("tobin {} {} {}", y, m, d)); g.emit(format!("ufmt {} {} {}", y, m, d)); g.emit(format!("rawfmt short {} {} {} 0", y, m, d)); }
            }
        }
    }
    for (y, m, d) in [(1936, 1, 1), (1936, 12, 31), (-5, 2, 28), (1, 10, 5)] {
        for h in (0..=30u32).chain([99, 100]) {
            for s in [format!("{}.{}.{}.{}", y, m, d, h), format!("{}.{:02}.{:02}.{:02}", y, m, d, h), format!("{}.{}.{:02}.{}", y, m, d, h), format!("{}.{:02}.{}.{:02}", y, m, d, h)] {
                for op in ops4 { g.emit(format!("{} {}", op, hex(s.as_bytes()))); }
            }
        }
    }
    g.count("invalid-day-month-hour");
    let nt = g.budget(40, 300);
    for i in 0..nt {
        let (y, m, d) = rand_date(g);
        let h = g.rng.range(1, 24);
        let base = match i % 4 { 0 => format!("{}.{}.{}", y, m, d), 1 => format!("{}.{:02}.{:02}", y, m, d), 2 => format!("{}.{}.{}.{}", y, m, d, h), _ => format!("{:04}.{:02}.{:02}.{:02}", y, m, d, h) };
        for suffix in ["", ".", "x", " ", "0", ".0", ".1", ".1x", ".24", ".25", ".1.1", "\n", "\0", "..", "-", "e1"] {
            for prefix in ["", " ", "+", "-", "0", "00", "x", "."] {
                if !prefix.is_empty() && !suffix.is_empty() && i % 5 != 0 { continue; }
                let s = format!("{}{}{}", prefix, base, suffix);
                for op in ops4 { g.emit(format!("{} {}", op, hex(s.as_bytes()))); }
            }
        }
    }
    g.count("trailing-garbage");
    // sign / empty component corner cases
    for s in ["", "-", "+", ".", "..", "...", "-.1.1", "+.1.1", "-.01.01", ".1.1", "1..1", "1.1.", "1.1..1", "-0.1.1", "+0.1.1", "-00000", "00000", "+0000", "--1.1.1", "-+1.1.1",
        "1.1.1.", "1.1.1.0", "1.1.1.00", "1.1.1.01", "1.1.1.1", "1.1.1.24", "1.1.1.25", "1.01.01.05", "1936.01.01.09", "1936.01.01.10",
        "32767.1.1", "32768.1.1", "-32768.1.1", "-32769.1.1", "65536.1.1", "99999999999999999999.1.1", "9223372036854775807", "9223372036854775808", "-9223372036854775808",
        "2147483647", "2147483648", "-2147483648", "-2147483649", "0001444.1.1", "000001444.11.11", "0000001444.11.11", "1444.011.11", "1444.11.011", "1444.1.1.001",
        "05.5.3`.3", "1444.257.1", "1444.1.257", "60000.1.1", "-60000.1.1", "1.1.1", "1.01.01", "+123.11.11", "+12.11.11", "+123.1.1", "+1444.1.1"] {
        for op in ops4 { g.emit(format!("{} {}", op, hex(s.as_bytes()))); }
        g.emit(format!("i64t {}", hex(s.as_bytes())));
    }
    g.count("corner-strings");

    // 5. random strings over the date alphabet -------------------------------------------
    let nr = g.budget(8000, 60_000);
    for _ in 0..nr {
        let len = g.rng.range(0, 14);
        let alpha: &[u8] = if g.rng.chance(1, 5) { b"0123456789.-+ x/:\x00\xff" } else { b"0112345678999....-" };
        let s: Vec<u8> = (0..len).map(|_| *g.rng.pick(alpha)).collect();
        let op = ops4[g.rng.below(4)];
        g.emit(format!("{} {}", op, hex(&s)));
        if g.rng.chance(1, 8) { g.emit(format!("i64t {}", hex(&s))); }
    }
    // random well-formed Y.M.D[.H] with unconstrained field widths and values
    let nw = g.budget(6000, 60_000);
    for _ in 0..nw {
        let y = match g.rng.below(4) { 0 => g.rng.range(0, 70000) as i64 - 35000, 1 => g.rng.range(0, 9999) as i64, _ => g.rng.range(0, 3000) as i64 - 500 };
        let wy = *g.rng.pick(&[0usize, 0, 0, 4, 5, 6]);
        let mut s = if wy == 0 { format!("{}", y) } else { format!("{:0w$}", y, w = wy) };
        let nf = g.rng.range(1, 4);
        for _ in 0..nf {
            let v = match g.rng.below(3) { 0 => g.rng.range(0, 13), 1 => g.rng.range(0, 32), _ => g.rng.range(0, 120) };
            if g.rng.chance(1, 2) { s.push_str(&format!(".{}", v)); } else { s.push_str(&format!(".{:02}", v)); }
        }
        let op = ops4[g.rng.below(4)];
        g.emit(format!("{} {}", op, hex(s.as_bytes())));
    }
    g.count("random-strings");

    // 6. arithmetic ----------------------------------------------------------------------
    let na = g.budget(4000, 25_000);
    for i in 0..na {
        let (y, m, d) = rand_date(g);
        let n: i64 = match g.rng.below(8) {
            0 => *g.rng.pick(&[0i64, 1, -1, 27, 28, 29, 30, 31, -31, 364, 365, 366, -364, -365, -366, 729, 730]),
            1 => g.rng.range(0, 2000) as i64 - 1000,
            2 => g.rng.range(0, 2_000_000) as i64 - 1_000_000,
            3 => {
                // land near year 0 from either side
                let dd = own_days(y as i64, m, d);
                -dd + g.rng.range(0, 1500) as i64 - 750
            }
            4 => *g.rng.pick(&[i32::MAX as i64, i32::MIN as i64, 100_000_000, -100_000_000, 12_000_000, -12_000_000]),
            5 => {
                // land near the i16 year limits
                let dd = own_days(y as i64, m, d);
                let target = if g.rng.chance(1, 2) { 32767 * 365 } else { -32768 * 365 };
                target - dd + g.rng.range(0, 1000) as i64 - 500
            }
            _ => g.rng.range(0, 80_000) as i64 - 40_000,
        };
        if n >= i32::MIN as i64 && n <= i32::MAX as i64 { g.emit(format!("adddays {} {} {} {}", y, m, d, n)); }
        let (y2, m2, d2) = if i % 3 == 0 { (y + g.rng.range(0, 2) as i32 - 1, g.rng.range(1, 12) as u32, 1) } else { rand_date(g) };
        let (y2, m2, d2) = if i % 7 == 0 { (y, m, d) } else { (y2.clamp(-32768, 32767), m2, d2) };
        g.emit(format!("until {} {} {} {} {} {}", y, m, d, y2, m2, d2));
        g.emit(format!("cmp {} {} {} {} {} {}", y, m, d, y2, m2, d2));
        if i % 4 == 0 {
            let (h1, h2) = (g.rng.range(0, 25), g.rng.range(0, 25));
            g.emit(format!("dhcmp {} {} {} {} {} {} {} {}", y, m, d, h1, y2, m2, d2, h2));
            let (rd, rm) = (g.rng.range(0, 32), g.rng.range(0, 13));
            g.emit(format!("rawcmp {} {} {} {} {} {} {} {}", y, m, rd, h1, y2, rm, d2, h2));
        }
    }
    // dense: every offset −800..800 from dates around year 0 and an ordinary year
    for (y, m, d) in [(0, 1, 1), (0, 12, 31), (1, 1, 1), (-1, 1, 1), (-1, 12, 31), (-2, 6, 15), (1444, 11, 11)] {
        let step = if g.thorough { 1 } else { 3 };
        for n in (-800..=800).step_by(step) { g.emit(format!("adddays {} {} {} {}", y, m, d, n)); }
    }
    g.count("arithmetic");

    // 6b. exhaustive small enumerations: every hour 0..=24 (and 25) in every format and type,
    // every month x days 27..=32 for the three calendars -----------------------------------
    for (y, m, d) in [(1936, 1, 1), (1, 12, 31), (-5000, 2, 28), (32767, 6, 30), (-32768, 7, 4)] {
        for h in 0..=25u32 {
            g.emit(format!("fmt {} {} {} {}", y, m, d, h));
            g.emit(format!("iso {} {} {} {}", y, m, d, h));
            g.emit(format!("tobin {} {} {} {}", y, m, d, h));
            g.emit(format!("dser {} {} {} {}", y, m, d, h));
            for f in ["short", "wide", "iso"] { g.emit(format!("rawfmt {} {} {} {} {}", f, y, m, d, h)); }
            for t in [format!("{}.{}.{}.{}", y, m, d, h), format!("{}.{:02}.{:02}.{:02}", y, m, d, h)] {
                for op in ops4 { g.emit(format!("{} {}", op, hex(t.as_bytes()))); }
                g.emit(format!("dhvisit str {}", hex(t.as_bytes())));
            }
            g.emit(format!("dhcmp {} {} {} {} {} {} {} 16", y, m, d, h, y, m, d));
            g.emit(format!("rawcmp {} {} {} {} {} {} {} 16", y, m, d, h, y, m, d));
        }
    }
    for y in [2200, -3, 0] {
        for m in 0..=13u32 {
            for d in 27..=32u32 {
                g.emit(format!("ufmt {} {} {}", y, m, d));
                g.emit(format!("uiso {} {} {}", y, m, d));
                g.emit(format!("fmt {} {} {}", y, m, d));
                g.emit(format!("dser {} {} {}", y, m, d));
                g.emit(format!("rawfmt wide {} {} {} 0", y, m, d));
                for t in [format!("{}.{}.{}", y, m, d), format!("{}.{:02}.{:02}", y, m, d)] {
                    for op in ops4 { g.emit(format!("{} {}", op, hex(t.as_bytes()))); }
                    g.emit(format!("udvisit str {}", hex(t.as_bytes())));
                    g.emit(format!("dvisit string {}", hex(t.as_bytes())));
                }
            }
        }
    }
    g.count("hours-and-month-ends-exhaustive");

    // 6c. serde visitors -------------------------------------------------------------------
    let visit_texts = ["1444.11.11", "1444.1.1", "1936.1.1.12", "1936.01.01.05", "2200.02.30", "2200.02.31", "-17.1.1", "43808760", "60759371", "-", "+", "-.1.1",
        "1444.13.1", "1444.2.29", "1.1.1.25", "1.1.1.0", "1444.11.11x", "", "0", "56379360", "-43800000", "2147483647", "2147483648", "99999999999"];
    for t in visit_texts {
        for op in ["dvisit", "dhvisit", "udvisit"] {
            for kind in ["str", "string", "bytes"] { g.emit(format!("{} {} {}", op, kind, hex(t.as_bytes()))); }
        }
    }
    for c in ["-", "+", "0", "1", ".", "x"] {
        for op in ["dvisit", "dhvisit", "udvisit"] { g.emit(format!("{} char {}", op, hex(c.as_bytes()))); }
    }
    let mut vis_bins: Vec<i64> = vec![i32::MIN as i64, i32::MIN as i64 + 1, -243247681, -243247680, -243247656, -8760, -24, -1, 0, 1, 23, 24, 43808760, 56379360, 60759371,
        330847656, 330847679, 330847680, 330847681, i32::MAX as i64 - 1, i32::MAX as i64];
    let nv = g.budget(300, 5000);
    for _ in 0..nv { vis_bins.push(if g.rng.chance(1, 2) { (g.rng.next() as u32) as i32 as i64 } else { g.rng.range(0, 600_000_000) as i64 - 260_000_000 }); }
    for v in vis_bins {
        for op in ["dvisit", "dhvisit", "udvisit"] { g.emit(format!("{} i32 {}", op, v)); }
        g.emit(format!("frombin {}", v));
        g.emit(format!("frombinh {}", v));
        g.emit(format!("dhfrombinh {}", v));
    }
    // the same numbers through the integer visits the visitors do NOT override: refused
    for (kind, v) in [("i64", "56379360"), ("u64", "56379360"), ("u32", "56379360"), ("i64", "60759371"), ("u64", "60759371"), ("i16", "8760"), ("i8", "24"), ("u8", "24"), ("u16", "8760"),
        ("i64", "4351346656"), ("u64", "4351346656"), ("u32", "4294967295"), ("i64", "-4238587936"), ("f64", "56379360"), ("bool", "1"), ("unit", "0")] {
        for op in ["dvisit", "dhvisit", "udvisit"] { g.emit(format!("{} {} {}", op, kind, v)); }
    }
    g.count("serde-visitors");

    // 6d. the remaining public entry points: FromStr, Debug, PdsDate for RawDate, partial_cmp,
    // the panicking constructors, DateError ---------------------------------------------------
    g.emit("dateerror".to_string());
    for t in visit_texts {
        for op in ["dfromstr", "dhfromstr", "udfromstr", "rawfromstr"] { g.emit(format!("{} {}", op, hex(t.as_bytes()))); }
    }
    let ne = g.budget(400, 6000);
    for i in 0..ne {
        let (y, m, d) = rand_date(g);
        let h = g.rng.range(0, 25);
        // mostly valid, sometimes off the calendar
        let (m, d) = match i % 6 { 0 => (g.rng.range(0, 14) as u32, d), 1 => (m, g.rng.range(0, 33) as u32), _ => (m, d) };
        g.emit(format!("fromymd {} {} {}", y, m, d));
        g.emit(format!("udfromymd {} {} {}", y, m, d));
        g.emit(format!("dhfromymdh {} {} {} {}", y, m, d, h));
        g.emit(format!("rawfromymdh {} {} {} {}", y, m, d, h));
        g.emit(format!("debug {} {} {}", y, m, d));
        g.emit(format!("debug {} {} {} {}", y, m, d, h));
        g.emit(format!("uddebug {} {} {}", y, m, d));
        g.emit(format!("rawdebug {} {} {} {}", y, m, d, h));
        g.emit(format!("rawpds game {} {} {} {}", y, m, d, h));
        g.emit(format!("rawpds iso {} {} {} {}", y, m, d, h));
        let t = if i % 2 == 0 { format!("{}.{}.{}", y, m, d) } else { format!("{}.{:02}.{:02}.{}", y, m, d, h) };
        for op in ["dfromstr", "dhfromstr", "udfromstr", "rawfromstr"] { g.emit(format!("{} {}", op, hex(t.as_bytes()))); }
        let (y2, m2, d2) = if i % 5 == 0 { (y, m, d) } else { rand_date(g) };
        let h2 = if i % 3 == 0 { h } else { g.rng.range(0, 25) };
        for ty in ["raw", "date", "datehour", "uniform"] { g.emit(format!("pcmp {} {} {} {} {} {} {} {} {}", ty, y, m, d, h, y2, m2, d2, h2)); }
        g.emit(format!("udcmp {} {} {} {} {} {}", y, m, d, y2, m2, d2));
    }
    g.count("wrappers");

    // 7. fast_digit_parse -----------------------------------------------------------------
    let nf = g.budget(1500, 10_000);
    for _ in 0..nf {
        let mut b = [0u8; 8];
        for x in b.iter_mut() { *x = b'0' + g.rng.below(10) as u8; }
        g.emit(format!("fdp {}", u64::from_le_bytes(b)));
        let pos = g.rng.below(8);
        let mut c = b;
        c[pos] = match g.rng.below(6) { 0 => 0x2f, 1 => 0x3a, 2 => 0x2e, 3 => g.rng.below(256) as u8, 4 => b[pos] | 0x80, _ => b[pos] ^ (1 << g.rng.below(8)) };
        g.emit(format!("fdp {}", u64::from_le_bytes(c)));
        if g.rng.chance(1, 4) { let v = g.rng.next(); g.emit(format!("fdp {}", v)); }
    }
    for pos in 0..8 { for v in 0..=255u8 { let mut b = *b"14441111"; b[pos] = v; g.emit(format!("fdp {}", u64::from_le_bytes(b))); } }
    for v in [0u64, u64::MAX, 0x3030303030303030, 0x3939393939393939, 0x3a30303030303030, 0x2f2f2f2f2f2f2f2f] { g.emit(format!("fdp {}", v)); }
    let (nblk, per) = if g.thorough { (48, 1_000_000) } else { (2, 100_000) };
    for k in 0..nblk { let seed = g.rng.next() % 1_000_000_007 + k; g.emit(format!("fdp-block {} {}", seed, per)); }
    g.count("fast-digit-parse");
}

pub fn tables() -> String {
    // DAYS_PER_MONTH as observed through Date::from_ymd_opt, julian_ordinal_day through to_binary
    let mut dpm = vec![0u64; 13];
    for m in 1..=12u8 {
        let mut k = 0u64;
        for d in 1..=40u8 { if Date::from_ymd_opt(1, m, d).is_some() { k = d as u64; } }
        dpm[m as usize] = k;
    }
    let mut start = vec![];
    for m in 1..=12u8 {
        let b = Date::from_ymd_opt(1, m, 1).map(|d| d.to_binary()).unwrap_or(0) as i64;
        start.push((b / 24 - 5001 * 365) as u64);
    }
    let mut s = String::new();
    s.push_str(&crate::tables::emit_nat_table("dateDaysPerMonth", "days of month `m` accepted by `Date::from_ymd_opt` (index 0 unused)", &dpm));
    s.push_str(&crate::tables::emit_nat_table("dateMonthStart", "0-based day of the year on which month `m+1` starts, read off `Date::to_binary`", &start));
    s.push('\n');
    s
}
