//! C16 — JSON conversion is valid JSON and carries the document's content.
//!
//! op: `json <opts> <enc> <entry> <tape> <hex>`
//!   opts  = [m|p][g|p|k][a|u|n]  minified/pretty, Group/Preserve/KeyValuePairs, All/Unquoted/None
//!   enc   = w | u                Windows-1252 / UTF-8 reader
//!   entry = obj | arr | val      whole document / `read_array()` of the first field's value / that value
//!   tape  = show.rs `text_tape` of the tape the REAL parser produced (this is what the model converts)
//!   hex   = the input bytes (so the case replays on the real code)
//! result: hex of the output with every float token replaced by `f<bits>` | na | panic
//!
//! L3 oracles (implementation only): strict RFC 8259 validity + UTF-8, pretty == minified
//! modulo insignificant whitespace, content against an independent transcription of the DOM
//! readers, no panic for any of the 108 option/encoding combinations.
//!
//! op: `jsonw <opts> <enc> <entry> <cap> <tape> <hex>`: `to_writer` into a writer that fails after <cap> bytes
//! → `ok` | `err:<hex of what reached the writer>` (covers the `?` arms json/mod.rs:554, 611, 636, 650).
//! The `json` op also calls `to_string()` and `to_writer(&mut Vec)` of the same builder and requires the
//! bytes of all three variants to be identical (oracle `variants-differ`).
//!
//! Lines of json/mod.rs / text/dom.rs the quick tier cannot reach, and why (tools/coverage.sh):
//!  * json/mod.rs:311 `panic!("failed to serialize json to vector")` — a `Vec<u8>` writer never fails;
//!  * json/mod.rs:490 `(_, Ok(x), Ok(_)) => serialize_u64` — unreachable (Lean: C16_narrowing_u64_arm_unreachable:
//!    `to_u64` ∧ `to_f64` accept ⇒ `to_i64` accepts; values in 2^63..2^64-1 are refused by `to_f64`);
//!  * json/mod.rs:797 `serialize_key("__invalid_key")` — needs an Array/Object/End token directly followed by an
//!    Operator token inside a value list; the tape parser only emits an Operator token after a scalar
//!    (after a container it is a parse error, or in a mixed container the unquoted scalar `=`), a tape cannot
//!    be built from tokens through the public API, and no generated tape (≈ 4 000 per quick run, 20 000
//!    thorough) has the shape; the model keeps the arm (`kInvalidKey`, `ItemTag.keyT none`) and C16_content
//!    covers it;
//!  * text/dom.rs:24-25 `next_idx_header` on Operator | MixedContainer — a Header token is always followed by
//!    a container (C06 / `Dom.wfTape`, checked on every tape);
//!  * text/dom.rs:458 `remainder()`'s `_ => self.token_ind` — only when `remainder()` is called before the
//!    fields are exhausted, or after the `debug_assert!` arm 495-496 (a non-scalar key: panics in this
//!    build, never seen); the JSON builders call it after the loop, where the token is End, MixedContainer
//!    or past the end;
//!  * text/dom.rs:696, 699 `raw_str` on a Parameter token / on a non-string token — the JSON path calls `read_str` on a
//!    `ValueReader` only for Unquoted / Quoted / Header tokens and for the key of a `SingleObject` (699 is the
//!    `__invalid_key` case above; a Parameter token is always a field key, read through `ScalarReader`);
//!  * text/dom.rs:210-242 (`Reader` enum), 589-594, 671-684 (derive / deserializer helpers), 707-728
//!    (`read_string`, error closures of `read_str` / `read_scalar` on non-scalars) are not on the JSON path.
#![allow(dead_code)]
use crate::common::*;
use crate::docgen;
use crate::show;
use jomini::json::{DuplicateKeyMode, JsonOptions, TypeNarrowing};
use jomini::text::{ArrayReader, ObjectReader, Operator, ValueReader};
use jomini::{Encoding, TextTape, TextToken, Utf8Encoding, Windows1252Encoding};

// ---------------------------------------------------------------------------------------
// options

#[derive(Clone, Copy, PartialEq, Eq, Debug)]
struct Opts {
    pretty: bool,
    dup: u8,    // b'g' | b'p' | b'k'
    narrow: u8, // b'a' | b'u' | b'n'
}

impl Opts {
    fn parse(s: &str) -> Option<Opts> {
        let b = s.as_bytes();
        if b.len() != 3 || !b"mp".contains(&b[0]) || !b"gpk".contains(&b[1]) || !b"aun".contains(&b[2]) {
            return None;
        }
        Some(Opts { pretty: b[0] == b'p', dup: b[1], narrow: b[2] })
    }
    fn show(&self) -> String {
        format!("{}{}{}", if self.pretty { 'p' } else { 'm' }, self.dup as char, self.narrow as char)
    }
    fn json(&self) -> JsonOptions {
        JsonOptions::new()
            .with_prettyprint(self.pretty)
            .with_duplicate_keys(match self.dup {
                b'g' => DuplicateKeyMode::Group,
                b'p' => DuplicateKeyMode::Preserve,
                _ => DuplicateKeyMode::KeyValuePairs,
            })
            .with_type_narrowing(match self.narrow {
                b'a' => TypeNarrowing::All,
                b'u' => TypeNarrowing::Unquoted,
                _ => TypeNarrowing::None,
            })
    }
    fn all() -> Vec<Opts> {
        let mut v = vec![];
        for pretty in [false, true] {
            for dup in *b"gpk" {
                for narrow in *b"aun" {
                    v.push(Opts { pretty, dup, narrow });
                }
            }
        }
        v
    }
}

// ---------------------------------------------------------------------------------------
// running the real code

/// Some(bytes) | None = entry point not applicable
fn run_json<E: Encoding + Clone>(reader: &ObjectReader<E>, o: Opts, entry: &str) -> Option<Vec<u8>> {
    match entry {
        "obj" => Some(reader.json().with_options(o.json()).to_vec()),
        "val" => {
            let (_k, _op, v) = reader.fields().next()?;
            Some(v.json().with_options(o.json()).to_vec())
        }
        "arr" => {
            let (_k, _op, v) = reader.fields().next()?;
            let a = v.read_array().ok()?;
            Some(a.json().with_options(o.json()).to_vec())
        }
        _ => None,
    }
}

/// the other two output variants of the same builder: `to_string()` and `to_writer(&mut Vec)`
fn run_json_variants<E: Encoding + Clone>(reader: &ObjectReader<E>, o: Opts, entry: &str) -> Option<(Vec<u8>, Vec<u8>)> {
    let mut w: Vec<u8> = vec![];
    match entry {
        "obj" => {
            let s = reader.json().with_options(o.json()).to_string();
            reader.json().with_options(o.json()).to_writer(&mut w).ok()?;
            Some((s.into_bytes(), w))
        }
        "val" => {
            let (_k, _op, v) = reader.fields().next()?;
            let s = v.json().with_options(o.json()).to_string();
            v.json().with_options(o.json()).to_writer(&mut w).ok()?;
            Some((s.into_bytes(), w))
        }
        "arr" => {
            let (_k, _op, v) = reader.fields().next()?;
            let a = v.read_array().ok()?;
            let s = a.json().with_options(o.json()).to_string();
            a.json().with_options(o.json()).to_writer(&mut w).ok()?;
            Some((s.into_bytes(), w))
        }
        _ => None,
    }
}

/// an `io::Write` that accepts `cap` bytes in total and then fails
struct FailingWriter {
    cap: usize,
    got: Vec<u8>,
}
impl std::io::Write for FailingWriter {
    fn write(&mut self, buf: &[u8]) -> std::io::Result<usize> {
        let room = self.cap - self.got.len();
        if room == 0 && !buf.is_empty() {
            return Err(std::io::Error::new(std::io::ErrorKind::Other, "writer full"));
        }
        let k = room.min(buf.len());
        self.got.extend_from_slice(&buf[..k]);
        Ok(k)
    }
    fn flush(&mut self) -> std::io::Result<()> {
        Ok(())
    }
}

/// `to_writer` into a writer that fails after `cap` bytes: (is_ok, bytes that reached the writer)
fn run_json_failing<E: Encoding + Clone>(reader: &ObjectReader<E>, o: Opts, entry: &str, cap: usize) -> Option<(bool, Vec<u8>)> {
    let mut w = FailingWriter { cap, got: vec![] };
    let r = match entry {
        "obj" => reader.json().with_options(o.json()).to_writer(&mut w),
        "val" => {
            let (_k, _op, v) = reader.fields().next()?;
            v.json().with_options(o.json()).to_writer(&mut w)
        }
        "arr" => {
            let (_k, _op, v) = reader.fields().next()?;
            let a = v.read_array().ok()?;
            a.json().with_options(o.json()).to_writer(&mut w)
        }
        _ => return None,
    };
    Some((r.is_ok(), w.got))
}

fn run_enc(tape: &TextTape, enc: &str, o: Opts, entry: &str) -> Option<Vec<u8>> {
    if enc == "w" {
        run_json(&tape.windows1252_reader(), o, entry)
    } else {
        run_json(&tape.utf8_reader(), o, entry)
    }
}

// ---------------------------------------------------------------------------------------
// lexical passes over JSON text (string-aware)

/// replace every number token that contains '.', 'e' or 'E' by `f<bits of its f64 value>`
fn canon_floats(out: &[u8]) -> Vec<u8> {
    let mut r = Vec::with_capacity(out.len());
    let mut i = 0;
    while i < out.len() {
        let b = out[i];
        if b == b'"' {
            r.push(b);
            i += 1;
            while i < out.len() {
                let c = out[i];
                r.push(c);
                i += 1;
                if c == b'\\' {
                    if i < out.len() {
                        r.push(out[i]);
                        i += 1;
                    }
                } else if c == b'"' {
                    break;
                }
            }
        } else if b == b'-' || b.is_ascii_digit() {
            let st = i;
            while i < out.len() && (out[i].is_ascii_digit() || matches!(out[i], b'-' | b'+' | b'.' | b'e' | b'E')) {
                i += 1;
            }
            let tok = &out[st..i];
            if tok.iter().any(|c| matches!(c, b'.' | b'e' | b'E')) {
                match std::str::from_utf8(tok).ok().and_then(|s| s.parse::<f64>().ok()) {
                    Some(f) => r.extend_from_slice(format!("f{}", f.to_bits()).as_bytes()),
                    None => r.extend_from_slice(tok),
                }
            } else {
                r.extend_from_slice(tok);
            }
        } else {
            r.push(b);
            i += 1;
        }
    }
    r
}

/// drop space, \n, \r, \t outside strings
fn strip_ws(out: &[u8]) -> Vec<u8> {
    let mut r = Vec::with_capacity(out.len());
    let mut i = 0;
    while i < out.len() {
        let b = out[i];
        if b == b'"' {
            r.push(b);
            i += 1;
            while i < out.len() {
                let c = out[i];
                r.push(c);
                i += 1;
                if c == b'\\' {
                    if i < out.len() {
                        r.push(out[i]);
                        i += 1;
                    }
                } else if c == b'"' {
                    break;
                }
            }
        } else {
            if !matches!(b, b' ' | b'\n' | b'\r' | b'\t') {
                r.push(b);
            }
            i += 1;
        }
    }
    r
}

// ---------------------------------------------------------------------------------------
// strict RFC 8259 parser: order- and duplicate-preserving tree

#[derive(Clone, Debug, PartialEq)]
enum J {
    Null,
    Bool(bool),
    /// the number token as written
    Num(String),
    Str(String),
    Arr(Vec<J>),
    Obj(Vec<(String, J)>),
}

struct P<'a> {
    s: &'a [u8],
    i: usize,
    depth: usize,
}

impl<'a> P<'a> {
    fn ws(&mut self) {
        while self.i < self.s.len() && matches!(self.s[self.i], b' ' | b'\n' | b'\r' | b'\t') {
            self.i += 1;
        }
    }
    fn peek(&self) -> Option<u8> {
        self.s.get(self.i).copied()
    }
    fn lit(&mut self, l: &[u8]) -> Result<(), String> {
        if self.s[self.i..].starts_with(l) {
            self.i += l.len();
            Ok(())
        } else {
            Err(format!("bad literal at {}", self.i))
        }
    }
    fn value(&mut self) -> Result<J, String> {
        self.depth += 1;
        if self.depth > 5000 {
            return Err("too deep".into());
        }
        let r = match self.peek() {
            None => Err(format!("unexpected end at {}", self.i)),
            Some(b'n') => self.lit(b"null").map(|_| J::Null),
            Some(b't') => self.lit(b"true").map(|_| J::Bool(true)),
            Some(b'f') => self.lit(b"false").map(|_| J::Bool(false)),
            Some(b'"') => self.string().map(J::Str),
            Some(b'[') => {
                self.i += 1;
                let mut v = vec![];
                self.ws();
                if self.peek() == Some(b']') {
                    self.i += 1;
                    Ok(J::Arr(v))
                } else {
                    loop {
                        self.ws();
                        v.push(self.value()?);
                        self.ws();
                        match self.peek() {
                            Some(b',') => self.i += 1,
                            Some(b']') => {
                                self.i += 1;
                                break;
                            }
                            _ => return Err(format!("expected , or ] at {}", self.i)),
                        }
                    }
                    Ok(J::Arr(v))
                }
            }
            Some(b'{') => {
                self.i += 1;
                let mut v = vec![];
                self.ws();
                if self.peek() == Some(b'}') {
                    self.i += 1;
                    Ok(J::Obj(v))
                } else {
                    loop {
                        self.ws();
                        if self.peek() != Some(b'"') {
                            return Err(format!("expected key at {}", self.i));
                        }
                        let k = self.string()?;
                        self.ws();
                        if self.peek() != Some(b':') {
                            return Err(format!("expected : at {}", self.i));
                        }
                        self.i += 1;
                        self.ws();
                        let val = self.value()?;
                        v.push((k, val));
                        self.ws();
                        match self.peek() {
                            Some(b',') => self.i += 1,
                            Some(b'}') => {
                                self.i += 1;
                                break;
                            }
                            _ => return Err(format!("expected , or }} at {}", self.i)),
                        }
                    }
                    Ok(J::Obj(v))
                }
            }
            Some(b'-') | Some(b'0'..=b'9') => self.number(),
            Some(c) => Err(format!("unexpected byte {:#x} at {}", c, self.i)),
        };
        self.depth -= 1;
        r
    }
    /// number = [ minus ] int [ frac ] [ exp ]
    fn number(&mut self) -> Result<J, String> {
        let st = self.i;
        if self.peek() == Some(b'-') {
            self.i += 1;
        }
        match self.peek() {
            Some(b'0') => self.i += 1,
            Some(b'1'..=b'9') => {
                while matches!(self.peek(), Some(b'0'..=b'9')) {
                    self.i += 1;
                }
            }
            _ => return Err(format!("bad number at {}", self.i)),
        }
        if self.peek() == Some(b'.') {
            self.i += 1;
            if !matches!(self.peek(), Some(b'0'..=b'9')) {
                return Err(format!("bad fraction at {}", self.i));
            }
            while matches!(self.peek(), Some(b'0'..=b'9')) {
                self.i += 1;
            }
        }
        if matches!(self.peek(), Some(b'e') | Some(b'E')) {
            self.i += 1;
            if matches!(self.peek(), Some(b'+') | Some(b'-')) {
                self.i += 1;
            }
            if !matches!(self.peek(), Some(b'0'..=b'9')) {
                return Err(format!("bad exponent at {}", self.i));
            }
            while matches!(self.peek(), Some(b'0'..=b'9')) {
                self.i += 1;
            }
        }
        Ok(J::Num(String::from_utf8(self.s[st..self.i].to_vec()).unwrap()))
    }
    fn hex4(&mut self) -> Result<u32, String> {
        if self.i + 4 > self.s.len() {
            return Err("short \\u".into());
        }
        let mut v = 0u32;
        for k in 0..4 {
            let d = (self.s[self.i + k] as char).to_digit(16).ok_or_else(|| format!("bad \\u digit at {}", self.i + k))?;
            v = v * 16 + d;
        }
        self.i += 4;
        Ok(v)
    }
    fn string(&mut self) -> Result<String, String> {
        // opening quote
        self.i += 1;
        let mut out: Vec<u8> = vec![];
        loop {
            let c = match self.peek() {
                None => return Err("unterminated string".into()),
                Some(c) => c,
            };
            self.i += 1;
            match c {
                b'"' => break,
                0..=0x1f => return Err(format!("raw control byte {:#x} in string at {}", c, self.i - 1)),
                b'\\' => {
                    let e = self.peek().ok_or("dangling backslash")?;
                    self.i += 1;
                    match e {
                        b'"' => out.push(b'"'),
                        b'\\' => out.push(b'\\'),
                        b'/' => out.push(b'/'),
                        b'b' => out.push(8),
                        b'f' => out.push(12),
                        b'n' => out.push(10),
                        b'r' => out.push(13),
                        b't' => out.push(9),
                        b'u' => {
                            let hi = self.hex4()?;
                            let cp = if (0xD800..0xDC00).contains(&hi) {
                                if self.s[self.i..].starts_with(b"\\u") {
                                    self.i += 2;
                                    let lo = self.hex4()?;
                                    if !(0xDC00..0xE000).contains(&lo) {
                                        return Err("bad low surrogate".into());
                                    }
                                    0x10000 + ((hi - 0xD800) << 10) + (lo - 0xDC00)
                                } else {
                                    return Err("lone high surrogate".into());
                                }
                            } else if (0xDC00..0xE000).contains(&hi) {
                                return Err("lone low surrogate".into());
                            } else {
                                hi
                            };
                            let ch = char::from_u32(cp).ok_or("bad code point")?;
                            let mut buf = [0u8; 4];
                            out.extend_from_slice(ch.encode_utf8(&mut buf).as_bytes());
                        }
                        _ => return Err(format!("bad escape \\{} at {}", e as char, self.i - 1)),
                    }
                }
                _ => out.push(c),
            }
        }
        String::from_utf8(out).map_err(|_| "string is not UTF-8".to_string())
    }
}

/// strict parse of a complete JSON text (nothing but whitespace after the value)
fn parse_json(s: &[u8]) -> Result<J, String> {
    if std::str::from_utf8(s).is_err() {
        return Err("output is not valid UTF-8".into());
    }
    let mut p = P { s, i: 0, depth: 0 };
    p.ws();
    let v = p.value()?;
    p.ws();
    if p.i != s.len() {
        return Err(format!("trailing bytes at {}", p.i));
    }
    Ok(v)
}

// ---------------------------------------------------------------------------------------
// content reference: an independent transcription from the DOM readers

/// Behaviours of the real code that the strict reference does not share.  The content oracle
/// first compares against the strict reference; when that fails it looks for the smallest set
/// of these that explains the output and reports exactly those kinds (known findings), so that
/// anything else still alarms as `content-structure` / `content-scalar`.
#[derive(Clone, Copy, Debug, Default, PartialEq)]
struct Quirks {
    /// Group mode keys the groups by the RAW key bytes (`field_groups`), not by the key as it
    /// appears in the JSON: `[[x] ..]` and `[[!x] ..]` and `x` merge under the first one's
    /// name, while `"a "` and `a` (same JSON key after trimming) stay apart
    group_raw_key: bool,
    /// the scalar `+` converts to the number 0 (`to_i64(b"+") == Ok(0)`)
    plus_is_zero: bool,
    /// `read_array()` of a header value is the two-element view [header, body]; its JSON
    /// renders the header element as `{header: body}` AND the body again
    header_view_dup: bool,
}

impl Quirks {
    fn kinds(&self) -> Vec<&'static str> {
        let mut v = vec![];
        if self.group_raw_key { v.push("group-keyed-by-raw-bytes"); }
        if self.plus_is_zero { v.push("plus-sign-narrowed-to-zero"); }
        if self.header_view_dup { v.push("header-array-view-duplicates-body"); }
        v
    }
    fn subsets() -> Vec<Quirks> {
        let mut v = vec![];
        for n in 1..8u8 {
            v.push(Quirks { group_raw_key: n & 1 != 0, plus_is_zero: n & 2 != 0, header_view_dup: n & 4 != 0 });
        }
        v.sort_by_key(|q| q.kinds().len());
        v
    }
}

#[derive(Clone, Debug)]
enum Ref {
    /// a scalar value subject to the narrowing rule
    Scalar { raw: Vec<u8>, text: String, quoted: bool },
    Null,
    Str(String),
    Arr(Vec<Ref>),
    Obj(Vec<(String, Ref)>),
}

fn op_json_name(o: Operator) -> &'static str {
    match o {
        Operator::LessThan => "LESS_THAN",
        Operator::LessThanEqual => "LESS_THAN_EQUAL",
        Operator::GreaterThan => "GREATER_THAN",
        Operator::GreaterThanEqual => "GREATER_THAN_EQUAL",
        Operator::NotEqual => "NOT_EQUAL",
        Operator::Exact => "EXACT",
        Operator::Equal => "EQUAL",
        Operator::Exists => "EXISTS",
    }
}

fn wrap_op(op: Option<Operator>, v: Ref) -> Ref {
    match op {
        Some(o) => Ref::Obj(vec![(op_json_name(o).to_string(), v)]),
        None => v,
    }
}

fn ref_value<E: Encoding + Clone>(v: &ValueReader<E>, dup: u8, q: Quirks, depth: usize) -> Ref {
    if depth > 2000 {
        return Ref::Null;
    }
    match v.token() {
        TextToken::Unquoted(s) => Ref::Scalar { raw: s.as_bytes().to_vec(), text: v.read_string().unwrap(), quoted: false },
        TextToken::Quoted(s) => Ref::Scalar { raw: s.as_bytes().to_vec(), text: v.read_string().unwrap(), quoted: true },
        TextToken::Array { .. } => ref_array(&v.read_array().unwrap(), dup, q, depth + 1),
        TextToken::Object { .. } => ref_object(&v.read_object().unwrap(), dup, q, depth + 1),
        TextToken::Header(_) => {
            // a header is a single-entry object { header: body }
            let a = v.read_array().unwrap();
            let items: Vec<_> = a.values().collect();
            if items.len() == 2 {
                Ref::Obj(vec![(items[0].read_string().unwrap(), ref_value(&items[1], dup, q, depth + 1))])
            } else {
                Ref::Null
            }
        }
        _ => Ref::Null,
    }
}

/// the items of an array reader: bare values; `key op value` runs (mixed containers) become
/// single-entry objects; a header takes the following container as its body
fn ref_items<E: Encoding + Clone>(a: &ArrayReader<E>, dup: u8, q: Quirks, depth: usize) -> Vec<Ref> {
    let vals: Vec<ValueReader<E>> = a.values().filter(|v| v.token() != &TextToken::MixedContainer).collect();
    let mut out = vec![];
    let mut i = 0;
    while i < vals.len() {
        let cur = &vals[i];
        if let (Some(opr), Some(val)) = (vals.get(i + 1), vals.get(i + 2)) {
            if let TextToken::Operator(op) = opr.token() {
                let key = cur.read_string().unwrap_or_else(|_| "__invalid_key".to_string());
                let op = if *op == Operator::Equal { None } else { Some(*op) };
                out.push(Ref::Obj(vec![(key, wrap_op(op, ref_value(val, dup, q, depth)))]));
                // a header value brings its body along
                i += 3;
                if matches!(val.token(), TextToken::Header(_)) && !q.header_view_dup {
                    i += 1;
                }
                continue;
            }
        }
        out.push(ref_value(cur, dup, q, depth));
        i += 1;
        if matches!(cur.token(), TextToken::Header(_)) && !q.header_view_dup {
            i += 1;
        }
    }
    out
}

fn ref_array<E: Encoding + Clone>(a: &ArrayReader<E>, dup: u8, q: Quirks, depth: usize) -> Ref {
    let items = Ref::Arr(ref_items(a, dup, q, depth));
    if dup == b'k' {
        Ref::Obj(vec![("type".into(), Ref::Str("array".into())), ("val".into(), items)])
    } else {
        items
    }
}

fn key_text<E: Encoding>(k: &jomini::text::ScalarReader<E>) -> String {
    match k.token() {
        TextToken::Parameter(_) => format!("[{}]", k.read_str()),
        TextToken::UndefinedParameter(_) => format!("[!{}]", k.read_str()),
        _ => k.read_string(),
    }
}

fn ref_object<E: Encoding + Clone>(o: &ObjectReader<E>, dup: u8, q: Quirks, depth: usize) -> Ref {
    let mut fields = o.fields();
    let mut entries: Vec<(String, Ref)> = vec![];
    let mut raw_keys: Vec<Vec<u8>> = vec![];
    for (k, op, v) in fields.by_ref() {
        entries.push((key_text(&k), wrap_op(op, ref_value(&v, dup, q, depth))));
        raw_keys.push(k.read_scalar().as_bytes().to_vec());
    }
    let rest = fields.remainder();
    let rest_items = if rest.is_empty() { None } else { Some(ref_items(&rest, dup, q, depth)) };
    match dup {
        b'p' => {
            if let Some(r) = rest_items {
                entries.push(("remainder".into(), Ref::Arr(r)));
            }
            Ref::Obj(entries)
        }
        b'g' => {
            // each distinct key once, in order of first appearance; one value -> the value,
            // several -> the array of the values in order
            let mut keys: Vec<String> = vec![];
            let mut ids: Vec<Vec<u8>> = vec![];
            let mut groups: Vec<Vec<Ref>> = vec![];
            for ((k, v), raw) in entries.into_iter().zip(raw_keys) {
                let id = if q.group_raw_key { raw } else { k.as_bytes().to_vec() };
                match ids.iter().position(|x| *x == id) {
                    Some(p) => groups[p].push(v),
                    None => {
                        keys.push(k);
                        ids.push(id);
                        groups.push(vec![v]);
                    }
                }
            }
            let mut out: Vec<(String, Ref)> = keys
                .into_iter()
                .zip(groups)
                .map(|(k, mut g)| if g.len() == 1 { (k, g.pop().unwrap()) } else { (k, Ref::Arr(g)) })
                .collect();
            if let Some(r) = rest_items {
                out.push(("remainder".into(), Ref::Arr(r)));
            }
            Ref::Obj(out)
        }
        _ => {
            let mut pairs: Vec<Ref> = entries.into_iter().map(|(k, v)| Ref::Arr(vec![Ref::Str(k), v])).collect();
            if let Some(r) = rest_items {
                pairs.push(Ref::Arr(r));
            }
            Ref::Obj(vec![("type".into(), Ref::Str("obj".into())), ("val".into(), Ref::Arr(pairs))])
        }
    }
}

// the narrowing rule, from the documentation: booleans are `yes`/`no`; numbers are
// narrowed when f64 holds them exactly, anything else stays the (decoded) string

const EXACT: u128 = 1u128 << 53;

struct NumShape {
    neg: bool,
    /// all digits read as one integer (saturating)
    digits_int: u128,
    frac_len: usize,
    has_dot: bool,
    /// `-?digits` or `-?digits.digits{1,22}`: what a writer emits
    clean: bool,
    /// body without signs, leading "0" added when it starts with '.'
    body: String,
}

fn num_shape(raw: &[u8]) -> Option<NumShape> {
    if raw.is_empty() || !raw.iter().all(|b| b.is_ascii_digit() || matches!(b, b'+' | b'-' | b'.')) {
        return None;
    }
    if raw.iter().enumerate().any(|(i, b)| matches!(b, b'+' | b'-') && i > 1) {
        return None;
    }
    let dots = raw.iter().filter(|b| **b == b'.').count();
    let digits: Vec<u8> = raw.iter().copied().filter(|b| b.is_ascii_digit()).collect();
    if dots > 1 || digits.is_empty() {
        return None;
    }
    let signs = raw.iter().filter(|b| matches!(b, b'+' | b'-')).count();
    let mut di: u128 = 0;
    for d in &digits {
        di = di.saturating_mul(10).saturating_add((d - b'0') as u128).min(u128::MAX / 16);
    }
    let body: Vec<u8> = raw.iter().copied().filter(|b| !matches!(b, b'+' | b'-')).collect();
    let dot = body.iter().position(|b| *b == b'.');
    let frac_len = dot.map(|p| body.len() - p - 1).unwrap_or(0);
    let int_len = dot.unwrap_or(body.len());
    let clean = (signs == 0 || (signs == 1 && raw[0] == b'-')) && int_len >= 1 && (dot.is_none() || (1..=22).contains(&frac_len));
    let mut b = String::from_utf8(body).unwrap();
    if b.starts_with('.') {
        b = format!("0{}", b);
    }
    if b.ends_with('.') {
        b.push('0');
    }
    Some(NumShape { neg: raw[0] == b'-', digits_int: di, frac_len, has_dot: dots == 1, clean, body: b })
}

fn ulp_distance(a: f64, b: f64) -> u64 {
    let (x, y) = (a.to_bits() as i64, b.to_bits() as i64);
    let key = |v: i64| if v < 0 { i64::MIN.wrapping_sub(v) } else { v };
    (key(x) as i128 - key(y) as i128).unsigned_abs() as u64
}

fn check_scalar(raw: &[u8], text: &str, quoted: bool, narrow: u8, q: Quirks, got: &J, path: &str) -> Result<(), String> {
    let applies = match narrow {
        b'a' => true,
        b'u' => !quoted,
        _ => false,
    };
    let show = || format!("{} scalar {:?} quoted={} narrowing={}", path, String::from_utf8_lossy(raw), quoted, narrow as char);
    match got {
        J::Str(s) => {
            if s != text {
                return Err(format!("{}: string {:?} differs from the decoded scalar {:?}", show(), s, text));
            }
            if applies {
                if raw == b"yes" || raw == b"no" {
                    return Err(format!("{}: boolean left as a string", show()));
                }
                if let Some(n) = num_shape(raw) {
                    if n.clean && n.digits_int < EXACT {
                        return Err(format!("{}: exactly representable number left as a string", show()));
                    }
                }
            }
            Ok(())
        }
        J::Bool(b) => {
            if applies && ((*b && raw == b"yes") || (!*b && raw == b"no")) {
                Ok(())
            } else {
                Err(format!("{}: became boolean {}", show(), b))
            }
        }
        J::Num(tok) => {
            if !applies {
                return Err(format!("{}: narrowed to {} although narrowing does not apply", show(), tok));
            }
            if q.plus_is_zero && raw == b"+" && tok == "0" {
                return Ok(());
            }
            let n = match num_shape(raw) {
                Some(n) => n,
                None => return Err(format!("{}: not a number but narrowed to {}", show(), tok)),
            };
            let is_float_tok = tok.bytes().any(|c| matches!(c, b'.' | b'e' | b'E'));
            if !is_float_tok {
                if n.has_dot {
                    return Err(format!("{}: decimal became integer {}", show(), tok));
                }
                let v: i128 = tok.parse().map_err(|_| format!("{}: unreadable integer {}", show(), tok))?;
                let expect = if n.neg { -(n.digits_int as i128) } else { n.digits_int as i128 };
                if v != expect {
                    return Err(format!("{}: integer {} is not the scalar's value", show(), tok));
                }
                if n.digits_int >= EXACT {
                    return Err(format!("{}: integer {} is beyond what f64 holds exactly but was emitted as a number", show(), tok));
                }
                Ok(())
            } else {
                let v: f64 = tok.parse().map_err(|_| format!("{}: unreadable float {}", show(), tok))?;
                if !v.is_finite() {
                    return Err(format!("{}: non-finite float", show()));
                }
                let reference: f64 = n.body.parse().map_err(|_| format!("{}: reference cannot read {}", show(), n.body))?;
                let reference = if n.neg { -reference } else { reference };
                if v == 0.0 && reference == 0.0 {
                    return Ok(());
                }
                if n.digits_int < EXACT {
                    if v.to_bits() != reference.to_bits() {
                        return Err(format!("{}: float {} is not the correctly rounded value {:e}", show(), tok, reference));
                    }
                } else {
                    if !n.has_dot {
                        return Err(format!("{}: inexact integer emitted as float {}", show(), tok));
                    }
                    if ulp_distance(v, reference) > 2 {
                        return Err(format!("{}: float {} more than 2 ulp from {:e}", show(), tok, reference));
                    }
                }
                Ok(())
            }
        }
        other => Err(format!("{}: became {:?}", show(), other)),
    }
}

fn matches(r: &Ref, got: &J, narrow: u8, q: Quirks, path: &str) -> Result<(), String> {
    match (r, got) {
        (Ref::Scalar { raw, text, quoted }, g) => check_scalar(raw, text, *quoted, narrow, q, g, path),
        (Ref::Null, J::Null) => Ok(()),
        (Ref::Str(a), J::Str(b)) if a == b => Ok(()),
        (Ref::Arr(a), J::Arr(b)) => {
            if a.len() != b.len() {
                return Err(format!("{}: array of {} items, expected {}", path, b.len(), a.len()));
            }
            for (i, (x, y)) in a.iter().zip(b).enumerate() {
                matches(x, y, narrow, q, &format!("{}[{}]", path, i))?;
            }
            Ok(())
        }
        (Ref::Obj(a), J::Obj(b)) => {
            if a.len() != b.len() {
                return Err(format!("{}: object of {} entries {:?}, expected {} {:?}", path, b.len(), b.iter().map(|x| &x.0).collect::<Vec<_>>(), a.len(), a.iter().map(|x| &x.0).collect::<Vec<_>>()));
            }
            for (i, ((ka, va), (kb, vb))) in a.iter().zip(b).enumerate() {
                if ka != kb {
                    return Err(format!("{}: entry {} has key {:?}, expected {:?}", path, i, kb, ka));
                }
                matches(va, vb, narrow, q, &format!("{}.{}", path, ka))?;
            }
            Ok(())
        }
        (r, g) => Err(format!("{}: got {:?}, expected {:?}", path, g, r)),
    }
}

fn ref_entry<E: Encoding + Clone>(reader: &ObjectReader<E>, o: Opts, entry: &str, q: Quirks) -> Option<Ref> {
    match entry {
        "obj" => Some(ref_object(reader, o.dup, q, 0)),
        "val" => {
            let (_k, _op, v) = reader.fields().next()?;
            Some(ref_value(&v, o.dup, q, 0))
        }
        "arr" => {
            let (_k, _op, v) = reader.fields().next()?;
            let a = v.read_array().ok()?;
            Some(ref_array(&a, o.dup, q, 0))
        }
        _ => None,
    }
}

// ---------------------------------------------------------------------------------------
// exec

pub fn exec(w: &[&str], obs: &mut Obs) -> Option<String> {
    match w {
        ["json", so, enc, entry, tape_s, h] => {
            let o = Opts::parse(so)?;
            if !matches!(*enc, "w" | "u") || !matches!(*entry, "obj" | "arr" | "val") {
                return None;
            }
            let input = unhex(h)?;
            let case = w.join(" ");
            let tape = match TextTape::from_slice(&input) {
                Ok(t) => t,
                Err(_) => {
                    obs.violation("stale-case", &case, "the input no longer parses");
                    return Some("parse-error".to_string());
                }
            };
            if show::text_tape(tape.tokens()) != *tape_s {
                obs.violation("stale-case", &case, "the tape in the case line is not the tape the parser produces for the input");
            }
            obs.count(&format!("opts:{}", so));
            obs.count(&format!("enc:{}", enc));
            obs.count(&format!("entry:{}", entry));
            let out = match run_enc(&tape, enc, o, entry) {
                Some(x) => x,
                None => {
                    obs.count("result:na");
                    return Some("na".to_string());
                }
            };
            obs.count("result:json");
            // (0) to_vec, to_string and to_writer give the same bytes
            let variants = if *enc == "w" { run_json_variants(&tape.windows1252_reader(), o, entry) } else { run_json_variants(&tape.utf8_reader(), o, entry) };
            match variants {
                Some((s, w)) => {
                    if s != out || w != out {
                        obs.violation("variants-differ", &case, &format!("to_vec {:?} to_string {:?} to_writer {:?}", String::from_utf8_lossy(&out), String::from_utf8_lossy(&s), String::from_utf8_lossy(&w)));
                    }
                }
                None => obs.violation("variants-differ", &case, "to_string / to_writer not applicable or failed where to_vec succeeded"),
            }
            // (1) validity
            let tree = match parse_json(&out) {
                Ok(t) => Some(t),
                Err(e) => {
                    obs.violation("invalid-json", &case, &format!("{} in {:?}", e, String::from_utf8_lossy(&out)));
                    None
                }
            };
            // (2) pretty printing changes whitespace only
            let twin = Opts { pretty: !o.pretty, ..o };
            if let Some(other) = run_enc(&tape, enc, twin, entry) {
                let (p, m) = if o.pretty { (&out, &other) } else { (&other, &out) };
                if strip_ws(p) != *m {
                    obs.violation("pretty-not-whitespace-only", &case, &format!("pretty {:?} minified {:?}", String::from_utf8_lossy(p), String::from_utf8_lossy(m)));
                }
            }
            // (3) content
            if let Some(tree) = &tree {
                let reference = |q: Quirks| if *enc == "w" { ref_entry(&tape.windows1252_reader(), o, entry, q) } else { ref_entry(&tape.utf8_reader(), o, entry, q) };
                if let Some(r) = reference(Quirks::default()) {
                    if let Err(e) = matches(&r, tree, o.narrow, Quirks::default(), "$") {
                        // which of the recorded behaviours of the code explains the output?
                        let explained = Quirks::subsets().into_iter().find(|q| reference(*q).map(|r| matches(&r, tree, o.narrow, *q, "$").is_ok()).unwrap_or(false));
                        match explained {
                            Some(q) => {
                                for k in q.kinds() {
                                    // keep a few witnesses per recorded behaviour (the list of violations is capped),
                                    // count every occurrence
                                    obs.count(&format!("quirk:{}", k));
                                    if witness_slot(k) {
                                        obs.violation(k, &case, &format!("{} ; output {:?}", e, String::from_utf8_lossy(&out)));
                                    }
                                }
                            }
                            None => obs.violation(content_kind(&e), &case, &format!("{} ; output {:?}", e, String::from_utf8_lossy(&out))),
                        }
                    }
                }
                count_shapes(tree, obs);
            }
            Some(hex(&canon_floats(&out)))
        }
        // failing writer: `to_writer` into a writer that takes <cap> bytes and then fails must return Err (never
        // panic) iff the output is longer, and what reached the writer must be the first bytes of the full output
        ["jsonw", so, enc, entry, cap_s, tape_s, h] => {
            let o = Opts::parse(so)?;
            if !matches!(*enc, "w" | "u") || !matches!(*entry, "obj" | "arr" | "val") {
                return None;
            }
            let cap: usize = cap_s.parse().ok()?;
            let input = unhex(h)?;
            let case = w.join(" ");
            let tape = match TextTape::from_slice(&input) {
                Ok(t) => t,
                Err(_) => {
                    obs.violation("stale-case", &case, "the input no longer parses");
                    return Some("parse-error".to_string());
                }
            };
            if show::text_tape(tape.tokens()) != *tape_s {
                obs.violation("stale-case", &case, "the tape in the case line is not the tape the parser produces for the input");
            }
            let full = match run_enc(&tape, enc, o, entry) {
                Some(x) => x,
                None => return Some("na".to_string()),
            };
            let r = if *enc == "w" { run_json_failing(&tape.windows1252_reader(), o, entry, cap) } else { run_json_failing(&tape.utf8_reader(), o, entry, cap) };
            let (ok, got) = r?;
            if !full.starts_with(&got) || got.len() != cap.min(full.len()) {
                obs.violation("failing-writer-prefix", &case, &format!("writer got {:?}, full output {:?}", String::from_utf8_lossy(&got), String::from_utf8_lossy(&full)));
            }
            if ok != (cap >= full.len()) {
                obs.violation("failing-writer-result", &case, &format!("cap {} output length {} result ok={}", cap, full.len(), ok));
            }
            obs.count(if ok { "jsonw:ok" } else { "jsonw:err" });
            Some(if ok { "ok".to_string() } else { format!("err:{}", hex(&got)) })
        }
        // the tape of an accepted input must satisfy the model's well-formedness hypothesis (the driver
        // evaluates `wfTapeB` and compares the model's conversion with `jsonOfDoc` of the witness tree)
        ["wf", tape_s, h] => {
            let input = unhex(h)?;
            let case = w.join(" ");
            match TextTape::from_slice(&input) {
                Ok(t) => {
                    if show::text_tape(t.tokens()) != *tape_s {
                        obs.violation("stale-case", &case, "the tape in the case line is not the tape the parser produces for the input");
                    }
                    Some("wf".to_string())
                }
                Err(_) => {
                    obs.violation("stale-case", &case, "the input no longer parses");
                    Some("parse-error".to_string())
                }
            }
        }
        // implementation-only: all 108 combinations of one input must not panic and must be valid
        ["x-json-all", h] => {
            let input = unhex(h)?;
            let case = w.join(" ");
            let tape = TextTape::from_slice(&input).ok()?;
            for o in Opts::all() {
                for enc in ["w", "u"] {
                    for entry in ["obj", "arr", "val"] {
                        match guard(|| run_enc(&tape, enc, o, entry)) {
                            Err(_) => obs.violation("panic", &case, &format!("opts {} enc {} entry {}", o.show(), enc, entry)),
                            Ok(Some(out)) => {
                                if let Err(e) = parse_json(&out) {
                                    obs.violation("invalid-json", &case, &format!("opts {} enc {} entry {}: {}", o.show(), enc, entry, e));
                                }
                            }
                            Ok(None) => {}
                        }
                    }
                }
            }
            Some("ok".to_string())
        }
        _ => None,
    }
}

static QUIRK_WITNESSES: [std::sync::atomic::AtomicUsize; 3] = [std::sync::atomic::AtomicUsize::new(0), std::sync::atomic::AtomicUsize::new(0), std::sync::atomic::AtomicUsize::new(0)];

/// the first 8 occurrences of each recorded behaviour are kept as witnesses
fn witness_slot(kind: &str) -> bool {
    let i = match kind { "group-keyed-by-raw-bytes" => 0, "plus-sign-narrowed-to-zero" => 1, _ => 2 };
    QUIRK_WITNESSES[i].fetch_add(1, std::sync::atomic::Ordering::Relaxed) < 8
}

fn content_kind(e: &str) -> &'static str {
    if e.contains("scalar") { "content-scalar" } else { "content-structure" }
}

fn count_shapes(t: &J, obs: &mut Obs) {
    match t {
        J::Null => obs.count("json:null"),
        J::Bool(_) => obs.count("json:bool"),
        J::Num(s) => obs.count(if s.bytes().any(|c| matches!(c, b'.' | b'e' | b'E')) { "json:float" } else { "json:int" }),
        J::Str(s) => obs.count(if s.is_ascii() { "json:str" } else { "json:str-nonascii" }),
        J::Arr(v) => {
            obs.count("json:arr");
            for x in v {
                count_shapes(x, obs);
            }
        }
        J::Obj(v) => {
            obs.count("json:obj");
            for (k, x) in v {
                if k == "remainder" {
                    obs.count("json:remainder");
                }
                count_shapes(x, obs);
            }
        }
    }
}

// ---------------------------------------------------------------------------------------
// gen

fn emit(g: &mut Gen, input: &[u8], o: Opts, enc: &str, entry: &str) -> bool {
    match TextTape::from_slice(input) {
        Ok(t) => {
            g.emit(format!("json {} {} {} {} {}", o.show(), enc, entry, show::text_tape(t.tokens()), hex(input)));
            true
        }
        Err(_) => false,
    }
}

fn emit_all(g: &mut Gen, input: &[u8]) -> bool {
    let t = match TextTape::from_slice(input) {
        Ok(t) => t,
        Err(_) => return false,
    };
    let ts = show::text_tape(t.tokens());
    let h = hex(input);
    g.emit(format!("wf {} {}", ts, h));
    for o in Opts::all() {
        for enc in ["w", "u"] {
            for entry in ["obj", "arr", "val"] {
                g.emit(format!("json {} {} {} {} {}", o.show(), enc, entry, ts, h));
            }
        }
    }
    true
}

/// a few random combinations, always including one `obj`
fn emit_some(g: &mut Gen, input: &[u8], k: usize) -> bool {
    let t = match TextTape::from_slice(input) {
        Ok(t) => t,
        Err(_) => return false,
    };
    let ts = show::text_tape(t.tokens());
    let h = hex(input);
    g.emit(format!("wf {} {}", ts, h));
    let all = Opts::all();
    for i in 0..k {
        let o = *g.rng.pick(&all);
        let enc = if g.rng.chance(1, 2) { "w" } else { "u" };
        let entry = if i == 0 { "obj" } else { *g.rng.pick(&["obj", "arr", "val"]) };
        g.emit(format!("json {} {} {} {} {}", o.show(), enc, entry, ts, h));
    }
    true
}

fn number_scalars() -> Vec<Vec<u8>> {
    let mut v: Vec<Vec<u8>> = vec![];
    let centers: [u128; 9] = [0, 1, (1 << 53) - 1, 1 << 53, (1 << 63) - 1, 1 << 63, (1u128 << 64) - 1, 1u128 << 64, 1u128 << 32];
    for c in centers {
        for d in -2i64..=2 {
            let x = if d < 0 { c.saturating_sub((-d) as u128) } else { c + d as u128 };
            for prefix in ["", "-", "+", "0", "-0", "-+", "+-", "--"] {
                v.push(format!("{}{}", prefix, x).into_bytes());
            }
            let txt = x.to_string();
            for k in [1usize, 3, 15, 16, 17, 22, 23] {
                let f = if txt.len() > k { format!("{}.{}", &txt[..txt.len() - k], &txt[txt.len() - k..]) } else { format!("0.{}{}", "0".repeat(k - txt.len()), txt) };
                v.push(f.clone().into_bytes());
                v.push(format!("-{}", f).into_bytes());
            }
        }
    }
    for s in [
        "yes", "no", "Yes", "NO", "yess", "n", "1.0", "1.000", "-0", "-0.0", "0.0", "1.", ".5", "-.5", "+.5", ".", "-", "+", "1e5", "1E5", "0x10", "1.2.3", "1444.11.11",
        "3.14", "0.1", "0.30000000000000004", "123456789.123456789", "0.0000000000000000000001", "0.00000000000000000000001", "9007199254740993.5", "18446744073709547616",
        "-90071992547409097", "1_000", "1,5", "١٢٣", "12a", "a12", "inf", "nan", "NaN", "-inf", "1.7976931348623157e308",
    ] {
        v.push(s.as_bytes().to_vec());
    }
    v
}

pub fn gen(g: &mut Gen) {
    let narrow_opts: Vec<Opts> = (*b"aun").iter().map(|n| Opts { pretty: false, dup: b'p', narrow: *n }).collect();

    // 1. fixed documents from the repository's own tests and the shapes the serializer branches on: all 108 combinations
    let fixed: Vec<&[u8]> = vec![
        b"", b"foo=bar", b"foo=bar num=1 bool=no bool2=yes pi=3.14", b"foo={prop=a bar={num=1}}", b"nums={1 2 3 4}",
        b"core=AAA core=BBB", b"color = rgb { 100 200 150 }", b"identity = 18446744073709547616", b"identity = -90071992547409097",
        b"area = { color = { 10 } 1 2 }", b"levels={ 10 0=2 1=2 }", b"mixed={ a=b 10 c=d 20 }",
        b"on_actions = {\n faith_holy_order_land_acquisition_pulse\n delay = { days = { 5 10 }}\n faith_heresy_events_pulse\n delay = { days = { 15 20 }}\n faith_fervor_events_pulse\n }",
        b"generate_advisor = { [[scaled_skill] a=b ] [[!scaled_skill] c=d ]  }", b"foo = { [[add] $add$]}",
        b"a={b=1} c={b=1 b=2}", b"c=0 b={1 2}", br#"a="01" b=02 c="yes" d=no"#, b"a > 1 b < 2 c >= 3 d <= 4 e != 5 f == 6 g ?= 7",
        b"a = { b > 1 b < 2 b = 3 }", b"a = { 1 b > 2 c = hsv { 1 2 3 } }", b"a = { rgb { 1 2 3 } }", b"a = { x rgb { 1 2 3 } y }", b"a = hsv { 0.5 0.5 0.5 } a = rgb { 1 2 3 }",
        b"a = {} b = { } c = { {} }", b"a = { { 1 } { 2 } }", b"a = { {b=1} {c=2} }", b"{} a=b", b"a={ {} b=c }", b"a = b = c", b"a = { b = { c = { d = { e = f } } } }",
        b"name=a core=b core=c name=d core=e", b"\"a\"=1 a=2 \"a \"=3", b"a=1 a={ [[a] b=c ] a=2 [[!a] d=e ] }", b"k=LIST { a=b c=d }", b"k={ a=b LIST { 1 2 } }",
        b"k = { a = b c }", b"k = { a b = c }", b"k = { a = { b } c d = e }", b"k = { 1 = 2 3 = 4 5 }", b"k = { a=1 b c=2 }", b"b = 3]0 c = {} d = rgb { 1 }", b"mixed={ a=b 10 color = rgb { 1 2 3 } }", b"a < e = 1 b = rgb { 1 }", b"x={ a=1 [ b=2 c }",
    ];
    for f in &fixed {
        if !emit_all(g, f) {
            g.count("fixed:rejected");
        }
        g.emit(format!("x-json-all {}", hex(f)));
    }
    g.count("fixed-documents");

    // 1b. failing writer: every cut point of the output of small documents (headers, remainder in Group and
    // Preserve, KeyValuePairs, nested containers), a few cut points of larger ones
    let fw_docs: Vec<&[u8]> = vec![
        b"foo=bar", b"color = rgb { 100 200 150 }", b"area = { color = { 10 } 1 2 }", b"mixed={ a=b 10 c=d 20 }", b"levels={ 10 0=2 1=2 }",
        b"a={b=1} c={b=1 b=2}", b"a > 1 b=yes", b"core=AAA core=BBB", b"generate_advisor = { [[scaled_skill] a=b ] [[!scaled_skill] c=d ]  }",
        b"a = { b = { c = { d = e } } }", b"b = 3]0 c = {} d = rgb { 1 }", b"k=\"\xe9 \\\" x\"",
    ];
    for d in &fw_docs {
        if let Ok(t) = TextTape::from_slice(d) {
            let ts = show::text_tape(t.tokens());
            let hx = hex(d);
            for (so, enc) in [("mga", "w"), ("ppa", "u"), ("mka", "w"), ("pku", "u"), ("mpn", "w")] {
                let o = Opts::parse(so).unwrap();
                for entry in ["obj", "arr", "val"] {
                    if let Some(full) = run_enc(&t, enc, o, entry) {
                        let caps: Vec<usize> = if full.len() <= 120 { (0..=full.len() + 1).collect() } else { (0..8).map(|_| g.rng.below(full.len() + 2)).collect() };
                        for cap in caps {
                            g.emit(format!("jsonw {} {} {} {} {} {}", so, enc, entry, cap, ts, hx));
                        }
                    }
                }
            }
        }
    }
    g.count("failing-writer-sweeps");

    // 2. scalar narrowing: number-looking scalars, booleans, quoted twins; as field value, array element, key
    for s in number_scalars() {
        let st = String::from_utf8_lossy(&s).to_string();
        let docs = [format!("k={}", st), format!("k=\"{}\"", st), format!("k={{ {} \"{}\" }}", st, st), format!("{}=v", st), format!("k > {}", st)];
        for (di, d) in docs.iter().enumerate() {
            for o in &narrow_opts {
                for enc in ["w", "u"] {
                    let _ = di;
                    if !emit(g, d.as_bytes(), *o, enc, "obj") {
                        g.count("scalar-doc:rejected");
                    }
                }
            }
        }
        for o in &narrow_opts {
            emit(g, docs[0].as_bytes(), *o, "w", "val");
            emit(g, docs[2].as_bytes(), Opts { dup: b'k', pretty: true, ..*o }, "u", "arr");
        }
    }
    g.count("number-scalars");

    // 3. every byte inside a quoted and an unquoted scalar (decoding + escaping), both encodings
    for b in 0u16..256 {
        let b = b as u8;
        let mut q = b"k=\"a".to_vec();
        q.push(b);
        q.extend_from_slice(b"z\" \"q");
        q.push(b);
        q.extend_from_slice(b"\"=x");
        let mut u = b"k=a".to_vec();
        u.push(b);
        u.extend_from_slice(b"z ");
        let mut t = b"k=\"a".to_vec();
        t.push(b);
        t.extend_from_slice(b"\" j=\"");
        t.push(b);
        t.push(b' ');
        t.extend_from_slice(b"\"");
        for d in [&q, &u, &t] {
            for enc in ["w", "u"] {
                emit(g, d, Opts { pretty: false, dup: b'p', narrow: b'a' }, enc, "obj");
                emit(g, d, Opts { pretty: true, dup: b'g', narrow: b'n' }, enc, "obj");
            }
        }
    }
    // two- and three-byte sequences around UTF-8 lead / continuation / backslash / whitespace
    let interesting: &[u8] = &[b'a', b' ', b'\n', b'\\', b'"', 0x7f, 0x80, 0xbf, 0xc2, 0xc3, 0xa9, 0xe0, 0xa0, 0xed, 0x9f, 0xef, 0xbb, 0xf0, 0x90, 0xf4, 0x8f, 0xf5, 0xff, 0x1f, 0x00];
    for &x in interesting {
        for &y in interesting {
            let mut d = b"k=\"".to_vec();
            d.push(x);
            d.push(y);
            d.extend_from_slice(b"\"");
            emit(g, &d, Opts { pretty: false, dup: b'p', narrow: b'n' }, "u", "obj");
            emit(g, &d, Opts { pretty: false, dup: b'p', narrow: b'n' }, "w", "obj");
        }
    }
    let n3 = g.budget(1500, 20000);
    for _ in 0..n3 {
        let len = g.rng.range(1, 6);
        let mut d = b"k=\"".to_vec();
        for _ in 0..len {
            d.push(*g.rng.pick(interesting));
        }
        d.extend_from_slice(b"\"");
        let enc = if g.rng.chance(2, 3) { "u" } else { "w" };
        emit(g, &d, Opts { pretty: false, dup: b'p', narrow: b'a' }, enc, "obj");
    }
    g.count("byte-sweeps");

    // 4. model documents under random layouts
    let cfg = docgen::DocCfg::text_full();
    let lay = docgen::LayoutCfg::full();
    let ndocs = g.budget(1200, 20000);
    for i in 0..ndocs {
        let doc = docgen::gen_doc(&mut g.rng, &cfg);
        let lex = docgen::lexemes(&doc);
        let txt = if i % 4 == 0 { docgen::render_canonical(&lex) } else { docgen::render_layout(&mut g.rng, &lay, &lex) };
        let ok = if i < g.budget(60, 400) { emit_all(g, &txt) } else { emit_some(g, &txt, 6) };
        if ok { g.count("docgen:accepted"); } else { g.count("docgen:rejected"); }
        if i % 10 == 0 {
            g.emit(format!("x-json-all {}", hex(&txt)));
        }
    }
    // deeper / wider documents
    let deep = docgen::DocCfg { max_depth: 12, max_fields: 8, ..docgen::DocCfg::text_full() };
    let ndeep = g.budget(100, 2000);
    for _ in 0..ndeep {
        let doc = docgen::gen_doc(&mut g.rng, &deep);
        let txt = docgen::render_canonical(&docgen::lexemes(&doc));
        if emit_some(g, &txt, 4) { g.count("docgen-deep:accepted"); } else { g.count("docgen-deep:rejected"); }
    }

    // 5. arbitrary accepted input: mutations of documents and random text over the significant alphabet
    let nmut = g.budget(6000, 120000);
    let mut acc = 0usize;
    for i in 0..nmut {
        let txt = if i % 3 == 0 {
            docgen::random_text(&mut g.rng, 24)
        } else {
            let doc = docgen::gen_doc(&mut g.rng, &cfg);
            let base = docgen::render_canonical(&docgen::lexemes(&doc));
            docgen::mutate(&mut g.rng, &base, docgen::TEXT_ALPHABET)
        };
        if emit_some(g, &txt, 3) {
            acc += 1;
            g.count("arbitrary:accepted");
            if acc % 5 == 0 {
                g.emit(format!("x-json-all {}", hex(&txt)));
            }
        } else {
            g.count("arbitrary:rejected");
        }
    }
    // random text over a small structural alphabet (operators, braces, brackets, headers) – dense in odd shapes
    let alpha: &[&[u8]] = &[b"a", b"b", b"1", b"=", b"{", b"}", b" ", b" ", b">", b"<=", b"?=", b"rgb", b"hsv", b"[[", b"]", b"!", b"\"x\"", b"yes", b"{}", b"@[", b"\\"];
    let nsmall = g.budget(6000, 120000);
    for _ in 0..nsmall {
        let n = g.rng.range(1, 14);
        let mut txt = vec![];
        for _ in 0..n {
            let piece: &[u8] = *g.rng.pick(alpha);
            txt.extend_from_slice(piece);
            if g.rng.chance(1, 2) { txt.push(b' '); }
        }
        if emit_some(g, &txt, 3) { g.count("structural:accepted"); } else { g.count("structural:rejected"); }
    }
}

pub fn tables() -> String {
    String::new()
}
