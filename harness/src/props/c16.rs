//! C16 — (not built yet)
#![allow(unused_imports, unused_variables, dead_code)]
use crate::common::*;

pub fn gen(g: &mut Gen) {}

pub fn exec(w: &[&str], obs: &mut Obs) -> Option<String> {
    None
}

pub fn tables() -> String {
    String::new()
}
