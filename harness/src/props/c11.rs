//! C11 — scalar numeric and boolean conversions are exact or refuse.
//! ops: `u64 <hex>`, `i64 <hex>`, `f64 <hex>` (result = IEEE bit pattern), `bool <hex>`.
use crate::common::*;
use jomini::{Scalar, ScalarError};

fn err(e: &ScalarError) -> &'static str {
    match e {
        ScalarError::AllDigits => "err:alldigits",
        ScalarError::Overflow => "err:overflow",
        ScalarError::InvalidBool => "err:bool",
        ScalarError::PrecisionLoss(_) => "err:precision",
    }
}

/// Reference reading of a decimal rendering, independent of the implementation:
/// optional sign chars in `signs`, then digits only. Returns (negative, magnitude) or None
/// when a foreign byte is present; magnitude saturates at u128::MAX/16.
fn ref_int(d: &[u8], allow_minus: bool) -> Option<(bool, u128)> {
    let (neg, body) = match d.first()? {
        b'+' => (false, &d[1..]),
        b'-' if allow_minus => (true, &d[1..]),
        c if c.is_ascii_digit() => (false, d),
        _ => return None,
    };
    let mut v: u128 = 0;
    for &b in body {
        if !b.is_ascii_digit() {
            return None;
        }
        v = v.saturating_mul(10).saturating_add((b - b'0') as u128).min(u128::MAX / 16);
    }
    Some((neg, v))
}

fn ulp_distance(a: f64, b: f64) -> u64 {
    // both finite, same sign expected
    let (x, y) = (a.to_bits() as i64, b.to_bits() as i64);
    let key = |v: i64| if v < 0 { i64::MIN.wrapping_sub(v) } else { v };
    (key(x) as i128 - key(y) as i128).unsigned_abs() as u64
}

pub fn exec(w: &[&str], obs: &mut Obs) -> Option<String> {
    let case = || w.join(" ");
    match w {
        ["u64", h] => {
            let d = unhex(h)?;
            let r = Scalar::new(&d).to_u64();
            // L3 oracle: exact characterisation
            let expect = ref_int(&d, false).and_then(|(_, v)| if v <= u64::MAX as u128 { Some(v as u64) } else { None });
            if r.clone().ok() != expect {
                obs.violation("u64-exact", &case(), &format!("impl {:?} reference {:?}", r, expect));
            }
            obs.count(if r.is_ok() { "u64:ok" } else { "u64:err" });
            Some(match r { Ok(v) => format!("ok {}", v), Err(e) => err(&e).to_string() })
        }
        ["i64", h] => {
            let d = unhex(h)?;
            let r = Scalar::new(&d).to_i64();
            // exact characterisation over i64::MIN ..= i64::MAX (i64::MIN must convert)
            let expect = ref_int(&d, true).and_then(|(neg, v)| {
                if neg {
                    if v <= 1u128 << 63 { Some((-(v as i128)) as i64) } else { None }
                } else if v <= i64::MAX as u128 {
                    Some(v as i64)
                } else {
                    None
                }
            });
            if r.clone().ok() != expect {
                obs.violation("i64-exact", &case(), &format!("impl {:?} reference {:?}", r, expect));
            }
            if r == Ok(i64::MIN) { obs.count("i64:min"); }
            obs.count(if r.is_ok() { "i64:ok" } else { "i64:err" });
            Some(match r { Ok(v) => format!("ok {}", v), Err(e) => err(&e).to_string() })
        }
        ["bool", h] => {
            let d = unhex(h)?;
            let r = Scalar::new(&d).to_bool();
            let expect = if d == b"yes" { Some(true) } else if d == b"no" { Some(false) } else { None };
            if r.clone().ok() != expect {
                obs.violation("bool-exact", &case(), &format!("impl {:?}", r));
            }
            Some(match r { Ok(v) => format!("ok {}", v), Err(e) => err(&e).to_string() })
        }
        ["f64", h] => {
            let d = unhex(h)?;
            let r = Scalar::new(&d).to_f64();
            f64_oracle(&d, &r, &case(), obs);
            obs.count(match &r { Ok(_) => "f64:ok", Err(ScalarError::PrecisionLoss(_)) => "f64:precision", Err(ScalarError::Overflow) => "f64:overflow", Err(_) => "f64:err" });
            Some(match r { Ok(v) => format!("ok {}", v.to_bits()), Err(e) => err(&e).to_string() })
        }
        _ => None,
    }
}

/// L3 oracle for to_f64, straight from the property text, using Rust's correctly
/// rounded `str::parse::<f64>` as the arbitrary-precision reference.
fn f64_oracle(d: &[u8], r: &Result<f64, ScalarError>, case: &str, obs: &mut Obs) {
    // grammar the property allows: sign, digits, at most one '.'
    let grammar_ok = {
        let mut dots = 0;
        let mut ok = !d.is_empty();
        for (i, &b) in d.iter().enumerate() {
            match b {
                b'0'..=b'9' => {}
                b'.' => dots += 1,
                b'+' | b'-' if i <= 1 => {}
                _ => ok = false,
            }
        }
        ok && dots <= 1
    };
    if let Ok(v) = r {
        if !v.is_finite() {
            obs.violation("f64-nonfinite", case, &format!("{:?}", v));
            return;
        }
        if !grammar_ok {
            obs.violation("f64-accepts-foreign", case, &format!("{:?}", v));
            return;
        }
        // strip signs; quirk "-+5" is accepted by the code and means -5
        let neg = d[0] == b'-';
        let body: Vec<u8> = d.iter().copied().filter(|b| *b != b'+' && *b != b'-').collect();
        let mut txt = String::from_utf8(body.clone()).unwrap();
        if txt.is_empty() || txt == "." { txt = "0".into(); }
        if txt.starts_with('.') { txt = format!("0{}", txt); }
        let reference: f64 = match txt.parse::<f64>() { Ok(x) => x, Err(_) => return };
        let reference = if neg { -reference } else { reference };
        let digits: Vec<u8> = body.iter().copied().filter(|b| b.is_ascii_digit()).collect();
        let as_int = ref_int(if digits.is_empty() { b"0" } else { &digits }, false).map(|x| x.1).unwrap_or(u128::MAX);
        let has_dot = body.contains(&b'.');
        if as_int < (1u128 << 53) {
            if v.to_bits() != reference.to_bits() && !(*v == 0.0 && reference == 0.0) {
                obs.violation("f64-not-correctly-rounded", case, &format!("impl {:e} reference {:e}", v, reference));
            }
        } else {
            if !has_dot {
                obs.violation("f64-inexact-integer-accepted", case, &format!("{:e}", v));
            } else if ulp_distance(*v, reference) > 2 {
                obs.violation("f64-beyond-2ulp", case, &format!("impl {:e} reference {:e}", v, reference));
            }
        }
    } else if let Err(e) = r {
        // must not refuse a plain integer < 2^53 or a short decimal
        let neg = d.first() == Some(&b'-');
        let _ = neg;
        if grammar_ok {
            let body: Vec<u8> = d.iter().copied().filter(|b| *b != b'+' && *b != b'-').collect();
            let sign_chars = d.len() - body.len();
            let digits: Vec<u8> = body.iter().copied().filter(|b| b.is_ascii_digit()).collect();
            let dot = body.iter().position(|b| *b == b'.');
            let frac = dot.map(|p| body.len() - p - 1).unwrap_or(0);
            let as_int = ref_int(if digits.is_empty() { b"x" } else { &digits }, false).map(|x| x.1);
            // a clean rendering: one optional sign, digits, optionally '.' followed by 1..=22 digits
            let clean = sign_chars <= 1 && !digits.is_empty() && (dot.is_none() || (frac >= 1 && frac <= 22)) && d.iter().skip(1).all(|b| *b != b'+' && *b != b'-');
            if clean && as_int.map(|v| v < (1u128 << 53)).unwrap_or(false) {
                obs.violation("f64-refuses-exact", case, &format!("{:?}", e));
            }
        }
    }
}

pub fn gen(g: &mut Gen) {
    let ops = ["u64", "i64", "f64"];
    // 1. exhaustive over {0,9,5,+,-,.,x}
    let alpha = b"095+-.x";
    let maxlen = g.budget(5, 7);
    let mut cur: Vec<u8> = vec![];
    fn rec(g: &mut Gen, alpha: &[u8], cur: &mut Vec<u8>, maxlen: usize, ops: &[&str]) {
        for op in ops {
            g.emit(format!("{} {}", op, hex(cur)));
        }
        if cur.len() <= 3 {
            g.emit(format!("bool {}", hex(cur)));
        }
        if cur.len() == maxlen {
            return;
        }
        for &a in alpha {
            cur.push(a);
            rec(g, alpha, cur, maxlen, ops);
            cur.pop();
        }
    }
    rec(g, alpha, &mut cur, maxlen, &ops);
    g.count("exhaustive-alphabet-7");
    // bool neighbourhood
    for s in ["yes", "no", "Yes", "NO", "ye", "yess", "n", "noo", "y", "1", "0", "true", "false", "yes ", " no"] {
        g.emit(format!("bool {}", hex(s.as_bytes())));
    }
    // 2. boundary neighbourhoods
    let mut centers: Vec<u128> = vec![
        u64::MAX as u128, i64::MAX as u128, (i64::MAX as u128) + 1, 1u128 << 53, (1u128 << 53) - 1, 1u128 << 32, u32::MAX as u128,
        (u64::MAX as u128) * 10, 1u128 << 64, 1u128 << 65, 0,
    ];
    let mut p: u128 = 1;
    for _ in 0..26 { centers.push(p); p *= 10; }
    for c in centers {
        for delta in -3i64..=3 {
            let v = if delta < 0 { c.saturating_sub((-delta) as u128) } else { c + delta as u128 };
            for prefix in ["", "+", "-", "0", "000", "+00", "-0", "-+", "+-", "--"] {
                let s = format!("{}{}", prefix, v);
                for op in ops { g.emit(format!("{} {}", op, hex(s.as_bytes()))); }
                // as fractions with k digits after the point
                let txt = v.to_string();
                for k in [1usize, 2, 5, 15, 16, 17, 20, 21, 22, 23, 24] {
                    let f = if txt.len() > k {
                        format!("{}{}.{}", prefix, &txt[..txt.len() - k], &txt[txt.len() - k..])
                    } else {
                        format!("{}0.{}{}", prefix, "0".repeat(k - txt.len()), txt)
                    };
                    g.emit(format!("f64 {}", hex(f.as_bytes())));
                }
            }
        }
    }
    g.count("boundary-neighbourhoods");
    // 3. random digit strings (long), optional sign / dot / one foreign byte
    let n = g.budget(20_000, 400_000);
    for _ in 0..n {
        let len = g.rng.range(1, 26);
        let mut s: Vec<u8> = (0..len).map(|_| b'0' + g.rng.below(10) as u8).collect();
        if g.rng.chance(1, 3) { let lz = g.rng.below(4); for _ in 0..lz { s.insert(0, b'0'); } }
        if g.rng.chance(1, 2) { let p = g.rng.below(s.len() + 1); s.insert(p, b'.'); }
        match g.rng.below(6) { 0 => s.insert(0, b'-'), 1 => s.insert(0, b'+'), _ => {} }
        if g.rng.chance(1, 12) { let p = g.rng.below(s.len() + 1); let fb = *g.rng.pick(b"eE, _\x00\xffa/:"); s.insert(p, fb); }
        let op = ops[g.rng.below(3)];
        g.emit(format!("{} {}", op, hex(&s)));
    }
    g.count("random-long");
}

pub fn tables() -> String {
    // length of the power-of-ten table: largest k such that "0." followed by k zeros converts
    let mut k = 0usize;
    loop {
        let s = format!("0.{}", "0".repeat(k + 1));
        if Scalar::new(s.as_bytes()).to_f64().is_ok() { k += 1; } else { break; }
        if k > 400 { break; }
    }
    format!("/-- largest number of fraction digits `to_f64` accepts (measured: `POWER_OF_TEN.len() - 1`) -/\ndef maxFractionDigits : Nat := {}\n\n", k)
}
