//! C12 — string decoding always yields valid UTF-8 equal to the reference mapping.
//! ops: `w1252 <hex>` / `utf8 <hex>` -> `B:<hex>` (Cow::Borrowed) or `O:<hex>` (Cow::Owned),
//!      hex = the UTF-8 bytes of the returned string;
//!      `trim <hex>` -> hex (hook `trim_ascii_end`);
//!      `czb <u64>` -> bool (hook `contains_zero_byte`); `rep <u8>` -> u64 (hook `repeat_byte`).
use crate::common::*;
use jomini::verif_hooks::{contains_zero_byte, repeat_byte, trim_ascii_end};
use jomini::{Utf8Encoding, Windows1252Encoding};
use std::borrow::Cow;

/// Independent reference: the Windows-1252 code page (WHATWG index; the five unassigned
/// bytes map to the C1 controls of the same number).
const CP1252_HIGH: [u32; 32] = [
    0x20AC, 0x0081, 0x201A, 0x0192, 0x201E, 0x2026, 0x2020, 0x2021, 0x02C6, 0x2030, 0x0160, 0x2039, 0x0152, 0x008D, 0x017D, 0x008F,
    0x0090, 0x2018, 0x2019, 0x201C, 0x201D, 0x2022, 0x2013, 0x2014, 0x02DC, 0x2122, 0x0161, 0x203A, 0x0153, 0x009D, 0x017E, 0x0178,
];

fn ref_cp1252(b: u8) -> char {
    if (0x80..0xA0).contains(&b) {
        char::from_u32(CP1252_HIGH[(b - 0x80) as usize]).unwrap()
    } else {
        b as char
    }
}

/// Rust's `u8::is_ascii_whitespace` written out: space, \t, \n, \x0C, \r (not \x0B).
fn ref_ws(b: u8) -> bool {
    matches!(b, 0x20 | 0x09 | 0x0A | 0x0C | 0x0D)
}

fn ref_trim(d: &[u8]) -> &[u8] {
    match d.iter().rposition(|b| !ref_ws(*b)) {
        Some(p) => &d[..=p],
        None => &d[..0],
    }
}

fn ref_unescape(d: &[u8]) -> Vec<u8> {
    d.iter().copied().filter(|b| *b != b'\\').collect()
}

/// Independent lossy decoder (Unicode "maximal subpart" practice, Table 3-7 of the standard):
/// a well-formed sequence is copied, otherwise the longest prefix of a well-formed sequence
/// (at least one byte) becomes one U+FFFD.
fn ref_lossy(d: &[u8]) -> String {
    let mut out = String::new();
    let mut i = 0;
    while i < d.len() {
        let b0 = d[i];
        // (length, allowed range of the second byte)
        let (n, lo, hi) = match b0 {
            0x00..=0x7F => (1, 0, 0),
            0xC2..=0xDF => (2, 0x80, 0xBF),
            0xE0 => (3, 0xA0, 0xBF),
            0xE1..=0xEC | 0xEE..=0xEF => (3, 0x80, 0xBF),
            0xED => (3, 0x80, 0x9F),
            0xF0 => (4, 0x90, 0xBF),
            0xF1..=0xF3 => (4, 0x80, 0xBF),
            0xF4 => (4, 0x80, 0x8F),
            _ => (0, 0, 0),
        };
        if n == 0 {
            out.push('\u{FFFD}');
            i += 1;
            continue;
        }
        let mut k = 1;
        while k < n {
            match d.get(i + k) {
                Some(&c) if (k == 1 && lo <= c && c <= hi) || (k > 1 && (0x80..=0xBF).contains(&c)) => k += 1,
                _ => break,
            }
        }
        if k == n {
            let mut cp: u32 = match n { 1 => b0 as u32, 2 => (b0 & 0x1F) as u32, 3 => (b0 & 0x0F) as u32, _ => (b0 & 0x07) as u32 };
            for j in 1..n { cp = (cp << 6) | (d[i + j] & 0x3F) as u32; }
            out.push(char::from_u32(cp).expect("reference produced a non-scalar"));
        } else {
            out.push('\u{FFFD}');
        }
        i += k;
    }
    out
}

fn show(c: &Cow<str>) -> String {
    match c {
        Cow::Borrowed(s) => format!("B:{}", hex(s.as_bytes())),
        Cow::Owned(s) => format!("O:{}", hex(s.as_bytes())),
    }
}

fn oracle(which: &str, d: &[u8], r: &Cow<str>, expect: &str, case: &str, obs: &mut Obs) {
    // 1. the returned &str / String really is UTF-8 (it was built with from_utf8_unchecked)
    if std::str::from_utf8(r.as_bytes()).is_err() {
        obs.violation(&format!("{}-invalid-utf8", which), case, &hex(r.as_bytes()));
        return;
    }
    // 2. equals the reference mapping
    if r.as_ref() != expect {
        obs.violation(&format!("{}-not-reference", which), case, &format!("impl {} reference {}", hex(r.as_bytes()), hex(expect.as_bytes())));
    }
    // 3. zero-copy: escape-free ASCII must come back borrowed, and a borrowed result must
    //    point into the input (that is what lets &str fields borrow)
    let t = ref_trim(d);
    let plain = t.iter().all(|b| b.is_ascii() && *b != b'\\');
    match r {
        Cow::Borrowed(s) => {
            // (an EMPTY borrowed result may point anywhere: pointer identity means nothing for zero bytes)
            if !(s.len() == t.len() && (s.is_empty() || s.as_ptr() == d.as_ptr())) {
                obs.violation(&format!("{}-borrowed-not-input-prefix", which), case, "");
            }
            obs.count(&format!("{}:borrowed", which));
        }
        Cow::Owned(_) => {
            if plain {
                obs.violation(&format!("{}-plain-ascii-not-borrowed", which), case, "");
            }
            obs.count(&format!("{}:owned", which));
        }
    }
    if t.len() != d.len() { obs.count(&format!("{}:trimmed", which)); }
    if t.contains(&b'\\') { obs.count(&format!("{}:escaped", which)); }
    if !t.is_ascii() { obs.count(&format!("{}:non-ascii", which)); }
}

pub fn exec(w: &[&str], obs: &mut Obs) -> Option<String> {
    let case = || w.join(" ");
    match w {
        ["w1252", h] => {
            let d = unhex(h)?;
            let r = Windows1252Encoding::decode(&d);
            let expect: String = ref_unescape(ref_trim(&d)).iter().map(|b| ref_cp1252(*b)).collect();
            oracle("w1252", &d, &r, &expect, &case(), obs);
            Some(show(&r))
        }
        ["utf8", h] => {
            let d = unhex(h)?;
            let r = Utf8Encoding::decode(&d);
            let un = ref_unescape(ref_trim(&d));
            let expect = ref_lossy(&un);
            // the hand-written reference itself is cross-checked against std
            if expect != String::from_utf8_lossy(&un) {
                obs.violation("utf8-reference-vs-std", &case(), &format!("reference {} std {}", hex(expect.as_bytes()), hex(String::from_utf8_lossy(&un).as_bytes())));
            }
            oracle("utf8", &d, &r, &expect, &case(), obs);
            if std::str::from_utf8(&un).is_err() { obs.count("utf8:replaced"); }
            Some(show(&r))
        }
        ["trim", h] => {
            let d = unhex(h)?;
            let r = trim_ascii_end(&d);
            if r != ref_trim(&d) {
                obs.violation("trim-not-reference", &case(), &hex(r));
            }
            Some(hex(r))
        }
        ["czb", x] => {
            let x: u64 = x.parse().ok()?;
            let r = contains_zero_byte(x);
            if r != x.to_le_bytes().contains(&0) {
                obs.violation("czb-not-reference", &case(), "");
            }
            Some(r.to_string())
        }
        ["rep", b] => {
            let b: u8 = b.parse().ok()?;
            let r = repeat_byte(b);
            if r != u64::from_le_bytes([b; 8]) {
                obs.violation("rep-not-reference", &case(), "");
            }
            Some(r.to_string())
        }
        _ => None,
    }
}

/// bytes that select every branch of both decoders and of the UTF-8 validator
const ALPHA: [u8; 40] = [
    0x00, b'a', b'z', 0x7F, b' ', b'\t', b'\n', 0x0B, 0x0C, b'\r', b'\\', b'"', 0x5B, 0x5D, // ascii, whitespace, escape and its neighbours
    0x80, 0x81, 0x8F, 0x90, 0x9F, 0xA0, 0xBF, // continuation bytes at the range edges (and cp1252 specials)
    0xC0, 0xC1, 0xC2, 0xDF, // 2-byte leads (C0/C1 invalid)
    0xE0, 0xE1, 0xEC, 0xED, 0xEE, 0xEF, // 3-byte leads
    0xF0, 0xF1, 0xF3, 0xF4, 0xF5, 0xFF, // 4-byte leads and beyond
    0xA7, 0xFE, 0x9D,
];

fn both(g: &mut Gen, d: &[u8]) {
    let h = hex(d);
    g.emit(format!("w1252 {}", h));
    g.emit(format!("utf8 {}", h));
}

fn template(kind: usize, len: usize) -> Vec<u8> {
    let pat: &[u8] = match kind {
        0 => b"abcdefghijklmnopqrstuvwxyz0123456789ABCDEFGHIJ",
        1 => b"J\xc3\xa5hk \xe2\x82\xac m\xf0\x9f\x98\x80 \\\"q\\\" \xc3\xa9\xed\x9f\xbf\xef\xbf\xbd x\xf4\x8f\xbf\xbf  \t",
        2 => b"name \\\"x\\\" of the \xa7Y realm\xa7! \n\r\n",
        _ => b"\xe0\xa0\x80\xe1\x80\x80\xec\xbf\xbf\xed\x80\x80\xee\x80\x80\xf0\x90\x80\x80\xf1\x80\x80\x80\xf3\xbf\xbf\xbf\xf4\x80\x80\x80\xc2\x80\xdf\xbfab",
    };
    pat.iter().copied().cycle().take(len).collect()
}

pub fn gen(g: &mut Gen) {
    // hooks: trim / contains_zero_byte / repeat_byte
    for b in 0..=255u8 { g.emit(format!("rep {}", b)); }
    for i in 0..2000 {
        let mut x = g.rng.next();
        // plant zero bytes / bytes around 0x00, 0x01, 0x80 at random positions
        for _ in 0..g.rng.below(4) {
            let p = g.rng.below(8) * 8;
            let v = *g.rng.pick(&[0u64, 1, 0x80, 0x7F, 0xFF, 0x81]);
            x = (x & !(0xFFu64 << p)) | (v << p);
        }
        if i < 9 { x = if i == 8 { u64::MAX } else { !(0xFFu64 << (i * 8)) }; }
        g.emit(format!("czb {}", x));
    }
    g.count("hooks");
    // 1. every string of length <= 2 over all 256 bytes
    both(g, &[]);
    for a in 0..=255u8 {
        both(g, &[a]);
        g.emit(format!("trim {}", hex(&[a])));
        for b in 0..=255u8 {
            both(g, &[a, b]);
        }
    }
    g.count("exhaustive-len<=2");
    // 2. every string of length 3 over the significant alphabet
    for &a in &ALPHA { for &b in &ALPHA { for &c in &ALPHA {
        both(g, &[a, b, c]);
        g.emit(format!("trim {}", hex(&[a, b, c])));
    } } }
    g.count("exhaustive-len3-alpha40");
    // 3. every single-byte perturbation at every offset of templates of length 0..40
    //    (lengths cross the 8-byte chunk boundaries of decode_utf8 five times)
    let kinds = g.budget(2, 4);
    for kind in 0..kinds {
        for len in 0..=40usize {
            let t = template(kind, len);
            both(g, &t);
            for off in 0..len {
                // quick: all 256 values for the plain template, the significant alphabet otherwise
                let full = g.thorough || kind == 0;
                let mut one = |g: &mut Gen, v: u8| {
                    let mut m = t.clone();
                    m[off] = v;
                    // alternate the decoder, both for the bytes that matter most
                    if v == b'\\' || v >= 0x80 || ref_ws(v) { both(g, &m); }
                    else if (off + v as usize) % 2 == 0 { g.emit(format!("w1252 {}", hex(&m))); }
                    else { g.emit(format!("utf8 {}", hex(&m))); }
                };
                if full { for v in 0..=255u8 { one(g, v); } } else { for &v in &ALPHA { one(g, v); } }
            }
        }
    }
    g.count("perturbations");
    // 4. valid / invalid UTF-8 sequences: every lead with boundary continuations, truncated,
    //    embedded at every alignment of the 8-byte chunk loop, with and without an escape
    let conts: [u8; 8] = [0x7F, 0x80, 0x8F, 0x90, 0x9F, 0xA0, 0xBF, 0xC0];
    let mut seqs: Vec<Vec<u8>> = vec![];
    for lead in 0xC0..=0xFFu8 {
        seqs.push(vec![lead]);
        for &c1 in &conts {
            seqs.push(vec![lead, c1]);
            for &c2 in &[0x7Fu8, 0x80, 0xBF, 0xC0] {
                seqs.push(vec![lead, c1, c2]);
                if lead >= 0xF0 {
                    for &c3 in &[0x7Fu8, 0x80, 0xBF, 0xC0] { seqs.push(vec![lead, c1, c2, c3]); }
                }
            }
        }
    }
    let step = g.budget(7, 1);
    for (n, s) in seqs.iter().enumerate() {
        g.emit(format!("utf8 {}", hex(s)));
        if n % step != 0 { continue; }
        let pad = n % 9; // alignment inside / across chunks
        let mut d: Vec<u8> = template(0, pad);
        d.extend_from_slice(s);
        d.extend_from_slice(b"xy");
        both(g, &d);
        let mut e = d.clone();
        e.insert(g.rng.below(d.len() + 1), b'\\');
        both(g, &e);
        d.push(b' ');
        both(g, &d);
    }
    g.count("utf8-sequences");
    // 5. random strings: bytes drawn from the alphabet / all bytes / valid scalars, any length
    let n = g.budget(20_000, 600_000);
    for _ in 0..n {
        let len = g.rng.size(48);
        let mode = g.rng.below(4);
        let mut d: Vec<u8> = vec![];
        while d.len() < len {
            match mode {
                0 => d.push(*g.rng.pick(&ALPHA)),
                1 => d.push(g.rng.below(256) as u8),
                2 => d.push(b' ' + g.rng.below(95) as u8),
                _ => {
                    // a random scalar value, encoded; sometimes damaged
                    let cp = match g.rng.below(4) { 0 => g.rng.below(0x80), 1 => g.rng.below(0x800), 2 => g.rng.below(0x10000), _ => g.rng.below(0x110000) } as u32;
                    if let Some(c) = char::from_u32(cp) {
                        let mut buf = [0u8; 4];
                        let s = c.encode_utf8(&mut buf).as_bytes().to_vec();
                        let cut = if g.rng.chance(1, 8) { g.rng.below(s.len()) + 1 } else { s.len() };
                        d.extend_from_slice(&s[..cut]);
                    }
                }
            }
        }
        if g.rng.chance(1, 3) { let p = g.rng.below(d.len() + 1); d.insert(p, b'\\'); }
        if g.rng.chance(1, 3) { for _ in 0..g.rng.below(4) { d.push(*g.rng.pick(b" \t\n\r\x0c\x0b")); } }
        both(g, &d);
        if g.rng.chance(1, 8) { g.emit(format!("trim {}", hex(&d))); }
    }
    g.count("random");
}

pub fn tables() -> String {
    // the Windows-1252 table as the public decoder sees it: code point of the single char
    // that `decode(&[b])` yields.  Three bytes cannot be probed alone (whitespace is trimmed,
    // the backslash is dropped), they are probed behind a non-space / in front of one.
    let mut vals: Vec<u64> = Vec::with_capacity(256);
    for b in 0..=255u8 {
        let probe = [0xFF, b, 0xFF];
        let s = Windows1252Encoding::decode(&probe);
        let cs: Vec<char> = s.chars().collect();
        let v = if b == b'\\' {
            // dropped by the decoder: the table entry is not observable; WINDOWS_1252[0x5c] is never read
            assert_eq!(cs.len(), 2);
            0x5c
        } else {
            assert_eq!(cs.len(), 3, "byte {:#x}", b);
            assert_eq!(cs[0], '\u{ff}');
            cs[1] as u64
        };
        // cross-check with the plain one-byte probe where it is observable
        let single = [b];
        let one = Windows1252Encoding::decode(&single);
        if !ref_ws(b) && b != b'\\' {
            assert_eq!(one.chars().next().map(|c| c as u64), Some(v));
        }
        vals.push(v);
    }
    crate::tables::emit_nat_table(
        "win1252",
        "code point of the char `Windows1252Encoding::decode` yields for each byte (measured; entry 0x5c is never read by the decoder)",
        &vals,
    ) + "\n"
}
