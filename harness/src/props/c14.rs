//! C14 — writing a parsed tape and re-parsing reproduces the same structure; writing is idempotent.
//!
//! op `wtape <indent_char> <indent_factor> <input hex> <tape> [rt]`
//!   real code: `TextTape::from_slice(input)` then `write_tape` with the given indent configuration;
//!   model: `writeTape` over `<tape>` (show.rs `text_tape` format, printed by the generator from the real
//!   parser; the harness re-checks that it is what the parser returns for `<input hex>`).
//!   result: output hex, or `err:parse` when the input does not parse (then `<tape>` is `err`).
//!   The optional marker `rt` says the input is a rendering of a document of the round-trippable subset:
//!   the L3 oracle then demands parse(write(parse x)) == parse x (tokens, offsets ignored) under EVERY
//!   indent configuration and that write∘parse is idempotent on its own output.
use crate::common::*;
use crate::docgen::{self, Doc, DocCfg, Field, LayoutCfg, Node, Op};
use crate::show;
use jomini::{TextTape, TextWriterBuilder};

fn write_with(tape: &TextTape, ic: u8, fac: u8) -> Result<Vec<u8>, String> {
    let mut w = TextWriterBuilder::new().indent_char(ic).indent_factor(fac).from_writer(Vec::new());
    match w.write_tape(tape) {
        Ok(()) => Ok(w.into_inner()),
        Err(e) => Err(match e.kind() {
            jomini::ErrorKind::StackEmpty { .. } => "err:stackempty".to_string(),
            _ => "err:other".to_string(),
        }),
    }
}

pub fn exec(w: &[&str], obs: &mut Obs) -> Option<String> {
    match w {
        ["wtape", c, f, h, tape_txt, rest @ ..] => {
            let ic: u8 = c.parse().ok()?;
            let fac: u8 = f.parse().ok()?;
            let input = unhex(h)?;
            let rt = rest.first() == Some(&"rt");
            let case = w.join(" ");
            let tape = match TextTape::from_slice(&input) {
                Ok(t) => t,
                Err(_) => {
                    if *tape_txt != "err" { return Some("bad-case".to_string()); }
                    obs.count("parse-error");
                    return Some("err:parse".to_string());
                }
            };
            let t1 = show::text_tape(tape.tokens());
            if t1 != *tape_txt { return Some("bad-case".to_string()); }
            let out = match write_with(&tape, ic, fac) {
                Ok(o) => o,
                Err(e) => { obs.count("write-error"); return Some(e); }
            };
            oracle(&input, &t1, &out, ic, fac, rt, &case, obs);
            Some(hex(&out))
        }
        // implementation-only probe (not diffed): tape, written text, tape of the written text
        ["x-wtape", c, f, h] => {
            let ic: u8 = c.parse().ok()?;
            let fac: u8 = f.parse().ok()?;
            let input = unhex(h)?;
            let tape = match TextTape::from_slice(&input) { Ok(t) => t, Err(_) => return Some("err:parse".to_string()) };
            let t1 = show::text_tape(tape.tokens());
            let out = match write_with(&tape, ic, fac) { Ok(o) => o, Err(e) => return Some(format!("{} {}", t1, e)) };
            let t2 = TextTape::from_slice(&out).map(|t| show::text_tape(t.tokens())).unwrap_or("err:parse".to_string());
            Some(format!("{} {} {} {}", t1, hex(&out), t2, if t1 == t2 { "same" } else { "DIFFERENT" }))
        }
        // `write_tape` into a writer that takes <cap> bytes and then fails (model: writeTapeF, Model/WriterSink.lean):
        // must return Err(io) (never panic) iff the output is longer, and what reached the writer is a prefix of the
        // full output
        ["wtapew", c, f, cap_s, h, tape_txt] => {
            let ic: u8 = c.parse().ok()?;
            let fac: u8 = f.parse().ok()?;
            let cap: usize = cap_s.parse().ok()?;
            let input = unhex(h)?;
            let case = w.join(" ");
            let tape = match TextTape::from_slice(&input) {
                Ok(t) => t,
                Err(_) => { if *tape_txt != "err" { return Some("bad-case".to_string()); } return Some("err:parse".to_string()); }
            };
            if show::text_tape(tape.tokens()) != *tape_txt { return Some("bad-case".to_string()); }
            let full = match write_with(&tape, ic, fac) { Ok(o) => o, Err(e) => return Some(e) };
            let mut sink = FailingWriter { cap, got: vec![] };
            let res = {
                let mut wr = TextWriterBuilder::new().indent_char(ic).indent_factor(fac).from_writer(&mut sink);
                wr.write_tape(&tape)
            };
            let ok = res.is_ok();
            if !full.starts_with(&sink.got) || sink.got.len() != cap.min(full.len()) {
                obs.violation("failing-writer-prefix", &case, &format!("writer got {} full output {}", hex(&sink.got), hex(&full)));
            }
            if ok != (cap >= full.len()) {
                obs.violation("failing-writer-result", &case, &format!("cap {} output length {} result ok={}", cap, full.len(), ok));
            }
            let kind = match &res {
                Ok(()) => "ok".to_string(),
                Err(e) => match e.kind() { jomini::ErrorKind::Io(_) => "err:io".to_string(), jomini::ErrorKind::StackEmpty { .. } => "err:stackempty".to_string(), k => { obs.violation("failing-writer-error-kind", &case, &format!("{:?}", k)); "err:other".to_string() } },
            };
            obs.count(if ok { "wtapew:ok" } else { "wtapew:err" });
            Some(format!("{} {}", kind, hex(&sink.got)))
        }
        _ => None,
    }
}

/// a sink that accepts `cap` bytes and then fails every non-empty write
#[derive(Debug)]
pub struct FailingWriter { pub cap: usize, pub got: Vec<u8> }
impl std::io::Write for FailingWriter {
    fn write(&mut self, buf: &[u8]) -> std::io::Result<usize> {
        let room = self.cap - self.got.len();
        if room == 0 && !buf.is_empty() { return Err(std::io::Error::new(std::io::ErrorKind::Other, "writer full")); }
        let k = room.min(buf.len());
        self.got.extend_from_slice(&buf[..k]);
        Ok(k)
    }
    fn flush(&mut self) -> std::io::Result<()> { Ok(()) }
}

/// Known finding W1 (writer.rs:750/765): a parameter block with a *scalar* value leaves the machine
/// waiting for `=`; harmless only when a real `}` follows (possibly after the `]` of enclosing
/// object-valued blocks, which are written raw).  Shape test on the tape.
fn shape_param_scalar(toks: &[&str]) -> bool {
    let is_param = |t: &str| t.starts_with("P:") || t.starts_with("N:");
    let is_scalar = |t: &str| t.starts_with("U:") || t.starts_with("Q:");
    for i in 0..toks.len() {
        if is_param(toks[i]) && i + 1 < toks.len() && is_scalar(toks[i + 1]) {
            let mut j = i + 2;
            loop {
                match toks.get(j) {
                    Some(t) if t.starts_with('E') => {
                        let start: usize = t[1..].parse().unwrap_or(0);
                        // the end of an object-valued parameter block is written as a raw `]`: keep looking
                        if start >= 1 && is_param(toks[start - 1]) { j += 1; continue; }
                        break; // a real container end resets the state
                    }
                    _ => return true,
                }
            }
        }
    }
    false
}

/// Known finding W2: `mixed_mode` stays set from a `MixedContainer` token until the next `write_end`,
/// so an operator inside an *object* nested in the list is written on the mixed branch.
fn shape_mixed_nested_operator(toks: &[&str]) -> bool {
    for i in 0..toks.len() {
        if toks[i] != "M" { continue; }
        let mut open: Vec<&str> = vec![];
        for t in &toks[i + 1..] {
            if t.starts_with('E') {
                // the end of an object-valued parameter block is a raw `]`: no `write_end`, the mode stays on
                let start: usize = t[1..].parse().unwrap_or(0);
                if start >= 1 && (toks[start - 1].starts_with("P:") || toks[start - 1].starts_with("N:")) { open.pop(); continue; }
                break;
            }
            if (t.starts_with('A') || t.starts_with('O')) && t[1..].trim_start_matches('m').parse::<usize>().is_ok() { open.push(t); continue; }
            if t.starts_with("Op:") {
                if let Some(c) = open.last() { if c.starts_with('O') && !c.starts_with("Om") { return true; } }
            }
        }
    }
    false
}

/// Reported with C14_roundtrip_full (`FFields.paramHdr`): the value of a parameter block directly followed by a
/// container is the header of that container (`[[p] v ] { … }`); `write_tape` writes `[[p] v { … }]`, which
/// re-reads as an object-valued block.
fn shape_param_header(toks: &[&str]) -> bool {
    (0..toks.len()).any(|i| (toks[i].starts_with("P:") || toks[i].starts_with("N:")) && toks.get(i + 1).map_or(false, |t| t.starts_with("H:")))
}

/// Reported with C14_roundtrip_full (`gluesOp`): two adjacent operator tokens in the array part of a mixed array
/// are written glued in mixed mode: `= =` becomes `==`, `< =` becomes `<=`.
fn shape_adjacent_operators(toks: &[&str]) -> bool {
    (0..toks.len()).any(|i| matches!(toks[i], "Op:eq" | "Op:lt" | "Op:gt") && matches!(toks.get(i + 1).copied(), Some("Op:eq") | Some("Op:exact")))
}

/// Reported with C14_roundtrip_full (`bareQuestion`): the bare scalar `?` followed by `=` / `==` directly behind the
/// first element of an array: written `{ 1 ?=b }`, which re-reads as the object `1 ?= b`.
fn shape_bare_question(toks: &[&str]) -> bool {
    (0..toks.len()).any(|i| toks[i].starts_with("Am") && toks.get(i + 1).map_or(false, |t| t.starts_with("U:") || t.starts_with("Q:"))
        && toks.get(i + 2).copied() == Some("M") && toks.get(i + 3).copied() == Some("U:3f")
        && matches!(toks.get(i + 4).copied(), Some("Op:eq") | Some("Op:exact")))
}

/// The runner keeps at most 200 violations per run: record only the first few witnesses of each
/// *known* finding so that they can never crowd out a new one (all of them are still counted).
static KNOWN_SEEN: [std::sync::atomic::AtomicUsize; 8] = [std::sync::atomic::AtomicUsize::new(0), std::sync::atomic::AtomicUsize::new(0), std::sync::atomic::AtomicUsize::new(0), std::sync::atomic::AtomicUsize::new(0), std::sync::atomic::AtomicUsize::new(0), std::sync::atomic::AtomicUsize::new(0), std::sync::atomic::AtomicUsize::new(0), std::sync::atomic::AtomicUsize::new(0)];
const KNOWN_KEEP: usize = 40;

fn report(obs: &mut Obs, kind: &str, case: &str, detail: &str) {
    let slot = match kind { "roundtrip-param-scalar" => Some(0), "roundtrip-mixed-nested-operator" => Some(1), "roundtrip-bom-key" => Some(2), "roundtrip-empty-first-element" => Some(3), "roundtrip-header-empty-body" => Some(4),
        "roundtrip-param-header" => Some(5), "roundtrip-mixed-adjacent-operators" => Some(6), "roundtrip-mixed-bare-question-key" => Some(7), _ => None };
    if let Some(i) = slot {
        if KNOWN_SEEN[i].fetch_add(1, std::sync::atomic::Ordering::Relaxed) >= KNOWN_KEEP {
            obs.count(&format!("known-finding-not-listed-again:{}", kind));
            return;
        }
    }
    obs.violation(kind, case, detail);
}

fn oracle(_input: &[u8], t1: &str, out: &[u8], ic: u8, fac: u8, rt: bool, case: &str, obs: &mut Obs) {
    let toks: Vec<&str> = t1.split(',').collect();
    let has_mixed_object = toks.iter().any(|t| t.starts_with("Om"));
    let w1 = shape_param_scalar(&toks);
    let w2 = shape_mixed_nested_operator(&toks);
    // known finding `roundtrip-bom-key`: the first key is an unquoted scalar starting with EF BB BF (it can
    // only get into a tape when blanks precede it); written first in the file it is taken for a BOM
    let w3 = toks.first().map_or(false, |t| t.starts_with("U:efbbbf"));
    if rt && w3 { obs.count("shape:bom-key"); }
    // the format's ghost shapes: a container that is written first inside `{` and has empty content is dropped
    // on re-reading.  w4: an array whose first element is an empty container; w5: a header whose body is empty.
    let is_empty_at = |i: usize| toks.get(i).map_or(false, |t| *t == format!("A{}", i + 1)) && toks.get(i + 1).map_or(false, |t| *t == format!("E{}", i));
    let is_array = |t: &str| t.starts_with('A') && t[1..].trim_start_matches('m').parse::<usize>().is_ok();
    let w4 = (0..toks.len()).any(|i| is_array(toks[i]) && !is_empty_at(i) && is_empty_at(i + 1));
    let w5 = (0..toks.len()).any(|i| toks[i].starts_with("H:") && is_empty_at(i + 1));
    let w6 = shape_param_header(&toks);
    let w7 = shape_adjacent_operators(&toks);
    let w8 = shape_bare_question(&toks);
    if rt && w6 { obs.count("shape:param-header"); }
    if rt && w7 { obs.count("shape:mixed-adjacent-operators"); }
    if rt && w8 { obs.count("shape:mixed-bare-question-key"); }
    if rt && w4 { obs.count("shape:empty-first-element"); }
    if rt && w5 { obs.count("shape:header-empty-body"); }
    if rt && w1 { obs.count("shape:param-scalar"); }
    if rt && w2 { obs.count("shape:mixed-nested-operator"); }
    // every divergence of a tape with a known-finding shape is reported under that finding's kind;
    // everything else keeps the general kinds and is a real violation
    let kind = |general: &'static str| -> &'static str {
        if w3 { "roundtrip-bom-key" } else if w1 { "roundtrip-param-scalar" } else if w2 { "roundtrip-mixed-nested-operator" }
        else if w4 { "roundtrip-empty-first-element" } else if w5 { "roundtrip-header-empty-body" }
        else if w6 { "roundtrip-param-header" } else if w7 { "roundtrip-mixed-adjacent-operators" }
        else if w8 { "roundtrip-mixed-bare-question-key" } else { general }
    };
    match TextTape::from_slice(out) {
        Err(e) => {
            if rt { report(obs, kind("roundtrip-output-does-not-parse"), case, &format!("{} {:?}", hex(out), e)); return; }
            else { obs.count("garbage:output-does-not-parse"); }
        }
        Ok(tape2) => {
            let t2 = show::text_tape(tape2.tokens());
            if t2 != t1 {
                if rt { report(obs, kind("roundtrip"), case, &format!("written {} parses to {}", hex(out), t2)); return; }
                obs.count(if has_mixed_object { "not-preserved:mixed-object" } else if w1 { "not-preserved:param-scalar(known)" } else if w2 { "not-preserved:mixed-nested-operator(known)" } else { "garbage:not-preserved" });
            } else {
                obs.count(if rt { "roundtrip-ok" } else { "other-roundtrip-ok" });
            }
            // write∘parse is idempotent on its own output
            match write_with(&tape2, ic, fac) {
                Ok(out2) => {
                    if out2 != out {
                        if rt { report(obs, kind("idempotent"), case, &format!("first {} second {}", hex(out), hex(&out2))); return; }
                        else { obs.count("garbage:not-idempotent"); }
                    } else { obs.count("idempotent-ok"); }
                }
                Err(e) => { if rt { report(obs, kind("idempotent"), case, &format!("second write fails {}", e)); return; } }
            }
        }
    }
    if rt {
        // every indent configuration (the case line names one; the structure must survive all of them)
        let tape = TextTape::from_slice(_input).unwrap();
        for c in [b' ', b'\t'] {
            for f in 0..=9u8 {
                if (c, f) == (ic, fac) { continue; }
                match write_with(&tape, c, f).ok().and_then(|o| TextTape::from_slice(&o).ok().map(|t| show::text_tape(t.tokens()))) {
                    Some(t) if t == t1 => {}
                    other => { report(obs, kind("roundtrip-indent-config"), case, &format!("indent {} x{}: {:?}", c, f, other)); return; }
                }
            }
        }
    }
}

// ---------------------------------------------------------------------------------------
// generators

/// arrays that turn into key-value lists: `k={ v1 v2 a=b c<d e={ x=y } }`.  `nested_ops` puts
/// non-`=` operators into objects nested in the list (known finding `roundtrip-mixed-nested-operator`).
fn mixed_array_text(rng: &mut Rng, nested_ops: bool) -> Vec<u8> {
    fn sc(rng: &mut Rng) -> &'static str { *rng.pick(&["a", "b1", "yes", "-5", "1.500", "\"q s\"", "@v", "x.y", "1444.11.11"]) }
    fn un(rng: &mut Rng) -> &'static str { *rng.pick(&["a", "b1", "k", "-5", "1.500", "x.y", "1444.11.11"]) }
    let mut s = String::new();
    let n = 1 + rng.size(3);
    for _ in 0..n {
        s.push_str(un(rng));
        s.push_str("={ ");
        for _ in 0..1 + rng.size(3) {
            if rng.chance(1, 6) { s.push_str("{ "); for _ in 0..rng.size(3) { s.push_str(sc(rng)); s.push(' '); } s.push_str("} "); } else { s.push_str(sc(rng)); s.push(' '); }
        }
        for _ in 0..1 + rng.size(4) {
            s.push_str(un(rng));
            s.push_str(*rng.pick(&["=", "=", " = ", "<", ">=", " != ", "=="]));
            match rng.below(6) {
                0 => { s.push_str("{ "); for _ in 0..rng.size(3) { s.push_str(sc(rng)); s.push(' '); } s.push_str("} "); }
                1 => {
                    s.push_str("{ ");
                    for _ in 0..1 + rng.size(2) { s.push_str(un(rng)); s.push_str(if nested_ops { *rng.pick(&["=", ">", "<=", "!="]) } else { "=" }); s.push_str(sc(rng)); s.push(' '); }
                    s.push_str("} ");
                }
                _ => { s.push_str(sc(rng)); s.push(' '); }
            }
        }
        s.push_str("} ");
        if rng.chance(1, 2) { s.push_str(un(rng)); s.push('='); s.push_str(sc(rng)); s.push(' '); }
    }
    s.into_bytes()
}

fn emit_input(g: &mut Gen, ic: u8, fac: u8, input: &[u8], rt: bool) {
    let tape = match TextTape::from_slice(input) {
        Ok(t) => show::text_tape(t.tokens()),
        Err(_) => "err".to_string(),
    };
    if tape == "err" { g.count("gen:input-does-not-parse"); }
    g.emit(format!("wtape {} {} {} {}{}", ic, fac, hex(input), tape, if rt && tape != "err" { " rt" } else { "" }));
}

fn indent_cfg(rng: &mut Rng) -> (u8, u8) {
    (if rng.chance(1, 2) { b' ' } else { b'\t' }, rng.below(10) as u8)
}

/// text with parameter blocks (`[[name] …]`, `[[!name] …]`) in the positions the game files use them.
/// `scalar_params_anywhere = false` keeps a scalar-valued block (`[[p] v ]`) directly before a `}`:
/// followed by anything else it is the known finding `roundtrip-param-scalar`
/// (the value's epilogue leaves the machine waiting for `=`).
fn param_text(rng: &mut Rng, scalar_params_anywhere: bool) -> Vec<u8> {
    fn key(rng: &mut Rng) -> &'static str { *rng.pick(&["a", "b1", "yes", "-5", "1.500", "x.y", "caf\u{e9}", "\"q k\""]) }
    fn scalar(rng: &mut Rng) -> &'static str { *rng.pick(&["a", "b1", "yes", "-5", "1.500", "\"q s\"", "\"\"", "@v", "x.y", "caf\u{e9}"]) }
    fn unq(rng: &mut Rng) -> &'static str { *rng.pick(&["a", "b1", "yes", "-5", "1.500", "x.y", "caf\u{e9}"]) }
    fn fields(rng: &mut Rng, depth: usize, anywhere: bool, in_param: bool, out: &mut String) {
        let n = rng.size(4);
        if in_param {
            // the parser reads the first token of a block with the unquoted-scalar splitter: a plain field first
            out.push_str(unq(rng)); out.push_str(*rng.pick(&["=", " = ", "<", " >= "])); out.push_str(scalar(rng)); out.push(' ');
        }
        for i in 0..n {
            match rng.below(if depth < 3 { 9 } else { 5 }) {
                0..=3 => { out.push_str(key(rng)); out.push_str(*rng.pick(&["=", " = ", "<", " >= ", "=="])); out.push_str(scalar(rng)); out.push(' '); }
                4 => { out.push_str("k={ "); let m = rng.size(3); for _ in 0..m { out.push_str(scalar(rng)); out.push(' '); } out.push_str("} "); }
                5 | 6 => {
                    out.push_str(if rng.chance(1, 2) { "[[" } else { "[[!" });
                    out.push_str(*rng.pick(&["p", "PARAM", "x_1"]));
                    out.push_str(*rng.pick(&["]", "] ", "]\n"]));
                    if rng.chance(1, 3) && (anywhere || (i + 1 == n && !in_param)) { out.push_str(unq(rng)); out.push(' '); }
                    else { fields(rng, depth + 1, anywhere, true, out); }
                    out.push_str("] ");
                }
                _ => { out.push_str("o={ "); fields(rng, depth + 1, anywhere, false, out); out.push_str("} "); }
            }
        }
    }
    let mut s = String::new();
    let n = 1 + rng.size(3);
    for _ in 0..n {
        s.push_str(*rng.pick(&["blk", "effect", "t"]));
        s.push_str("={ ");
        fields(rng, 0, scalar_params_anywhere, false, &mut s);
        s.push_str("} ");
    }
    // latin-1 bytes rather than utf-8 for the é
    s.chars().map(|c| if c == '\u{e9}' { 0xe9u8 } else { c as u8 }).collect()
}

pub fn gen_c14(g: &mut Gen) {
    // 0. the writer's own tape tests and small fixed shapes
    for t in [
        &b"hello=world"[..], b"vals={1 a=b d=f}", b"a={ }", b"a={ {} }", b"a=rgb { 1 2 3 }", b"a=LIST { {} }", b"a = { b = { c = { d } } }",
        b"a={1 2}=b", b"a > b c <= d e == f g != h i ?= j", b"\"q\"=\"x \\\" y\"", b"a={ [[p] b=c ] }", b"a={ [[!p] v ] x=y }", b"a={ [[p] b={c d} ] [[q] z ] }",
        b"a={b=c d e}", b"a={ b != c }", b"a={ b ?= c d=e }", b"on_actions = { x delay = { days = { 5 10 }} y delay = { days = { 15 20 }} z }",
        b"a={ {b=c} {d=e} }", b"a=hsv { 0.5 0.5 0.5 } b=hsv360 { 1 2 3 }", b"", b"a={", b"a=", b"}", b"a={b}}",
    ] {
        for (c, f) in [(b' ', 2u8), (b'\t', 1), (b' ', 0), (b' ', 9)] { emit_input(g, c, f, t, false); }
    }
    g.count("fixed");

    // 1. round-trippable documents x layouts x indent configurations
    let n = g.budget(2_500, 40_000);
    for i in 0..n {
        let cfg = DocCfg { mixed: false, max_depth: 1 + g.rng.below(5), ..DocCfg::text_full() };
        let mut doc = docgen::gen_doc(&mut g.rng, &cfg);
        // nest past the 16 byte indent cache
        if i % 4 == 0 {
            let k = g.rng.range(2, 22);
            for _ in 0..k {
                doc = Doc { fields: vec![Field { key: docgen::Leaf::Unq(b"n".to_vec()), op: Op::Eq, val: if doc.fields.is_empty() { Node::Arr(vec![]) } else { Node::Obj(doc.fields) }, ghosts: 0, implicit_eq: g.rng.chance(1, 4) }] };
            }
        }
        let lex = docgen::lexemes(&doc);
        let layouts = 1 + g.rng.below(2);
        for l in 0..layouts {
            let text = if l == 0 && g.rng.chance(1, 3) { docgen::render_canonical(&lex) } else { docgen::render_layout(&mut g.rng, &LayoutCfg::full(), &lex) };
            let k = 1 + g.rng.below(2);
            for _ in 0..k {
                let (ic, fac) = indent_cfg(&mut g.rng);
                emit_input(g, ic, fac, &text, true);
            }
        }
    }
    g.count("documents");

    // 2. parameter blocks
    let n = g.budget(1_500, 20_000);
    for i in 0..n {
        // one case in four lets scalar-valued blocks stand anywhere (known finding `roundtrip-param-scalar`)
        let anywhere = i % 4 == 3;
        let text = param_text(&mut g.rng, anywhere);
        let (ic, fac) = indent_cfg(&mut g.rng);
        emit_input(g, ic, fac, &text, true);
    }
    g.count("parameters");

    // 2b. arrays that turn into key-value lists
    let n = g.budget(1_000, 15_000);
    for i in 0..n {
        // one case in four puts non-`=` operators into the nested objects (known finding `roundtrip-mixed-nested-operator`)
        let nested_ops = i % 4 == 3;
        let text = mixed_array_text(&mut g.rng, nested_ops);
        let (ic, fac) = indent_cfg(&mut g.rng);
        emit_input(g, ic, fac, &text, true);
    }
    g.count("mixed-arrays");

    // 2c. known finding `roundtrip-bom-key`: a handful of probes per run, through the normal round-trip oracle
    for i in 0..5 {
        let blanks = *g.rng.pick(&[&b" "[..], b"\n", b"\t ", b"# c\n", b" \r\n"]);
        let mut text = blanks.to_vec();
        text.extend_from_slice(&[0xef, 0xbb, 0xbf]);
        text.extend_from_slice(*g.rng.pick(&[&b"a=b"[..], b"key = { x=y }", b"k<1 z=2", b"a=\"q\""]));
        if i % 2 == 0 { text.extend_from_slice(b" c=d"); }
        let (ic, fac) = indent_cfg(&mut g.rng);
        emit_input(g, ic, fac, &text, true);
    }
    g.count("bom-key-probes");

    // 2d. known findings `roundtrip-empty-first-element` / `roundtrip-header-empty-body`: the ghost shapes
    // of the format (only writable as `{ {} }`), in several positions
    for t in [
        &b"a={ { {} } x }"[..], b"a={ { {} } }", b"a={ { {} } 1 2 3 }", b"a={ { {} } { b=c } }", b"o={ k={ { {} } x } z=1 }",
        b"a={ 1 { { {} } y } }", b"a={ { { {} } } x }", b"a = { b = { c = { { {} } d e } } }", b"a={ {\n{ }\n} x } b=c",
    ] {
        let text: Vec<u8> = String::from_utf8_lossy(t).replace("\\n", "\n").into_bytes();
        let (ic, fac) = indent_cfg(&mut g.rng);
        emit_input(g, ic, fac, &text, true);
    }
    for t in [&b"a=rgb { {} }"[..], b"a=hsv { { } } b=c", b"o={ c=LIST { {} } d=e }", b"a={ x={ y=rgb { {} } } }", b"k < hdr { {  } }"] {
        let (ic, fac) = indent_cfg(&mut g.rng);
        emit_input(g, ic, fac, t, true);
    }
    g.count("ghost-shape-probes");

    // 2e. the FULL document type of C01 (`FFields`, what C14_roundtrip_full is about): random valid documents under
    // random layouts from the text-tape slice's generator — mixed containers with containers and `k=v` groups in
    // the array part, header / parameter block as first field, parameter value heading a container, arrays that
    // turn mixed, ghosts, implicit `=`, variables.  Objects that continue as a bare list (`Om…`) are outside the
    // property's quantifier: those go through the correspondence only.
    let n = g.budget(2_500, 40_000);
    for _ in 0..n {
        let text = crate::props::c01::gen_full_doc(&mut g.rng);
        if text.len() > 600 { continue; }
        let rt = match TextTape::from_slice(&text) {
            Ok(t) => !show::text_tape(t.tokens()).split(',').any(|t| t.starts_with("Om")),
            Err(_) => false,
        };
        let (ic, fac) = indent_cfg(&mut g.rng);
        emit_input(g, ic, fac, &text, rt);
        g.count(if rt { "full-type:rt" } else { "full-type:object-list(not-rt)" });
    }
    // the three shapes reported with C14_roundtrip_full, a few probes each
    for t in [&b"a={ [[p] v ] { b } }"[..], b"a={ [[!p] v ] { b=c } d=e }", b"a={ 1 b = = c }", b"a={ 1 b < = c }", b"a={ {x} 1 b > == c }",
              b"a={ 1 ? = b }", b"a={ 1 ? == b c=d }"] {
        let (ic, fac) = indent_cfg(&mut g.rng);
        emit_input(g, ic, fac, t, true);
    }
    g.count("full-document-type");

    // 2f. `write_tape` into a writer that fails after n bytes, n = 0..=len (implementation-only)
    for t in [&b"a=b"[..], b"a={ b=c d={ 1 2 } } e=rgb { 1 2 3 }", b"a={ [[p] k=v ] x=\"q\" } b={ 1 c=d { e } }", b"k > 1 z={ } y={ {} }",
              b"a={ [[!p] k=v l={ m } ] [[!q] r ] }", b"a={ 1 b=c { d } = e f<g } \"q\"={ \"r\" }"] {
        let full_len = TextTape::from_slice(t).ok().and_then(|tp| write_with(&tp, b' ', 2).ok()).map_or(0, |o| o.len());
        let tp = TextTape::from_slice(t).map(|x| show::text_tape(x.tokens())).unwrap_or("err".to_string());
        for cap in 0..=full_len + 1 { g.emit(format!("wtapew 32 2 {} {} {}", cap, hex(t), tp)); }
    }
    let n = g.budget(300, 6_000);
    for _ in 0..n {
        let text = crate::props::c01::gen_full_doc(&mut g.rng);
        if text.len() > 300 { continue; }
        let (ic, fac) = indent_cfg(&mut g.rng);
        let cap = g.rng.below(2 * text.len() + 4);
        let tp = TextTape::from_slice(&text).map(|x| show::text_tape(x.tokens())).unwrap_or("err".to_string());
        g.emit(format!("wtapew {} {} {} {} {}", ic, fac, cap, hex(&text), tp));
    }
    g.count("failing-writer");

    // 3. everything in C01's model including objects that continue as a bare list (not preserved: documented)
    let n = g.budget(1_000, 20_000);
    for _ in 0..n {
        let cfg = DocCfg { max_depth: 1 + g.rng.below(4), ..DocCfg::text_full() };
        let doc = docgen::gen_doc(&mut g.rng, &cfg);
        let text = docgen::render_layout(&mut g.rng, &LayoutCfg::full(), &docgen::lexemes(&doc));
        let (ic, fac) = indent_cfg(&mut g.rng);
        emit_input(g, ic, fac, &text, false);
    }
    g.count("full-model");

    // 4. malformed stream: mutations and random text over the significant alphabet
    let n = g.budget(3_000, 60_000);
    for i in 0..n {
        let text = if i % 3 == 0 { docgen::random_text(&mut g.rng, 24) } else {
            let cfg = DocCfg { max_depth: 3, ..DocCfg::text_full() };
            let doc = docgen::gen_doc(&mut g.rng, &cfg);
            let base = docgen::render_layout(&mut g.rng, &LayoutCfg::full(), &docgen::lexemes(&doc));
            docgen::mutate(&mut g.rng, &base, docgen::TEXT_ALPHABET)
        };
        let (ic, fac) = indent_cfg(&mut g.rng);
        emit_input(g, ic, fac, &text, false);
    }
    g.count("malformed");
}

pub fn gen(g: &mut Gen) { gen_c14(g) }

pub fn tables() -> String {
    String::new()
}
