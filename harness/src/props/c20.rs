//! C20 — underlying I/O failures surface as errors, never as silently wrong results (aggregate).
//! Reader-level ops and oracles live in the reader slices (text `tstream`/`tretry`/… with F/P steps
//! in c07.rs, binary `bstream`/`bcalls`/`bskip`/`bread` in c08.rs).  This module assembles their
//! generators and adds the fault oracle for the reader-based DESERIALIZERS:
//!   x-fde-text <ty> <cap> <hex>   fault-free result first, then a transient (F) and a persistent (P)
//!   x-fde-bin  <ty> <cap> <hex>   fault at EVERY read-call index: each faulty run must be an error or
//!                                 equal the fault-free value, a persistent fault must end in an error
//!                                 unless the value was already complete, nothing panics
use crate::common::*;
use crate::docgen::{self, *};
use crate::sched::{SchedReader, Step};
use crate::tyseed::{err_class, parse_ty, show_ty, doc_ty, Ty, TySeed};
use jomini::binary::{FailedResolveStrategy, TokenReader as BinReader};
use jomini::text::TokenReader as TextReader;
use jomini::{BinaryDeserializer, TextDeserializer};
use serde::de::DeserializeSeed;

/// the io::ErrorKind an injected fault carries: the library must treat every kind as a failure
/// (`Interrupted`, `WouldBlock`, `UnexpectedEof`, `TimedOut` are the kinds generic code tends to special-case)
const KINDS: [std::io::ErrorKind; 5] = [std::io::ErrorKind::Other, std::io::ErrorKind::Interrupted, std::io::ErrorKind::WouldBlock, std::io::ErrorKind::UnexpectedEof, std::io::ErrorKind::TimedOut];
thread_local! { static KIND: std::cell::Cell<usize> = std::cell::Cell::new(0); }
struct KindReader<'a>(SchedReader<'a>);
impl<'a> std::io::Read for KindReader<'a> {
    fn read(&mut self, b: &mut [u8]) -> std::io::Result<usize> {
        self.0.read(b).map_err(|e| std::io::Error::new(KINDS[KIND.with(|k| k.get())], e.to_string()))
    }
}

fn run_text(ty: &Ty, cap: usize, d: &[u8], steps: Vec<Step>) -> (Result<String, String>, usize, usize) {
    let rd = KindReader(SchedReader::new(d, steps));
    let tr = TextReader::builder().buffer_len(cap).build(rd);
    let mut de = TextDeserializer::from_windows1252_reader(tr);
    let r = TySeed(ty).deserialize(&mut de).map_err(|e| format!("{}|{}", kind_class(&e), e));
    (r, 0, 0)
}

fn run_bin(ty: &Ty, cap: usize, d: &[u8], steps: Vec<Step>) -> Result<String, String> {
    let res = super::c05::resolver();
    let rd = KindReader(SchedReader::new(d, steps));
    let mut b = BinaryDeserializer::builder_flavor(super::c05::Flavor);
    b.on_failed_resolve(FailedResolveStrategy::Stringify);
    b.reader_config(BinReader::builder().buffer_len(cap));
    let mut de = b.from_reader(rd, &res);
    TySeed(ty).deserialize(&mut de).map_err(|e| format!("{}|{}", kind_class(&e), e))
}

/// error class by KIND (message texts may change freely)
fn kind_class(e: &jomini::Error) -> &'static str {
    match e.kind() {
        jomini::ErrorKind::Io(_) => "io",
        jomini::ErrorKind::Eof => "eof",
        jomini::ErrorKind::BufferFull => "full",
        jomini::ErrorKind::Deserialize(_) => "de",
        _ => "syntax",
    }
}

fn count_calls(d: &[u8], step: usize, cap: usize, text: bool, ty: &Ty) -> usize {
    // number of read calls of the fault-free run: replay with a counting reader
    struct Counting<'a> { inner: SchedReader<'a>, calls: std::rc::Rc<std::cell::Cell<usize>> }
    impl<'a> std::io::Read for Counting<'a> { fn read(&mut self, b: &mut [u8]) -> std::io::Result<usize> { self.calls.set(self.calls.get() + 1); self.inner.read(b) } }
    let calls = std::rc::Rc::new(std::cell::Cell::new(0));
    let rd = Counting { inner: SchedReader::new(d, vec![Step::Repeat(step)]), calls: calls.clone() };
    if text {
        let tr = TextReader::builder().buffer_len(cap).build(rd);
        let mut de = TextDeserializer::from_windows1252_reader(tr);
        let _ = TySeed(ty).deserialize(&mut de);
    } else {
        let res = super::c05::resolver();
        let mut b = BinaryDeserializer::builder_flavor(super::c05::Flavor);
        b.on_failed_resolve(FailedResolveStrategy::Stringify);
        b.reader_config(BinReader::builder().buffer_len(cap));
        let mut de = b.from_reader(rd, &res);
        let _ = TySeed(ty).deserialize(&mut de);
    }
    calls.get()
}

pub fn exec(w: &[&str], obs: &mut Obs) -> Option<String> {
    let case = w.join(" ");
    match w {
        [op @ ("x-fde-text" | "x-fde-bin"), ty, cap, step, h] => {
            let text = *op == "x-fde-text";
            let ty = parse_ty(ty)?;
            let cap: usize = cap.parse().ok()?;
            let step: usize = step.parse().ok()?;
            let d = unhex(h)?;
            let run = |steps: Vec<Step>| -> Result<String, String> { if text { run_text(&ty, cap, &d, steps).0 } else { run_bin(&ty, cap, &d, steps) } };
            let clean = run(vec![Step::Repeat(step)]);
            let ncalls = count_calls(&d, step, cap, text, &ty).min(60);
            let mut faults = 0;
            for i in 0..ncalls {
                // a PERSISTENT fault never carries Interrupted: code that retries interrupted reads (std's own convention) would spin
                for (persistent, kind) in [(false, 0usize), (true, 0), (false, 1 + i % 4), (true, 2 + (i + 1) % 3), (false, 1), (true, 3)] {
                    let mut steps: Vec<Step> = (0..i).map(|_| Step::Give(step)).collect();
                    steps.push(if persistent { Step::FailForever } else { Step::Fail });
                    steps.push(Step::Repeat(step));
                    KIND.with(|k| k.set(kind));
                    let r = run(steps);
                    KIND.with(|k| k.set(0));
                    faults += 1;
                    match (&r, &clean) {
                        (Ok(v), Ok(c)) if v == c => {
                            // allowed only if the fault was never needed (value complete before the failing call) --
                            // with a fault inside the fault-free run's call count this means the error was swallowed
                            // unless the failing call was the trailing end-of-input probe.  For the kinds generic
                            // code may legitimately retry (anything but Other) a transient fault that ends in the
                            // fault-free value is not held against the library: the property only forbids a
                            // DIFFERENT result; a persistent fault that was needed must still end in an error.
                            if i + 1 < ncalls && (kind == 0 || persistent) { obs.violation("fault-swallowed", &case, &format!("fault at read call {} (persistent={}, kind {:?}) of {}: still Ok with the full value; the error was not reported", i, persistent, KINDS[kind], ncalls)); }
                        }
                        (Ok(v), _) => { obs.violation("fault-wrong-value", &case, &format!("fault at read call {} (persistent={}, kind {:?}): Ok({}) but fault-free result is {:?}", i, persistent, KINDS[kind], v, clean)); }
                        (Err(e), _) => {
                            // the run is identical to the fault-free one up to read call i, where the read fails: the
                            // failure must reach the caller as an I/O error (by kind).  The only other acceptable outcome is
                            // the fault-free run's own error (a transient fault that was retried, for a document the target rejects)
                            let cls = e.split('|').next().unwrap_or("");
                            let clean_cls = match &clean { Err(c) => c.split('|').next().unwrap_or("").to_string(), Ok(_) => "ok".to_string() };
                            if cls != "io" && !(cls == clean_cls && !persistent) {
                                obs.violation("fault-not-io-error", &case, &format!("fault of kind {:?} at read call {} (persistent={}) of {} surfaced as `{}`, not as an I/O error (fault-free result class: {})", KINDS[kind], i, persistent, ncalls, e, clean_cls));
                            }
                        }
                    }
                }
            }
            obs.count(if text { "fde-text" } else { "fde-bin" });
            Some(format!("ok {} {}", match &clean { Ok(_) => "clean-ok".to_string(), Err(e) => err_class(e) }, faults))
        }
        [op @ ("x-ftok-text" | "x-ftok-bin"), cap, step, h] => {
            // token readers under faults of every io::ErrorKind at every read call: the run ends in the
            // reader's I/O error after a prefix of the fault-free tokens, or equals the fault-free run
            let text = *op == "x-ftok-text";
            let cap: usize = cap.parse().ok()?;
            let step: usize = step.parse().ok()?;
            let d = unhex(h)?;
            let run = |steps: Vec<Step>| -> (Vec<String>, String, usize) {
                let rd = KindReader(SchedReader::new(&d, steps));
                let mut toks = vec![];
                if text {
                    let mut tr = TextReader::builder().buffer_len(cap).build(rd);
                    loop {
                        match tr.next() {
                            Ok(Some(t)) => toks.push(format!("{:?}", t)),
                            Ok(None) => return (toks, "end".into(), tr.position()),
                            Err(e) => { let k = match e.kind() { jomini::text::ReaderErrorKind::Read(_) => "io".to_string(), o => format!("{:?}", o) }; return (toks, k, tr.position()); }
                        }
                        if toks.len() > 4096 { return (toks, "limit".into(), 0); }
                    }
                } else {
                    let mut tr = BinReader::builder().buffer_len(cap).build(rd);
                    loop {
                        match tr.next() {
                            Ok(Some(t)) => toks.push(format!("{:?}", t)),
                            Ok(None) => return (toks, "end".into(), tr.position()),
                            Err(e) => { let k = match e.kind() { jomini::binary::ReaderErrorKind::Read(_) => "io".to_string(), o => format!("{:?}", o) }; return (toks, k, tr.position()); }
                        }
                        if toks.len() > 4096 { return (toks, "limit".into(), 0); }
                    }
                }
            };
            let clean = run(vec![Step::Repeat(step)]);
            let ncalls = (d.len() / step.max(1) + 2).min(80);
            let mut faults = 0;
            for i in 0..ncalls {
                for (persistent, kind) in [(false, 1usize), (true, 4), (false, 2 + i % 3), (true, 2 + (i + 1) % 3)] {
                    let mut steps: Vec<Step> = (0..i).map(|_| Step::Give(step)).collect();
                    steps.push(if persistent { Step::FailForever } else { Step::Fail });
                    steps.push(Step::Repeat(step));
                    KIND.with(|k| k.set(kind));
                    let r = run(steps);
                    KIND.with(|k| k.set(0));
                    faults += 1;
                    let delivered_max = d.len();
                    if r.2 > delivered_max { obs.violation("fault-position", &case, &format!("position {} beyond the {} bytes of input", r.2, delivered_max)); }
                    if r.1 == "io" {
                        if !(r.0.len() <= clean.0.len() && r.0.iter().zip(clean.0.iter()).all(|(a, b)| a == b)) {
                            obs.violation("fault-wrong-tokens", &case, &format!("fault of kind {:?} at read call {} (persistent={}): tokens before the I/O error are not a prefix of the fault-free tokens", KINDS[kind], i, persistent));
                        }
                    } else if (r.0.clone(), r.1.clone()) != (clean.0.clone(), clean.1.clone()) {
                        obs.violation("fault-wrong-result", &case, &format!("fault of kind {:?} at read call {} (persistent={}): run ended with {} after {} tokens, fault-free run ends with {} after {} tokens; the failure was not reported as an I/O error", KINDS[kind], i, persistent, r.1, r.0.len(), clean.1, clean.0.len()));
                    }
                }
            }
            obs.count(if text { "ftok-text" } else { "ftok-bin" });
            Some(format!("ok {} {}", clean.1, faults))
        }
        _ => None,
    }
}

/// replace sequence targets of scalar arrays by fixed-length tuples (deserialize_tuple takes a different
/// path through the streaming deserializers: it has to fetch the closing token itself)
fn tuplify(rng: &mut crate::common::Rng, ty: &Ty, node: Option<&Node>) -> Ty {
    match (ty, node) {
        (Ty::Seq(inner), Some(Node::Arr(vs))) if !vs.is_empty() && vs.len() <= 6 && vs.iter().all(|v| matches!(v, Node::Leaf(_))) && rng.chance(2, 3) => Ty::Tuple(vec![(**inner).clone(); vs.len()]),
        (Ty::Opt(t), n) => Ty::Opt(Box::new(tuplify(rng, t, n))),
        _ => ty.clone(),
    }
}
pub fn tuplify_doc(rng: &mut crate::common::Rng, ty: &Ty, doc: &Doc) -> Ty {
    match ty {
        Ty::Struct(fs) => Ty::Struct(fs.iter().map(|(n, t)| {
            let node = doc.fields.iter().find(|f| crate::tyseed::key_name(&f.key).as_deref() == Some(n.as_str())).map(|f| &f.val);
            (n.clone(), tuplify(rng, t, node))
        }).collect()),
        _ => ty.clone(),
    }
}

pub fn gen_de_fault(g: &mut Gen) {
    let n = g.budget(400, 8000);
    for _ in 0..n {
        let ghosts = g.rng.chance(1, 3);
        let doc = docgen::gen_doc(&mut g.rng, &DocCfg { max_fields: 4, ghosts, ..DocCfg::shared() });
        let step = *g.rng.pick(&[1usize, 2, 3, 5, 8]);
        let cap = *g.rng.pick(&[64usize, 128, 4096]);
        let ty = doc_ty(&mut g.rng, &doc, false);
        let ty = tuplify_doc(&mut g.rng, &ty, &doc);
        let b = docgen::render_binary(&mut g.rng, &BinCfg::default(), &doc);
        if b.len() <= 200 { g.emit(format!("x-fde-bin {} {} {} {}", show_ty(&ty), cap, step, hex(&b))); }
        if b.len() <= 200 { g.emit(format!("x-ftok-bin {} {} {}", cap, step, hex(&b))); }
        let doc = docgen::gen_doc(&mut g.rng, &DocCfg { max_fields: 4, ..DocCfg::save_style() });
        let ty = doc_ty(&mut g.rng, &doc, true);
        let ty = tuplify_doc(&mut g.rng, &ty, &doc);
        let t = docgen::render_layout(&mut g.rng, &LayoutCfg { max_left_pad: 2, max_trailing: 2, ..LayoutCfg::reader_safe() }, &docgen::lexemes(&doc));
        if t.len() <= 200 { g.emit(format!("x-fde-text {} {} {} {}", show_ty(&ty), cap, step, hex(&t))); }
        if t.len() <= 200 { g.emit(format!("x-ftok-text {} {} {}", cap, step, hex(&t))); }
    }
    // the ghost-object shape of the repaired defect (binary/de.rs next_key_seed)
    for step in [1usize, 2, 3] {
        let d = [0x00u8, 0x20, 1, 0, 0x0c, 0, 1, 0, 0, 0, 3, 0, 4, 0, 0x07, 0x20, 1, 0, 0x0c, 0, 2, 0, 0, 0, 0x0e, 0x20, 1, 0, 0x0c, 0, 3, 0, 0, 0];
        g.emit(format!("x-fde-bin st(a:i64;b:i64;name:opt(i64)) 64 {} {}", step, hex(&d)));
    }
    for step in [1usize, 2, 3, 4, 5, 7] {
        for txt in [&b"a={ 1 2 } b=3 c=4"[..], b"a = { 1 2 }\nb = 3\nc = 4\n", b"x=1 a={ 7 8 9  } b=3", b"a={1 2} b={ 3 4 } c=5"] {
            g.emit(format!("x-fde-text st(a:tup(i64;i64);b:opt(i64);c:opt(i64)) 64 {} {}", step, hex(txt)));
            g.emit(format!("x-fde-text st(a:seq(i64);b:opt(i64);c:opt(i64)) 64 {} {}", step, hex(txt)));
        }
    }
    g.count("de-fault-every-read-call");
}

/// faults inside the skipping entry points of the text reader: `skip_unquoted_value` refills while it scans the
/// blanks between a header and its `{`, `skip_container` while it scans the body; a fault at each of those
/// read calls (one-byte and three-byte reads, small buffer) must surface as an I/O error
fn gen_skip_fault(g: &mut Gen) {
    let docs: [&[u8]; 4] = [
        b"a=rgb                         { 1 2 3 } b=c",
        b"a=hsv\n\t\t\t\n\t\t\t  \n\n\n\n\n\n\n\n\n{ 1 2 3 }\nb=c",
        b"a=b c=LIST ; ; ; ; ; ; ; ; ; ;{ x=y \"}\" } d=e",
        b"k=hdr                                   v=w",
    ];
    for d in docs.iter() {
        for (cap, step) in [(16usize, 1usize), (16, 3), (24, 5)] {
            let calls = d.len() / step + 2;
            for j in 0..calls {
                for f in ["F", "P"] {
                    let mut s: Vec<String> = (0..j).map(|_| step.to_string()).collect();
                    s.push(f.to_string());
                    s.push(format!("R{}", step));
                    let sched = s.join(",");
                    for k in 1..=3 { g.emit(format!("tskipu {} {} {} {}", cap, sched, hex(d), k)); }
                    g.emit(format!("tskip {} {} {} 1", cap, sched, hex(d)));
                }
            }
        }
    }
    g.count("skip-fault-every-call");
}

pub fn gen(g: &mut Gen) {
    gen_skip_fault(g);
    super::c07::gen_fault(g);
    super::c08::gen_fault(g);
    gen_de_fault(g);
}

pub fn tables() -> String {
    String::new()
}
