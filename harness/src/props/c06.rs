//! C06 — every successfully parsed tape is structurally sound (aggregate check).
//!
//! The ops live in the parser slices (`wftext` in c01.rs, `wfbin` in c03.rs): the real parser's
//! tape is checked by an independent Rust structural checker (L3 oracle) and the Lean side parses
//! the same bytes with the model and runs the proved checker `wfTextTape` / `wfBinTape`
//! (C06_text_checker_sound / C06_bin_checker_sound; C06_text_inv / C06_bin_inv say the model's
//! accepted tapes always pass). This module only assembles the generators, with emphasis on
//! malformed-but-tolerated input.
use crate::common::*;
use crate::docgen;

pub fn gen(g: &mut Gen) {
    super::c01::gen_wf(g);
    super::c03::gen_wf(g);
    // tolerated malformations, text: stray '}', one missing '}', mixed containers, ghost objects,
    // operator-in-array, parameter blocks cut short
    for s in [
        &b"a=b }"[..], b"a={b=c", b"a={b={c=d}", b"a={ 1 2 x=y 3 }", b"a={ x=y 1 2 }", b"{} a=b {} {}", b"a={ {} b=c }", b"a={ 1 = 2 }",
        b"a={ b < c d }", b"a = { [[p] x=y ] }", b"a = { [[p] x=y", b"a = { [[!p] x ] z=w }", b"a=rgb{1 2 3} b=hsv{1 2 3}", b"a=LIST{{}}", b"a={{}}", b"a={{} {}}",
        b"a=b=c", b"a={b=c}}", b"a={b}=c", b"\xef\xbb\xbfa=b }", b"a={b=c} }", b"a = { b = { c } } } d = e",
    ] {
        g.emit(format!("wftext {}", hex(s)));
        for k in 0..s.len() { g.emit(format!("wftext {}", hex(&s[..k]))); }
    }
    let n = g.budget(2500, 120000);
    for _ in 0..n {
        let doc = docgen::gen_doc(&mut g.rng, &docgen::DocCfg { leading_empty_in_array: true, ..docgen::DocCfg::text_full() });
        let base = docgen::render_layout(&mut g.rng, &docgen::LayoutCfg::full(), &docgen::lexemes(&doc));
        let d = match g.rng.below(5) {
            0 => base,
            1 => { let k = g.rng.below(base.len() + 1); base[..k].to_vec() }
            2 => { let mut v = base.clone(); let p = g.rng.below(v.len() + 1); v.insert(p, b'}'); v }
            3 => { let mut v = base.clone(); if let Some(p) = v.iter().rposition(|b| *b == b'}') { v.remove(p); } v }
            _ => docgen::mutate(&mut g.rng, &base, docgen::TEXT_ALPHABET),
        };
        g.emit(format!("wftext {}", hex(&d)));
        let doc = docgen::gen_doc(&mut g.rng, &docgen::DocCfg { ghosts: true, mixed: true, ..docgen::DocCfg::shared() });
        let base = docgen::render_binary(&mut g.rng, &docgen::BinCfg::default(), &doc);
        let d = match g.rng.below(4) {
            0 => base,
            1 => { let k = g.rng.below(base.len() / 2 + 1) * 2; base[..k.min(base.len())].to_vec() }
            2 => { let mut v = base.clone(); let p = g.rng.below(v.len() / 2 + 1) * 2; let tok: [u8; 2] = *g.rng.pick(&[[3u8, 0], [4, 0], [1, 0]]); for (i, b) in tok.iter().enumerate() { v.insert((p + i).min(v.len()), *b); } v }
            _ => docgen::mutate(&mut g.rng, &base, &[0, 1, 3, 4, 0x0c, 0x0e, 0x0f, 0x14, 0x17, 0x0d, 0x67, 0x43, 0x9c, 2, 0xff, 0x20]),
        };
        g.emit(format!("wfbin {}", hex(&d)));
    }
    g.count("c06-tolerated-malformations");
}

pub fn exec(_w: &[&str], _obs: &mut Obs) -> Option<String> {
    None
}

pub fn tables() -> String {
    String::new()
}
