//! C18 — JominiDeserialize field semantics hold for every field order and multiplicity.
//!
//! op: `derive <schema-id> <pairs>`
//!   <schema-id> ∈ basic | aliased | tok | nested | with   (the derived structs below; the Lean
//!                 driver carries the same structs as `FieldSpec` lists)
//!               | <struct>~<spec>   a struct of the GENERATED family (c18_family.rs, written by
//!                 tools/gen_c18_family.py: 66 structs over every per-field combination of kind x
//!                 default x type x alias, 12 token-attribute structs, 20 attribute-list layout variants); <spec> is its FieldSpec text
//!                 `name:kind:default:type:alias:token/...`, which the driver reads from the line and
//!                 the harness checks against the generated table (no second table to drift)
//!   <pairs>     = `-` | item (`,` item)*           the ordered (key, value) pairs of the document
//!   item        = [`#`|`%`] key `=` val            `#` = in the BINARY rendering the key is written
//!                                                  as a token id (otherwise as a string);
//!                                                  `%` (numeric keys only) = written as an I32 token
//!   key         = [a-z0-9_]+
//!   val         = int | `i64:`n | `u32:`n | `u64:`n | `f32:`<8 hex> | `f64:`<16 hex> | `b:`<byte>
//!               | `q:`<hex> | `uq:`<hex> | `rgb:`r`/`g`/`b[`/`a]
//!               | `[` val (`.` val)* `]` | `[]` | `{` inner (`;` inner)* `}` | `{}`     (nest freely)
//!   inner       = key `=` val
//!   (int = I32 token; i64/u32/u64/f32/f64/b/q/uq/rgb = the binary token kind with that raw payload;
//!   in text: decimal numbers, a fixed decimal for floats, yes/no, a quoted string with control
//!   bytes replaced, `x<hex>` for an unquoted string, `rgb { r g b }`)
//! The harness renders the pairs as TEXT (`k=v k={ 1 2 } k={ a=1 b=2 }`) and as BINARY
//! (keys as ids from `NAMES` or Quoted strings, ints as I32) and runs every deserializer path:
//!   text:   from_windows1252_slice, from_utf8_slice, TextDeserializer::from_windows1252_tape,
//!           from_windows1252_reader, from_utf8_reader
//!   binary: deserialize_slice (on-demand), deserialize_tape, deserialize_reader (streaming)
//!   the reader paths also with small buffers (text 32/48/64 bytes, binary 16/24/64 bytes)
//! Result line: `T:<res> B:<res>` where <res> = canonical struct value `a=1;b=none;e=[1.2]` or
//! `err:duplicate:<field>` / `err:missing:<field>` / `err:invalidtype` / `err:other`.
//!
//! Known findings (recorded in known_findings.txt, exact oracle kinds): `unknown-int-key-binary`
//! (an unknown key written as an I32 token in binary is an invalid-type error, not ignored) and
//! `unknown-digit-key-token-struct` (a token-attribute struct read from text rejects an unknown
//! all-digit key); every other divergence of the unknown-ignored oracle is `unknown-not-ignored`.
//!
//! L3 oracles (implementation only): all text paths agree; all binary paths agree; without `#`
//! and numeric keys text == binary; an independent reference reading of the property
//! (duplicated = occurrences in document order, take_last = last, plain twice = duplicate error,
//! defaults / missing, unknown ignored); permutation independence (a shuffle preserving the
//! relative order of each duplicated field's occurrences and the last occurrence of take_last
//! fields gives the same value / still an error).
use crate::common::*;
use jomini::binary::BinaryFlavor;
use jomini::{BinaryDeserializer, BinaryTape, Encoding, JominiDeserialize, TextDeserializer, TextTape, Windows1252Encoding};
use serde::Deserialize;
use std::borrow::Cow;
use std::collections::HashMap;

#[path = "c18_family.rs"]
mod family;

#[derive(Debug, Default, Clone, Copy)]
pub struct Flavor;
impl BinaryFlavor for Flavor {
    fn visit_f32(&self, data: [u8; 4]) -> f32 {
        f32::from_le_bytes(data)
    }
    fn visit_f64(&self, data: [u8; 8]) -> f64 {
        f64::from_le_bytes(data)
    }
}
impl Encoding for Flavor {
    fn decode<'a>(&self, data: &'a [u8]) -> Cow<'a, str> {
        Windows1252Encoding::decode(data)
    }
}

/// binary token id of a name = 0x2d00 + index; names starting with 'u' are NOT in the resolver
pub const NAMES: &[&str] = &[
    "a", "b", "c", "d", "e", "f", "x", "core", "l", "dd", "both", "g", "bee", "u1", "u2", "inner", "inners", "last", "u", "v", "w",
    "cores", "zz", "yy", "k1", "k2", "f0", "f1", "f2", "f3", "a0", "a1", "a2", "a3",
];
fn name_id(k: &str) -> Option<u16> {
    NAMES.iter().position(|n| *n == k).map(|i| 0x2d00 + i as u16)
}
fn resolver() -> HashMap<u16, &'static str> {
    NAMES.iter().enumerate().filter(|(_, n)| !n.starts_with('u') || **n == "u").map(|(i, n)| (0x2d00 + i as u16, *n)).collect()
}

fn d777() -> i32 {
    777
}
fn plus1000<'de, D: serde::Deserializer<'de>>(d: D) -> Result<i32, D::Error> {
    i32::deserialize(d).map(|x| x + 1000)
}

// ---------------------------------------------------------------------------------------
// the derived structs (mirrored as FieldSpec lists in lean/JominiModel/Driver/C18.lean)

#[derive(JominiDeserialize, Debug, PartialEq)]
struct Basic {
    a: i32,
    b: Option<i32>,
    #[jomini(default)]
    c: i32,
    #[jomini(default = "d777")]
    d: i32,
    #[jomini(duplicated)]
    e: Vec<i32>,
    #[jomini(take_last)]
    f: i32,
}

#[derive(JominiDeserialize, Debug, PartialEq)]
struct Aliased {
    #[jomini(alias = "x")]
    a: i32,
    #[jomini(alias = "core", duplicated)]
    cores: Vec<i32>,
    #[jomini(alias = "l", take_last)]
    last: Option<i32>,
    #[jomini(default = "d777", alias = "dd")]
    d: Option<i32>,
    #[jomini(duplicated, take_last)]
    both: Vec<i32>,
    #[jomini(default = "d777", take_last)]
    g: i32,
}

#[derive(JominiDeserialize, Debug, PartialEq)]
struct Tok {
    #[jomini(token = 0x2d00)]
    a: i32,
    #[jomini(token = 0x2d04, duplicated)]
    e: Vec<i32>,
    #[jomini(token = 0x2d05, take_last)]
    f: Option<i32>,
    #[jomini(token = 0x2d01, alias = "bee")]
    b: i32,
    #[jomini(token = 0x2d02, default)]
    c: i32,
    #[jomini(token = 0x2d0d)]
    u1: Option<i32>,
}

#[derive(JominiDeserialize, Debug, PartialEq)]
struct Inner {
    u: i32,
    #[jomini(duplicated)]
    v: Vec<i32>,
    #[jomini(take_last)]
    w: Option<i32>,
}

#[derive(JominiDeserialize, Debug, PartialEq)]
struct Nested {
    inner: Inner,
    #[jomini(duplicated)]
    inners: Vec<Inner>,
    x: Option<i32>,
    #[jomini(take_last)]
    last: Option<Inner>,
}

#[derive(JominiDeserialize, Debug, PartialEq)]
struct With {
    #[jomini(deserialize_with = "plus1000")]
    a: i32,
    #[jomini(deserialize_with = "plus1000", take_last)]
    f: i32,
    #[jomini(duplicated, deserialize_with = "plus1000")]
    e: Vec<i32>,
    #[jomini(deserialize_with = "plus1000", default)]
    c: i32,
}

trait Show {
    fn show(&self) -> String;
}
fn oi(x: &Option<i32>) -> String {
    x.map(|v| v.to_string()).unwrap_or("none".into())
}
fn vi(x: &[i32]) -> String {
    format!("[{}]", x.iter().map(|v| v.to_string()).collect::<Vec<_>>().join("."))
}
impl Show for Basic {
    fn show(&self) -> String {
        format!("a={};b={};c={};d={};e={};f={}", self.a, oi(&self.b), self.c, self.d, vi(&self.e), self.f)
    }
}
impl Show for Aliased {
    fn show(&self) -> String {
        format!("a={};cores={};last={};d={};both={};g={}", self.a, vi(&self.cores), oi(&self.last), oi(&self.d), vi(&self.both), self.g)
    }
}
impl Show for Tok {
    fn show(&self) -> String {
        format!("a={};e={};f={};b={};c={};u1={}", self.a, vi(&self.e), oi(&self.f), self.b, self.c, oi(&self.u1))
    }
}
impl Show for Inner {
    fn show(&self) -> String {
        format!("{{u={};v={};w={}}}", self.u, vi(&self.v), oi(&self.w))
    }
}
impl Show for Nested {
    fn show(&self) -> String {
        format!(
            "inner={};inners=[{}];x={};last={}",
            self.inner.show(),
            self.inners.iter().map(|i| i.show()).collect::<Vec<_>>().join("."),
            oi(&self.x),
            self.last.as_ref().map(|i| i.show()).unwrap_or("none".into())
        )
    }
}
impl Show for With {
    fn show(&self) -> String {
        format!("a={};f={};e={};c={}", self.a, self.f, vi(&self.e), self.c)
    }
}

// ---------------------------------------------------------------------------------------
// pairs

#[derive(Clone, Debug, PartialEq)]
enum Val {
    Int(i32),
    I64(i64),
    U32(u32),
    U64(u64),
    /// raw little-endian payload of an F32 / F64 token
    F32([u8; 4]),
    F64([u8; 8]),
    /// raw payload byte of a Bool token
    Bool(u8),
    /// Quoted / Unquoted string token, raw bytes
    Q(Vec<u8>),
    Uq(Vec<u8>),
    /// rgb block, 3 or 4 channels
    Rgb(Vec<u32>),
    Arr(Vec<Val>),
    Obj(Vec<(String, Val)>),
}
#[derive(Clone, Debug, PartialEq)]
struct Item {
    as_i32: bool,
    as_id: bool,
    key: String,
    val: Val,
}

/// split at `sep` outside of brackets
fn split_top(s: &str, sep: char) -> Vec<&str> {
    let mut out = vec![];
    let (mut depth, mut start) = (0i32, 0usize);
    for (i, c) in s.char_indices() {
        match c {
            '[' | '{' => depth += 1,
            ']' | '}' => depth -= 1,
            c if c == sep && depth == 0 => {
                out.push(&s[start..i]);
                start = i + 1;
            }
            _ => {}
        }
    }
    out.push(&s[start..]);
    out
}

fn parse_val(s: &str) -> Option<Val> {
    if let Some(body) = s.strip_prefix('[') {
        let body = body.strip_suffix(']')?;
        if body.is_empty() {
            return Some(Val::Arr(vec![]));
        }
        return Some(Val::Arr(split_top(body, '.').into_iter().map(parse_val).collect::<Option<Vec<Val>>>()?));
    }
    if let Some(body) = s.strip_prefix('{') {
        let body = body.strip_suffix('}')?;
        if body.is_empty() {
            return Some(Val::Obj(vec![]));
        }
        let mut out = vec![];
        for it in split_top(body, ';') {
            let (k, v) = it.split_once('=')?;
            out.push((k.to_string(), parse_val(v)?));
        }
        return Some(Val::Obj(out));
    }
    if let Some((tag, body)) = s.split_once(':') {
        return Some(match tag {
            "i64" => Val::I64(body.parse().ok()?),
            "u32" => Val::U32(body.parse().ok()?),
            "u64" => Val::U64(body.parse().ok()?),
            "f32" => Val::F32(unhex(body)?.try_into().ok()?),
            "f64" => Val::F64(unhex(body)?.try_into().ok()?),
            "b" => Val::Bool(body.parse().ok()?),
            "q" => Val::Q(unhex(body)?),
            "uq" => Val::Uq(unhex(body)?),
            "rgb" => {
                let c = body.split('/').map(|x| x.parse().ok()).collect::<Option<Vec<u32>>>()?;
                if c.len() != 3 && c.len() != 4 {
                    return None;
                }
                Val::Rgb(c)
            }
            _ => return None,
        });
    }
    s.parse().ok().map(Val::Int)
}

fn parse_pairs(s: &str) -> Option<Vec<Item>> {
    if s == "-" {
        return Some(vec![]);
    }
    let mut out = vec![];
    for it in s.split(',') {
        let (k, v) = it.split_once('=')?;
        let (as_id, k) = match k.strip_prefix('#') {
            Some(r) => (true, r),
            None => (false, k),
        };
        let (as_i32, k) = match k.strip_prefix('%') {
            Some(r) => (true, r),
            None => (false, k),
        };
        if as_i32 && k.parse::<i32>().is_err() {
            return None;
        }
        out.push(Item { as_i32, as_id, key: k.to_string(), val: parse_val(v)? });
    }
    Some(out)
}

fn show_val(v: &Val) -> String {
    match v {
        Val::Int(i) => i.to_string(),
        Val::I64(i) => format!("i64:{}", i),
        Val::U32(i) => format!("u32:{}", i),
        Val::U64(i) => format!("u64:{}", i),
        Val::F32(b) => format!("f32:{}", hex(b)),
        Val::F64(b) => format!("f64:{}", hex(b)),
        Val::Bool(b) => format!("b:{}", b),
        Val::Q(b) => format!("q:{}", hex(b)),
        Val::Uq(b) => format!("uq:{}", hex(b)),
        Val::Rgb(c) => format!("rgb:{}", c.iter().map(|x| x.to_string()).collect::<Vec<_>>().join("/")),
        Val::Arr(a) => format!("[{}]", a.iter().map(show_val).collect::<Vec<_>>().join(".")),
        Val::Obj(o) => format!("{{{}}}", o.iter().map(|(k, v)| format!("{}={}", k, show_val(v))).collect::<Vec<_>>().join(";")),
    }
}
fn show_pairs(p: &[Item]) -> String {
    if p.is_empty() {
        return "-".into();
    }
    p.iter().map(|i| format!("{}{}={}", if i.as_id { "#" } else if i.as_i32 { "%" } else { "" }, i.key, show_val(&i.val))).collect::<Vec<_>>().join(",")
}

/// TEXT rendering.  Numbers in decimal, F32/F64 as a fixed decimal, Bool yes/no, a Quoted string
/// between quotes with `"` and `\` escaped and control bytes replaced by `_` (so `{ } # =` and
/// escapes stay inside the string), an Unquoted string as the scalar `x<hex>`, rgb as a header.
fn text_val(v: &Val, out: &mut Vec<u8>) {
    match v {
        Val::Int(i) => out.extend_from_slice(i.to_string().as_bytes()),
        Val::I64(i) => out.extend_from_slice(i.to_string().as_bytes()),
        Val::U32(i) => out.extend_from_slice(i.to_string().as_bytes()),
        Val::U64(i) => out.extend_from_slice(i.to_string().as_bytes()),
        Val::F32(_) => out.extend_from_slice(b"1.500"),
        Val::F64(_) => out.extend_from_slice(b"2.25000"),
        Val::Bool(b) => out.extend_from_slice(if *b != 0 { b"yes" } else { b"no" }),
        Val::Q(b) => {
            out.push(b'"');
            for &c in b {
                match c {
                    b'"' | b'\\' => {
                        out.push(b'\\');
                        out.push(c);
                    }
                    0..=0x1f => out.push(b'_'),
                    _ => out.push(c),
                }
            }
            out.push(b'"');
        }
        Val::Uq(b) => {
            out.push(b'x');
            out.extend_from_slice(hex(b).replace('-', "").as_bytes());
        }
        Val::Rgb(c) => {
            out.extend_from_slice(b"rgb { ");
            for x in c {
                out.extend_from_slice(x.to_string().as_bytes());
                out.push(b' ');
            }
            out.push(b'}');
        }
        Val::Arr(a) => {
            out.extend_from_slice(b"{ ");
            for x in a {
                text_val(x, out);
                out.push(b' ');
            }
            out.push(b'}');
        }
        Val::Obj(o) => {
            out.extend_from_slice(b"{ ");
            for (k, v) in o {
                out.extend_from_slice(k.as_bytes());
                out.push(b'=');
                text_val(v, out);
                out.push(b' ');
            }
            out.push(b'}');
        }
    }
}
fn render_text(p: &[Item]) -> Vec<u8> {
    let mut out = vec![];
    for it in p {
        out.extend_from_slice(it.key.as_bytes());
        out.push(b'=');
        text_val(&it.val, &mut out);
        out.push(b'\n');
    }
    out
}

fn w16(out: &mut Vec<u8>, v: u16) {
    out.extend_from_slice(&v.to_le_bytes());
}
fn bin_key_item(it: &Item, out: &mut Vec<u8>) {
    if it.as_i32 {
        w16(out, 0x000c);
        out.extend_from_slice(&it.key.parse::<i32>().unwrap().to_le_bytes());
    } else {
        bin_key(&it.key, it.as_id, out);
    }
}
fn bin_key(k: &str, as_id: bool, out: &mut Vec<u8>) {
    match (as_id, name_id(k)) {
        (true, Some(id)) => w16(out, id),
        _ => {
            w16(out, 0x000f);
            w16(out, k.len() as u16);
            out.extend_from_slice(k.as_bytes());
        }
    }
}
fn bin_val(v: &Val, out: &mut Vec<u8>) {
    match v {
        Val::Int(i) => {
            w16(out, 0x000c);
            out.extend_from_slice(&i.to_le_bytes());
        }
        Val::I64(i) => {
            w16(out, 0x0317);
            out.extend_from_slice(&i.to_le_bytes());
        }
        Val::U32(i) => {
            w16(out, 0x0014);
            out.extend_from_slice(&i.to_le_bytes());
        }
        Val::U64(i) => {
            w16(out, 0x029c);
            out.extend_from_slice(&i.to_le_bytes());
        }
        Val::F32(b) => {
            w16(out, 0x000d);
            out.extend_from_slice(b);
        }
        Val::F64(b) => {
            w16(out, 0x0167);
            out.extend_from_slice(b);
        }
        Val::Bool(b) => {
            w16(out, 0x000e);
            out.push(*b);
        }
        Val::Q(b) | Val::Uq(b) => {
            w16(out, if matches!(v, Val::Q(_)) { 0x000f } else { 0x0017 });
            w16(out, b.len() as u16);
            out.extend_from_slice(b);
        }
        Val::Rgb(c) => {
            w16(out, 0x0243);
            w16(out, 0x0003);
            for x in c {
                w16(out, 0x0014);
                out.extend_from_slice(&x.to_le_bytes());
            }
            w16(out, 0x0004);
        }
        Val::Arr(a) => {
            w16(out, 0x0003);
            for x in a {
                bin_val(x, out);
            }
            w16(out, 0x0004);
        }
        Val::Obj(o) => {
            w16(out, 0x0003);
            for (k, v) in o {
                bin_key(k, false, out);
                w16(out, 0x0001);
                bin_val(v, out);
            }
            w16(out, 0x0004);
        }
    }
}
fn render_binary(p: &[Item]) -> Vec<u8> {
    let mut out = vec![];
    for it in p {
        bin_key_item(it, &mut out);
        w16(&mut out, 0x0001);
        bin_val(&it.val, &mut out);
    }
    out
}

fn classify(e: &jomini::Error) -> String {
    let s = e.to_string();
    let field = |pat: &str| s.find(pat).map(|p| s[p + pat.len()..].split('`').next().unwrap_or("").to_string());
    if let Some(f) = field("duplicate field `") {
        format!("err:duplicate:{}", f)
    } else if let Some(f) = field("missing field `") {
        format!("err:missing:{}", f)
    } else if s.contains("invalid type") {
        "err:invalidtype".to_string()
    } else {
        "err:other".to_string()
    }
}

fn res<T: Show>(r: Result<T, jomini::Error>) -> String {
    match r {
        Ok(v) => v.show(),
        Err(e) => classify(&e),
    }
}

fn run_text<T: Show + serde::de::DeserializeOwned>(text: &[u8], case: &str, obs: &mut Obs) -> String {
    let mut rs: Vec<(&str, String)> = vec![];
    rs.push(("windows1252_slice", res(jomini::text::de::from_windows1252_slice::<T>(text))));
    rs.push(("utf8_slice", res(jomini::text::de::from_utf8_slice::<T>(text))));
    rs.push((
        "windows1252_tape",
        match TextTape::from_slice(text) {
            Ok(tape) => res(TextDeserializer::from_windows1252_tape(&tape).deserialize::<T>()),
            Err(_) => "err:other".into(),
        },
    ));
    rs.push(("windows1252_reader", res(jomini::text::de::from_windows1252_reader::<T, _>(text))));
    rs.push(("utf8_reader", res(jomini::text::de::from_utf8_reader::<T, _>(text))));
    for (name, n) in [("windows1252_reader/buf32", 32usize), ("windows1252_reader/buf64", 64)] {
        let reader = jomini::text::TokenReader::builder().buffer_len(n).build(text);
        rs.push((name, res(TextDeserializer::from_windows1252_reader(reader).deserialize::<T>())));
    }
    {
        let reader = jomini::text::TokenReader::builder().buffer_len(48).build(text);
        rs.push(("utf8_reader/buf48", res(TextDeserializer::from_utf8_reader(reader).deserialize::<T>())));
    }
    for (n, r) in &rs[1..] {
        if *r != rs[0].1 {
            obs.violation("text-paths-differ", case, &format!("{} = {} but {} = {}", rs[0].0, rs[0].1, n, r));
            break;
        }
    }
    rs.remove(0).1
}

fn run_bin<T: Show + serde::de::DeserializeOwned>(bin: &[u8], case: &str, obs: &mut Obs) -> String {
    let resolver = resolver();
    let mut rs: Vec<(&str, String)> = vec![];
    rs.push(("slice", res(BinaryDeserializer::builder_flavor(Flavor).deserialize_slice::<_, T>(bin, &resolver))));
    rs.push((
        "tape",
        match BinaryTape::from_slice(bin) {
            Ok(tape) => res(BinaryDeserializer::builder_flavor(Flavor).deserialize_tape::<_, T>(&tape, &resolver)),
            Err(_) => "err:other".into(),
        },
    ));
    rs.push(("reader", res(BinaryDeserializer::builder_flavor(Flavor).deserialize_reader::<_, T, _>(bin, &resolver))));
    for (name, n) in [("reader/buf16", 16usize), ("reader/buf24", 24), ("reader/buf64", 64)] {
        let mut b = BinaryDeserializer::builder_flavor(Flavor);
        b.reader_config(jomini::binary::TokenReader::builder().buffer_len(n));
        rs.push((name, res(b.deserialize_reader::<_, T, _>(bin, &resolver))));
    }
    for (n, r) in &rs[1..] {
        if *r != rs[0].1 {
            obs.violation("binary-paths-differ", case, &format!("{} = {} but {} = {}", rs[0].0, rs[0].1, n, r));
            break;
        }
    }
    rs.remove(0).1
}

/// family schema id `F12~<spec>`: the struct id and the FieldSpec text (must be the generated one)
fn family_id(id: &str) -> Option<(&str, &str)> {
    let (name, spec) = id.split_once('~')?;
    let table = family::FAMILY.iter().find(|(n, _)| *n == name)?;
    if table.1 != spec {
        return None;
    }
    Some((name, spec))
}

/// (answering key, kind letter) of every field of a family spec
fn family_fields(spec: &str) -> Vec<(String, char, char)> {
    spec.split('/')
        .map(|f| {
            let w: Vec<&str> = f.split(':').collect();
            let key = if w[4] == "-" { w[0] } else { w[4] };
            (key.to_string(), w[1].chars().next().unwrap(), w[3].chars().next().unwrap())
        })
        .collect()
}

fn run_schema(id: &str, p: &[Item], case: &str, obs: &mut Obs) -> Option<(String, String)> {
    let text = render_text(p);
    let bin = render_binary(p);
    if id.contains('~') {
        let (name, _) = family_id(id)?;
        return family::run(name, &text, &bin, case, obs);
    }
    Some(match id {
        "basic" => (run_text::<Basic>(&text, case, obs), run_bin::<Basic>(&bin, case, obs)),
        "aliased" => (run_text::<Aliased>(&text, case, obs), run_bin::<Aliased>(&bin, case, obs)),
        "tok" => (run_text::<Tok>(&text, case, obs), run_bin::<Tok>(&bin, case, obs)),
        "nested" => (run_text::<Nested>(&text, case, obs), run_bin::<Nested>(&bin, case, obs)),
        "with" => (run_text::<With>(&text, case, obs), run_bin::<With>(&bin, case, obs)),
        _ => return None,
    })
}

// ---------------------------------------------------------------------------------------
// independent reference reading of the property (int-valued schemas only), keyed by the string
// each field answers to.  (kind: 0 plain, 1 duplicated, 2 take_last; dflt: 0 none, 1 default/Option, 2 path)
struct RefField {
    name: &'static str,
    answers: &'static str,
    kind: u8,
    dflt: u8,
    option: bool,
    plus: i32,
}
fn ref_schema(id: &str) -> Option<Vec<RefField>> {
    let f = |name, answers, kind, dflt, option, plus| RefField { name, answers, kind, dflt, option, plus };
    Some(match id {
        "basic" => vec![f("a", "a", 0, 0, false, 0), f("b", "b", 0, 1, true, 0), f("c", "c", 0, 1, false, 0), f("d", "d", 0, 2, false, 0), f("e", "e", 1, 0, false, 0), f("f", "f", 2, 0, false, 0)],
        "aliased" => vec![f("a", "x", 0, 0, false, 0), f("cores", "core", 1, 0, false, 0), f("last", "l", 2, 1, true, 0), f("d", "dd", 0, 1, true, 0), f("both", "both", 1, 0, false, 0), f("g", "g", 2, 2, false, 0)],
        "with" => vec![f("a", "a", 0, 0, false, 1000), f("f", "f", 2, 0, false, 1000), f("e", "e", 1, 0, false, 0), f("c", "c", 0, 1, false, 1000)],
        _ => return None,
    })
}
/// reference for the TEXT rendering (keys are plain strings)
fn reference(id: &str, p: &[Item]) -> Option<String> {
    let sch = ref_schema(id)?;
    // first plain field seen twice, in document order
    let mut seen: Vec<usize> = vec![0; sch.len()];
    for it in p {
        if let Some(i) = sch.iter().position(|f| f.answers == it.key) {
            if !matches!(it.val, Val::Int(_)) {
                return None; // type errors are outside the property
            }
            seen[i] += 1;
            if sch[i].kind == 0 && seen[i] == 2 {
                return Some(format!("err:duplicate:{}", sch[i].name));
            }
        }
    }
    let mut out = vec![];
    for f in &sch {
        let occ: Vec<i32> = p.iter().filter(|it| it.key == f.answers).filter_map(|it| if let Val::Int(i) = it.val { Some(i + f.plus) } else { None }).collect();
        let s = match f.kind {
            1 => vi(&occ),
            _ => match occ.last() {
                Some(v) => v.to_string(),
                None => match f.dflt {
                    1 => (if f.option { "none" } else { "0" }).to_string(),
                    2 => "777".to_string(),
                    _ => return Some(format!("err:missing:{}", f.name)),
                },
            },
        };
        out.push(format!("{}={}", f.name, s));
    }
    Some(out.join(";"))
}

/// a shuffle that keeps the relative order of the occurrences of every key except that
/// non-last occurrences of take_last keys may move anywhere before the last one
fn shuffle_preserving(id: &str, p: &[Item], rng: &mut Rng) -> Vec<Item> {
    let fam_take_last: Vec<String> = match id.split_once('~') {
        Some((_, spec)) => family_fields(spec).into_iter().filter(|f| f.1 == 't').map(|f| f.0).collect(),
        None => vec![],
    };
    let fam_refs: Vec<&str> = fam_take_last.iter().map(|s| s.as_str()).collect();
    let take_last: &[&str] = match id {
        "basic" => &["f"],
        "aliased" => &["l", "g"],
        "tok" => &["f"],
        "nested" => &["last"],
        "with" => &["f"],
        _ => &fam_refs,
    };
    // keys that can select the same field in one of the renderings (a name / alias as a string, the
    // un-aliased name as a token id in a token struct) are kept in their relative order together
    let group = |k: &str| -> String {
        let b = k.as_bytes();
        if id.contains('~') && b.len() == 2 && (b[0] == b'f' || b[0] == b'a') && b[1].is_ascii_digit() {
            format!("g{}", b[1] as char)
        } else if id == "tok" && k == "bee" {
            "b".to_string()
        } else {
            k.to_string()
        }
    };
    // random interleaving of the per-group subsequences
    let mut keys: Vec<String> = vec![];
    for it in p {
        if !keys.contains(&group(&it.key)) {
            keys.push(group(&it.key));
        }
    }
    let mut queues: Vec<Vec<Item>> = keys.iter().map(|k| p.iter().filter(|it| &group(&it.key) == k).cloned().collect()).collect();
    for (k, q) in keys.iter().zip(queues.iter_mut()) {
        let uniform = q.iter().all(|it| it.key == q[0].key && it.as_id == q[0].as_id);
        let _ = k;
        if uniform && take_last.contains(&q[0].key.as_str()) && q.len() > 2 {
            // permute all but the last
            let n = q.len() - 1;
            for i in (1..n).rev() {
                let j = rng.below(i + 1);
                q.swap(i, j);
            }
        }
        q.reverse();
    }
    let mut out = vec![];
    let total = p.len();
    while out.len() < total {
        let live: Vec<usize> = (0..queues.len()).filter(|i| !queues[*i].is_empty()).collect();
        let i = *rng.pick(&live);
        out.push(queues[i].pop().unwrap());
    }
    out
}

fn line_hash(s: &str) -> u64 {
    let mut h: u64 = 0xcbf29ce484222325;
    for b in s.bytes() {
        h ^= b as u64;
        h = h.wrapping_mul(0x100000001b3);
    }
    h
}

pub fn exec(w: &[&str], obs: &mut Obs) -> Option<String> {
    match w {
        ["derive", id, pairs] => {
            let case = w.join(" ");
            let p = parse_pairs(pairs)?;
            if id.contains('~') && family_id(id).is_none() {
                obs.violation("spec-mismatch", &case, "the FieldSpec text on the line is not the generated one of that struct");
                return Some("spec-mismatch".into());
            }
            let (t, b) = run_schema(id, &p, &case, obs)?;
            let hid = if id.contains('~') { if id.split('/').any(|f| !f.ends_with(":-")) { "family-tok" } else { "family" } } else { *id };
            obs.count(&format!("{}:T:{}", hid, if t.starts_with("err:") { t.split(':').take(2).collect::<Vec<_>>().join(":") } else { "ok".into() }));
            obs.count(&format!("{}:B:{}", hid, if b.starts_with("err:") { b.split(':').take(2).collect::<Vec<_>>().join(":") } else { "ok".into() }));
            let numeric_key = p.iter().any(|it| it.key.bytes().all(|c| c.is_ascii_digit()));
            let any_id = p.iter().any(|it| it.as_id || it.as_i32);
            if !numeric_key && !any_id && t != b {
                obs.violation("text-binary-differ", &case, &format!("text {} binary {}", t, b));
            }
            // reference reading of the property
            if let Some(r) = reference(id, &p) {
                if r != t {
                    obs.violation("reference", &case, &format!("text result {} reference {}", t, r));
                }
                if !any_id && r != b {
                    obs.violation("reference", &case, &format!("binary result {} reference {}", b, r));
                }
            }
            // unknown keys (answered by no field of any schema) must be ignored, whatever their form.
            // Two shapes are RECORDED known findings and get their own exact oracle kinds: an unknown
            // key written as an I32 token in binary (`visit_i32`), and an unknown all-digit key of a
            // token-attribute struct read from TEXT (`deserialize_u16` -> `visit_u64`); the generated
            // field visitor implements neither.  A divergence is attributed to one of them only if
            // removing just the keys of that shape already restores the result; anything else is
            // `unknown-not-ignored`.
            {
                let all_digits = |it: &Item| it.key.bytes().all(|c| c.is_ascii_digit());
                let stripped: Vec<Item> = p.iter().filter(|it| !is_unknown_key(&it.key)).cloned().collect();
                if stripped.len() != p.len() {
                    let mut o2 = Obs::default();
                    if let Some((t2, b2)) = run_schema(id, &stripped, &case, &mut o2) {
                        if b2 != b {
                            let q: Vec<Item> = p.iter().filter(|it| !(it.as_i32 && is_unknown_key(&it.key))).cloned().collect();
                            let explained = q.len() != p.len() && run_schema(id, &q, &case, &mut o2).map(|r| r.1 == b2).unwrap_or(false);
                            let kind = if explained { "unknown-int-key-binary" } else { "unknown-not-ignored" };
                            obs.violation(kind, &case, &format!("binary with unknown fields {}, without {}", b, b2));
                        }
                        if t2 != t {
                            let q: Vec<Item> = p.iter().filter(|it| !(all_digits(it) && is_unknown_key(&it.key))).cloned().collect();
                            let explained = *id == "tok" && q.len() != p.len() && run_schema(id, &q, &case, &mut o2).map(|r| r.0 == t2).unwrap_or(false);
                            let kind = if explained { "unknown-digit-key-token-struct" } else { "unknown-not-ignored" };
                            obs.violation(kind, &case, &format!("text with unknown fields {}, without {}", t, t2));
                        }
                    }
                }
            }
            // permutation independence
            let mut rng = Rng(line_hash(&case));
            let q = shuffle_preserving(id, &p, &mut rng);
            if q != p {
                let mut o2 = Obs::default();
                if let Some((t2, b2)) = run_schema(id, &q, &case, &mut o2) {
                    let same = |x: &str, y: &str| if x.starts_with("err:") { y.starts_with("err:") } else { x == y };
                    if !same(&t, &t2) || !same(&b, &b2) {
                        obs.violation("order-dependent", &case, &format!("T:{} B:{} but shuffled {} gives T:{} B:{}", t, b, show_pairs(&q), t2, b2));
                    }
                    obs.count("perm-checked");
                }
            }
            Some(format!("T:{} B:{}", t, b))
        }
        _ => None,
    }
}

fn is_unknown_key(k: &str) -> bool {
    matches!(k, "zz" | "yy" | "k1" | "k2" | "u2") || k.bytes().all(|c| c.is_ascii_digit())
}

// ---------------------------------------------------------------------------------------
// generators

fn unknown_item(rng: &mut Rng, numeric_ok: bool, n: i32) -> Item {
    let key = match rng.below(if numeric_ok { 6 } else { 5 }) {
        0 => "zz".to_string(),
        1 => "yy".to_string(),
        2 => "k1".to_string(),
        3 => "k2".to_string(),
        4 => "u2".to_string(),
        _ => format!("{}", 100 + rng.below(50)),
    };
    let val = match rng.below(6) {
        0 | 1 => Val::Int(n),
        2 => Val::Arr((0..rng.below(4)).map(|i| Val::Int(n + i as i32)).collect()),
        3 => Val::Obj(vec![("a".into(), Val::Int(n)), ("a".into(), Val::Int(n + 1)), ("e".into(), Val::Arr(vec![Val::Int(1), Val::Int(2)]))]),
        4 => Val::Obj(vec![]),
        _ => Val::Obj(vec![("zz".into(), Val::Int(n))]),
    };
    let numeric = key.bytes().all(|c| c.is_ascii_digit());
    Item { as_i32: false, as_id: !numeric && rng.chance(1, 3), key, val }
}

fn known_val(id: &str, key: &str, rng: &mut Rng, n: i32) -> Val {
    if id == "nested" && matches!(key, "inner" | "inners" | "last") {
        // an Inner: u required (sometimes missing / duplicated), v duplicated, w take_last
        let mut o = vec![];
        let mut keys: Vec<&str> = vec![];
        let nu = match rng.below(10) { 0 => 0, 1 => 2, _ => 1 };
        for _ in 0..nu { keys.push("u"); }
        for _ in 0..rng.below(4) { keys.push("v"); }
        for _ in 0..rng.below(3) { keys.push("w"); }
        if rng.chance(1, 3) { keys.push("zz"); }
        for i in (1..keys.len()).rev() { let j = rng.below(i + 1); keys.swap(i, j); }
        for (i, k) in keys.iter().enumerate() { o.push((k.to_string(), Val::Int(n * 10 + i as i32))); }
        Val::Obj(o)
    } else {
        Val::Int(n)
    }
}

fn schema_keys(id: &str) -> &'static [&'static str] {
    match id {
        "basic" => &["a", "b", "c", "d", "e", "f"],
        // the un-aliased names "a", "cores", "last", "d" must no longer match
        "aliased" => &["x", "core", "l", "dd", "both", "g", "a", "cores", "last", "d"],
        // "b" is aliased to "bee": by name only "bee" matches, by token id(b)
        "tok" => &["a", "e", "f", "bee", "c", "u1", "b"],
        "nested" => &["inner", "inners", "x", "last"],
        "with" => &["a", "f", "e", "c"],
        _ => &[],
    }
}

fn emit(g: &mut Gen, id: &str, p: &[Item]) {
    g.emit(format!("derive {} {}", id, show_pairs(p)));
}

pub fn gen(g: &mut Gen) {
    // 1. exhaustive: every key sequence of length <= L over the six fields of `basic`
    {
        let keys = schema_keys("basic");
        let maxlen = g.budget(4, 5);
        let mut cur: Vec<usize> = vec![];
        fn rec(g: &mut Gen, keys: &[&str], cur: &mut Vec<usize>, maxlen: usize) {
            let p: Vec<Item> = cur.iter().enumerate().map(|(i, k)| Item { as_i32: false, as_id: false, key: keys[*k].to_string(), val: Val::Int(i as i32 + 1) }).collect();
            emit(g, "basic", &p);
            if cur.len() == maxlen { return; }
            for k in 0..keys.len() {
                cur.push(k);
                rec(g, keys, cur, maxlen);
                cur.pop();
            }
        }
        rec(g, keys, &mut cur, maxlen);
        g.count("exhaustive-basic");
    }
    // 2. every multiplicity vector in 0..=3 for the six fields of `basic`, random orders, unknown fields interleaved
    {
        let keys = schema_keys("basic");
        let orders = g.budget(3, 12);
        for code in 0..4096usize {
            let mult: Vec<usize> = (0..6).map(|i| (code >> (2 * i)) & 3).collect();
            for o in 0..orders {
                let mut p: Vec<Item> = vec![];
                let mut n = 1;
                for (k, m) in keys.iter().zip(&mult) {
                    for _ in 0..*m {
                        p.push(Item { as_i32: false, as_id: g.rng.chance(1, 3), key: k.to_string(), val: Val::Int(n) });
                        n += 1;
                    }
                }
                for i in (1..p.len()).rev() { let j = g.rng.below(i + 1); p.swap(i, j); }
                if o > 0 {
                    let nu = g.rng.below(4);
                    for _ in 0..nu {
                        let pos = g.rng.below(p.len() + 1);
                        let it = unknown_item(&mut g.rng, true, 900 + n);
                        n += 1;
                        p.insert(pos, it);
                    }
                }
                emit(g, "basic", &p);
            }
        }
        g.count("multiplicities-basic");
    }
    // 2b. plain fields at most once, e / f 0..=3 times: mostly successful deserializations
    {
        let orders = g.budget(8, 40);
        for code in 0..256usize {
            let mult = [code & 1, (code >> 1) & 1, (code >> 2) & 1, (code >> 3) & 1, (code >> 4) & 3, (code >> 6) & 3];
            for _ in 0..orders {
                let mut p: Vec<Item> = vec![];
                let mut n = 1;
                for (k, m) in schema_keys("basic").iter().zip(&mult) {
                    for _ in 0..*m {
                        p.push(Item { as_i32: false, as_id: g.rng.chance(1, 3), key: k.to_string(), val: Val::Int(n) });
                        n += 1;
                    }
                }
                for i in (1..p.len()).rev() { let j = g.rng.below(i + 1); p.swap(i, j); }
                let nu = g.rng.below(3);
                for _ in 0..nu {
                    let pos = g.rng.below(p.len() + 1);
                    let it = unknown_item(&mut g.rng, true, 900 + n);
                    n += 1;
                    p.insert(pos, it);
                }
                emit(g, "basic", &p);
            }
        }
        g.count("plain-once-basic");
    }
    // 3. the other schemas: random multiplicities 0..=3 per key, random order, unknown fields
    for id in ["aliased", "tok", "nested", "with"] {
        let keys = schema_keys(id);
        let n_cases = g.budget(6_000, 60_000);
        for _ in 0..n_cases {
            let mut p: Vec<Item> = vec![];
            let mut n = 1;
            for k in keys {
                // mostly 1, sometimes 0, 2, 3
                let m = match g.rng.below(10) { 0 | 1 => 0, 2 => 2, 3 => 3, _ => 1 };
                let m = if g.rng.chance(1, 4) { g.rng.below(4) } else { m };
                for _ in 0..m {
                    let val = known_val(id, k, &mut g.rng, n);
                    p.push(Item { as_i32: false, as_id: g.rng.chance(1, 2), key: k.to_string(), val });
                    n += 1;
                }
            }
            for i in (1..p.len()).rev() { let j = g.rng.below(i + 1); p.swap(i, j); }
            let nu = g.rng.below(4);
            for _ in 0..nu {
                let pos = g.rng.below(p.len() + 1);
                // numeric keys reach a token struct's visitor through visit_u64 in TEXT: kept out of `tok`
                // except in the dedicated probe below
                let it = unknown_item(&mut g.rng, id != "tok", 900 + n);
                n += 1;
                p.insert(pos, it);
            }
            emit(g, id, &p);
        }
        g.count(&format!("random-{}", id));
    }
    // 3b. the two recorded known-finding shapes, a few dozen cases (kinds `unknown-int-key-binary`,
    // `unknown-digit-key-token-struct`): an unknown numeric key as an I32 token in binary for every
    // schema, and an unknown all-digit key in a token struct
    for (k, id) in ["basic", "aliased", "tok", "nested", "with"].iter().enumerate() {
        for j in 0..6 {
            let keys = schema_keys(id);
            let mut p: Vec<Item> = vec![];
            for (n, key) in keys.iter().take(4).enumerate() {
                let val = known_val(id, key, &mut g.rng, n as i32 + 1);
                p.push(Item { as_i32: false, as_id: false, key: key.to_string(), val });
            }
            let pos = g.rng.below(p.len() + 1);
            p.insert(pos, Item { as_i32: true, as_id: false, key: format!("{}", 100 + 10 * k + j), val: if j % 2 == 0 { Val::Int(7) } else { Val::Obj(vec![("a".into(), Val::Int(1))]) } });
            emit(g, id, &p);
        }
    }
    for j in 0..24 {
        let mut p: Vec<Item> = vec![];
        for (n, key) in ["a", "e", "f", "bee", "c"].iter().enumerate() {
            if g.rng.chance(4, 5) {
                p.push(Item { as_i32: false, as_id: g.rng.chance(1, 2) && *key != "bee", key: key.to_string(), val: Val::Int(n as i32 + 1) });
            }
        }
        let pos = g.rng.below(p.len() + 1);
        p.insert(pos, Item { as_i32: false, as_id: false, key: format!("{}", 200 + j), val: Val::Int(9) });
        emit(g, "tok", &p);
    }
    g.count("known-finding-shapes");
    // 3c. unknown fields whose values are nested containers full of payloads that look like
    // structural lexemes (binary) / of strings full of structural characters (text), before,
    // between and after the known fields: skipping them must leave the known fields intact
    {
        let n_random = g.budget(2_500, 40_000);
        let payloads = adversarial_scalars();
        let mut count = 0usize;
        for (pi, pv) in payloads.iter().enumerate() {
            for shape in 0..4 {
                let val = match shape {
                    0 => Val::Obj(vec![("k1".into(), pv.clone())]),
                    1 => Val::Arr(vec![pv.clone(), pv.clone()]),
                    2 => Val::Arr(vec![Val::Obj(vec![("a".into(), pv.clone())]), Val::Obj(vec![("zz".into(), Val::Arr(vec![pv.clone()]))])]),
                    _ => Val::Obj(vec![("a".into(), Val::Obj(vec![("e".into(), Val::Arr(vec![pv.clone(), Val::Int(1)])), ("b".into(), pv.clone())])), ("f".into(), Val::Int(3))]),
                };
                let id = ["basic", "aliased", "tok", "nested", "with"][(pi + shape) % 5];
                let pos = (pi + shape) % 3; // before / between / after
                emit_with_unknown(g, id, &[(pos, val)]);
                count += 1;
            }
        }
        for _ in 0..n_random {
            let id = *g.rng.pick(&["basic", "aliased", "tok", "nested", "with"]);
            let k = 1 + g.rng.below(3);
            let ins: Vec<(usize, Val)> = (0..k).map(|_| (g.rng.below(3), adversarial_container(&mut g.rng, &payloads, 0))).collect();
            emit_with_unknown(g, id, &ins);
            count += 1;
        }
        g.count(&format!("adversarial-unknown-values:{}", count));
    }
    // 3d. the systematic struct family (c18_family.rs): for every struct all multiplicity vectors
    // in {0,1,2}^fields in one random order each, plus random documents with multiplicities 0..3,
    // un-aliased names, unknown fields and keys written as token ids
    {
        assert_eq!(name_id("f0"), Some(0x2d00 + family::F_BASE as u16), "NAMES / F_BASE out of step");
        let n_random = g.budget(45, 500);
        let mut total = 0usize;
        for (name, spec) in family::FAMILY {
            let id = format!("{}~{}", name, spec);
            let fields = family_fields(spec);
            let nf = fields.len();
            let mut counter = 1i32;
            let mut value_for = |rng: &mut Rng, f: &(String, char, char)| -> Val {
                counter += 1;
                let n = counter;
                match (f.1, f.2) {
                    (_, 's') => Val::Q(format!("v{}", n).into_bytes()),
                    ('d', 'v') => Val::Arr((0..rng.below(3)).map(|i| Val::Int(n * 10 + i as i32)).collect()),
                    (_, 'v') if f.1 != 'd' => Val::Arr((0..rng.below(3)).map(|i| Val::Int(n * 10 + i as i32)).collect()),
                    _ => Val::Int(n),
                }
            };
            for code in 0..3usize.pow(nf as u32) {
                let mut p: Vec<Item> = vec![];
                let mut c = code;
                for f in &fields {
                    for _ in 0..(c % 3) {
                        let val = value_for(&mut g.rng, f);
                        p.push(Item { as_i32: false, as_id: g.rng.chance(1, 3), key: f.0.clone(), val });
                    }
                    c /= 3;
                }
                for i in (1..p.len()).rev() { let j = g.rng.below(i + 1); p.swap(i, j); }
                emit(g, &id, &p);
                total += 1;
            }
            for _ in 0..n_random {
                let mut p: Vec<Item> = vec![];
                for (i, f) in fields.iter().enumerate() {
                    let m = match g.rng.below(10) { 0 | 1 => 0, 2 => 2, 3 => 3, _ => 1 };
                    for _ in 0..m {
                        let val = value_for(&mut g.rng, f);
                        p.push(Item { as_i32: false, as_id: g.rng.chance(1, 2), key: f.0.clone(), val });
                    }
                    // the un-aliased name of an aliased field must not match (by name; by token id it does)
                    if f.0.starts_with('a') && g.rng.chance(1, 3) {
                        let val = value_for(&mut g.rng, f);
                        p.push(Item { as_i32: false, as_id: g.rng.chance(1, 2), key: format!("f{}", i), val });
                    }
                }
                for i in (1..p.len()).rev() { let j = g.rng.below(i + 1); p.swap(i, j); }
                let nu = g.rng.below(3);
                for _ in 0..nu {
                    let pos = g.rng.below(p.len() + 1);
                    let it = unknown_item(&mut g.rng, !spec.split('/').any(|f| !f.ends_with(":-")), 900 + p.len() as i32);
                    p.insert(pos, it);
                }
                emit(g, &id, &p);
                total += 1;
            }
        }
        g.count(&format!("family:{}-structs:{}-cases", family::FAMILY.len(), total));
    }
    // 4. probes
    for s in [
        "derive tok a=1,bee=2,123=5",
        "derive basic a=1,f=2,%123=5",
        "derive basic a=1,f=2,123=5",
        "derive tok #a=1,#b=2,#u1=3,#u2=4",
        "derive tok a=1,b=2",
        "derive tok #a=1,#bee=2",
        "derive aliased a=1,x=2",
        "derive aliased x=1,dd=5,d=6",
        "derive basic a=1,a=2,f=1,f=2",
        "derive basic f=1,f=2,e=3,e=4",
        "derive basic -",
        "derive with a=1,f=2,f=3,e=4,e=5",
        "derive nested inner={u=1;v=2;v=3},inners={u=4},inners={u=5;w=6;w=7},last={u=8},last={u=9}",
        "derive nested inner={v=2}",
        "derive nested inner={u=1;u=2}",
    ] {
        g.emit(s.to_string());
    }
}

/// 16-bit limbs that are structural / type lexemes of the binary format
const LIMBS: [u16; 11] = [0x0001, 0x0003, 0x0004, 0x000c, 0x000e, 0x000f, 0x0014, 0x0017, 0x0243, 0x0317, 0x029c];

/// every payload-carrying token kind with every limb at every limb position, plus strings that
/// contain `03 00` / `04 00` (and whose length field is itself a lexeme id) and, for text,
/// strings full of `{ } " \ # =`
fn adversarial_scalars() -> Vec<Val> {
    let mut out = vec![];
    for &l in &LIMBS {
        for pos in 0..4 {
            let v = (l as u64) << (16 * pos);
            out.push(Val::I64(v as i64));
            out.push(Val::U64(v));
            out.push(Val::F64(v.to_le_bytes()));
        }
        for pos in 0..2 {
            let v = (l as u32) << (16 * pos);
            out.push(Val::Int(v as i32));
            out.push(Val::U32(v));
            out.push(Val::F32(v.to_le_bytes()));
        }
        out.push(Val::Rgb(vec![l as u32, (l as u32) << 16, 7]));
        // all four limbs structural
        let all = (l as u64) * 0x0001_0001_0001_0001;
        out.push(Val::I64(all as i64));
        out.push(Val::U64(all ^ 0x0004_0003_0004_0003));
    }
    out.push(Val::I64(0x0003_0004));
    out.push(Val::I64(0x0004_0004_0004_0004));
    out.push(Val::I64(-1));
    out.push(Val::I64(5_000_000_000));
    out.push(Val::Rgb(vec![3, 4, 0x0004_0003, 0x0003_0004]));
    for b in [0u8, 1, 3, 4] {
        out.push(Val::Bool(b));
    }
    let strs: [&[u8]; 10] = [
        b"\x03\x00", b"\x04\x00", b"\x03\x00\x04\x00", b"a\x04\x00\x04\x00b", b"\x00\x03\x00", b"abc", b"abcd",
        b"{}\"\\#=", b"} = { # \"x\\", b"twelve chars",
    ];
    for st in strs {
        out.push(Val::Q(st.to_vec()));
        out.push(Val::Uq(st.to_vec()));
    }
    out
}

fn adversarial_container(rng: &mut Rng, payloads: &[Val], depth: usize) -> Val {
    let n = 1 + rng.below(4);
    let leaf = |rng: &mut Rng| rng.pick(payloads).clone();
    if rng.chance(1, 2) {
        Val::Arr((0..n).map(|_| if depth < 2 && rng.chance(1, 3) { adversarial_container(rng, payloads, depth + 1) } else { leaf(rng) }).collect())
    } else {
        Val::Obj(
            (0..n)
                .map(|_| {
                    let k = rng.pick(&["a", "e", "f", "zz", "k1", "inner", "x"]).to_string();
                    (k, if depth < 2 && rng.chance(1, 3) { adversarial_container(rng, payloads, depth + 1) } else { leaf(rng) })
                })
                .collect(),
        )
    }
}

/// a successful document for `id` (every required field once, duplicated / take_last fields
/// several times) with unknown fields inserted before (0), between (1) or after (2) the known ones
fn emit_with_unknown(g: &mut Gen, id: &str, ins: &[(usize, Val)]) {
    let keys: &[&str] = match id {
        "basic" => &["a", "e", "f", "b", "e", "f"],
        "aliased" => &["x", "core", "l", "core", "g"],
        "tok" => &["a", "e", "bee", "f", "e"],
        "nested" => &["inner", "inners", "x", "inners"],
        _ => &["a", "f", "e", "e", "f"],
    };
    let mut p: Vec<Item> = vec![];
    for (n, k) in keys.iter().enumerate() {
        let val = if id == "nested" && *k != "x" {
            Val::Obj(vec![("u".into(), Val::Int(n as i32 + 1)), ("v".into(), Val::Int(20 + n as i32))])
        } else {
            Val::Int(n as i32 + 1)
        };
        p.push(Item { as_i32: false, as_id: g.rng.chance(1, 3) && *k != "bee", key: k.to_string(), val });
    }
    let known = p.len();
    for (j, (pos, v)) in ins.iter().enumerate() {
        let at = match pos {
            0 => 0,
            1 => 1 + g.rng.below(known - 1) + j.min(1) * 0,
            _ => p.len(),
        };
        let key = *g.rng.pick(&["zz", "yy", "k1", "k2", "u2"]);
        p.insert(at.min(p.len()), Item { as_i32: false, as_id: g.rng.chance(1, 3), key: key.to_string(), val: v.clone() });
    }
    emit(g, id, &p);
}

pub fn tables() -> String {
    String::new()
}
