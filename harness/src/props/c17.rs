//! C17 — DOM iterators, lengths and groupings agree with each other.
//!
//! op: `dom <input-hex> <tape>`
//!   <tape> is the real parser's tape for <input-hex> printed with `show::text_tape` (the Lean
//!   driver only looks at the tape; the harness re-parses the input with the REAL
//!   `TextTape::from_slice`, checks that the tape is the one on the case line and walks the REAL
//!   readers).  Result line (identical from `jmdriver`, computed from `Model/Dom.lean`):
//!
//!   `wf=1 R{O:<obj>} <vi>{O:<obj>;A:<arr>} <vi>{H:<arr>} …`          (nodes in increasing `vi`)
//!     <obj> = `tl=<tokens_len>,fl=<fields_len>,sh=<size_hint.0>,F=[<keytok>/<op|->/<value idx> …],`
//!             `gsh=<groups size_hint.0>,G=[<keytok>><op|->/<value idx>+… | …],rem=<arr>`
//!     <arr> = `tl=<tokens_len>,len=<len>,sh=<lo>/<hi>,V=[<value idx> …]`
//!   `R` is the root object reader, `<vi>` the tape index of an Array/Object token (object view =
//!   `read_object`, array view = `read_array`) or of a Header token (header view = `read_array`).
//!   Value indices are observed through `ValueReader::token()` (a reference into the tape:
//!   pointer offset / size_of::<TextToken>()).  The walk visits every value the readers yield
//!   (fields, remainder, values; header views skip their first element, which is the header token
//!   itself) once, both with the Windows-1252 and the UTF-8 readers (must be identical).
//!
//! L3 oracles (implementation only): count(fields()) == fields_len() == size_hint at every step;
//! count(values()) == len() == both size-hint bounds at every step; field_groups() == stable
//! group-by-key of fields(); group.len() == count(group.values()); remainder == trailing part
//! after the MixedContainer token (empty otherwise; the whole array for the object view of an
//! array); groups.remainder() == fields.remainder(); no panic; both encodings agree.
use crate::common::*;
use crate::docgen::*;
use crate::show::{op_name, text_tape, text_tape_tok};
use jomini::text::{ArrayReader, ObjectReader, ValueReader};
use jomini::{Encoding, TextTape, TextToken};
use std::collections::{BTreeMap, BTreeSet};

struct Walk<'t, 'd> {
    toks: &'t [TextToken<'d>],
    nodes: BTreeMap<usize, String>,
    visited: BTreeSet<usize>,
    viol: Vec<(String, String)>,
}

impl<'t, 'd> Walk<'t, 'd> {
    fn vidx<E>(&self, v: &ValueReader<'d, 't, E>) -> usize {
        let p = v.token() as *const TextToken as usize;
        (p - self.toks.as_ptr() as usize) / std::mem::size_of::<TextToken>()
    }

    fn bad(&mut self, kind: &str, detail: String) {
        if self.viol.len() < 8 {
            self.viol.push((kind.to_string(), detail));
        }
    }

    fn arr_view<E: Encoding + Clone>(&mut self, r: &ArrayReader<'d, 't, E>, at: &str, kids: &mut Vec<(usize, ValueReader<'d, 't, E>)>) -> String {
        let tl = r.tokens_len();
        let len = r.len();
        let mut it = r.values();
        let sh = it.size_hint();
        let mut vs: Vec<usize> = vec![];
        let mut hints: Vec<(usize, Option<usize>)> = vec![];
        loop {
            hints.push(it.size_hint());
            match it.next() {
                Some(v) => {
                    let i = self.vidx(&v);
                    vs.push(i);
                    kids.push((i, v));
                }
                None => break,
            }
        }
        let n = vs.len();
        if n != len {
            self.bad("values-len", format!("{}: count(values())={} len()={}", at, n, len));
        }
        for (k, h) in hints.iter().enumerate() {
            if h.0 != n - k || h.1 != Some(n - k) {
                self.bad("values-size-hint", format!("{}: after {} items size_hint={:?} remaining={}", at, k, h, n - k));
            }
        }
        if r.is_empty() != (len == 0) {
            self.bad("values-is-empty", format!("{}: is_empty={} len={}", at, r.is_empty(), len));
        }
        format!(
            "tl={},len={},sh={}/{},V=[{}]",
            tl,
            len,
            sh.0,
            sh.1.map(|x| x.to_string()).unwrap_or("-".into()),
            vs.iter().map(|x| x.to_string()).collect::<Vec<_>>().join(" ")
        )
    }

    fn obj_view<E: Encoding + Clone>(&mut self, r: &ObjectReader<'d, 't, E>, at: &str, kids: &mut Vec<(usize, ValueReader<'d, 't, E>)>) -> String {
        let tl = r.tokens_len();
        let fl = r.fields_len();
        let mut it = r.fields();
        let sh = it.size_hint();
        // (key token rendering, raw key bytes, op, value idx)
        let mut fs: Vec<(String, Vec<u8>, &'static str, usize)> = vec![];
        let mut hints = vec![];
        loop {
            hints.push(it.size_hint());
            match it.next() {
                Some((k, op, v)) => {
                    let i = self.vidx(&v);
                    fs.push((text_tape_tok(k.token()), k.read_scalar().as_bytes().to_vec(), op.map(op_name).unwrap_or("-"), i));
                    kids.push((i, v));
                }
                None => break,
            }
        }
        let n = fs.len();
        if n != fl {
            self.bad("fields-len", format!("{}: count(fields())={} fields_len()={}", at, n, fl));
        }
        for (k, h) in hints.iter().enumerate() {
            if h.0 != n - k || h.1.is_some() {
                self.bad("fields-size-hint", format!("{}: after {} items size_hint={:?} remaining={}", at, k, h, n - k));
            }
        }
        // remainder after exhausting the fields
        let rem = it.remainder();
        let mut rem_kids = vec![];
        let rem_s = self.arr_view(&rem, &format!("{}.rem", at), &mut rem_kids);
        // L3: remainder == what follows the MixedContainer token at which the fields stopped, and
        // (for the object view of an Array token) the whole array; otherwise empty.
        {
            let rem_vs: Vec<usize> = rem_kids.iter().map(|x| x.0).collect();
            let expect = self.expected_remainder(at, &fs);
            if let Some(exp) = expect {
                if exp != rem_vs {
                    self.bad("remainder", format!("{}: remainder values {:?} expected {:?}", at, rem_vs, exp));
                }
            }
        }
        // groups
        let mut git = r.field_groups();
        let gsh = git.size_hint();
        let mut groups: Vec<(String, Vec<u8>, Vec<(&'static str, usize)>)> = vec![];
        let mut ghints = vec![];
        loop {
            ghints.push(git.size_hint());
            match git.next() {
                Some((k, g)) => {
                    let mut es = vec![];
                    for (op, v) in g.values() {
                        let i = self.vidx(&v);
                        es.push((op.map(op_name).unwrap_or("-"), i));
                    }
                    if es.len() != g.len() || g.is_empty() {
                        self.bad("group-len", format!("{}: group.len()={} values={}", at, g.len(), es.len()));
                    }
                    groups.push((text_tape_tok(k.token()), k.read_scalar().as_bytes().to_vec(), es));
                }
                None => break,
            }
        }
        for (k, h) in ghints.iter().enumerate() {
            if h.0 != groups.len() - k || h.1.is_some() {
                self.bad("groups-size-hint", format!("{}: after {} groups size_hint={:?} remaining={}", at, k, h, groups.len() - k));
            }
        }
        let grem = git.remainder();
        let mut grem_kids = vec![];
        let grem_s = self.arr_view(&grem, &format!("{}.grem", at), &mut grem_kids);
        if grem_s != rem_s {
            self.bad("groups-remainder", format!("{}: groups.remainder() {} fields.remainder() {}", at, grem_s, rem_s));
        }
        // L3: groups == stable group-by-key(fields), independent reference
        {
            let mut reference: Vec<(String, Vec<u8>, Vec<(&'static str, usize)>)> = vec![];
            for (kt, kb, op, v) in &fs {
                if let Some(g) = reference.iter_mut().find(|g| &g.1 == kb) {
                    g.2.push((*op, *v));
                } else {
                    reference.push((kt.clone(), kb.clone(), vec![(*op, *v)]));
                }
            }
            if reference != groups {
                self.bad("groups", format!("{}: field_groups() {:?} != group-by(fields()) {:?}", at, groups, reference));
            }
        }
        kids.extend(rem_kids);
        format!(
            "tl={},fl={},sh={},F=[{}],gsh={},G=[{}],rem={}",
            tl,
            fl,
            sh.0,
            fs.iter().map(|(k, _, op, v)| format!("{}/{}/{}", k, op, v)).collect::<Vec<_>>().join(" "),
            gsh.0,
            groups
                .iter()
                .map(|(k, _, es)| format!("{}>{}", k, es.iter().map(|(op, v)| format!("{}/{}", op, v)).collect::<Vec<_>>().join("+")))
                .collect::<Vec<_>>()
                .join(" | "),
            rem_s
        )
    }

    /// Independent reading of "the trailing array part": value indices (one per top-level value,
    /// containers skipped through their `end`) of what follows the fields of the reader `at`.
    fn expected_remainder(&self, at: &str, fs: &[(String, Vec<u8>, &'static str, usize)]) -> Option<Vec<usize>> {
        let toks = self.toks;
        let skip = |i: usize| match toks.get(i) {
            Some(TextToken::Array { end, .. }) | Some(TextToken::Object { end, .. }) => end + 1,
            _ => i + 1,
        };
        // range of the reader
        let (start, end, is_array_tok) = if at == "R" {
            (0usize, toks.len(), false)
        } else {
            let vi: usize = at.parse().ok()?;
            match toks.get(vi)? {
                TextToken::Object { end, .. } => (vi + 1, *end, false),
                TextToken::Array { end, .. } => (vi + 1, *end, true),
                _ => return None,
            }
        };
        let list = |mut i: usize| {
            let mut out = vec![];
            while i < end {
                out.push(i);
                i = skip(i);
            }
            out
        };
        if is_array_tok {
            // object view of an array: no fields, everything is remainder
            return Some(list(start));
        }
        // position after the last field: the value (header + body counts as one value)
        let mut pos = start;
        if let Some(last) = fs.last() {
            pos = match toks.get(last.3) {
                Some(TextToken::Header(_)) => skip(last.3 + 1),
                _ => skip(last.3),
            };
        }
        match toks.get(pos) {
            Some(TextToken::MixedContainer) if pos < end => Some(list(pos + 1)),
            _ => Some(vec![]),
        }
    }

    fn visit<E: Encoding + Clone>(&mut self, vi: usize, v: ValueReader<'d, 't, E>) {
        if !self.visited.insert(vi) {
            return;
        }
        let mut kids = vec![];
        match v.token() {
            TextToken::Object { .. } | TextToken::Array { .. } => {
                let at = vi.to_string();
                let o = match v.read_object() {
                    Ok(o) => self.obj_view(&o, &at, &mut kids),
                    Err(_) => {
                        self.bad("read-object", format!("{}: read_object failed on a container", at));
                        "err".to_string()
                    }
                };
                let a = match v.read_array() {
                    Ok(a) => self.arr_view(&a, &at, &mut kids),
                    Err(_) => {
                        self.bad("read-array", format!("{}: read_array failed on a container", at));
                        "err".to_string()
                    }
                };
                if v.tokens_len() != v.read_array().map(|a| a.tokens_len()).unwrap_or(0)
                    && !matches!(v.token(), TextToken::Object { mixed: true, .. })
                {
                    self.bad("tokens-len", format!("{}: value tokens_len {}", at, v.tokens_len()));
                }
                self.nodes.insert(vi, format!("{}{{O:{};A:{}}}", vi, o, a));
            }
            TextToken::Header(_) => {
                let at = vi.to_string();
                if v.read_object().is_ok() {
                    self.bad("read-object", format!("{}: read_object succeeded on a header", at));
                }
                let a = match v.read_array() {
                    Ok(a) => {
                        let mut hk = vec![];
                        let s = self.arr_view(&a, &at, &mut hk);
                        // the first element of a header view is the header token itself
                        if hk.first().map(|x| x.0) != Some(vi) || hk.len() != 2 {
                            self.bad("header-view", format!("{}: header view values {:?}", at, hk.iter().map(|x| x.0).collect::<Vec<_>>()));
                        }
                        kids.extend(hk.into_iter().skip(1));
                        s
                    }
                    Err(_) => {
                        self.bad("read-array", format!("{}: read_array failed on a header", at));
                        "err".to_string()
                    }
                };
                self.nodes.insert(vi, format!("{}{{H:{}}}", vi, a));
            }
            _ => {
                if v.read_object().is_ok() || v.read_array().is_ok() {
                    self.bad("read-container", format!("{}: read_object/read_array succeeded on {:?}", vi, v.token()));
                }
            }
        }
        for (i, k) in kids {
            self.visit(i, k);
        }
    }

    fn run<E: Encoding + Clone>(&mut self, root: ObjectReader<'d, 't, E>) -> String {
        let mut kids = vec![];
        let r = self.obj_view(&root, "R", &mut kids);
        for (i, k) in kids {
            self.visit(i, k);
        }
        let mut out = format!("wf=1 R{{O:{}}}", r);
        for s in self.nodes.values() {
            out.push(' ');
            out.push_str(s);
        }
        out
    }
}

fn walk_tape(tape: &TextTape, case: &str, obs: &mut Obs) -> String {
    let toks = tape.tokens();
    let mut w1 = Walk { toks, nodes: BTreeMap::new(), visited: BTreeSet::new(), viol: vec![] };
    let s1 = w1.run(tape.windows1252_reader());
    let mut w2 = Walk { toks, nodes: BTreeMap::new(), visited: BTreeSet::new(), viol: vec![] };
    let s2 = w2.run(tape.utf8_reader());
    if s1 != s2 {
        obs.violation("encodings-differ", case, &format!("windows1252 {} utf8 {}", s1, s2));
    }
    for (k, d) in w1.viol.iter().chain(w2.viol.iter()) {
        obs.violation(k, case, d);
    }
    // every container / header token of the tape must have been reached through the readers
    for (i, t) in toks.iter().enumerate() {
        if matches!(t, TextToken::Array { .. } | TextToken::Object { .. } | TextToken::Header(_)) && !w1.visited.contains(&i) {
            obs.violation("unreachable", case, &format!("container token {} is not reachable through the readers", i));
            break;
        }
    }
    obs.count(&format!("nodes:{}", match w1.nodes.len() { 0 => "0", 1..=3 => "1-3", 4..=15 => "4-15", _ => "16+" }));
    s1
}

pub fn exec(w: &[&str], obs: &mut Obs) -> Option<String> {
    match w {
        ["dom", h, tape_txt] => {
            let case = w.join(" ");
            let d = unhex(h)?;
            let tape = match TextTape::from_slice(&d) {
                Ok(t) => t,
                Err(_) => {
                    obs.violation("tape-mismatch", &case, "input does not parse");
                    return Some("noparse".into());
                }
            };
            if text_tape(tape.tokens()) != *tape_txt {
                obs.violation("tape-mismatch", &case, &format!("real tape is {}", text_tape(tape.tokens())));
                return Some("tape-mismatch".into());
            }
            for t in tape.tokens() {
                obs.count(match t {
                    TextToken::Array { mixed: true, .. } => "tok:array-mixed",
                    TextToken::Array { .. } => "tok:array",
                    TextToken::Object { mixed: true, .. } => "tok:object-mixed",
                    TextToken::Object { .. } => "tok:object",
                    TextToken::MixedContainer => "tok:mixed",
                    TextToken::Unquoted(_) => "tok:unquoted",
                    TextToken::Quoted(_) => "tok:quoted",
                    TextToken::Parameter(_) => "tok:parameter",
                    TextToken::UndefinedParameter(_) => "tok:undefparameter",
                    TextToken::Operator(_) => "tok:operator",
                    TextToken::End(_) => "tok:end",
                    TextToken::Header(_) => "tok:header",
                });
            }
            let r = walk_tape(&tape, &case, obs);
            if r.contains("|") {
                obs.count("has:several-groups");
            }
            if r.contains("+") {
                obs.count("has:duplicate-key-group");
            }
            Some(r)
        }
        _ => None,
    }
}

fn emit_if_parses(g: &mut Gen, d: &[u8], tag: &str) -> bool {
    match guard(|| TextTape::from_slice(d).map(|t| text_tape(t.tokens()))) {
        Ok(Ok(t)) => {
            g.emit(format!("dom {} {}", hex(d), t));
            g.count(&format!("{}:parsed", tag));
            true
        }
        _ => {
            g.count(&format!("{}:rejected", tag));
            false
        }
    }
}

pub const HANDWRITTEN: &[&str] = &[
    "",
    "a=b",
    "name=a core=b core=c",
    "a=b a=c \"a\"=d b=e a>f",
    "a={b=c d=e} f={1 2 3}",
    "a={} b={ } c={{}} d={{} {}}",
    "obj={1 {foo=bar} 3}",
    "color = rgb { 1 2 3 } c2 = hsv { 0.1 0.2 0.3 } l = LIST { a b }",
    "x = { a=b c d }",
    "x = { a=b c d=e f }",
    "x = { a=b c d {} e = f }",
    "x = { a=b c { d=e } f }",
    "x = { a=b c { d=e f g } h { i } }",
    "a = { b != c }",
    "a = { b ?= c }",
    "a = { x=1 b ?= c }",
    "a = { b >= c d < e f == g h <= i j > k }",
    "a b {}",
    "a b {} c = d",
    "{} a=b {} {} c=d",
    "a = { {} b=c {} }",
    "a = { [[x] y=z ] [[!w] v ] q=r }",
    "a = { [[x] y ] }",
    "a = { [[x] y=z w={1 2} ] }",
    "generate = { [[scope] v ] { 1 } }",
    "a = { b = c",
    "a = { b = { c = d } ",
    "a=b } } c=d",
    "a = { 1 2 = 3 }",
    "a = { 1 2 = { 3 } 4 }",
    "a = { b = rgb { 1 2 3 } rgb { 4 5 6 } }",
    "a = { b = hsv { 1 } c }",
    "a = { b c = hsv { 1 } }",
    "a = { b = { c } d = { e = f } d = { g } }",
    "a{b=c}d{e}",
    "@v = 1 x = @[v+1] y = \"q\" \"q r\" = { \"s\" }",
    "a = { { b } { c=d } { } }",
    "a = { b = c d = e } a = { f } a = g",
    "foo={bar=qux baz=quux bar=2} foo={x}",
];

pub fn gen(g: &mut Gen) {
    for s in HANDWRITTEN {
        emit_if_parses(g, s.as_bytes(), "handwritten");
    }
    // exhaustive short strings over a structural alphabet
    {
        let alpha: &[u8] = b"a{}= <";
        let maxlen = g.budget(6, 7);
        let mut cur: Vec<u8> = vec![];
        fn rec(g: &mut Gen, alpha: &[u8], cur: &mut Vec<u8>, maxlen: usize) {
            if !cur.is_empty() {
                emit_if_parses(g, cur, "exhaustive");
            }
            if cur.len() == maxlen {
                return;
            }
            for &a in alpha {
                cur.push(a);
                rec(g, alpha, cur, maxlen);
                cur.pop();
            }
        }
        rec(g, alpha, &mut cur, maxlen);
    }
    // model documents under random layouts
    let cfg = DocCfg::text_full();
    let lay = LayoutCfg::full();
    let n = g.budget(4_000, 60_000);
    let mut pool: Vec<Vec<u8>> = vec![];
    for i in 0..n {
        let mut c = cfg.clone();
        if i % 3 == 0 {
            // many duplicate keys
            c.max_fields = 8;
            c.typed = false;
            c.quoted_keys = true;
        }
        let doc = gen_doc(&mut g.rng, &c);
        let lex = lexemes(&doc);
        let txt = if i % 4 == 0 { render_canonical(&lex) } else { render_layout(&mut g.rng, &lay, &lex) };
        if emit_if_parses(g, &txt, "docgen") && pool.len() < 2000 {
            pool.push(txt);
        }
    }
    // small documents over a tiny key pool: dense duplicates, mixed, operators, parameters
    let n = g.budget(4_000, 60_000);
    for _ in 0..n {
        let mut s = Vec::new();
        small_body(&mut g.rng, 0, &mut s);
        emit_if_parses(g, &s, "small");
    }
    // malformed stream: mutations of accepted documents and random strings that happen to parse
    let n = g.budget(6_000, 100_000);
    for _ in 0..n {
        let base = if pool.is_empty() { b"a={b=c d e}".to_vec() } else { g.rng.pick(&pool).clone() };
        let m = mutate(&mut g.rng, &base, TEXT_ALPHABET);
        emit_if_parses(g, &m, "mutated");
    }
    let n = g.budget(8_000, 150_000);
    for _ in 0..n {
        let m = random_text(&mut g.rng, 24);
        emit_if_parses(g, &m, "random");
    }
}

/// free-form token soup biased to what the tape parser tolerates
fn small_body(rng: &mut Rng, depth: usize, out: &mut Vec<u8>) {
    let n = rng.below(7);
    for _ in 0..n {
        match rng.below(20) {
            0..=8 => {
                out.extend_from_slice(*rng.pick(&[&b"a"[..], b"b", b"c", b"\"a\"", b"\"b\"", b"1", b"@a"]));
                out.extend_from_slice(*rng.pick(&[&b"="[..], b"=", b"=", b"=", b" = ", b"<", b">=", b"!=", b"?=", b"==", b" "]));
                match rng.below(8) {
                    0 | 1 if depth < 4 => {
                        out.push(b'{');
                        small_body(rng, depth + 1, out);
                        out.push(b'}');
                    }
                    2 if depth < 4 => {
                        out.extend_from_slice(*rng.pick(&[&b"rgb{"[..], b"hsv {", b"LIST{"]));
                        small_body(rng, depth + 1, out);
                        out.push(b'}');
                    }
                    _ => out.extend_from_slice(*rng.pick(&[&b"x"[..], b"y", b"\"z\"", b"1", b"a"])),
                }
            }
            9 | 10 => out.extend_from_slice(*rng.pick(&[&b"a"[..], b"b", b"x", b"\"q\""])),
            11 | 12 if depth < 4 => {
                out.push(b'{');
                small_body(rng, depth + 1, out);
                out.push(b'}');
            }
            13 => out.extend_from_slice(b"{}"),
            14 => {
                out.extend_from_slice(if rng.chance(1, 2) { b"[[p]" } else { b"[[!p]" });
                if rng.chance(1, 2) {
                    out.extend_from_slice(b" v ]");
                } else {
                    out.push(b' ');
                    small_body(rng, depth + 1, out);
                    out.extend_from_slice(b" ]");
                }
            }
            15 => out.extend_from_slice(*rng.pick(&[&b"="[..], b"<", b">", b"!=", b"}"])),
            _ => out.extend_from_slice(*rng.pick(&[&b"a"[..], b"b", b"c"])),
        }
        out.push(b' ');
    }
}

pub fn tables() -> String {
    String::new()
}
