//! C15 — well-formed sequences of writer calls parse back to exactly what was written.
//!
//! op `wcalls <indent_char> <indent_factor> <call>…`
//!   calls: `os` write_object_start, `as` write_array_start, `s` write_start, `e` write_end,
//!   `mm` start_mixed_mode, `u:<hex>` write_unquoted, `q:<hex>` write_quoted, `h:<hex>` write_header,
//!   `op:<name>` write_operator, `b:0|1` write_bool, `i32:<n>` `u32:<n>` `i:<n>` (i64) `n:<n>` (u64),
//!   `f32:<bits hex>:<text hex>` `f64:<bits hex>:<text hex>` write_f32 / write_f64 (the text is what
//!   std's Display prints for the value: float Display is not modelled, the model writes the text),
//!   `f32p:<bits>:<prec>:<text>` `f64p:<bits>:<prec>:<text>` write_f*_precision,
//!   `d:<s|w|i>:<y>.<m>.<d>.<h>` write_date(PdsDateFormatter::new(RawDate{y,m,d,h}, DotShort|DotWide|Iso8601)),
//!   `rgb:<r>.<g>.<b>[.<a>]` write_rgb, `bt:<token>` write_binary with the token in show.rs
//!   `bin_tape_tok` format (F32/F64 with `:<text hex>` appended).
//!   result: `<output hex> <obs>… st:<mode>/<depth stack>/<state>/<nlt>/<mixed>` where `<obs>` after every
//!   call is `<depth>/<expecting_key><at_array_value><at_unknown_start>` or `err:stackempty`, and `st:` is
//!   the full machine state read from the writer's `Debug` output.
//!
//! L3 oracles (implementation only): see `oracle_wcalls`.
use crate::common::*;
use crate::docgen::{self, Doc, DocCfg, Field, Leaf, Node, Op};
use crate::show;
use jomini::binary::Rgb;
use jomini::common::{DateFormat, PdsDateFormatter, RawDate};
use jomini::text::Operator;
use jomini::{BinaryToken, Scalar, TextTape, TextToken, TextWriter, TextWriterBuilder, Utf8Encoding, Windows1252Encoding};

// ---------------------------------------------------------------------------------------
// call tokens

#[derive(Clone, Debug, PartialEq)]
pub enum BinT {
    Array(usize),
    Object(usize),
    Mixed,
    Equal,
    End(usize),
    Bool(bool),
    U32(u32),
    U64(u64),
    I64(i64),
    I32(i32),
    Quoted(Vec<u8>),
    Unquoted(Vec<u8>),
    F32([u8; 4]),
    F64([u8; 8]),
    Token(u16),
    Rgb(u32, u32, u32, Option<u32>),
}

#[derive(Clone, Debug, PartialEq)]
pub enum Call {
    Start,
    ObjectStart,
    ArrayStart,
    End,
    Mixed,
    Unquoted(Vec<u8>),
    Quoted(Vec<u8>),
    Header(Vec<u8>),
    Operator(Op),
    Bool(bool),
    I32(i32),
    U32(u32),
    I64(i64),
    U64(u64),
    F32(u32),
    F64(u64),
    F32P(u32, usize),
    F64P(u64, usize),
    /// format (s = DotShort, w = DotWide, i = Iso8601), year, month, day, hour (0 = none)
    Date(char, i16, u8, u8, u8),
    Rgb(u32, u32, u32, Option<u32>),
    Binary(BinT),
}

fn rgb_str(r: u32, g: u32, b: u32, a: Option<u32>) -> String {
    match a {
        Some(a) => format!("{}.{}.{}.{}", r, g, b, a),
        None => format!("{}.{}.{}", r, g, b),
    }
}

fn f32_text(bits: u32) -> String { format!("{}", f32::from_bits(bits)) }
fn f64_text(bits: u64) -> String { format!("{}", f64::from_bits(bits)) }
fn f32p_text(bits: u32, p: usize) -> String { format!("{0:.1$}", f32::from_bits(bits), p) }
fn f64p_text(bits: u64, p: usize) -> String { format!("{0:.1$}", f64::from_bits(bits), p) }

pub fn call_token(c: &Call) -> String {
    match c {
        Call::Start => "s".into(),
        Call::ObjectStart => "os".into(),
        Call::ArrayStart => "as".into(),
        Call::End => "e".into(),
        Call::Mixed => "mm".into(),
        Call::Unquoted(b) => format!("u:{}", hex(b)),
        Call::Quoted(b) => format!("q:{}", hex(b)),
        Call::Header(b) => format!("h:{}", hex(b)),
        Call::Operator(o) => format!("op:{}", o.name()),
        Call::Bool(b) => format!("b:{}", *b as u8),
        Call::I32(v) => format!("i32:{}", v),
        Call::U32(v) => format!("u32:{}", v),
        Call::I64(v) => format!("i:{}", v),
        Call::U64(v) => format!("n:{}", v),
        Call::F32(bits) => format!("f32:{:08x}:{}", bits, hex(f32_text(*bits).as_bytes())),
        Call::F64(bits) => format!("f64:{:016x}:{}", bits, hex(f64_text(*bits).as_bytes())),
        Call::F32P(bits, p) => format!("f32p:{:08x}:{}:{}", bits, p, hex(f32p_text(*bits, *p).as_bytes())),
        Call::F64P(bits, p) => format!("f64p:{:016x}:{}:{}", bits, p, hex(f64p_text(*bits, *p).as_bytes())),
        Call::Date(f, y, m, d, h) => format!("d:{}:{}.{}.{}.{}", f, y, m, d, h),
        Call::Rgb(r, g, b, a) => format!("rgb:{}", rgb_str(*r, *g, *b, *a)),
        Call::Binary(t) => format!("bt:{}", bint_token(t)),
    }
}

fn bint_token(t: &BinT) -> String {
    match t {
        BinT::Array(e) => format!("A{}", e),
        BinT::Object(e) => format!("O{}", e),
        BinT::Mixed => "M".into(),
        BinT::Equal => "Eq".into(),
        BinT::End(e) => format!("E{}", e),
        BinT::Bool(b) => format!("B:{}", *b as u8),
        BinT::U32(v) => format!("U32:{}", v),
        BinT::U64(v) => format!("U64:{}", v),
        BinT::I64(v) => format!("I64:{}", v),
        BinT::I32(v) => format!("I32:{}", v),
        BinT::Quoted(b) => format!("Q:{}", hex(b)),
        BinT::Unquoted(b) => format!("U:{}", hex(b)),
        BinT::F32(b) => format!("F32:{}:{}", hex(b), hex(f32_text(u32::from_le_bytes(*b)).as_bytes())),
        BinT::F64(b) => format!("F64:{}:{}", hex(b), hex(f64_text(u64::from_le_bytes(*b)).as_bytes())),
        BinT::Token(id) => format!("T:{}", id),
        BinT::Rgb(r, g, b, a) => format!("Rgb:{}", rgb_str(*r, *g, *b, *a)),
    }
}

fn parse_rgb(s: &str) -> Option<(u32, u32, u32, Option<u32>)> {
    let p: Vec<&str> = s.split('.').collect();
    match p.as_slice() {
        [r, g, b] => Some((r.parse().ok()?, g.parse().ok()?, b.parse().ok()?, None)),
        [r, g, b, a] => Some((r.parse().ok()?, g.parse().ok()?, b.parse().ok()?, Some(a.parse().ok()?))),
        _ => None,
    }
}

fn parse_op(s: &str) -> Option<Op> {
    Op::ALL.iter().copied().find(|o| o.name() == s)
}

fn parse_bint(s: &str) -> Option<BinT> {
    if s == "M" { return Some(BinT::Mixed); }
    if s == "Eq" { return Some(BinT::Equal); }
    if let Some((head, rest)) = s.split_once(':') {
        return match head {
            "B" => Some(BinT::Bool(match rest { "0" => false, "1" => true, _ => return None })),
            "U32" => Some(BinT::U32(rest.parse().ok()?)),
            "U64" => Some(BinT::U64(rest.parse().ok()?)),
            "I64" => Some(BinT::I64(rest.parse().ok()?)),
            "I32" => Some(BinT::I32(rest.parse().ok()?)),
            "Q" => Some(BinT::Quoted(unhex(rest)?)),
            "U" => Some(BinT::Unquoted(unhex(rest)?)),
            "F32" => {
                let (b, t) = rest.split_once(':')?;
                let b: [u8; 4] = unhex(b)?.try_into().ok()?;
                if unhex(t)? != f32_text(u32::from_le_bytes(b)).as_bytes() { return None; }
                Some(BinT::F32(b))
            }
            "F64" => {
                let (b, t) = rest.split_once(':')?;
                let b: [u8; 8] = unhex(b)?.try_into().ok()?;
                if unhex(t)? != f64_text(u64::from_le_bytes(b)).as_bytes() { return None; }
                Some(BinT::F64(b))
            }
            "T" => Some(BinT::Token(rest.parse().ok()?)),
            "Rgb" => { let (r, g, b, a) = parse_rgb(rest)?; Some(BinT::Rgb(r, g, b, a)) }
            _ => None,
        };
    }
    let (head, num) = s.split_at(1);
    let n: usize = num.parse().ok()?;
    match head { "A" => Some(BinT::Array(n)), "O" => Some(BinT::Object(n)), "E" => Some(BinT::End(n)), _ => None }
}

pub fn parse_call(s: &str) -> Option<Call> {
    match s {
        "s" => return Some(Call::Start),
        "os" => return Some(Call::ObjectStart),
        "as" => return Some(Call::ArrayStart),
        "e" => return Some(Call::End),
        "mm" => return Some(Call::Mixed),
        _ => {}
    }
    let (head, rest) = s.split_once(':')?;
    match head {
        "u" => Some(Call::Unquoted(unhex(rest)?)),
        "q" => Some(Call::Quoted(unhex(rest)?)),
        "h" => Some(Call::Header(unhex(rest)?)),
        "op" => Some(Call::Operator(parse_op(rest)?)),
        "b" => Some(Call::Bool(match rest { "0" => false, "1" => true, _ => return None })),
        "i32" => Some(Call::I32(rest.parse().ok()?)),
        "u32" => Some(Call::U32(rest.parse().ok()?)),
        "i" => Some(Call::I64(rest.parse().ok()?)),
        "n" => Some(Call::U64(rest.parse().ok()?)),
        "f32" => {
            let (b, t) = rest.split_once(':')?;
            let bits = u32::from_str_radix(b, 16).ok()?;
            if unhex(t)? != f32_text(bits).as_bytes() { return None; }
            Some(Call::F32(bits))
        }
        "f64" => {
            let (b, t) = rest.split_once(':')?;
            let bits = u64::from_str_radix(b, 16).ok()?;
            if unhex(t)? != f64_text(bits).as_bytes() { return None; }
            Some(Call::F64(bits))
        }
        "f32p" => {
            let p: Vec<&str> = rest.split(':').collect();
            if p.len() != 3 { return None; }
            let bits = u32::from_str_radix(p[0], 16).ok()?;
            let prec: usize = p[1].parse().ok()?;
            if prec > 64 || unhex(p[2])? != f32p_text(bits, prec).as_bytes() { return None; }
            Some(Call::F32P(bits, prec))
        }
        "f64p" => {
            let p: Vec<&str> = rest.split(':').collect();
            if p.len() != 3 { return None; }
            let bits = u64::from_str_radix(p[0], 16).ok()?;
            let prec: usize = p[1].parse().ok()?;
            if prec > 64 || unhex(p[2])? != f64p_text(bits, prec).as_bytes() { return None; }
            Some(Call::F64P(bits, prec))
        }
        "d" => {
            let (f, ymdh) = rest.split_once(':')?;
            let f = match f { "s" => 's', "w" => 'w', "i" => 'i', _ => return None };
            let p: Vec<&str> = ymdh.split('.').collect();
            if p.len() != 4 { return None; }
            let c = Call::Date(f, p[0].parse().ok()?, p[1].parse().ok()?, p[2].parse().ok()?, p[3].parse().ok()?);
            if let Call::Date(_, y, m, d, h) = c { RawDate::from_ymdh_opt(y, m, d, h)?; }
            Some(c)
        }
        "rgb" => { let (r, g, b, a) = parse_rgb(rest)?; Some(Call::Rgb(r, g, b, a)) }
        "bt" => Some(Call::Binary(parse_bint(rest)?)),
        _ => None,
    }
}

pub fn to_operator(o: Op) -> Operator {
    match o {
        Op::Eq => Operator::Equal, Op::Lt => Operator::LessThan, Op::Le => Operator::LessThanEqual, Op::Gt => Operator::GreaterThan,
        Op::Ge => Operator::GreaterThanEqual, Op::Ne => Operator::NotEqual, Op::Exact => Operator::Exact, Op::Exists => Operator::Exists,
    }
}

// ---------------------------------------------------------------------------------------
// running the real writer

fn apply<W: std::io::Write>(w: &mut TextWriter<W>, c: &Call) -> Result<(), jomini::Error> {
    match c {
        Call::Start => w.write_start(),
        Call::ObjectStart => w.write_object_start(),
        Call::ArrayStart => w.write_array_start(),
        Call::End => w.write_end(),
        Call::Mixed => { w.start_mixed_mode(); Ok(()) }
        Call::Unquoted(b) => w.write_unquoted(b),
        Call::Quoted(b) => w.write_quoted(b),
        Call::Header(b) => w.write_header(b),
        Call::Operator(o) => w.write_operator(to_operator(*o)),
        Call::Bool(b) => w.write_bool(*b),
        Call::I32(v) => w.write_i32(*v),
        Call::U32(v) => w.write_u32(*v),
        Call::I64(v) => w.write_i64(*v),
        Call::U64(v) => w.write_u64(*v),
        Call::F32(bits) => w.write_f32(f32::from_bits(*bits)),
        Call::F64(bits) => w.write_f64(f64::from_bits(*bits)),
        Call::F32P(bits, p) => w.write_f32_precision(f32::from_bits(*bits), *p),
        Call::F64P(bits, p) => w.write_f64_precision(f64::from_bits(*bits), *p),
        Call::Date(f, y, m, d, h) => {
            let raw = RawDate::from_ymdh(*y, *m, *d, *h);
            let fmt = match f { 's' => DateFormat::DotShort, 'w' => DateFormat::DotWide, _ => DateFormat::Iso8601 };
            w.write_date(PdsDateFormatter::new(raw, fmt))
        }
        Call::Rgb(r, g, b, a) => w.write_rgb(&Rgb { r: *r, g: *g, b: *b, a: *a }),
        Call::Binary(t) => match t {
            BinT::Array(e) => w.write_binary(&BinaryToken::Array(*e)),
            BinT::Object(e) => w.write_binary(&BinaryToken::Object(*e)),
            BinT::Mixed => w.write_binary(&BinaryToken::MixedContainer),
            BinT::Equal => w.write_binary(&BinaryToken::Equal),
            BinT::End(e) => w.write_binary(&BinaryToken::End(*e)),
            BinT::Bool(b) => w.write_binary(&BinaryToken::Bool(*b)),
            BinT::U32(v) => w.write_binary(&BinaryToken::U32(*v)),
            BinT::U64(v) => w.write_binary(&BinaryToken::U64(*v)),
            BinT::I64(v) => w.write_binary(&BinaryToken::I64(*v)),
            BinT::I32(v) => w.write_binary(&BinaryToken::I32(*v)),
            BinT::Quoted(b) => w.write_binary(&BinaryToken::Quoted(Scalar::new(b))),
            BinT::Unquoted(b) => w.write_binary(&BinaryToken::Unquoted(Scalar::new(b))),
            BinT::F32(b) => w.write_binary(&BinaryToken::F32(*b)),
            BinT::F64(b) => w.write_binary(&BinaryToken::F64(*b)),
            BinT::Token(id) => w.write_binary(&BinaryToken::Token(*id)),
            BinT::Rgb(r, g, b, a) => w.write_binary(&BinaryToken::Rgb(Rgb { r: *r, g: *g, b: *b, a: *a })),
        },
    }
}

pub const STATE_NAMES: [&str; 9] = ["Error", "Key", "ObjectValue", "KeyValueSeparator", "ArrayValue", "ArrayValueFirst", "FirstKey", "FirstUnknown", "SecondUnknown"];

/// the private machine fields, read from the derived `Debug` output
/// (mode, depth stack bottom→top, state, needs_line_terminator, mixed_mode)
fn debug_fields<W: std::io::Write + std::fmt::Debug>(w: &TextWriter<W>) -> Option<(String, Vec<String>, String, String, String)> {
    let d = format!("{:?}", w);
    let after = |from: usize, key: &str| -> Option<usize> { d[from..].find(key).map(|p| from + p + key.len()) };
    let upto = |from: usize, ends: &[char]| -> String { d[from..].chars().take_while(|c| !ends.contains(c)).collect() };
    let p_mode = after(0, ", mode: ")?;
    let mode = upto(p_mode, &[',']);
    let p_depth = after(p_mode, ", depth: [")?;
    let depth_txt = upto(p_depth, &[']']);
    let depth: Vec<String> = depth_txt.split(',').map(|x| x.trim().to_string()).filter(|x| !x.is_empty()).collect();
    let p_state = after(p_depth, ", state: ")?;
    let state = upto(p_state, &[',']);
    let p_nlt = after(p_state, ", needs_line_terminator: ")?;
    let nlt = upto(p_nlt, &[',']);
    let p_mixed = after(p_nlt, ", mixed_mode: ")?;
    let mixed = upto(p_mixed, &[' ', '}', ',']);
    Some((mode, depth, state, nlt, mixed))
}

fn st_string<W: std::io::Write + std::fmt::Debug>(w: &TextWriter<W>) -> String {
    match debug_fields(w) {
        None => "st:?".to_string(),
        Some((mode, depth, state, nlt, mixed)) => {
            let l = |m: &str| if m == "Object" { 'O' } else if m == "Array" { 'A' } else { '?' };
            let stack: String = if depth.is_empty() { "-".to_string() } else { depth.iter().map(|m| l(m)).collect() };
            format!("st:{}/{}/{}/{}/{}", l(&mode), stack, state, if nlt == "true" { 1 } else { 0 }, mixed)
        }
    }
}

#[derive(Clone, Copy, Debug, PartialEq)]
pub struct ObsRow { pub depth: usize, pub key: bool, pub arr: bool, pub unk: bool }

pub struct RunResult { pub out: Vec<u8>, pub rows: Vec<Result<ObsRow, String>>, pub st: String }

pub fn run_real(indent_char: u8, indent_factor: u8, calls: &[Call]) -> RunResult {
    let mut w = TextWriterBuilder::new().indent_char(indent_char).indent_factor(indent_factor).from_writer(Vec::new());
    let mut rows = Vec::with_capacity(calls.len());
    for c in calls {
        match apply(&mut w, c) {
            Ok(()) => rows.push(Ok(ObsRow { depth: w.depth(), key: w.expecting_key(), arr: w.at_array_value(), unk: w.at_unknown_start() })),
            Err(e) => rows.push(Err(match e.kind() {
                jomini::ErrorKind::StackEmpty { .. } => "err:stackempty".to_string(),
                jomini::ErrorKind::Io(_) => "err:io".to_string(),
                _ => "err:other".to_string(),
            })),
        }
    }
    let st = st_string(&w);
    RunResult { out: w.into_inner(), rows, st }
}

pub fn exec(w: &[&str], obs: &mut Obs) -> Option<String> {
    match w {
        ["wcalls", c, f, rest @ ..] => {
            let ic: u8 = c.parse().ok()?;
            let fac: u8 = f.parse().ok()?;
            let calls: Vec<Call> = rest.iter().map(|t| parse_call(t)).collect::<Option<Vec<_>>>()?;
            let r = run_real(ic, fac, &calls);
            let case = w.join(" ");
            oracle_wcalls(ic, fac, &calls, &r, &case, obs);
            let mut s = hex(&r.out);
            for row in &r.rows {
                s.push(' ');
                match row {
                    Ok(o) => s.push_str(&format!("{}/{}{}{}", o.depth, o.key as u8, o.arr as u8, o.unk as u8)),
                    Err(e) => s.push_str(e),
                }
            }
            s.push(' ');
            s.push_str(&r.st);
            Some(s)
        }
        // the same calls into a writer that takes <cap> bytes and then fails (model: Model/WriterSink.lean,
        // C15_failing_sink).  Result: bytes that reached the sink, per call the observation or the error, the
        // private state at the end — after a failed call too (`&mut self` keeps what the call did before the `?`).
        // Oracle: no call panics; the sink holds a prefix of the full output; an I/O error happens iff the
        // output does not fit; before the first I/O error every call answers as with an unlimited writer.
        ["wcallsw", c, f, cap_s, rest @ ..] => {
            let ic: u8 = c.parse().ok()?;
            let fac: u8 = f.parse().ok()?;
            let cap: usize = cap_s.parse().ok()?;
            let calls: Vec<Call> = rest.iter().map(|t| parse_call(t)).collect::<Option<Vec<_>>>()?;
            let case = w.join(" ");
            let full = run_real(ic, fac, &calls);
            let mut sink = crate::props::c14::FailingWriter { cap, got: vec![] };
            let mut first_io: Option<usize> = None;
            let mut rows: Vec<String> = vec![];
            let st;
            {
                let mut wr = TextWriterBuilder::new().indent_char(ic).indent_factor(fac).from_writer(&mut sink);
                for (i, call) in calls.iter().enumerate() {
                    let r = apply(&mut wr, call);
                    let io = matches!(r.as_ref().err().map(|e| e.kind()), Some(jomini::ErrorKind::Io(_)));
                    if io && first_io.is_none() { first_io = Some(i); }
                    let row = match &r {
                        Ok(()) => Ok(ObsRow { depth: wr.depth(), key: wr.expecting_key(), arr: wr.at_array_value(), unk: wr.at_unknown_start() }),
                        Err(e) => Err(match e.kind() {
                            jomini::ErrorKind::StackEmpty { .. } => "err:stackempty".to_string(),
                            jomini::ErrorKind::Io(_) => "err:io".to_string(),
                            _ => "err:other".to_string(),
                        }),
                    };
                    if first_io.is_none() && row != full.rows[i] {
                        obs.violation("failing-writer-call-result", &case, &format!("call {}: {:?} vs unlimited {:?}", i, row, full.rows[i]));
                    }
                    rows.push(match row { Ok(o) => format!("{}/{}{}{}", o.depth, o.key as u8, o.arr as u8, o.unk as u8), Err(e) => e });
                }
                // `inner()` hands out the sink without consuming the writer
                if wr.inner().got.len() > cap { obs.violation("failing-writer-prefix", &case, "the sink holds more than its capacity"); }
                st = st_string(&wr);
            }
            if !full.out.starts_with(&sink.got) || sink.got.len() != cap.min(full.out.len()) {
                obs.violation("failing-writer-prefix", &case, &format!("writer got {} full output {}", hex(&sink.got), hex(&full.out)));
            }
            if first_io.is_some() != (cap < full.out.len()) {
                obs.violation("failing-writer-result", &case, &format!("cap {} output length {} first io error at call {:?}", cap, full.out.len(), first_io));
            }
            obs.count(if first_io.is_some() { "wcallsw:err" } else { "wcallsw:ok" });
            let mut out = hex(&sink.got);
            for r in &rows { out.push(' '); out.push_str(r); }
            out.push(' ');
            out.push_str(&st);
            Some(out)
        }
        _ => None,
    }
}

// ---------------------------------------------------------------------------------------
// L3 oracles

/// Tiny independent reference for depth()/expecting_key()/at_array_value()/at_unknown_start():
/// a re-statement of the documented behaviour on the call *history* only (no output, no indent,
/// no payloads).  Frames remember whether the container they interrupt was in "object" or
/// "list" reading; `ph` is what the writer is waiting for.
#[derive(Clone, Copy, PartialEq, Debug)]
enum Ph { Key, Sep, Val, Elem, Elem0, Key0, Unk0, Unk1 }

struct RefM { stack: Vec<bool>, is_obj: bool, ph: Ph, mixed: u8 }

impl RefM {
    fn new() -> Self { RefM { stack: vec![], is_obj: true, ph: Ph::Key, mixed: 0 } }
    fn value(&mut self) {
        self.ph = match self.ph { Ph::Key | Ph::Key0 => Ph::Sep, Ph::Sep | Ph::Val => Ph::Key, Ph::Elem | Ph::Elem0 | Ph::Unk1 => Ph::Elem, Ph::Unk0 => Ph::Unk1 };
    }
    fn open(&mut self, is_obj: bool, ph: Ph) { self.stack.push(self.is_obj); self.is_obj = is_obj; self.ph = ph; }
    fn close(&mut self) -> bool {
        match self.stack.pop() {
            Some(o) => { self.is_obj = o; self.ph = if o { Ph::Key } else { Ph::Elem }; self.mixed = 0; true }
            None => false,
        }
    }
    fn operator(&mut self) { if self.mixed == 0 { self.is_obj = true; self.ph = Ph::Val; } else { self.mixed = 2; } }
    fn header(&mut self) { self.ph = Ph::Val; }
    fn mixed(&mut self) { self.is_obj = false; self.mixed = 1; }
    fn rgb(&mut self) { self.header(); self.open(false, Ph::Elem0); self.close(); }
    /// returns false when the call returns an error
    fn call(&mut self, c: &Call) -> bool {
        match c {
            Call::Start => self.open(false, Ph::Unk0),
            Call::ObjectStart => self.open(true, Ph::Key0),
            Call::ArrayStart => self.open(false, Ph::Elem0),
            Call::End => return self.close(),
            Call::Mixed => self.mixed(),
            Call::Operator(_) => self.operator(),
            Call::Header(_) => self.header(),
            Call::Rgb(..) => self.rgb(),
            Call::Binary(t) => match t {
                BinT::Array(_) => self.open(false, Ph::Elem0),
                BinT::Object(_) => self.open(true, Ph::Key0),
                BinT::Mixed => self.mixed(),
                BinT::Equal => self.operator(),
                BinT::End(_) => return self.close(),
                BinT::Rgb(..) => self.rgb(),
                _ => self.value(),
            },
            _ => self.value(),
        }
        true
    }
    fn row(&self) -> ObsRow {
        ObsRow { depth: self.stack.len(), key: matches!(self.ph, Ph::Key | Ph::Key0), arr: self.ph == Ph::Elem, unk: self.ph == Ph::Unk0 }
    }
}

/// bytes the text format treats as scalar boundaries (data.rs character class table) plus
/// the bytes that change the token kind at the start of a scalar
fn valid_unquoted(b: &[u8]) -> bool {
    !b.is_empty()
        && b.iter().all(|c| !matches!(c, b'\t' | b'\n' | 0x0b | 0x0c | b'\r' | b' ' | b'!' | b'#' | b'<' | b'=' | b'>' | b'[' | b']' | b'{' | b'}' | b'"' | b';' | b'@' | b'\\' | b'?'))
}

/// independent statement of what `write_quoted` must put between the quotes
fn ref_escape(p: &[u8]) -> Vec<u8> {
    let p = if p.last() == Some(&b'\n') { &p[..p.len() - 1] } else { p };
    let mut v = Vec::with_capacity(p.len() + 2);
    for &c in p {
        if c == b'\\' || c == b'"' { v.push(b'\\'); }
        v.push(c);
    }
    v
}

#[derive(Clone, Debug, PartialEq)]
enum Src { None, Int(i64), Uint(u64), F32(u32), F64(u64), Quoted(Vec<u8>), Date(char, i16, u8, u8, u8) }

/// a call reduced to what it denotes in the document
#[derive(Clone, Debug, PartialEq)]
enum Norm {
    S, Os, As, E, Mm,
    Op(Op),
    Header(Vec<u8>),
    Rgb(u32, u32, u32, Option<u32>),
    /// expected on-disk bytes, quoted?, source value for the read-back checks
    Scalar(Vec<u8>, bool, Src),
}

fn date_text(f: char, y: i16, m: u8, d: u8, h: u8) -> String {
    match f {
        's' => if h != 0 { format!("{}.{}.{}.{}", y, m, d, h) } else { format!("{}.{}.{}", y, m, d) },
        'w' => if h != 0 { format!("{}.{:02}.{:02}.{:02}", y, m, d, h) } else { format!("{}.{:02}.{:02}", y, m, d) },
        _ => if h != 0 { format!("{:04}-{:02}-{:02}T{:02}", y, m, d, h - 1) } else { format!("{:04}-{:02}-{:02}", y, m, d) },
    }
}

fn normalize(c: &Call) -> Norm {
    let plain = |s: String, src: Src| Norm::Scalar(s.into_bytes(), false, src);
    match c {
        Call::Start => Norm::S,
        Call::ObjectStart => Norm::Os,
        Call::ArrayStart => Norm::As,
        Call::End => Norm::E,
        Call::Mixed => Norm::Mm,
        Call::Unquoted(b) => Norm::Scalar(b.clone(), false, Src::None),
        Call::Quoted(b) => Norm::Scalar(ref_escape(b), true, Src::Quoted(b.clone())),
        Call::Header(b) => Norm::Header(b.clone()),
        Call::Operator(o) => Norm::Op(*o),
        Call::Bool(b) => plain((if *b { "yes" } else { "no" }).to_string(), Src::None),
        Call::I32(v) => plain(v.to_string(), Src::Int(*v as i64)),
        Call::U32(v) => plain(v.to_string(), Src::Uint(*v as u64)),
        Call::I64(v) => plain(v.to_string(), Src::Int(*v)),
        Call::U64(v) => plain(v.to_string(), Src::Uint(*v)),
        Call::F32(bits) => plain(f32_text(*bits), Src::F32(*bits)),
        Call::F64(bits) => plain(f64_text(*bits), Src::F64(*bits)),
        Call::F32P(bits, p) => plain(f32p_text(*bits, *p), Src::None),
        Call::F64P(bits, p) => plain(f64p_text(*bits, *p), Src::None),
        Call::Date(f, y, m, d, h) => plain(date_text(*f, *y, *m, *d, *h), Src::Date(*f, *y, *m, *d, *h)),
        Call::Rgb(r, g, b, a) => Norm::Rgb(*r, *g, *b, *a),
        Call::Binary(t) => match t {
            BinT::Array(_) => Norm::As,
            BinT::Object(_) => Norm::Os,
            BinT::Mixed => Norm::Mm,
            BinT::Equal => Norm::Op(Op::Eq),
            BinT::End(_) => Norm::E,
            BinT::Bool(b) => plain((if *b { "yes" } else { "no" }).to_string(), Src::None),
            BinT::U32(v) => plain(v.to_string(), Src::Uint(*v as u64)),
            BinT::U64(v) => plain(v.to_string(), Src::Uint(*v)),
            BinT::I64(v) => plain(v.to_string(), Src::Int(*v)),
            BinT::I32(v) => plain(v.to_string(), Src::Int(*v as i64)),
            BinT::Quoted(b) => Norm::Scalar(ref_escape(b), true, Src::Quoted(b.clone())),
            BinT::Unquoted(b) => Norm::Scalar(b.clone(), false, Src::None),
            BinT::F32(b) => plain(f32_text(u32::from_le_bytes(*b)), Src::F32(u32::from_le_bytes(*b))),
            BinT::F64(b) => plain(f64_text(u64::from_le_bytes(*b)), Src::F64(u64::from_le_bytes(*b))),
            BinT::Token(id) => plain(format!("__unknown_0x{:x}", id), Src::None),
            BinT::Rgb(r, g, b, a) => Norm::Rgb(*r, *g, *b, *a),
        },
    }
}

/// Recursive-descent recogniser of the call lists that *describe a document*, producing the
/// tape that document must parse to (show.rs `text_tape` token strings), the source value
/// of every scalar token, and the observations a caller must see after every call.
struct Wf<'a> {
    calls: &'a [Norm],
    pos: usize,
    toks: Vec<String>,
    src: Vec<Src>,
    rows: Vec<ObsRow>,
    depth: usize,
    why: &'static str,
    /// every element of the array being read so far is a scalar
    scalars_only: bool,
    /// the writer's mixed mode is on: between `start_mixed_mode` and the next `write_end`
    mixed_window: bool,
    /// known finding `operator-under-stale-mixed-mode`: an operator call for a field of an object nested in
    /// the array part while the mixed mode of the enclosing array is still on
    shape_stale_operator: bool,
    /// known finding `mixed-mode-lost-after-container`: a `key operator value` group in the array part behind
    /// a nested container (whose `write_end` cleared the one mixed-mode flag)
    shape_mode_lost: bool,
}

#[derive(Clone, Copy, PartialEq)]
enum After { Key, Elem, None, Unk }

impl<'a> Wf<'a> {
    fn peek(&self) -> Option<&'a Norm> { self.calls.get(self.pos) }
    fn peek2(&self) -> Option<&'a Norm> { self.calls.get(self.pos + 1) }
    fn take(&mut self, after: After) {
        self.pos += 1;
        self.rows.push(ObsRow { depth: self.depth, key: after == After::Key, arr: after == After::Elem, unk: after == After::Unk });
    }
    fn fail<T>(&mut self, why: &'static str) -> Option<T> { if self.why.is_empty() { self.why = why; } None }
    fn push_scalar(&mut self, b: &[u8], quoted: bool, src: &Src) -> Option<()> {
        if !quoted && !valid_unquoted(b) { return self.fail("unquoted-not-a-scalar"); }
        self.toks.push(format!("{}:{}", if quoted { "Q" } else { "U" }, hex(b)));
        self.src.push(src.clone());
        Some(())
    }
    fn push_tok(&mut self, s: String) { self.toks.push(s); self.src.push(Src::None); }

    /// fields of the root or of an object; `first_after`: what is observable after the first key
    /// (an `as`-opened container that turns into an object reports at_array_value there).
    fn fields(&mut self, nested: bool, mut first_key_after: After, mut need_explicit_first_op: bool) -> Option<usize> {
        let mut n = 0;
        while let Some(Norm::Scalar(b, q, src)) = self.peek() {
            self.push_scalar(b, *q, src)?;
            self.take(first_key_after);
            first_key_after = After::None;
            let mut op = Op::Eq;
            let mut explicit = false;
            if let Some(Norm::Op(o)) = self.peek() {
                op = *o; explicit = true;
                // known finding (C14 `roundtrip-mixed-nested-operator`): with the mixed mode of an enclosing array still
                // on, `write_operator` takes the mixed branch
                if self.mixed_window { self.shape_stale_operator = true; }
                self.take(After::None);
            }
            if need_explicit_first_op && !explicit { return self.fail("unknown-container-first-key-without-operator"); }
            need_explicit_first_op = false;
            let _ = nested;
            if op != Op::Eq { self.push_tok(format!("Op:{}", op.name())); }
            self.value(true, After::Key)?;
            n += 1;
        }
        Some(n)
    }

    /// one value; `in_object`: value of a field (afterwards a key is expected) or array element
    fn value(&mut self, in_object: bool, scalar_after: After) -> Option<()> {
        let after = if in_object { After::Key } else { After::Elem };
        match self.peek() {
            Some(Norm::Scalar(b, q, src)) => { self.push_scalar(b, *q, src)?; self.take(scalar_after); Some(()) }
            Some(Norm::Rgb(r, g, b, a)) => {
                if !in_object { return self.fail("header-in-array"); }
                self.push_tok(format!("H:{}", hex(b"rgb")));
                let start = self.toks.len();
                self.push_tok(String::new());
                for c in [Some(*r), Some(*g), Some(*b), *a].iter().flatten() { self.push_tok(format!("U:{}", hex(c.to_string().as_bytes()))); }
                let end = self.toks.len();
                self.push_tok(format!("E{}", start));
                self.toks[start] = format!("A{}", end);
                self.mixed_window = false;
                self.take(after);
                Some(())
            }
            Some(Norm::Header(h)) => {
                if !in_object { return self.fail("header-in-array"); }
                if !valid_unquoted(h) { return self.fail("header-not-a-scalar"); }
                self.push_tok(format!("H:{}", hex(h)));
                self.take(After::None);
                let before = self.toks.len();
                self.container(after)?;
                if self.toks.len() == before + 2 { return self.fail("header-with-empty-body(ghost)"); }
                Some(())
            }
            Some(Norm::S) | Some(Norm::Os) | Some(Norm::As) => self.container(after),
            _ => self.fail("value-expected"),
        }
    }

    fn container(&mut self, after: After) -> Option<()> {
        let flavour = self.peek()?.clone();
        let start = self.toks.len();
        self.push_tok(String::new());
        self.depth += 1;
        let is_obj;
        let mut mixed_pairs = 0usize;
        let saved_scalars_only = self.scalars_only;
        self.scalars_only = true;
        match flavour {
            Norm::Os => {
                self.take(After::Key);
                let n = self.fields(true, After::None, false)?;
                is_obj = n > 0;
            }
            Norm::As | Norm::S => {
                let unknown = flavour == Norm::S;
                self.take(if unknown { After::Unk } else { After::None });
                // a scalar directly followed by an operator turns the container into an object
                if matches!(self.peek(), Some(Norm::Scalar(..))) && matches!(self.peek2(), Some(Norm::Op(_))) {
                    self.fields(true, if unknown { After::None } else { After::Elem }, true)?;
                    is_obj = true;
                } else {
                    let mut n = 0;
                    let mut in_mixed = false;
                    let mut first_pair = true;
                    while !matches!(self.peek(), Some(Norm::E) | None) {
                        // `start_mixed_mode` after at least one element of a `write_array_start` array: from here on
                        // `key operator value` groups, bare elements and containers (C15_parse_back_full)
                        if matches!(self.peek(), Some(Norm::Mm)) {
                            if unknown || n == 0 || in_mixed { return self.fail("mixed-mode-outside-the-proved-shape"); }
                            self.take(After::Elem);
                            in_mixed = true;
                            self.mixed_window = true;
                            continue;
                        }
                        if matches!(self.peek(), Some(Norm::Op(_))) { return self.fail("operator-in-array"); }
                        if in_mixed {
                            if let (Some(Norm::Scalar(b, q, src)), Some(Norm::Op(o))) = (self.peek(), self.peek2()) {
                                let o = *o;
                                // shapes for which the claim is false on the real code (reported; see C15_mixed_parse_back,
                                // C15_parse_back_full)
                                if o == Op::Exists { return self.fail("mixed-exists-operator(reported)"); }
                                if first_pair && n == 1 && !*q && b.as_slice() == b"?" { return self.fail("mixed-bare-question-key(reported)"); }
                                if !self.mixed_window { self.shape_mode_lost = true; }
                                if first_pair { self.push_tok("M".to_string()); first_pair = false; }
                                self.push_scalar(b, *q, src)?;
                                self.take(After::Elem);
                                self.push_tok(format!("Op:{}", o.name()));
                                self.take(After::Elem);
                                match self.peek() {
                                    Some(Norm::Scalar(b2, q2, src2)) => { self.push_scalar(b2, *q2, src2)?; self.take(After::Elem); }
                                    Some(Norm::S) | Some(Norm::Os) | Some(Norm::As) => {
                                        let at = self.toks.len();
                                        self.container(After::Elem)?;
                                        // a container in the array part that does not start with a scalar makes the parser drop
                                        // the mixed flag / fall back to key-value reading (C01 quirk, outside the document type)
                                        if !self.toks.get(at + 1).map_or(false, |t| t.starts_with("U:") || t.starts_with("Q:")) { return self.fail("mixed-container-not-scalar-led(parser-quirk)"); }
                                    }
                                    _ => return self.fail("mixed-pair-value-expected"),
                                }
                                mixed_pairs += 1;
                                n += 1;
                                continue;
                            }
                        }
                        let before = self.toks.len();
                        // the first scalar of a `write_start` container leaves the kind still unknown
                        self.value(false, if unknown && n == 0 { After::None } else { After::Elem })?;
                        if n == 0 && self.toks.len() == before + 2 && self.toks[before].starts_with('A') && self.toks[before + 1].starts_with('E') {
                            return self.fail("array-first-element-empty-container(ghost)");
                        }
                        if in_mixed && (self.toks[before].starts_with('A') || self.toks[before].starts_with('O'))
                            && !self.toks.get(before + 1).map_or(false, |t| t.starts_with("U:") || t.starts_with("Q:")) {
                            return self.fail("mixed-container-not-scalar-led(parser-quirk)");
                        }
                        n += 1;
                    }
                    is_obj = false;
                }
            }
            _ => return self.fail("container-expected"),
        }
        match self.peek() {
            Some(Norm::E) => {}
            _ => return self.fail("unbalanced"),
        }
        self.mixed_window = false;
        self.depth -= 1;
        self.take(after);
        let end = self.toks.len();
        self.push_tok(format!("E{}", start));
        self.toks[start] = format!("{}{}{}", if is_obj { "O" } else { "A" }, if mixed_pairs > 0 { "m" } else { "" }, end);
        self.scalars_only = saved_scalars_only;
        Some(())
    }
}

struct WfResult { tape: String, src: Vec<Src>, rows: Vec<ObsRow>, shape_stale_operator: bool, shape_mode_lost: bool }

fn well_formed(calls: &[Call]) -> Result<WfResult, &'static str> {
    let norm: Vec<Norm> = calls.iter().map(normalize).collect();
    let mut p = Wf { calls: &norm, pos: 0, toks: vec![], src: vec![], rows: vec![], depth: 0, why: "", scalars_only: true, mixed_window: false, shape_stale_operator: false, shape_mode_lost: false };
    let ok = p.fields(false, After::None, false).is_some();
    if !ok { return Err(p.why); }
    if p.pos != norm.len() { return Err(if p.why.is_empty() { "key-expected" } else { p.why }); }
    Ok(WfResult { tape: if p.toks.is_empty() { "-".to_string() } else { p.toks.join(",") }, src: p.src, rows: p.rows, shape_stale_operator: p.shape_stale_operator, shape_mode_lost: p.shape_mode_lost })
}

fn f64_ulps(a: f64, b: f64) -> u64 {
    let key = |v: f64| { let x = v.to_bits() as i64; if x < 0 { i64::MIN.wrapping_sub(x) } else { x } };
    (key(a) as i128 - key(b) as i128).unsigned_abs() as u64
}
fn f32_ulps(a: f32, b: f32) -> u64 {
    let key = |v: f32| { let x = v.to_bits() as i32; if x < 0 { i32::MIN.wrapping_sub(x) } else { x } };
    (key(a) as i64 - key(b) as i64).unsigned_abs()
}

/// is the decimal text within what `to_f64` documents to read (all digits fit a u64, at most 22
/// fraction digits, integers below 2^53)?
fn moderate_float_text(t: &str) -> bool {
    let body = t.strip_prefix('-').unwrap_or(t);
    if body.is_empty() || !body.bytes().all(|c| c.is_ascii_digit() || c == b'.') { return false; }
    let digits: String = body.chars().filter(|c| *c != '.').collect();
    let frac = body.find('.').map(|p| body.len() - p - 1).unwrap_or(0);
    let Ok(v) = digits.parse::<u64>() else { return false };
    if frac == 0 { v < (1u64 << 53) } else { frac <= 22 && v <= i64::MAX as u64 }
}

fn ref_trim_ascii_end(b: &[u8]) -> &[u8] {
    let mut e = b.len();
    while e > 0 && matches!(b[e - 1], b' ' | b'\t' | b'\n' | 0x0c | b'\r') { e -= 1; }
    &b[..e]
}

/// The runner keeps at most 200 violations per run: list only the first witnesses of a known finding (all are counted).
static KNOWN_LISTED: [std::sync::atomic::AtomicUsize; 2] = [std::sync::atomic::AtomicUsize::new(0), std::sync::atomic::AtomicUsize::new(0)];
fn report_known(obs: &mut Obs, kind: &str, known: bool, case: &str, detail: &str) {
    if known {
        let slot = if kind == "operator-under-stale-mixed-mode" { 0 } else { 1 };
        if KNOWN_LISTED[slot].fetch_add(1, std::sync::atomic::Ordering::Relaxed) >= 40 {
            obs.count(&format!("known-finding-not-listed-again:{}", kind));
            return;
        }
    }
    obs.violation(kind, case, detail);
}

fn oracle_wcalls(ic: u8, fac: u8, calls: &[Call], r: &RunResult, case: &str, obs: &mut Obs) {
    // (a) depth()/expecting_key()/… reflect the history, for every call list
    let mut m = RefM::new();
    for (i, c) in calls.iter().enumerate() {
        let ok = m.call(c);
        match (&r.rows[i], ok) {
            (Ok(row), true) => {
                if *row != m.row() {
                    obs.violation("state-not-reflecting-calls", case, &format!("after call {} impl {:?} reference {:?}", i, row, m.row()));
                    return;
                }
            }
            (Err(e), false) if e == "err:stackempty" => {}
            (a, b) => {
                obs.violation("call-result", case, &format!("call {} impl {:?} reference ok={}", i, a, b));
                return;
            }
        }
    }
    // unmatched starts, counted directly
    let mut d: usize = 0;
    for c in calls {
        match c {
            Call::Start | Call::ObjectStart | Call::ArrayStart | Call::Binary(BinT::Array(_)) | Call::Binary(BinT::Object(_)) => d += 1,
            Call::End | Call::Binary(BinT::End(_)) => d = d.saturating_sub(1),
            _ => {}
        }
    }
    let last_depth = r.st.split('/').nth(1).map(|s| if s == "-" { 0 } else { s.len() });
    // (when the private state is unobservable the per-call public depth() rows above carry this check)
    if r.st != "st:?" && last_depth != Some(d) {
        obs.violation("depth-not-unmatched-starts", case, &format!("impl {:?} expected {}", last_depth, d));
    }
    // (b) a well-formed call list parses back to exactly the described structure
    let wf = match well_formed(calls) {
        Ok(w) => w,
        Err(why) => { obs.count(&format!("not-wf:{}", why)); return; }
    };
    obs.count("wf");
    // the two known findings of the single `mixed_mode` flag, classified from the call list alone; a divergence of
    // such a list is reported under the finding's kind, everything else keeps the general kinds
    let known_kind: Option<&'static str> =
        if wf.shape_stale_operator { Some("operator-under-stale-mixed-mode") } else if wf.shape_mode_lost { Some("mixed-mode-lost-after-container") } else { None };
    if wf.shape_stale_operator { obs.count("shape:operator-under-stale-mixed-mode"); }
    if wf.shape_mode_lost { obs.count("shape:mixed-mode-lost-after-container"); }
    if known_kind.is_none() {
        for (i, row) in wf.rows.iter().enumerate() {
            if r.rows[i] != Ok(*row) {
                obs.violation("wf-state", case, &format!("after call {} impl {:?} document says {:?}", i, r.rows[i], row));
                return;
            }
        }
    }
    let tape = match TextTape::from_slice(&r.out) {
        Ok(t) => t,
        Err(e) => { report_known(obs, known_kind.unwrap_or("wf-output-does-not-parse"), known_kind.is_some(), case, &format!("{} {:?}", hex(&r.out), e)); return; }
    };
    let got = show::text_tape(tape.tokens());
    if got != wf.tape {
        report_known(obs, known_kind.unwrap_or("wf-parse-back"), known_kind.is_some(), case, &format!("output {} parsed {} described {}", hex(&r.out), got, wf.tape));
        return;
    }
    if known_kind.is_some() { obs.count("known-shape-but-parses-back"); }
    // (c) value read-back
    for (t, src) in tape.tokens().iter().zip(wf.src.iter()) {
        match (t, src) {
            (TextToken::Unquoted(s), Src::Int(v)) => {
                obs.count("readback:int");
                if s.to_i64() != Ok(*v) { obs.violation("int-readback", case, &format!("{} -> {:?}", v, s.to_i64())); }
            }
            (TextToken::Unquoted(s), Src::Uint(v)) => {
                obs.count("readback:uint");
                if s.to_u64() != Ok(*v) { obs.violation("uint-readback", case, &format!("{} -> {:?}", v, s.to_u64())); }
            }
            (TextToken::Unquoted(s), Src::F64(bits)) => {
                let x = f64::from_bits(*bits);
                let txt = String::from_utf8_lossy(s.as_bytes()).to_string();
                if x.is_finite() && moderate_float_text(&txt) {
                    obs.count("readback:f64");
                    match s.to_f64() {
                        Ok(y) if f64_ulps(x, y) <= 2 => {}
                        other => obs.violation("f64-readback", case, &format!("{:e} text {} -> {:?}", x, txt, other)),
                    }
                } else { obs.count("readback:f64-immoderate"); }
            }
            (TextToken::Unquoted(s), Src::F32(bits)) => {
                let x = f32::from_bits(*bits);
                let txt = String::from_utf8_lossy(s.as_bytes()).to_string();
                if x.is_finite() && moderate_float_text(&txt) {
                    obs.count("readback:f32");
                    match s.to_f64() {
                        Ok(y) if f32_ulps(x, y as f32) <= 2 => {}
                        other => obs.violation("f32-readback", case, &format!("{:e} text {} -> {:?}", x, txt, other)),
                    }
                } else { obs.count("readback:f32-immoderate"); }
            }
            (TextToken::Unquoted(s), Src::Date(f, y, m, d, h)) => {
                // what write_date writes must read back with the crate's own date parsers to the same
                // components (game formats; ISO-8601 is write-only: no parser accepts it)
                use jomini::common::{Date, DateHour, PdsDate};
                if *f == 'i' { obs.count("readback:date-iso(write-only)"); }
                else if Date::from_ymd_opt(*y, *m, *d).is_none() { obs.count("readback:date-not-in-calendar"); }
                else if *h == 0 {
                    obs.count("readback:date");
                    match Date::parse(s.as_bytes()) {
                        Ok(x) if (x.year(), x.month(), x.day()) == (*y, *m, *d) => {}
                        other => obs.violation("date-readback", case, &format!("{}.{}.{} written {} -> {:?}", y, m, d, String::from_utf8_lossy(s.as_bytes()), other)),
                    }
                    match RawDate::parse(s.as_bytes()) {
                        Ok(x) if (x.year(), x.month(), x.day(), x.hour()) == (*y, *m, *d, 0) => {}
                        other => obs.violation("date-readback", case, &format!("RawDate {}.{}.{} written {} -> {:?}", y, m, d, String::from_utf8_lossy(s.as_bytes()), other)),
                    }
                } else {
                    obs.count("readback:datehour");
                    match DateHour::parse(s.as_bytes()) {
                        Ok(x) if (x.year(), x.month(), x.day(), x.hour()) == (*y, *m, *d, *h) => {}
                        other => obs.violation("date-readback", case, &format!("{}.{}.{}.{} written {} -> {:?}", y, m, d, h, String::from_utf8_lossy(s.as_bytes()), other)),
                    }
                }
            }
            (TextToken::Quoted(s), Src::Quoted(p)) => {
                obs.count("readback:quoted");
                // the decoders delete every backslash and trim trailing ASCII white space (documented):
                // the payload must come back modulo exactly that
                let w1 = Windows1252Encoding::decode(s.as_bytes());
                let w2 = Windows1252Encoding::decode(p);
                let u1 = Utf8Encoding::decode(s.as_bytes());
                let u2 = Utf8Encoding::decode(p);
                if w1 != w2 || u1 != u2 {
                    obs.violation("quoted-readback", case, &format!("payload {} on disk {} decodes {:?} / {:?}", hex(p), hex(s.as_bytes()), w1, w2));
                }
                if p.is_ascii() {
                    let want: Vec<u8> = ref_trim_ascii_end(p).iter().copied().filter(|c| *c != b'\\').collect();
                    if u1.as_bytes() != &want[..] {
                        obs.violation("quoted-readback-ascii", case, &format!("payload {} decodes {:?}", hex(p), u1));
                    }
                }
                // undoing the escapes byte-wise gives the payload minus one trailing newline
                let mut un = Vec::new();
                let b = s.as_bytes();
                let mut i = 0;
                while i < b.len() { if b[i] == b'\\' && i + 1 < b.len() { i += 1; } un.push(b[i]); i += 1; }
                // explicit exclusion: "quoted payloads survive escaping" does not hold for a payload that ends in `\n` —
                // write_quoted documents (writer.rs:300) that it trims ONE trailing newline; such payloads are compared
                // minus that newline and counted here (C15_unescape: unescape (escape x) = dropOneTrailingNewline x)
                if p.last() == Some(&b'\n') { obs.count("excluded:quoted-payload-ends-in-newline(documented-trim,writer.rs:300)"); }
                let want = if p.last() == Some(&b'\n') { &p[..p.len() - 1] } else { &p[..] };
                if un != want { obs.violation("quoted-unescape", case, &format!("payload {} on disk {}", hex(p), hex(b))); }
            }
            _ => {}
        }
    }
    let _ = (ic, fac);
}

// ---------------------------------------------------------------------------------------
// generators

pub struct Flavour { pub bt_pct: usize, pub explicit_eq_pct: usize }

fn payload(rng: &mut Rng) -> Vec<u8> {
    let n = rng.size(24);
    let mut v: Vec<u8> = (0..n)
        .map(|_| match rng.below(10) {
            0 => b'\\', 1 => b'"', 2 => b'\n', 3 => rng.below(256) as u8, 4 => b' ',
            5 => *rng.pick(b"{}=#<>![]@;\t\r"), _ => b'a' + rng.below(26) as u8,
        })
        .collect();
    // emphasis on the ends
    if rng.chance(1, 2) { let k = rng.below(3); for _ in 0..k { v.push(*rng.pick(b"\\\"\n\n\\ ")); } }
    if rng.chance(1, 4) { let k = rng.below(3); for _ in 0..k { v.insert(0, *rng.pick(b"\\\"\n")); } }
    v
}

fn scalar_call(rng: &mut Rng, l: &Leaf, fl: &Flavour) -> Call {
    let bt = rng.below(100) < fl.bt_pct;
    match l {
        Leaf::Unq(b) => {
            let b: Vec<u8> = b.iter().map(|c| if matches!(c, b'@' | b'[' | b']' | b'?') { b'x' } else { *c }).collect();
            if bt { Call::Binary(BinT::Unquoted(b)) } else { Call::Unquoted(b) }
        }
        Leaf::Quo(b) => {
            let p = if rng.chance(1, 2) { payload(rng) } else { b.clone() };
            if bt { Call::Binary(BinT::Quoted(p)) } else { Call::Quoted(p) }
        }
        Leaf::Int(i) => {
            if let Ok(v) = i32::try_from(*i) {
                if rng.chance(1, 2) { return if bt { Call::Binary(BinT::I32(v)) } else { Call::I32(v) }; }
            }
            if bt { Call::Binary(BinT::I64(*i)) } else { Call::I64(*i) }
        }
        Leaf::Uint(u) => {
            if let Ok(v) = u32::try_from(*u) {
                if rng.chance(1, 2) { return if bt { Call::Binary(BinT::U32(v)) } else { Call::U32(v) }; }
            }
            if bt { Call::Binary(BinT::U64(*u)) } else { Call::U64(*u) }
        }
        Leaf::Bool(b) => if bt { Call::Binary(BinT::Bool(*b)) } else { Call::Bool(*b) },
        Leaf::Fixed(t) => {
            match rng.below(4) {
                0 => { let x = *t as f32 / 1000.0; if bt { Call::Binary(BinT::F32(x.to_le_bytes())) } else { Call::F32(x.to_bits()) } }
                1 => { let x = *t as f64 / 1000.0; if bt { Call::Binary(BinT::F64(x.to_le_bytes())) } else { Call::F64(x.to_bits()) } }
                2 => Call::F32P((*t as f32 / 1000.0).to_bits(), rng.below(7)),
                _ => Call::F64P((*t as f64 / 1000.0).to_bits(), rng.below(7)),
            }
        }
        Leaf::Date(y, m, d, h) => Call::Date(*rng.pick(&['s', 's', 'w', 'i']), *y, *m, *d, h.unwrap_or(if rng.chance(1, 4) { 1 + rng.below(24) as u8 } else { 0 })),
    }
}

fn start_call(rng: &mut Rng, flavour: u8, fl: &Flavour) -> Call {
    let bt = rng.below(100) < fl.bt_pct;
    match flavour {
        0 => if bt { Call::Binary(BinT::Object(rng.below(50))) } else { Call::ObjectStart },
        1 => if bt { Call::Binary(BinT::Array(rng.below(50))) } else { Call::ArrayStart },
        _ => Call::Start,
    }
}
fn end_call(rng: &mut Rng, fl: &Flavour) -> Call {
    if rng.below(100) < fl.bt_pct { Call::Binary(BinT::End(rng.below(50))) } else { Call::End }
}

fn field_calls(rng: &mut Rng, f: &Field, nested_first: bool, force_explicit: bool, fl: &Flavour, out: &mut Vec<Call>) {
    out.push(scalar_call(rng, &f.key, fl));
    let op = f.op;
    let _ = nested_first;
    if op != Op::Eq { out.push(Call::Operator(op)); }
    else if force_explicit || rng.below(100) < fl.explicit_eq_pct {
        out.push(if rng.below(100) < fl.bt_pct { Call::Binary(BinT::Equal) } else { Call::Operator(Op::Eq) });
    }
    node_calls(rng, &f.val, true, fl, out);
}

fn node_calls(rng: &mut Rng, n: &Node, in_object: bool, fl: &Flavour, out: &mut Vec<Call>) {
    match n {
        Node::Leaf(l) => out.push(scalar_call(rng, l, fl)),
        Node::Obj(fs) => {
            let flavour = *rng.pick(&[0u8, 0, 0, 1, 2, 2]);
            out.push(start_call(rng, flavour, fl));
            for (i, f) in fs.iter().enumerate() { field_calls(rng, f, i == 0, i == 0 && flavour != 0, fl, out); }
            out.push(end_call(rng, fl));
        }
        Node::Arr(vs) => {
            let flavour = *rng.pick(&[1u8, 1, 1, 2, 2, 0]);
            let flavour = if flavour == 0 && !vs.is_empty() { 1 } else { flavour };
            out.push(start_call(rng, flavour, fl));
            for v in vs { node_calls(rng, v, false, fl, out); }
            out.push(end_call(rng, fl));
        }
        Node::Header(h, body) => {
            out.push(Call::Header(h.clone()));
            node_calls(rng, body, in_object, fl, out);
        }
        Node::Rgb(r, g, b, a) => out.push(if rng.below(100) < fl.bt_pct { Call::Binary(BinT::Rgb(*r, *g, *b, *a)) } else { Call::Rgb(*r, *g, *b, *a) }),
        Node::Mixed(fs, rest) => {
            out.push(Call::ArrayStart);
            for f in fs { field_calls(rng, f, false, true, fl, out); }
            for v in rest { node_calls(rng, v, false, fl, out); }
            out.push(Call::End);
        }
    }
}

pub fn doc_calls(rng: &mut Rng, doc: &Doc, fl: &Flavour) -> Vec<Call> {
    let mut out = vec![];
    for f in &doc.fields { field_calls(rng, f, false, false, fl, &mut out); }
    out
}

fn emit(g: &mut Gen, ic: u8, fac: u8, calls: &[Call]) {
    let mut s = format!("wcalls {} {}", ic, fac);
    for c in calls { s.push(' '); s.push_str(&call_token(c)); }
    g.emit(s);
}

fn indent_cfg(rng: &mut Rng) -> (u8, u8) {
    (if rng.chance(1, 2) { b' ' } else { b'\t' }, rng.below(10) as u8)
}

fn random_call(rng: &mut Rng) -> Call {
    match rng.below(26) {
        0 | 1 => Call::Start,
        2 | 3 => Call::ObjectStart,
        4 | 5 => Call::ArrayStart,
        6..=9 => Call::End,
        10 => Call::Mixed,
        11..=13 => Call::Unquoted(rng.pick(&[&b"a"[..], b"b1", b"-5", b"x.y", b"", b"a b", b"{", b"="]).to_vec()),
        14 | 15 => Call::Quoted(payload(rng)),
        16 => Call::Header(rng.pick(&[&b"rgb"[..], b"hsv", b"LIST", b""]).to_vec()),
        17 | 18 => Call::Operator(*rng.pick(&Op::ALL)),
        19 => Call::Bool(rng.chance(1, 2)),
        20 => Call::I64(if rng.chance(1, 8) { *rng.pick(&[i64::MIN, i64::MAX, i64::MIN + 1, 0, -1]) } else { rng.next() as i64 >> rng.below(64) }),
        21 => Call::U64(rng.next() >> rng.below(64)),
        22 => Call::Rgb(rng.below(256) as u32, rng.below(256) as u32, rng.next() as u32, if rng.chance(1, 3) { Some(rng.below(256) as u32) } else { None }),
        23 => Call::Date(*rng.pick(&['s', 'w', 'i']), (rng.next() as i16) >> rng.below(16), 1 + rng.below(12) as u8, 1 + rng.below(31) as u8, rng.below(25) as u8),
        24 => Call::F64(f64::to_bits((rng.next() % 2_000_001) as f64 / 1000.0 - 1000.0)),
        _ => Call::Binary(match rng.below(16) {
            0 => BinT::Array(rng.below(9)), 1 => BinT::Object(rng.below(9)), 2 => BinT::Mixed, 3 => BinT::Equal, 4 => BinT::End(rng.below(9)),
            5 => BinT::Bool(rng.chance(1, 2)), 6 => BinT::U32(rng.next() as u32), 7 => BinT::U64(rng.next()), 8 => BinT::I64(rng.next() as i64 | 1),
            9 => BinT::I32(rng.next() as i32), 10 => BinT::Quoted(payload(rng)), 11 => BinT::Unquoted(b"tok".to_vec()),
            12 => BinT::F32(((rng.next() % 200_001) as f32 / 100.0 - 1000.0).to_le_bytes()), 13 => BinT::F64(((rng.next() % 200_001) as f64 / 64.0).to_le_bytes()),
            14 => BinT::Token(rng.next() as u16), _ => BinT::Rgb(1, 2, 3, None),
        }),
    }
}

pub fn gen_c15(g: &mut Gen) {
    // 0. fixed cases: the writer's own doc examples and the boundary integers
    for ints in [
        vec![Call::Unquoted(b"a".to_vec()), Call::I64(i64::MAX), Call::Unquoted(b"b".to_vec()), Call::I64(i64::MIN + 1), Call::Unquoted(b"m".to_vec()), Call::I64(i64::MIN), Call::Unquoted(b"m2".to_vec()), Call::Binary(BinT::I64(i64::MIN)), Call::Unquoted(b"c".to_vec()), Call::U64(u64::MAX)],
        vec![Call::Unquoted(b"a".to_vec()), Call::I32(i32::MIN), Call::Unquoted(b"b".to_vec()), Call::I32(i32::MAX), Call::Unquoted(b"c".to_vec()), Call::U32(u32::MAX), Call::U64(0), Call::I64(0)],
        vec![Call::Binary(BinT::Token(0)), Call::Binary(BinT::Token(0xffff)), Call::Binary(BinT::Token(0x2d82)), Call::Binary(BinT::Token(0x10))],
        vec![Call::Unquoted(b"d".to_vec()), Call::Date('i', -5, 1, 2, 0), Call::Unquoted(b"e".to_vec()), Call::Date('i', -1234, 11, 30, 24), Call::Unquoted(b"f".to_vec()), Call::Date('w', i16::MIN, 1, 1, 1), Call::Date('s', i16::MAX, 12, 31, 24), Call::Date('i', 12345, 9, 9, 1)],
    ] {
        emit(g, b' ', 2, &ints);
    }
    g.count("fixed");

    // 0b. extreme dates in all three formats: year boundaries (sign, number of digits, i16 range), every
    // month with its first and last day, no hour / first hour / last hour
    let years: [i16; 12] = [i16::MIN, -32767, -10000, -9999, -1000, -1, 0, 1, 999, 9999, 10000, i16::MAX];
    let month_len: [u8; 12] = [31, 28, 31, 30, 31, 30, 31, 31, 30, 31, 30, 31];
    for fmt in ['s', 'w', 'i'] {
        for &y in &years {
            for h in [0u8, 1, 24] {
                let mut calls = vec![];
                for m in 1..=12u8 {
                    for d in [1u8, month_len[(m - 1) as usize]] {
                        calls.push(Call::Unquoted(b"d".to_vec()));
                        calls.push(Call::Date(fmt, y, m, d, h));
                    }
                }
                emit(g, b' ', 2, &calls);
            }
        }
    }
    g.count("extreme-dates");

    // 1. every quoted payload over {\ " \n a space} up to length 4 (5: thorough), in value / key / array position
    let alpha = b"\\\"\na ";
    let maxlen = g.budget(4, 6);
    let mut all: Vec<Vec<u8>> = vec![vec![]];
    let mut frontier: Vec<Vec<u8>> = vec![vec![]];
    for _ in 0..maxlen {
        let mut next = vec![];
        for p in &frontier { for &a in alpha { let mut q = p.clone(); q.push(a); next.push(q); } }
        all.extend(next.iter().cloned());
        frontier = next;
    }
    for p in &all {
        emit(g, b' ', 2, &[Call::Unquoted(b"k".to_vec()), Call::Quoted(p.clone()), Call::Unquoted(b"z".to_vec()), Call::Unquoted(b"1".to_vec())]);
        if p.len() <= 3 {
            emit(g, b'\t', 1, &[Call::Quoted(p.clone()), Call::Unquoted(b"v".to_vec())]);
            emit(g, b' ', 0, &[Call::Unquoted(b"k".to_vec()), Call::ArrayStart, Call::Quoted(p.clone()), Call::Binary(BinT::Quoted(p.clone())), Call::End]);
        }
    }
    g.count("quoted-exhaustive");
    // single bytes: every byte value alone and between specials
    for b in 0..=255u8 {
        emit(g, b' ', 2, &[Call::Unquoted(b"k".to_vec()), Call::Quoted(vec![b]), Call::Unquoted(b"k2".to_vec()), Call::Quoted(vec![b'\\', b, b'"', b, b'\n'])]);
    }

    // 2. every call list over a 10-call alphabet up to length 4 (5: thorough): the ill-formed stream
    let alphabet = [Call::ObjectStart, Call::ArrayStart, Call::Start, Call::End, Call::Unquoted(b"a".to_vec()), Call::Quoted(b"b".to_vec()),
                    Call::Operator(Op::Eq), Call::Operator(Op::Lt), Call::Header(b"h".to_vec()), Call::Mixed];
    let maxlen = g.budget(4, 5);
    fn rec(g: &mut Gen, alphabet: &[Call], cur: &mut Vec<Call>, maxlen: usize) {
        emit(g, b' ', 1, cur);
        if cur.len() == maxlen { return; }
        for a in alphabet { cur.push(a.clone()); rec(g, alphabet, cur, maxlen); cur.pop(); }
    }
    rec(g, &alphabet, &mut vec![], maxlen);
    g.count("calls-exhaustive");

    // 3. documents from the shared model with every flavour choice
    let n = g.budget(9_000, 150_000);
    for i in 0..n {
        let cfg = DocCfg { mixed: false, ghosts: false, variables: false, max_depth: 1 + g.rng.below(5), ..DocCfg::text_full() };
        let doc = docgen::gen_doc(&mut g.rng, &cfg);
        let fl = Flavour { bt_pct: *g.rng.pick(&[0, 0, 30, 100]), explicit_eq_pct: *g.rng.pick(&[0, 50, 100]) };
        let mut calls = doc_calls(&mut g.rng, &doc, &fl);
        // nesting past the 16 byte indent cache
        if i % 5 == 0 {
            let k = g.rng.range(1, 24);
            let mut pre = vec![];
            let mut post = vec![];
            for _ in 0..k {
                pre.push(Call::Unquoted(b"n".to_vec()));
                match g.rng.below(3) {
                    0 => pre.push(Call::ObjectStart),
                    1 => { pre.push(Call::Operator(Op::Eq)); pre.push(Call::ObjectStart); }
                    _ => pre.push(Call::Binary(BinT::Object(0))),
                }
                post.push(Call::End);
            }
            pre.extend(calls);
            pre.extend(post);
            calls = pre;
        }
        let (ic, fac) = indent_cfg(&mut g.rng);
        emit(g, ic, fac, &calls);
    }
    g.count("documents");

    // 4. arbitrary call lists (mostly ill-formed) and mutations of well-formed ones
    let n = g.budget(6_000, 150_000);
    for _ in 0..n {
        let len = g.rng.size(14);
        let calls: Vec<Call> = (0..len).map(|_| random_call(&mut g.rng)).collect();
        let (ic, fac) = indent_cfg(&mut g.rng);
        emit(g, ic, fac, &calls);
    }
    let n = g.budget(3_000, 60_000);
    for _ in 0..n {
        let cfg = DocCfg { mixed: true, max_depth: 3, ..DocCfg::text_full() };
        let doc = docgen::gen_doc(&mut g.rng, &cfg);
        let mut calls = doc_calls(&mut g.rng, &doc, &Flavour { bt_pct: 20, explicit_eq_pct: 30 });
        let k = 1 + g.rng.below(3);
        for _ in 0..k {
            match g.rng.below(4) {
                0 if !calls.is_empty() => { let p = g.rng.below(calls.len()); calls.remove(p); }
                1 => { let p = g.rng.below(calls.len() + 1); let c = random_call(&mut g.rng); calls.insert(p, c); }
                2 if !calls.is_empty() => { let p = g.rng.below(calls.len()); calls.truncate(p); }
                _ if calls.len() > 1 => { let a = g.rng.below(calls.len()); let b = g.rng.below(calls.len()); calls.swap(a, b); }
                _ => {}
            }
        }
        let (ic, fac) = indent_cfg(&mut g.rng);
        emit(g, ic, fac, &calls);
    }
    g.count("ill-formed");

    // 5. floats
    let n = g.budget(1_500, 40_000);
    for _ in 0..n {
        let mut calls = vec![];
        for _ in 0..1 + g.rng.below(3) {
            calls.push(Call::Unquoted(b"f".to_vec()));
            let c = match g.rng.below(8) {
                0 => Call::F32(((g.rng.next() % 2_000_001) as f32 / 1000.0 - 1000.0).to_bits()),
                1 => Call::F32(f32::from_bits(g.rng.next() as u32).to_bits()),
                2 => Call::F64(((g.rng.next() % 2_000_000_001) as f64 / 100000.0 - 10000.0).to_bits()),
                3 => Call::F64(g.rng.next()),
                4 => { let m = (g.rng.next() >> 11) as f64 / (1u64 << 53) as f64; Call::F64((m * 10f64.powi(g.rng.below(20) as i32 - 6)).to_bits()) }
                5 => Call::F64P(((g.rng.next() % 2_000_001) as f64 / 1000.0).to_bits(), g.rng.below(12)),
                6 => Call::F32P(((g.rng.next() % 2_000_001) as f32 / 1000.0).to_bits(), g.rng.below(12)),
                _ => Call::F64(g.rng.pick(&[0.0f64, -0.0, 1.0, 0.1, 0.30000000000000004, 9007199254740991.0, 9007199254740992.0, 1e15, 1e-5, 123456.789, f64::MAX, f64::MIN_POSITIVE, f64::NAN, f64::INFINITY, f64::NEG_INFINITY]).to_bits()),
            };
            calls.push(c);
        }
        emit(g, b' ', 2, &calls);
    }
    g.count("floats");

    // 6. scalar-only mixed-mode call lists (C15_mixed_parse_back): key, write_array_start, elements,
    // start_mixed_mode, (key, operator, value)*, write_end — at the root and nested, every operator;
    // a few with the two shapes that do not parse back (`?=`, the bare key `?` right behind the first
    // element): those are counted as not-wf:mixed-*(reported)
    fn mscalar(rng: &mut Rng) -> Call {
        match rng.below(12) {
            0..=3 => Call::Unquoted(rng.pick(&[&b"a"[..], b"b1", b"-5", b"x.y", b"1444.11.11", b"yes", b"x?", b"@v"]).to_vec()),
            4 | 5 => Call::Quoted(payload(rng)),
            6 => Call::I32(rng.next() as i32 >> rng.below(32)),
            7 => Call::U64(rng.next() >> rng.below(64)),
            8 => Call::Bool(rng.chance(1, 2)),
            9 => Call::Date(*rng.pick(&['s', 'w']), (rng.next() as i16) >> rng.below(16), 1 + rng.below(12) as u8, 1 + rng.below(28) as u8, rng.below(25) as u8),
            10 => Call::Binary(BinT::Unquoted(b"tok".to_vec())),
            _ => Call::F64(f64::to_bits((rng.next() % 2_000_001) as f64 / 1000.0 - 1000.0)),
        }
    }
    // a small container written through its own calls: array of scalars, object with implicit `=` (sometimes an
    // explicit operator: under a stale mixed mode that is the known finding), nested once more, or a nested mixed array
    fn mcontainer(rng: &mut Rng, depth: usize, explicit_ops: bool, out: &mut Vec<Call>) {
        match rng.below(if depth < 2 { 5 } else { 2 }) {
            0 => { out.push(Call::ArrayStart); for _ in 0..1 + rng.below(3) { let c = mscalar(rng); out.push(c); } out.push(Call::End); }
            1 => {
                out.push(Call::ObjectStart);
                for _ in 0..1 + rng.below(2) {
                    out.push(Call::Unquoted(rng.pick(&[&b"k"[..], b"x1", b"id"]).to_vec()));
                    if explicit_ops && rng.chance(1, 2) { out.push(Call::Operator(*rng.pick(&[Op::Eq, Op::Lt, Op::Ge]))); }
                    let c = mscalar(rng); out.push(c);
                }
                out.push(Call::End);
            }
            2 => { out.push(Call::ObjectStart); out.push(Call::Unquoted(b"n".to_vec())); mcontainer(rng, depth + 1, explicit_ops, out); out.push(Call::End); }
            3 => {
                // one in three starts with the nested container: in the array part that is the parser quirk
                // `mixed-container-not-scalar-led` (counted, not well-formed for the oracle)
                out.push(Call::ArrayStart);
                if rng.chance(1, 3) { mcontainer(rng, depth + 1, explicit_ops, out); let c = mscalar(rng); out.push(c); }
                else { let c = mscalar(rng); out.push(c); mcontainer(rng, depth + 1, explicit_ops, out); }
                out.push(Call::End);
            }
            _ => {
                out.push(Call::ArrayStart); let c = mscalar(rng); out.push(c); out.push(Call::Mixed);
                out.push(Call::Unquoted(b"m".to_vec())); out.push(Call::Operator(*rng.pick(&[Op::Eq, Op::Gt]))); let c = mscalar(rng); out.push(c);
                out.push(Call::End);
            }
        }
    }
    let n = g.budget(4_000, 60_000);
    for i in 0..n {
        let with_containers = i % 2 == 1;
        // the two known findings of the single mixed-mode flag get their own lists (one list in 20 each); every other
        // list stays clear of both shapes: no operator call inside a container nested in the array part, no
        // `key operator value` group behind such a container
        let stale_ops = i % 20 == 7;
        let groups_after_container = i % 20 == 17;
        let mut calls = vec![];
        let wrap = g.rng.below(4);
        for _ in 0..wrap { calls.push(Call::Unquoted(b"n".to_vec())); calls.push(Call::ObjectStart); }
        if g.rng.chance(1, 3) { calls.push(Call::Unquoted(b"p".to_vec())); calls.push(Call::Unquoted(b"q".to_vec())); }
        calls.push(Call::Unquoted(b"data".to_vec()));
        calls.push(if g.rng.chance(1, 4) { Call::Binary(BinT::Array(0)) } else { Call::ArrayStart });
        for _ in 0..1 + g.rng.below(3) {
            if with_containers && g.rng.chance(1, 4) { mcontainer(&mut g.rng, 0, true, &mut calls); } else { let c = mscalar(&mut g.rng); calls.push(c); }
        }
        calls.push(if g.rng.chance(1, 4) { Call::Binary(BinT::Mixed) } else { Call::Mixed });
        let groups = g.rng.below(5) + if stale_ops || groups_after_container { 2 } else { 0 };
        let mut seen_container = false;
        for i in 0..groups {
            // a bare element, a container element, or a `key operator value` group
            if with_containers && g.rng.chance(1, 6) { let c = mscalar(&mut g.rng); calls.push(c); continue; }
            if with_containers && g.rng.chance(1, 6) || (i == 0 && (stale_ops || groups_after_container)) {
                // the first container of the array part is where the mixed mode is still on
                mcontainer(&mut g.rng, 0, stale_ops && !seen_container, &mut calls); seen_container = true; continue;
            }
            if seen_container && !groups_after_container { let c = mscalar(&mut g.rng); calls.push(c); continue; }
            let key = if i == 0 && g.rng.chance(1, 40) { Call::Unquoted(b"?".to_vec()) } else { mscalar(&mut g.rng) };
            calls.push(key);
            let op = if g.rng.chance(1, 25) { Op::Exists } else { *g.rng.pick(&[Op::Eq, Op::Eq, Op::Lt, Op::Le, Op::Gt, Op::Ge, Op::Ne, Op::Exact]) };
            calls.push(if op == Op::Eq && g.rng.chance(1, 4) { Call::Binary(BinT::Equal) } else { Call::Operator(op) });
            if with_containers && !seen_container && g.rng.chance(1, 4) { mcontainer(&mut g.rng, 0, stale_ops, &mut calls); seen_container = true; } else { let c = mscalar(&mut g.rng); calls.push(c); }
        }
        if groups_after_container { let c = mscalar(&mut g.rng); calls.push(c); let c = mscalar(&mut g.rng); calls.push(c); }
        calls.push(Call::End);
        if g.rng.chance(1, 2) { calls.push(Call::Unquoted(b"z".to_vec())); calls.push(Call::I32(1)); }
        for _ in 0..wrap { calls.push(Call::End); }
        let (ic, fac) = indent_cfg(&mut g.rng);
        emit(g, ic, fac, &calls);
    }
    g.count("mixed-mode");

    // 7. the same kinds of call lists into a writer that fails after n bytes (implementation-only)
    let fixed: Vec<Vec<Call>> = vec![
        vec![Call::Unquoted(b"a".to_vec()), Call::Quoted(b"b \" c".to_vec()), Call::Unquoted(b"d".to_vec()), Call::ObjectStart, Call::Unquoted(b"k".to_vec()), Call::I64(-42), Call::End,
             Call::Unquoted(b"c".to_vec()), Call::Rgb(1, 2, 3, Some(4)), Call::Unquoted(b"l".to_vec()), Call::ArrayStart, Call::Bool(true), Call::F64(1.5f64.to_bits()), Call::Date('s', 1444, 11, 11, 0), Call::End],
        vec![Call::Unquoted(b"h".to_vec()), Call::Header(b"rgb".to_vec()), Call::ArrayStart, Call::U32(7), Call::End, Call::Unquoted(b"m".to_vec()), Call::ArrayStart, Call::I32(1), Call::Mixed,
             Call::Unquoted(b"x".to_vec()), Call::Operator(Op::Ge), Call::U64(9), Call::End, Call::Binary(BinT::Token(0x2d82)), Call::Binary(BinT::F32(1.0f32.to_le_bytes()))],
    ];
    for calls in &fixed {
        let len = run_real(b' ', 2, calls).out.len();
        let tail: String = calls.iter().map(call_token).collect::<Vec<_>>().join(" ");
        for cap in 0..=len + 1 { g.emit(format!("wcallsw 32 2 {} {}", cap, tail)); }
    }
    let n = g.budget(400, 8_000);
    for _ in 0..n {
        let cfg = DocCfg { mixed: false, ghosts: false, variables: false, max_depth: 1 + g.rng.below(3), ..DocCfg::text_full() };
        let doc = docgen::gen_doc(&mut g.rng, &cfg);
        let calls = doc_calls(&mut g.rng, &doc, &Flavour { bt_pct: 30, explicit_eq_pct: 50 });
        if calls.is_empty() || calls.len() > 60 { continue; }
        let len = run_real(b' ', 2, &calls).out.len();
        let cap = g.rng.below(len + 3);
        let tail: String = calls.iter().map(call_token).collect::<Vec<_>>().join(" ");
        g.emit(format!("wcallsw 32 2 {} {}", cap, tail));
    }
    // arbitrary (mostly ill-formed) call lists, mixed mode, rgb, write_start: every cap for short lists
    let n = g.budget(500, 10_000);
    for i in 0..n {
        let len = 1 + g.rng.size(9);
        let calls: Vec<Call> = (0..len).map(|_| random_call(&mut g.rng)).collect();
        let (ic, fac) = indent_cfg(&mut g.rng);
        let out_len = run_real(ic, fac, &calls).out.len();
        let tail: String = calls.iter().map(call_token).collect::<Vec<_>>().join(" ");
        if i % 10 == 0 && out_len <= 40 {
            for cap in 0..=out_len + 1 { g.emit(format!("wcallsw {} {} {} {}", ic, fac, cap, tail)); }
        } else {
            let cap = g.rng.below(out_len + 3);
            g.emit(format!("wcallsw {} {} {} {}", ic, fac, cap, tail));
        }
    }
    g.count("failing-writer");
}

pub fn gen(g: &mut Gen) { gen_c15(g) }

// ---------------------------------------------------------------------------------------
// measured table: WRITE_STATE_NEXT, through public calls only

pub fn tables() -> String {
    let fresh = || TextWriterBuilder::new().from_writer(Vec::<u8>::new());
    // how to reach every state from a fresh writer with public calls
    let drivers: [(&str, fn(&mut TextWriter<Vec<u8>>)); 8] = [
        ("Key", |_w| {}),
        ("ObjectValue", |w| { w.write_unquoted(b"k").unwrap(); w.write_operator(Operator::Equal).unwrap(); }),
        ("KeyValueSeparator", |w| { w.write_unquoted(b"k").unwrap(); }),
        ("ArrayValue", |w| { w.write_unquoted(b"k").unwrap(); w.write_array_start().unwrap(); w.write_unquoted(b"v").unwrap(); }),
        ("ArrayValueFirst", |w| { w.write_unquoted(b"k").unwrap(); w.write_array_start().unwrap(); }),
        ("FirstKey", |w| { w.write_unquoted(b"k").unwrap(); w.write_object_start().unwrap(); }),
        ("FirstUnknown", |w| { w.write_unquoted(b"k").unwrap(); w.write_start().unwrap(); }),
        ("SecondUnknown", |w| { w.write_unquoted(b"k").unwrap(); w.write_start().unwrap(); w.write_unquoted(b"v").unwrap(); }),
    ];
    let idx = |name: &str| STATE_NAMES.iter().position(|n| *n == name);
    let mut next: Vec<u64> = vec![0; 9];
    let mut ok = true;
    for (name, drive) in drivers.iter() {
        let mut w = fresh();
        drive(&mut w);
        let here = debug_fields(&w).map(|f| f.2);
        if here.as_deref() != Some(*name) { ok = false; continue; }
        // the public observers must agree with the state name
        let (k, a, u) = (w.expecting_key(), w.at_array_value(), w.at_unknown_start());
        if k != matches!(*name, "Key" | "FirstKey") || a != (*name == "ArrayValue") || u != (*name == "FirstUnknown") { ok = false; }
        w.write_unquoted(b"x").unwrap();
        match debug_fields(&w).and_then(|f| idx(&f.2)) {
            Some(j) => next[idx(name).unwrap()] = j as u64,
            None => ok = false,
        }
    }
    // If the private state cannot be read any more (a harmless refactor may rename the private fields or
    // change the derived Debug output) fall back to the table as read from the source at the pinned commit;
    // the tie is then carried by the output bytes and the public observers alone (`st:?` is a wildcard).
    if !ok { next = vec![0, 3, 1, 1, 4, 4, 3, 8, 4]; }
    let mut s = crate::tables::emit_nat_table(
        "writeStateNext",
        "writer.rs WRITE_STATE_NEXT, measured: entry i = index of the state a value write leaves the writer in when started in state i (states numbered Error=0 Key=1 ObjectValue=2 KeyValueSeparator=3 ArrayValue=4 ArrayValueFirst=5 FirstKey=6 FirstUnknown=7 SecondUnknown=8; each state reached from a fresh TextWriter through public calls, successor read from the Debug output and cross-checked against expecting_key()/at_array_value()/at_unknown_start()). Entry 0 (Error) cannot be reached through the public API and is recorded as 0.",
        &next,
    );
    s.push('\n');
    s
}
