//! C07 — the streaming text reader is independent of read chunking and buffer size
//! (plus the text-reader clauses of C09 `gen_skip` and C20 `gen_fault`).
//!
//! ops (cap = 0 means `TokenReader::from_slice`, the schedule is then ignored; a cap with the
//! suffix `r` uses a buffer recycled from a previous reader via `into_parts`/`builder().buffer`; `r<hh>` = that
//! buffer is left filled with the byte <hh>, e.g. `16r7b` = sixteen stale `{`):
//!   tlex    <hex>                         -> `<toks> <outcome> <pos>`
//!   tneed   <hex>                         -> smallest buffer capacity with which every token / comment / look-ahead fits
//!                                            (harness: independent `ref_lex`; model: `Spec.need`, the fit predicate of
//!                                            `C07_full_only_if_unfit`)
//!   tlexg   <guardhex> <hex>              -> same; from_slice over a SUB-slice of a larger allocation whose following
//!                                            bytes are <guardhex> (the model answers exactly like `tlex <hex>`)
//!   tstream <cap> <sched> <hex>           -> `<toks> <outcome> <pos> <delivered>`      stops at the first error
//!   tretry  <cap> <sched> <hex>           -> same, but keeps calling `next` after an I/O error (`!io` in the token list)
//!   tskip   <cap> <sched> <hex> <k>       -> `<skip-outcome> <next> <pos> <delivered>` skip_container after the k-th Open (k>=1)
//!   tskipu  <cap> <sched> <hex> <k>       -> same with skip_unquoted_value after the k-th Unquoted token
//!   tbytes  <cap> <sched> <hex> <k> <n>   -> `<bytes|outcome> <next> <pos> <delivered>` read_bytes(n) after k tokens
//!   tread   <cap> <sched> <hex>           -> like tstream but through `read()` (clean end becomes err:eof)
//!   lws <u64> | cchunk <u64> <byte> | czb <u64>   the SWAR hooks
//! tokens: show.rs `text_lex_tok`, joined by ',', "-" when there are none.
//! outcomes: end | err:eof | err:full | err:io.
#![allow(dead_code)]
use crate::common::*;
use crate::docgen::{self, DocCfg, LayoutCfg};
use crate::sched::{self, SchedReader, Step};
use crate::show::text_lex_tok;
use jomini::text::{ReaderError, ReaderErrorKind, Token, TokenReader};
use jomini::verif_hooks as hooks;
use std::io::Read;

fn err_name(e: &ReaderError) -> &'static str {
    match e.kind() {
        ReaderErrorKind::Read(_) => "err:io",
        ReaderErrorKind::BufferFull => "err:full",
        ReaderErrorKind::Eof => "err:eof",
    }
}

/// the error's name, after checking the error report itself against the reader: `ReaderError::position()` is the
/// reader's position, `Display` names the kind and that position, `source()` is the I/O error exactly for `Read`.
/// A wrong report turns into the name `err:badreport`, which no model output matches.
fn err_report<R: Read>(rd: &TokenReader<R>, e: &ReaderError) -> &'static str {
    let name = err_name(e);
    // message TEXTS are free to change (no property speaks about them): the report must carry the reader's position,
    // mention it, and expose a source exactly for I/O errors
    let shown = format!("{}", e);
    let src = std::error::Error::source(e).is_some();
    if e.position() != rd.position() || !shown.contains(&e.position().to_string()) || src != (name == "err:io") {
        return "err:badreport";
    }
    name
}

fn join(toks: &[String]) -> String {
    if toks.is_empty() { "-".to_string() } else { toks.join(",") }
}

#[derive(Clone, Debug, PartialEq)]
pub struct Run {
    pub toks: Vec<String>,
    pub out: String,
    pub pos: usize,
    pub delivered: usize,
    pub faults: usize,
    pub calls: usize,
    /// bytes delivered before each failing read call
    pub fault_pos: Vec<usize>,
}

// ------------------------------------------------------------------------------------------
// drivers, generic over the Read

fn lex_all<R: Read>(rd: &mut TokenReader<R>, limit: usize, retry: bool, via_read: bool) -> (Vec<String>, String) {
    let mut toks = vec![];
    let mut errors = 0;
    loop {
        if toks.len() > limit {
            return (toks, "hang".to_string());
        }
        let r = if via_read { rd.read().map(Some) } else { rd.next() };
        match r {
            Ok(Some(t)) => toks.push(text_lex_tok(&t)),
            Ok(None) => return (toks, "end".to_string()),
            Err(e) => {
                let n = err_report(rd, &e);
                if retry && n == "err:io" && errors < 8 {
                    errors += 1;
                    toks.push("!io".to_string());
                    continue;
                }
                return (toks, n.to_string());
            }
        }
    }
}

#[derive(Clone, Copy, PartialEq)]
enum SkipKind { Container, Unquoted }

/// read until the k-th Open / Unquoted, skip, then read one token.
fn skip_at<R: Read>(rd: &mut TokenReader<R>, kind: SkipKind, k: usize, limit: usize) -> String {
    let mut seen = 0;
    let mut n = 0;
    loop {
        n += 1;
        if n > limit { return "hang -".to_string(); }
        match rd.next() {
            Ok(Some(t)) => {
                let hit = match (kind, &t) {
                    (SkipKind::Container, Token::Open) => true,
                    (SkipKind::Unquoted, Token::Unquoted(_)) => true,
                    _ => false,
                };
                if hit {
                    seen += 1;
                    if seen == k { break; }
                }
            }
            Ok(None) => return "nok end".to_string(),
            Err(e) => return format!("nok {}", err_report(rd, &e)),
        }
    }
    let r = match kind { SkipKind::Container => rd.skip_container(), SkipKind::Unquoted => rd.skip_unquoted_value() };
    match r {
        Ok(()) => {
            let nx = match rd.next() {
                Ok(Some(t)) => text_lex_tok(&t),
                Ok(None) => "end".to_string(),
                Err(e) => err_report(rd, &e).to_string(),
            };
            format!("ok {}", nx)
        }
        Err(e) => format!("{} -", err_report(rd, &e)),
    }
}

fn bytes_at<R: Read>(rd: &mut TokenReader<R>, k: usize, n: usize) -> String {
    for _ in 0..k {
        match rd.next() {
            Ok(Some(_)) => {}
            Ok(None) => return "nok end".to_string(),
            Err(e) => return format!("nok {}", err_report(rd, &e)),
        }
    }
    let first = match rd.read_bytes(n) {
        Ok(b) => format!("b:{}", hex(b)),
        Err(e) => return format!("{} -", err_report(rd, &e)),
    };
    let nx = match rd.next() {
        Ok(Some(t)) => text_lex_tok(&t),
        Ok(None) => "end".to_string(),
        Err(e) => err_report(rd, &e).to_string(),
    };
    format!("{} {}", first, nx)
}

/// a buffer of `cap` bytes recycled from a previous reader (`into_parts`).  `fill = None`: whatever a reader over
/// lexically significant junk left in it; `Some(b)`: the previous reader read a stream of `b` bytes and the buffer is
/// left entirely filled with `b` (stale `{`, `}`, `"`, `\` right behind the window).
fn recycled_buffer(cap: usize, fill: Option<u8>) -> Box<[u8]> {
    let junk: Vec<u8> = match fill {
        None => b"\"\\{}#= a\n\"x\\\"".iter().copied().cycle().take(cap * 3 + 7).collect(),
        Some(b) => vec![b; cap * 2 + 3],
    };
    let mut rd = TokenReader::builder().buffer_len(cap).build(&junk[..]);
    for _ in 0..(cap + 4) {
        match rd.next() {
            Ok(Some(_)) => {}
            _ => break,
        }
    }
    let (mut buf, _) = rd.into_parts();
    if let Some(b) = fill { for x in buf.iter_mut() { *x = b; } }
    buf
}

/// the schedule-driven Read, remembering how many bytes had been delivered at each failing call
pub struct Logged<'a> { pub inner: SchedReader<'a>, pub fault_pos: Vec<usize> }
impl<'a> Read for Logged<'a> {
    fn read(&mut self, buf: &mut [u8]) -> std::io::Result<usize> {
        let r = self.inner.read(buf);
        if r.is_err() { self.fault_pos.push(self.inner.pos); }
        r
    }
}

#[derive(Clone)]
pub struct Cap { pub n: usize, pub recycled: bool, pub fill: Option<u8> }
impl Cap { pub fn fresh(n: usize) -> Cap { Cap { n, recycled: false, fill: None } } }
fn parse_cap(s: &str) -> Option<Cap> {
    match s.find('r') {
        None => Some(Cap::fresh(s.parse().ok()?)),
        Some(i) => {
            let n = s[..i].parse().ok()?;
            let rest = &s[i + 1..];
            let fill = if rest.is_empty() { None } else { Some(u8::from_str_radix(rest, 16).ok()?) };
            Some(Cap { n, recycled: true, fill })
        }
    }
}

/// run `f` on a reader over `data`; cap 0 = from_slice
fn with_reader<T>(cap: &Cap, steps: &[Step], data: &[u8],
                  f_slice: impl FnOnce(&mut TokenReader<&[u8]>) -> T,
                  f_stream: impl FnOnce(&mut TokenReader<Logged>) -> T) -> (T, usize, usize, usize, usize, Vec<usize>) {
    if cap.n == 0 {
        let mut rd = TokenReader::from_slice(data);
        let t = f_slice(&mut rd);
        (t, rd.position(), data.len(), 0, 0, vec![])
    } else {
        let src = Logged { inner: SchedReader::new(data, steps.to_vec()), fault_pos: vec![] };
        let b = if cap.recycled { TokenReader::builder().buffer(recycled_buffer(cap.n, cap.fill)) } else { TokenReader::builder().buffer_len(cap.n) };
        let mut rd = b.build(src);
        let t = f_stream(&mut rd);
        let pos = rd.position();
        let (_, src) = rd.into_parts();
        (t, pos, src.inner.delivered(), src.inner.faults, src.inner.calls, src.fault_pos)
    }
}

pub fn run_lex(cap: &Cap, steps: &[Step], data: &[u8], retry: bool, via_read: bool) -> Run {
    let limit = data.len() * 2 + 32;
    let ((toks, out), pos, delivered, faults, calls, fault_pos) =
        with_reader(cap, steps, data, |r| lex_all(r, limit, retry, via_read), |r| lex_all(r, limit, retry, via_read));
    Run { toks, out, pos, delivered, faults, calls, fault_pos }
}

fn run_skip(cap: &Cap, steps: &[Step], data: &[u8], kind: SkipKind, k: usize) -> (String, usize, usize, usize) {
    let limit = data.len() * 2 + 32;
    let (s, pos, delivered, faults, _, _) = with_reader(cap, steps, data, |r| skip_at(r, kind, k, limit), |r| skip_at(r, kind, k, limit));
    (s, pos, delivered, faults)
}

fn run_bytes(cap: &Cap, steps: &[Step], data: &[u8], k: usize, n: usize) -> (String, usize, usize, usize) {
    let (s, pos, delivered, faults, _, _) = with_reader(cap, steps, data, |r| bytes_at(r, k, n), |r| bytes_at(r, k, n));
    (s, pos, delivered, faults)
}

// ------------------------------------------------------------------------------------------
// independent reference: a byte-at-a-time tokenizer over the whole input, and what has to fit

#[derive(Clone, Debug, PartialEq)]
pub struct RefLex {
    pub toks: Vec<String>,
    pub out: &'static str,
    /// smallest buffer capacity with which every token, comment and look-ahead fits
    pub need: usize,
    /// byte offset just after each token (the offset a reader is at, modulo one skipped blank)
    pub ends: Vec<usize>,
    /// the input ends inside an unterminated quoted scalar
    pub in_quote: bool,
}

fn blank(b: u8) -> bool { matches!(b, b' ' | b'\t' | b'\n' | b'\r' | b';') }
fn ref_boundary(b: u8) -> bool {
    matches!(b, b'\t' | b'\n' | 0x0b | 0x0c | b'\r' | b' ' | b'!' | b'#' | b'<' | b'=' | b'>' | b'[' | b']' | b'}' | b'{')
}

pub fn ref_lex(d: &[u8]) -> RefLex {
    let n = d.len();
    let mut toks = vec![];
    let mut ends = vec![];
    let mut need = 1usize;
    let mut i = 0usize;
    let mut out = "end";
    let mut in_quote = false;
    if n >= 1 && d[0] == 0xef {
        need = need.max((n + 1).min(3));
        if n >= 3 && d[1] == 0xbb && d[2] == 0xbf { i = 3; }
    }
    let us = |b: &[u8]| format!("U:{}", hex(b));
    while i < n {
        let c = d[i];
        if blank(c) { i += 1; continue; }
        match c {
            b'#' => {
                let mut j = i;
                while j < n && d[j] != b'\n' { j += 1; }
                need = need.max(j - i + 1);
                i = j;
            }
            b'{' => { toks.push("Open".into()); i += 1; ends.push(i); }
            b'}' => { toks.push("Close".into()); i += 1; ends.push(i); }
            b'"' => {
                let s = i + 1;
                let mut j = s;
                let mut closed = false;
                while j < n {
                    if d[j] == b'\\' { j += 2; } else if d[j] == b'"' { closed = true; break; } else { j += 1; }
                }
                if closed {
                    need = need.max(j - s + 1);
                    toks.push(format!("Q:{}", hex(&d[s..j])));
                    i = j + 1; ends.push(i);
                } else {
                    need = need.max(n - s + 1);
                    out = "err:eof";
                    in_quote = true;
                    break;
                }
            }
            b'@' => {
                if i + 1 == n { need = need.max(2); out = "err:eof"; break; }
                if d[i + 1] == b'[' {
                    let mut j = i + 2;
                    while j < n && d[j] != b']' { j += 1; }
                    if j < n { need = need.max(j + 1 - i); toks.push(us(&d[i..j + 1])); i = j + 1; ends.push(i); }
                    else { need = need.max(n - i + 1); out = "err:eof"; break; }
                } else {
                    let mut j = i + 1;
                    while j < n && !ref_boundary(d[j]) { j += 1; }
                    need = need.max(j - i + 1);
                    toks.push(us(&d[i..j])); i = j; ends.push(i);
                }
            }
            b'=' | b'<' | b'>' | b'!' | b'?' => {
                need = need.max(2);
                if i + 1 == n { out = "err:eof"; break; }
                let eq = d[i + 1] == b'=';
                let name = match (c, eq) {
                    (b'=', false) => "eq", (b'=', true) => "exact",
                    (b'<', false) => "lt", (b'<', true) => "le",
                    (b'>', false) => "gt", (b'>', true) => "ge",
                    (b'!', _) => "ne", _ => "exists",
                };
                toks.push(format!("Op:{}", name));
                i += if eq { 2 } else { 1 };
                ends.push(i);
            }
            _ => {
                let mut j = i + 1;
                while j < n && !ref_boundary(d[j]) { j += 1; }
                need = need.max(j - i + 1);
                toks.push(us(&d[i..j])); i = j; ends.push(i);
            }
        }
    }
    RefLex { toks, out, need, ends, in_quote }
}

/// where skip_container must land according to token counting: index (into the reference token
/// list) of the token following the close that matches the k-th Open; None if unbalanced.
fn ref_skip_target(r: &RefLex, k: usize) -> Option<usize> {
    let mut seen = 0;
    let mut i = 0;
    while i < r.toks.len() {
        if r.toks[i] == "Open" { seen += 1; if seen == k { break; } }
        i += 1;
    }
    if i >= r.toks.len() { return None; }
    let mut depth = 1i64;
    let mut j = i + 1;
    while j < r.toks.len() {
        if r.toks[j] == "Open" { depth += 1; }
        if r.toks[j] == "Close" { depth -= 1; if depth == 0 { return Some(j + 1); } }
        j += 1;
    }
    None
}

/// is the byte-level view of skip_container guaranteed to coincide with token counting?
/// (true for rendered documents: no brace / quote / '#' inside an unquoted scalar or `@[..]`)
fn skip_comparable(d: &[u8]) -> bool {
    let r = ref_lex(d);
    // an unterminated `@[` / quote / dangling operator at the end is outside the comparison
    if r.out != "end" { return false; }
    // unquoted tokens must not contain bytes the skipper interprets
    for t in r.toks.iter() {
        if let Some(h) = t.strip_prefix("U:") {
            if let Some(b) = unhex(h) {
                if b.iter().any(|c| matches!(c, b'{' | b'}' | b'"' | b'#')) { return false; }
            }
        }
    }
    true
}

/// the two recorded shapes behind which `skip_container` and token counting differ: among the tokens `from..to` of the
/// reference, (A) an unquoted scalar that is not an `@[…]` expression and contains `"` — the byte-level skip takes the `"`
/// for the start of a quoted string —, (B) an `@[…]` expression whose body contains `{`, `}`, `"` or `#`.
#[derive(Clone, Copy, PartialEq, Debug)]
enum SkipShape { None, QuoteInUnquoted, SpecialInInterpolation }
fn skip_shape(r: &RefLex, from: usize, to: usize) -> SkipShape {
    let mut shape = SkipShape::None;
    for t in r.toks[from.min(r.toks.len())..to.min(r.toks.len())].iter() {
        if let Some(b) = t.strip_prefix("U:").and_then(unhex) {
            let interp = b.len() >= 2 && b[0] == b'@' && b[1] == b'[';
            if interp {
                if b[2..].iter().any(|c| matches!(c, b'{' | b'}' | b'"' | b'#')) && shape == SkipShape::None { shape = SkipShape::SpecialInInterpolation; }
            } else if b.contains(&b'"') { return SkipShape::QuoteInUnquoted; }
        }
    }
    shape
}
/// independent byte-level reference of `skip_container` from offset `start` (just behind the `{`): counts braces, skips
/// quoted strings (a backslash hides the next byte) and comments.  `Some(p)`: offset just behind the matching `}`.
fn ref_byte_skip(d: &[u8], start: usize) -> Option<usize> {
    let mut depth = 1i64;
    let mut i = start;
    while i < d.len() {
        match d[i] {
            b'{' => { depth += 1; i += 1; }
            b'}' => { depth -= 1; i += 1; if depth == 0 { return Some(i); } }
            b'"' => {
                i += 1;
                loop {
                    if i >= d.len() { return None; }
                    if d[i] == b'\\' { i += 2; if i > d.len() { return None; } } else if d[i] == b'"' { i += 1; break; } else { i += 1; }
                }
            }
            b'#' => { while i < d.len() && d[i] != b'\n' { i += 1; } if i >= d.len() { return None; } i += 1; }
            _ => i += 1,
        }
    }
    None
}
/// what the op reports when the skip behaves like the byte-level reference: `ok <next token>` or `err:eof -`
fn byte_skip_report(d: &[u8], start: usize) -> Option<String> {
    match ref_byte_skip(d, start) {
        None => Some("err:eof -".to_string()),
        Some(p) => {
            let rest = &d[p..];
            if rest.first() == Some(&0xef) { return None; }
            let r = ref_lex(rest);
            Some(format!("ok {}", r.toks.first().cloned().unwrap_or_else(|| r.out.to_string())))
        }
    }
}
/// the kind under which a difference between the skip and token counting is reported: one of the two recorded shapes when
/// it occurs among the skipped tokens AND the skip did exactly what the byte-level reference does; the generic kind otherwise
fn skip_kind(generic: &'static str, r: &RefLex, d: &[u8], open_idx: usize, close_after: Option<usize>, res: &str) -> &'static str {
    let to = close_after.unwrap_or(r.toks.len());
    let shape = skip_shape(r, open_idx + 1, to);
    if shape == SkipShape::None { return generic; }
    match byte_skip_report(d, r.ends[open_idx]) {
        Some(b) if b == res => if shape == SkipShape::QuoteInUnquoted { "skip-quote-inside-unquoted" } else { "skip-brace-inside-interpolation" },
        // same mis-landing, but the pseudo-token that starts there does not fit a small buffer: the skip outcome agrees
        // with the byte-level skipper and the next read reports BufferFull
        Some(b) if b.split(' ').next() == res.split(' ').next() && res.ends_with(" err:full") => if shape == SkipShape::QuoteInUnquoted { "skip-quote-inside-unquoted" } else { "skip-brace-inside-interpolation" },
        _ => generic,
    }
}

fn is_prefix(a: &[String], b: &[String]) -> bool { a.len() <= b.len() && a.iter().zip(b.iter()).all(|(x, y)| x == y) }
fn strip_faults(steps: &[Step]) -> Vec<Step> {
    let mut v = vec![];
    for s in steps {
        match s { Step::Fail => {}, Step::FailForever => break, x => v.push(x.clone()) }
    }
    v
}
fn has_faults(steps: &[Step]) -> bool { steps.iter().any(|s| matches!(s, Step::Fail | Step::FailForever)) }

// ------------------------------------------------------------------------------------------

pub fn exec(w: &[&str], obs: &mut Obs) -> Option<String> {
    let case = || w.join(" ");
    match w {
        ["lws", v] => { let x: u64 = v.parse().ok()?;
            let r = hooks::leading_whitespace(x);
            let expect = x.to_le_bytes().iter().take_while(|b| **b == b'\t' || **b == b'\n').count() as u32;
            if r != expect { obs.violation("lws-spec", &case(), &format!("impl {} reference {}", r, expect)); }
            obs.count(&format!("lws:{}", r));
            Some(format!("{}", r)) }
        ["cchunk", v, b] => { let x: u64 = v.parse().ok()?; let b: u8 = b.parse().ok()?;
            let r = hooks::count_chunk(x, b);
            let expect = x.to_le_bytes().iter().filter(|c| **c == b).count() as u64;
            if r != expect { obs.violation("cchunk-spec", &case(), &format!("impl {} reference {}", r, expect)); }
            obs.count(&format!("cchunk:{}", r));
            Some(format!("{}", r)) }
        ["czb", v] => { let x: u64 = v.parse().ok()?;
            let r = hooks::contains_zero_byte(x);
            let expect = x.to_le_bytes().iter().any(|c| *c == 0);
            if r != expect { obs.violation("czb-spec", &case(), &format!("impl {} reference {}", r, expect)); }
            Some(format!("{}", r as u8)) }
        ["tneed", h] => {
            let d = unhex(h)?;
            let n = ref_lex(&d).need;
            // L3: the number is exact on the real code: a buffer of `need` bytes never overflows, one byte less does
            let at = run_lex(&Cap::fresh(n), &[Step::Repeat(1)], &d, false, false);
            if at.out == "err:full" { obs.violation("full-although-fits", &case(), &format!("need {}", n)); }
            if n >= 2 {
                // C07_buffer_full_iff: under EVERY fault-free schedule (whole reads and one byte at a time are the extremes)
                for steps in [vec![], vec![Step::Repeat(1)]] {
                    let below = run_lex(&Cap::fresh(n - 1), &steps, &d, false, false);
                    if below.out != "err:full" { obs.violation("need-not-tight", &case(), &format!("need {} but cap {} gives {}", n, n - 1, below.out)); }
                }
            }
            obs.count("tneed");
            Some(format!("{}", n))
        }
        ["tlex", h] => {
            let d = unhex(h)?;
            let r = run_lex(&Cap::fresh(0), &[], &d, false, false);
            let reference = ref_lex(&d);
            if r.toks != reference.toks || r.out != reference.out {
                obs.violation("slice-vs-reference", &case(), &format!("impl {} {} reference {} {}", join(&r.toks), r.out, join(&reference.toks), reference.out));
            }
            if r.out == "end" && r.pos != d.len() { obs.violation("slice-final-position", &case(), &format!("pos {} len {}", r.pos, d.len())); }
            // `TokenReader::new`: the default builder (32 KiB buffer) over the bytes as a `Read`
            {
                let mut rd = TokenReader::new(&d[..]);
                let (toks, out) = lex_all(&mut rd, d.len() * 2 + 32, false, false);
                if toks != r.toks || out != r.out || (out == "end" && rd.position() != d.len()) {
                    obs.violation("default-reader-differs", &case(), &format!("new {} {} slice {} {}", join(&toks), out, join(&r.toks), r.out));
                }
            }
            obs.count(&format!("tlex:{}", r.out));
            for t in &r.toks { obs.count(&format!("tok:{}", t.split(':').next().unwrap_or("?"))); }
            Some(format!("{} {} {}", join(&r.toks), r.out, r.pos))
        }
        ["tlexg", gh, h] => {
            let guard = unhex(gh)?; let d = unhex(h)?;
            // one allocation: the input followed by guard bytes; the reader only gets the sub-slice
            let mut all = d.clone(); all.extend_from_slice(&guard);
            let mut rd = TokenReader::from_slice(&all[..d.len()]);
            let (toks, out) = lex_all(&mut rd, d.len() * 2 + 32, false, false);
            let pos = rd.position();
            let plain = run_lex(&Cap::fresh(0), &[], &d, false, false);
            if toks != plain.toks || out != plain.out || pos != plain.pos {
                obs.violation("slice-reads-beyond-window", &case(), &format!("guarded {} {} {} plain {} {} {}", join(&toks), out, pos, join(&plain.toks), plain.out, plain.pos));
            }
            obs.count(&format!("tlexg:{}", out));
            Some(format!("{} {} {}", join(&toks), out, pos))
        }
        [op @ ("tstream" | "tretry" | "tread"), c, s, h] => {
            let cap = parse_cap(c)?; let steps = sched::parse(s)?; let d = unhex(h)?;
            let retry = *op == "tretry"; let via_read = *op == "tread";
            let r = run_lex(&cap, &steps, &d, retry, via_read);
            stream_oracle(op, &cap, &steps, &d, &r, &case(), obs);
            obs.count(&format!("{}:{}", op, r.out));
            if cap.recycled { obs.count("recycled"); }
            Some(format!("{} {} {} {}", join(&r.toks), r.out, r.pos, r.delivered))
        }
        [op @ ("tskip" | "tskipu"), c, s, h, k] => {
            let cap = parse_cap(c)?; let steps = sched::parse(s)?; let d = unhex(h)?; let k: usize = k.parse().ok()?;
            let kind = if *op == "tskip" { SkipKind::Container } else { SkipKind::Unquoted };
            let (res, pos, delivered, faults) = run_skip(&cap, &steps, &d, kind, k);
            skip_oracle(kind, &cap, &steps, &d, k, &res, pos, delivered, faults, &case(), obs);
            obs.count(&format!("{}:{}", op, res.split(' ').next().unwrap_or("?")));
            Some(format!("{} {} {}", res, pos, delivered))
        }
        ["tbytes", c, s, h, k, n] => {
            let cap = parse_cap(c)?; let steps = sched::parse(s)?; let d = unhex(h)?; let k: usize = k.parse().ok()?; let n: usize = n.parse().ok()?;
            let (res, pos, delivered, faults) = run_bytes(&cap, &steps, &d, k, n);
            bytes_oracle(&cap, &steps, &d, k, n, &res, pos, delivered, faults, &case(), obs);
            obs.count(&format!("tbytes:{}", res.split(|c| c == ' ' || c == ':').next().unwrap_or("?")));
            Some(format!("{} {} {}", res, pos, delivered))
        }
        _ => None,
    }
}

/// L3: the property's own predicate on the real code.
fn stream_oracle(op: &str, cap: &Cap, steps: &[Step], d: &[u8], r: &Run, case: &str, obs: &mut Obs) {
    if r.out == "hang" { obs.violation("no-progress", case, "token limit exceeded"); return; }
    if r.pos > r.delivered { obs.violation("position-beyond-delivered", case, &format!("pos {} delivered {}", r.pos, r.delivered)); }
    if cap.n == 0 { return; }
    let via_read = op == "tread";
    let slice = run_lex(&Cap::fresh(0), &[], d, false, via_read);
    let reference = ref_lex(d);
    let fits = cap.n >= reference.need;
    let faulty = has_faults(steps);
    if cap.recycled {
        let fresh = run_lex(&Cap::fresh(cap.n), steps, d, op == "tretry", via_read);
        if fresh != *r { obs.violation("recycled-vs-fresh", case, &format!("fresh {} {} {}", join(&fresh.toks), fresh.out, fresh.pos)); }
    }
    if !faulty {
        if fits {
            if r.toks != slice.toks || r.out != slice.out {
                obs.violation("stream-vs-slice", case, &format!("stream {} {} slice {} {}", join(&r.toks), r.out, join(&slice.toks), slice.out));
            } else if r.out == "end" && r.pos != d.len() {
                obs.violation("stream-final-position", case, &format!("pos {} len {}", r.pos, d.len()));
            } else if r.pos != slice.pos {
                obs.violation("stream-vs-slice-position", case, &format!("stream {} slice {}", r.pos, slice.pos));
            }
            obs.count("oracle:fits");
        } else {
            // something does not fit: an error, never a clean end, never different tokens
            let ok = r.out.starts_with("err:") && is_prefix(&r.toks, &slice.toks);
            if !ok {
                obs.violation("overflow-not-error", case, &format!("need {} stream {} {} slice {} {}", reference.need, join(&r.toks), r.out, join(&slice.toks), slice.out));
            }
            obs.count(&format!("oracle:too-small:{}", r.out));
        }
        if r.out == "err:io" { obs.violation("io-error-without-fault", case, ""); }
        if r.out == "err:full" && fits { obs.violation("full-although-fits", case, &format!("need {}", reference.need)); }
    } else {
        // C20: the fault-free run with the same capacity is the reference
        let clean = run_lex(&Cap::fresh(cap.n), &strip_faults(steps), d, false, via_read);
        let got: Vec<String> = r.toks.iter().filter(|t| *t != "!io").cloned().collect();
        let nio = r.toks.len() - got.len();
        if r.faults == 0 {
            if got != clean.toks || r.out != clean.out { obs.violation("fault-unreached-differs", case, &format!("clean {} {}", join(&clean.toks), clean.out)); }
        } else if op == "tretry" {
            // every successful call must return what the fault-free run returns
            let fin_ok = if r.out == "err:io" { is_prefix(&got, &clean.toks) } else { got == clean.toks && r.out == clean.out };
            if !fin_ok {
                // known shape: the failing refill was in ParseState::Quote (the bytes delivered before the
                // failing read end inside an unterminated quoted scalar): the opening quote is lost
                let in_quoted = r.fault_pos.iter().any(|p| ref_lex(&d[..*p]).in_quote);
                let kind = if in_quoted { "fault-retry-in-quoted" } else { "fault-retry-differs" };
                obs.violation(kind, case, &format!("faulty {} {} clean {} {}", join(&r.toks), r.out, join(&clean.toks), clean.out));
            }
            if nio == 0 && r.out != "err:io" { obs.violation("fault-swallowed", case, &format!("{} faults, no I/O error reported", r.faults)); }
        } else {
            if r.out != "err:io" {
                obs.violation("fault-swallowed", case, &format!("{} faults but outcome {}", r.faults, r.out));
            }
            if !is_prefix(&got, &clean.toks) {
                obs.violation("fault-differs", case, &format!("faulty {} clean {}", join(&r.toks), join(&clean.toks)));
            }
        }
        if steps.iter().any(|s| matches!(s, Step::FailForever)) && r.faults > 0 && r.out != "err:io" {
            obs.violation("persistent-fault-no-error", case, &r.out);
        }
        obs.count(if r.faults == 0 { "oracle:fault-unreached" } else { "oracle:fault-hit" });
    }
}

fn skip_oracle(kind: SkipKind, cap: &Cap, steps: &[Step], d: &[u8], k: usize, res: &str, pos: usize, delivered: usize, faults: usize, case: &str, obs: &mut Obs) {
    if pos > delivered { obs.violation("position-beyond-delivered", case, &format!("pos {} delivered {}", pos, delivered)); }
    if res.starts_with("hang") { obs.violation("no-progress", case, ""); return; }
    let reference = ref_lex(d);
    let faulty = has_faults(steps);
    let words: Vec<&str> = res.split(' ').collect();
    // 1. token counting (only where the byte-level and token-level views must coincide)
    let res2 = format!("{} {}", words[0], words.get(1).copied().unwrap_or("-"));
    if !faulty && kind == SkipKind::Container && reference.out == "end" && (cap.n == 0 || cap.n >= reference.need.max(3)) {
        // the k-th Open
        let mut seen = 0; let mut open_idx = None;
        for (i, t) in reference.toks.iter().enumerate() { if t == "Open" { seen += 1; if seen == k { open_idx = Some(i); break; } } }
        match (open_idx, ref_skip_target(&reference, k)) {
            (Some(oi), Some(j)) => {
                let expect = if j < reference.toks.len() { reference.toks[j].clone() } else { reference.out.to_string() };
                if words[0] != "ok" || words[1] != expect {
                    obs.violation(skip_kind("skip-vs-counting", &reference, d, oi, Some(j), &res2), case, &format!("impl `{}` expected next token {}", res, expect));
                } else if skip_shape(&reference, oi + 1, j) != SkipShape::None { obs.count("oracle:skip-shape-benign"); }
                obs.count("oracle:skip-counted");
            }
            (Some(oi), None) => {
                // no matching close: must not report success
                if words[0] == "ok" { obs.violation(skip_kind("skip-unbalanced-ok", &reference, d, oi, None, &res2), case, res); }
            }
            (None, _) => { if words[0] == "ok" { obs.violation("skip-unbalanced-ok", case, res); } }
        }
    }
    if !faulty && kind == SkipKind::Unquoted && reference.out == "end" && (cap.n == 0 || cap.n >= reference.need.max(3)) {
        // after the k-th Unquoted: if the next token is Open, the whole container is skipped; else nothing is
        let mut seen = 0; let mut idx = None;
        for (i, t) in reference.toks.iter().enumerate() { if t.starts_with("U:") { seen += 1; if seen == k { idx = Some(i); break; } } }
        if let Some(i) = idx {
            let expect: Option<String> = if reference.toks.get(i + 1).map(|t| t == "Open").unwrap_or(false) {
                let mut depth = 0i64; let mut j = i + 1; let mut tgt = None;
                while j < reference.toks.len() {
                    if reference.toks[j] == "Open" { depth += 1; }
                    if reference.toks[j] == "Close" { depth -= 1; if depth == 0 { tgt = Some(j + 1); break; } }
                    j += 1;
                }
                tgt.map(|j| if j < reference.toks.len() { reference.toks[j].clone() } else { reference.out.to_string() })
            } else {
                Some(if i + 1 < reference.toks.len() { reference.toks[i + 1].clone() } else { reference.out.to_string() })
            };
            // `skip_unquoted_value` only looks through blanks: a comment between the scalar and `{` stops it
            let opens = reference.toks.get(i + 1).map(|t| t == "Open").unwrap_or(false);
            let comment_between = opens && d[reference.ends[i]..reference.ends[i + 1]].contains(&b'#');
            // the matching close of that Open, by token counting
            let close_after = if opens {
                let mut depth = 0i64; let mut j = i + 1; let mut tgt = None;
                while j < reference.toks.len() {
                    if reference.toks[j] == "Open" { depth += 1; }
                    if reference.toks[j] == "Close" { depth -= 1; if depth == 0 { tgt = Some(j + 1); break; } }
                    j += 1;
                }
                tgt
            } else { None };
            let kind_of = |generic: &'static str| -> &'static str {
                if comment_between { "skipu-comment-before-brace" }
                else if opens { skip_kind(generic, &reference, d, i + 1, close_after, &res2) }
                else { generic }
            };
            match expect {
                Some(e) => if words[0] != "ok" || words[1] != e { obs.violation(kind_of("skipu-vs-counting"), case, &format!("impl `{}` expected {}", res, e)); },
                None => if words[0] == "ok" { obs.violation(kind_of("skip-unbalanced-ok"), case, res); },
            }
            obs.count("oracle:skipu-counted");
        }
    }
    // 2. stream == slice for every input when things fit
    if cap.n != 0 {
        let (sres, spos, _, _) = run_skip(&Cap::fresh(0), &[], d, kind, k);
        if !faulty {
            // (after a byte-level skip over a text whose unquoted tokens contain braces/quotes/'#' the following
            //  token need not be one of the reference tokens, so `need` only bounds it when everything fits)
            if cap.n >= reference.need.max(3) && (cap.n > d.len() || skip_comparable(d)) {
                if sres != res { obs.violation("skip-stream-vs-slice", case, &format!("stream `{}` slice `{}`", res, sres)); }
                else if words[0] == "ok" && words[1] == "end" && pos != spos { obs.violation("skip-final-position", case, &format!("stream {} slice {}", pos, spos)); }
            } else if res != sres && !res.contains("err:") {
                obs.violation("skip-overflow-not-error", case, &format!("stream `{}` slice `{}`", res, sres));
            }
        } else {
            let (cres, _, _, _) = run_skip(&Cap::fresh(cap.n), &strip_faults(steps), d, kind, k);
            if faults == 0 { if cres != res { obs.violation("fault-unreached-differs", case, &format!("clean `{}`", cres)); } }
            else if !res.contains("err:io") { obs.violation("fault-swallowed", case, &format!("faulty `{}` clean `{}`", res, cres)); }
            else {
                // what completed before the error must agree with the clean run
                let cw: Vec<&str> = cres.split(' ').collect();
                if words[0] == "ok" && cw[0] != "ok" { obs.violation("fault-differs", case, &format!("faulty `{}` clean `{}`", res, cres)); }
            }
        }
    }
}

fn bytes_oracle(cap: &Cap, steps: &[Step], d: &[u8], k: usize, n: usize, res: &str, pos: usize, delivered: usize, faults: usize, case: &str, obs: &mut Obs) {
    if pos > delivered { obs.violation("position-beyond-delivered", case, &format!("pos {} delivered {}", pos, delivered)); }
    let reference = ref_lex(d);
    let faulty = has_faults(steps);
    let fits = cap.n == 0 || cap.n >= reference.need.max(n);
    // offsets read_bytes may start from: just after token k (or the stream start), or one further when the fast
    // path swallowed the single space that followed an unquoted scalar (position quirk of `next_opt`, not a token change)
    let mut offsets: Vec<usize> = vec![];
    if k == 0 { offsets.push(0); }
    else if k <= reference.toks.len() {
        let o = reference.ends[k - 1];
        offsets.push(o);
        if o < d.len() && d[o] == b' ' && reference.toks[k - 1].starts_with("U:") { offsets.push(o + 1); }
    }
    let first = res.split(' ').next().unwrap_or("");
    if !faulty && (fits || first.starts_with("b:")) {
        if let Some(h) = first.strip_prefix("b:") {
            let got = unhex(h).unwrap_or_default();
            if !offsets.iter().any(|a| a + n <= d.len() && d[*a..a + n] == got[..]) {
                obs.violation("bytes-not-from-position", case, res);
            }
            obs.count("oracle:bytes-checked");
        } else if first == "err:eof" {
            if !offsets.iter().any(|a| a + n > d.len()) { obs.violation("bytes-spurious-eof", case, res); }
        } else if first == "nok" {
            if k <= reference.toks.len() { obs.violation("bytes-lost-tokens", case, res); }
        } else {
            obs.violation("bytes-unexpected", case, res);
        }
    }
    if cap.n == 0 { return; }
    let (sres, _, _, _) = run_bytes(&Cap::fresh(0), &[], d, k, n);
    if !faulty {
        // too small a buffer: an error, or the same bytes as the slice reader (modulo the one-space offset checked above)
        if !fits && !res.contains("err:") && !(first.starts_with("b:") && sres.starts_with("b:")) && res != sres {
            obs.violation("bytes-overflow-not-error", case, &format!("stream `{}` slice `{}`", res, sres));
        }
    } else {
        let (cres, _, _, _) = run_bytes(&Cap::fresh(cap.n), &strip_faults(steps), d, k, n);
        if faults == 0 { if cres != res { obs.violation("fault-unreached-differs", case, &format!("clean `{}`", cres)); } }
        else if !res.contains("err:io") { obs.violation("fault-swallowed", case, &format!("faulty `{}` clean `{}`", res, cres)); }
        else if res.starts_with("b:") && res.split(' ').next() != cres.split(' ').next() { obs.violation("fault-differs", case, &format!("faulty `{}` clean `{}`", res, cres)); }
    }
}

// ------------------------------------------------------------------------------------------
// generators

const DENSE: &[u8] = b"{}\"\\#=<>!?@[]\xef\xbb\xbf\x08\x0b a1\n\t";

fn dense_text(rng: &mut Rng, maxlen: usize) -> Vec<u8> {
    let n = rng.below(maxlen + 1);
    (0..n).map(|_| *rng.pick(DENSE)).collect()
}

/// strings built from lexically meaningful fragments (much denser in complete tokens than bytes)
fn fragment_text(rng: &mut Rng, maxlen: usize) -> Vec<u8> {
    const FRAGS: &[&[u8]] = &[
        b"a", b"ab", b"abc=", b"=", b"==", b"<", b"<=", b">", b">=", b"!=", b"!", b"?=", b"?", b"{", b"}", b" ", b"  ", b"\n", b"\t", b"\r\n", b";",
        b"\"", b"\"\"", b"\"a\"", b"\"a b\"", b"\\\"", b"\\\\", b"\\", b"\"a\\\"b\"", b"\"\\\\\"", b"#", b"#c\n", b"# {\"}\n", b"@", b"@a", b"@[", b"@[x]", b"]", b"[",
        b"\xef\xbb\xbf", b"\xef", b"\xefb", b"\x08", b"\x0b", b"\x0c", b"1", b"-1", b"yes", b"rgb", b"abcdefgh", b"abcdefghi", b"\n\t\t\t", b"\n\t\t",
    ];
    let mut v = vec![];
    let target = rng.below(maxlen + 1);
    while v.len() < target {
        v.extend_from_slice(*rng.pick(FRAGS));
    }
    v.truncate(maxlen);
    v
}

fn doc_text(rng: &mut Rng, semis: bool) -> Vec<u8> {
    let mut cfg = DocCfg::text_full();
    match rng.below(4) { 0 => { cfg.max_fields = 2; cfg.max_depth = 2; } 1 => { cfg.max_fields = 3; cfg.max_depth = 3; } _ => {} }
    let doc = docgen::gen_doc(rng, &cfg);
    let lex = docgen::lexemes(&doc);
    let lay = if semis { LayoutCfg::full() } else { LayoutCfg::reader_safe() };
    if rng.chance(1, 10) { docgen::render_canonical(&lex) } else { docgen::render_layout(rng, &lay, &lex) }
}

fn one_input(rng: &mut Rng, maxlen: usize) -> Vec<u8> {
    match rng.below(10) {
        0 | 1 => dense_text(rng, maxlen),
        2 => docgen::random_text(rng, maxlen),
        3 | 4 | 5 => fragment_text(rng, maxlen),
        6 => { let d = doc_text(rng, false); let m = docgen::mutate(rng, &d, DENSE); m.into_iter().take(maxlen).collect() }
        7 => { let d = doc_text(rng, true); d.into_iter().take(maxlen).collect() }
        _ => { let d = doc_text(rng, false); d.into_iter().take(maxlen).collect() }
    }
}

fn cap_choices(rng: &mut Rng, need: usize, len: usize) -> Vec<usize> {
    let mut v = vec![need, need + 1, need + rng.range(2, 9), len + 1 + rng.below(8), len.max(1) * 2 + 3];
    if rng.chance(1, 2) { v.push(rng.range(need, need.max(len) + 4)); }
    if rng.chance(1, 3) { v.push(*rng.pick(&[8usize, 9, 10, 16, 17, 24, 32])); }
    v.retain(|c| *c >= 1);
    v.sort(); v.dedup();
    v
}
fn small_caps(rng: &mut Rng, need: usize) -> Vec<usize> {
    let mut v = vec![];
    if need >= 2 { v.push(need - 1); v.push(rng.range(1, need - 1)); }
    if need >= 4 { v.push(need / 2); v.push(1); v.push(2); }
    v.retain(|c| *c >= 1 && *c < need);
    v.sort(); v.dedup();
    v
}

fn show_cap(rng: &mut Rng, c: usize) -> String {
    match rng.below(12) { 0 => format!("{}r", c), 1 => format!("{}r{:02x}", c, *rng.pick(&[b'{', b'}', b'"', b'\\', b'#'])), _ => c.to_string() }
}

fn long_schedules(rng: &mut Rng, len: usize, all_one_cuts: bool) -> Vec<Vec<Step>> {
    let mut v: Vec<Vec<Step>> = vec![vec![], vec![Step::Repeat(1)]];
    v.push(vec![Step::Repeat(rng.range(2, 9))]);
    v.push(vec![Step::Repeat(rng.range(2, 17))]);
    if len >= 2 {
        if all_one_cuts {
            for c in 1..len { v.push(vec![Step::Give(c)]); }
        } else {
            for _ in 0..3 { v.push(vec![Step::Give(rng.range(1, len - 1))]); }
        }
        for _ in 0..4 {
            let a = rng.range(1, len - 1);
            let b = rng.range(1, len - a.min(len - 1)).max(1);
            v.push(vec![Step::Give(a), Step::Give(b)]);
        }
    }
    for _ in 0..3 { v.push(sched::random(rng, len)); }
    v
}

/// C07: (input, schedule, capacity) triples.
pub fn gen_c07(g: &mut Gen) {
    let mut rng = g.rng.clone();
    // fixed witnesses of past defects and hand-picked corner cases
    for (cap, s, text) in [
        ("16", "-", &b"\x08abc=1234567890 "[..]),
        ("16", "R1", b"a=b \xef\xbb\xbfc=1"),
        ("16", "R7", b"a=b \xef\xbb\xbfc=1"),
        ("16", "-", b"name=\xefb"),
        ("8", "-", b"abcdefghijklmnopqrst=1"),
        ("8", "-", b"#comment longer than buffer\na=b"),
        ("16", "R1", b"\"a\\\"b\""),
        ("16", "R1", b"\"\\\\\" x"),
        ("16", "5", b"\"a\\\"\\\"b\""),
        ("16", "R1", b"\xef\xbb\xbf#hello"),
        ("16", "R1", b"\xef\xbb"),
        ("2", "R1", b"\xef "),
        ("16", "3", b"a ?= b != c"),
        ("16", "-", b"=")
    ] {
        g.emit(format!("tstream {} {} {}", cap, s, hex(text)));
        g.emit(format!("tlex {}", hex(text)));
    }
    // 0. bytes behind the window: guard bytes after a sub-slice, stale fill bytes in a recycled buffer, blank runs of
    //    every length 0..24 followed by nothing or one token, windows ending exactly 8 / 9 / 16 / 17 bytes after a
    //    token start (cap == 8, 9, 16, 17; read sizes 1, 7, 8, 9)
    const GUARDS: [&[u8]; 6] = [b"{{{{{{{{{{{{{{{{", b"}}}}}}}}}}}}}}}}", b"\"\"\"\"\"\"\"\"\"\"\"\"\"\"\"\"", b"\\\\\\\\\\\\\\\\\\\\\\\\\\\\\\\\", b"================", b"aaaaaaaaaaaaaaaa"];
    const FILLS: [u8; 5] = [b'{', b'}', b'"', b'\\', b'='];
    let blank_kinds: [&[u8]; 5] = [b"\t", b"\n", b" ", b"\t\n", b"\t\n \r;"];
    let followers: [&[u8]; 9] = [b"", b"a", b"{", b"}", b"\"q\"", b"=", b"abc=1", b"#c", b"\xef\xbb\xbf"];
    for len in 0..=24usize {
        for kind in blank_kinds.iter() {
            for fol in followers.iter() {
                let mut d: Vec<u8> = (0..len).map(|i| if kind.len() <= 2 { kind[i % kind.len()] } else { *rng.pick(kind) }).collect();
                d.extend_from_slice(fol);
                g.emit(format!("tlex {}", hex(&d)));
                for gd in GUARDS.iter() { g.emit(format!("tlexg {} {}", hex(gd), hex(&d))); }
                let need = ref_lex(&d).need;
                for cap in [8usize, 9, 16, 17, 24] {
                    if cap < need { continue; }
                    let step = *rng.pick(&[1usize, 7, 8, 9]);
                    let fill = *rng.pick(&FILLS);
                    g.emit(format!("tstream {}r{:02x} R{} {}", cap, fill, step, hex(&d)));
                }
            }
        }
        g.count("behind-window:blank-runs");
    }
    // a token, then a blank run of every length 0..24, and the window (the slice / the first read) ends exactly there:
    // the NEXT call starts with exactly that run in the window (the fast-path gate is only consulted at the start of a
    // call; after a refill the reader goes to the fallback scan), with guard / stale bytes right behind it
    let prefixes: [&[u8]; 5] = [b"{", b"}", b"a=", b"\"q\"", b"abc "];
    for len in 0..=24usize {
        for kind in blank_kinds.iter().take(4) {
            for pre in prefixes.iter() {
                let mut d: Vec<u8> = pre.to_vec();
                d.extend((0..len).map(|i| kind[i % kind.len()]));
                let cut = d.len();
                for gd in GUARDS.iter().take(4) { g.emit(format!("tlexg {} {}", hex(gd), hex(&d))); }
                let fol = *rng.pick(&followers);
                let mut full = d.clone(); full.extend_from_slice(fol);
                g.emit(format!("tlex {}", hex(&full)));
                let need = ref_lex(&full).need;
                for fill in [b'{', b'}', b'"', b'\\'] {
                    let cap = (cut + *rng.pick(&[1usize, 2, 8, 9])).max(need);
                    let step = *rng.pick(&[1usize, 7, 8, 9]);
                    g.emit(format!("tstream {}r{:02x} {},R{} {}", cap, fill, cut, step, hex(&full)));
                }
            }
        }
        g.count("behind-window:token-then-blank-run");
    }
    // a token start at offset `pad`, then the window ends exactly `k` bytes after it
    for pad in 0..=9usize {
        for k in [7usize, 8, 9, 15, 16, 17] {
            for body in 0..4 {
                let mut d: Vec<u8> = (0..pad).map(|_| *rng.pick(b"\t\n\t\n ")).collect();
                let start = d.len();
                match body {
                    0 => d.extend((0..k + 3).map(|_| *rng.pick(b"abz09-"))),
                    1 => { d.push(b'"'); d.extend((0..k + 2).map(|_| *rng.pick(b"ab {}#"))); d.push(b'"'); }
                    2 => { d.extend((0..k - 1).map(|_| *rng.pick(b"abz"))); d.extend_from_slice(b" {x}"); }
                    _ => { d.push(b'"'); d.extend((0..k - 2).map(|_| *rng.pick(b"ab"))); d.extend_from_slice(b"\\\"c\" }"); }
                }
                g.emit(format!("tlex {}", hex(&d)));
                let gd = *rng.pick(&GUARDS);
                g.emit(format!("tlexg {} {}", hex(gd), hex(&d[..(start + k).min(d.len())])));
                g.emit(format!("tlexg {} {}", hex(gd), hex(&d)));
                let need = ref_lex(&d).need;
                for cap in [8usize, 9, 16, 17, start + k, start + k + 1] {
                    for step in [1usize, 7, 8, 9] {
                        let fill = *rng.pick(&FILLS);
                        // first read delivers exactly up to `start + k`, then `step`-byte reads
                        if cap >= 1 { g.emit(format!("tstream {}r{:02x} {},R{} {}", cap.max(1), fill, (start + k).max(1), step, hex(&d))); }
                        let _ = need;
                    }
                }
            }
        }
        g.count("behind-window:exact-window-ends");
    }
    // 1. every composition schedule for short inputs
    let n_short = g.budget(120, 6000);
    for i in 0..n_short {
        let maxlen = match i % 8 { 0 => 12, 1 | 2 => 10, 3 | 4 => 8, _ => 7 };
        let d = one_input(&mut rng, maxlen);
        let r = ref_lex(&d);
        g.emit(format!("tlex {}", hex(&d)));
        let mut caps = vec![r.need, r.need + 1, d.len() + 2];
        if r.need > 1 { caps.push(r.need - 1); }
        if rng.chance(1, 3) { caps.push(rng.range(1, d.len() + 3)); }
        caps.sort(); caps.dedup();
        let comps = sched::compositions(d.len());
        for c in &caps {
            for s in &comps {
                let cs = show_cap(&mut rng, *c);
                g.emit(format!("tstream {} {} {}", cs, sched::show(s), hex(&d)));
            }
        }
        g.count("short:all-compositions");
    }
    // 2. longer inputs: 1-/2-cut, all-1-byte, periodic, random schedules; capacities from exact fit upward and too small
    let n_long = g.budget(500, 20000);
    for i in 0..n_long {
        let maxlen = match i % 6 { 0 => 24, 1 => 40, 2 => 64, 3 => 100, 4 => 200, _ => 48 };
        let d = one_input(&mut rng, maxlen);
        if d.is_empty() { continue; }
        let r = ref_lex(&d);
        g.emit(format!("tlex {}", hex(&d)));
        g.emit(format!("tlexg {} {}", hex(*rng.pick(&[&b"{{{{{{{{{"[..], b"}}}}}}}}}", b"\"\"\"\"\"\"\"\"\"", b"\\\\\\\\\\\\\\\\\\", b"a=b{}\"#\\ "])), hex(&d)));
        let scheds = long_schedules(&mut rng, d.len(), d.len() <= 40);
        let caps = cap_choices(&mut rng, r.need, d.len());
        for s in &scheds {
            let c = *rng.pick(&caps);
            let cs = show_cap(&mut rng, c);
            g.emit(format!("tstream {} {} {}", cs, sched::show(s), hex(&d)));
        }
        for c in &caps {
            let s = rng.pick(&scheds).clone();
            g.emit(format!("tstream {} {} {}", c, sched::show(&s), hex(&d)));
        }
        for c in small_caps(&mut rng, r.need) {
            let s = rng.pick(&scheds).clone();
            g.emit(format!("tstream {} {} {}", c, sched::show(&s), hex(&d)));
        }
        if rng.chance(1, 6) {
            let s = rng.pick(&scheds).clone();
            g.emit(format!("tread {} {} {}", rng.pick(&caps), sched::show(&s), hex(&d)));
        }
        g.count("long:schedules-x-caps");
    }
    // 3. fast-path alignment sweep: a scalar / quoted string of every length 1..40 after 0..9 blanks with 0..10 trailing bytes
    let n_sweep = g.budget(1, 4);
    for _ in 0..n_sweep {
        for len in 1..=40usize {
            for pad in [0usize, 1, 3, 7, 8, 9] {
                let trail = rng.below(11);
                let quoted = rng.chance(1, 2);
                let mut d: Vec<u8> = (0..pad).map(|_| *rng.pick(b"\t\n \t\n\r")).collect();
                if quoted {
                    d.push(b'"');
                    let mut body: Vec<u8> = (0..len).map(|_| *rng.pick(b"abc {}#=")).collect();
                    if rng.chance(1, 2) && len >= 2 { let p = rng.below(len - 1); body[p] = b'\\'; body[p + 1] = *rng.pick(b"\"\\n"); }
                    d.extend(body);
                    d.push(b'"');
                } else {
                    d.extend((0..len).map(|_| *rng.pick(b"abz09-._")));
                }
                let t: Vec<u8> = (0..trail).map(|_| *rng.pick(b" \n=}{a\"")).collect();
                d.extend(t);
                let r = ref_lex(&d);
                g.emit(format!("tlex {}", hex(&d)));
                let s = sched::random(&mut rng, d.len());
                let c = r.need + rng.below(12);
                g.emit(format!("tstream {} {} {}", c, sched::show(&s), hex(&d)));
                g.emit(format!("tstream {} {} {}", d.len() + 9, "-", hex(&d)));
            }
        }
        g.count("sweep:alignment");
    }
    // 3b. escape alignment sweep: `\"` (and `\\`) at every offset 0..24 of a quoted body, so that the backslash is the last
    //     byte of an 8-byte chunk of the SWAR quote finder and the escaped quote the first byte of the next one
    for pad in [0usize, 1, 2, 5, 8] {
        for l in 0..=24usize {
            for esc in [&b"\\\""[..], b"\\\\", b"\\n"] {
                for m in [0usize, 1, 7, 8, 9] {
                    let mut d: Vec<u8> = (0..pad).map(|_| *rng.pick(b"\t\n ")).collect();
                    d.push(b'"');
                    d.extend((0..l).map(|_| *rng.pick(b"abc {}#=")));
                    d.extend_from_slice(esc);
                    d.extend((0..m).map(|_| *rng.pick(b"abc {}#=")));
                    d.push(b'"');
                    d.extend_from_slice(*rng.pick(&[&b" x=1 y=2 z=3"[..], b"\n\t\t\tfoo=bar baz", b"=\"next one\" 12"]));
                    g.emit(format!("tlex {}", hex(&d)));
                    g.emit(format!("tlexg {} {}", hex(b"\"\"\"\"\"\"\"\"\""), hex(&d)));
                    g.emit(format!("tstream {} - {}", d.len() + 9, hex(&d)));
                    let s = sched::random(&mut rng, d.len());
                    g.emit(format!("tstream {} {} {}", ref_lex(&d).need + rng.below(12), sched::show(&s), hex(&d)));
                }
            }
        }
    }
    g.count("sweep:escape-alignment");
    // 3c. the fit predicate: `need` of short inputs (the model computes it by scanning every prefix of every remaining input)
    let n_need = g.budget(1500, 20000);
    for i in 0..n_need {
        let d = one_input(&mut rng, if i % 4 == 0 { 40 } else { 16 });
        g.emit(format!("tneed {}", hex(&d)));
    }
    for text in [&b""[..], b"\xef", b"\xef\xbb", b"\xef\xbb\xbf", b"\xef\xbb\xbfa", b" \xef\xbb", b"a", b"=", b"==", b"@", b"@[", b"@[x]", b"\"", b"\"\\", b"\"ab\"", b"#", b"#a\n", b"{}", b"a=\"b c\" #d\n@[e]"] {
        g.emit(format!("tneed {}", hex(text)));
    }
    g.count("need:short-inputs");
    // 4. the SWAR hooks
    let n_hook = g.budget(2000, 60000);
    for _ in 0..n_hook {
        let bytes: Vec<u8> = (0..8).map(|_| match rng.below(10) { 0..=3 => b'\t', 4 | 5 => b'\n', 6 => *rng.pick(&[8u8, 0x0b, 0x0c, 0x0d, b' ', 0x89, 0x8a, 0]), 7 => *rng.pick(b"{}\"#\\"), _ => rng.below(256) as u8 }).collect();
        let x = u64::from_le_bytes([bytes[0], bytes[1], bytes[2], bytes[3], bytes[4], bytes[5], bytes[6], bytes[7]]);
        match rng.below(3) {
            0 => g.emit(format!("lws {}", x)),
            1 => { let b = if rng.chance(3, 4) { *rng.pick(&bytes) } else { rng.below(256) as u8 }; g.emit(format!("cchunk {} {}", x, b)); }
            _ => { let m = if rng.chance(1, 2) { x } else { x ^ hooks::repeat_byte(*rng.pick(&bytes)) }; g.emit(format!("czb {}", m)); }
        }
    }
    for b in 0..=255u8 { g.emit(format!("lws {}", hooks::repeat_byte(b))); g.emit(format!("cchunk {} {}", hooks::repeat_byte(b), b)); g.emit(format!("lws {}", (b as u64) << 8 | 9)); }
    g.rng = rng;
}

/// C09 (text): skip_container / skip_unquoted_value under schedules and capacities.
pub fn gen_skip(g: &mut Gen) {
    let mut rng = g.rng.clone();
    for text in [&b"foo={{bar={}}} qux=1"[..], b"color = rgb { 1 2 3 }  foo=bar", b"a={ \"}\" #}\n b=\"\\\"}\" } c", b"a={\"x\\\\\"} b", b"x={ {} {{}} } y"] {
        for k in 1..=3 { g.emit(format!("tskip 0 - {} {}", hex(text), k)); g.emit(format!("tskip 16 R1 {} {}", hex(text), k)); g.emit(format!("tskipu 16 R3 {} {}", hex(text), k)); }
    }
    // the two recorded shapes: `"` inside an unquoted scalar, `{ } " #` inside an `@[…]` expression — as members, keys,
    // header values, nested, in front of and behind the container that is skipped
    const QUOTED_IN: &[&[u8]] = &[b"b\"c", b"b\"", b"bc\"d\"e", b"b\"\"", b"x\"y z\"", b"@a\"b", b"1\"", b"b\"}", b"b\\\"c"];
    const INTERP: &[&[u8]] = &[b"@[}]", b"@[{]", b"@[\"]", b"@[#]", b"@[ { } ]", b"@[a\"b]", b"@[}}]", b"@[ # x ]", b"@[{{]", b"@[\"x\"]", b"@[ 1 + 2 ]"];
    const FRAMES: &[(&[u8], &[u8])] = &[
        (b"a={ ", b" } d\n"), (b"a={ x ", b" y } d\n"), (b"a={ b={ ", b" } c } d\n"), (b"a={ ", b"=1 } d\n"), (b"a={ k=", b" } d\n"),
        (b"", b" a={ 1 } d\n"), (b"a={ 1 } ", b" d\n"), (b"a=rgb { ", b" } d\n"), (b"a = hsv\n\t\t\t{ 1 ", b" } d\n"), (b"a={ { ", b" } { 2 } } d\n"),
        (b"a={ \"q\" ", b" #c\n } d\n"), (b"{ ", b" }"),
    ];
    for (pre, post) in FRAMES {
        for sset in [QUOTED_IN, INTERP] {
            for sc in sset.iter() {
                let mut d = pre.to_vec(); d.extend_from_slice(sc); d.extend_from_slice(post);
                let r = ref_lex(&d);
                let opens = r.toks.iter().filter(|t| *t == "Open").count();
                let unq = r.toks.iter().filter(|t| t.starts_with("U:")).count();
                for k in 1..=opens {
                    g.emit(format!("tskip 0 - {} {}", hex(&d), k));
                    g.emit(format!("tskip {} R1 {} {}", r.need.max(3), hex(&d), k));
                    g.emit(format!("tskip {} R{} {} {}", d.len() + 2, rng.range(2, 6), hex(&d), k));
                }
                for k in 1..=unq.min(3) {
                    g.emit(format!("tskipu 0 - {} {}", hex(&d), k));
                    g.emit(format!("tskipu {} R{} {} {}", r.need.max(3) + rng.below(3), rng.range(1, 4), hex(&d), k));
                }
                g.count("skip:shape-frames");
            }
        }
    }
    // … and injected into generated documents: an unquoted scalar of the document replaced by one of the shapes
    let n_inj = g.budget(150, 2500);
    for _ in 0..n_inj {
        let d0 = doc_text(&mut rng, false);
        if d0.is_empty() || d0.len() > 300 { continue; }
        let r0 = ref_lex(&d0);
        let spans: Vec<(usize, usize)> = r0.toks.iter().enumerate().filter_map(|(i, t)| t.strip_prefix("U:").map(|h| (r0.ends[i] - h.len() / 2, r0.ends[i]))).collect();
        if spans.is_empty() { continue; }
        let (a, b) = *rng.pick(&spans);
        let sc: &[u8] = if rng.chance(1, 2) { *rng.pick(QUOTED_IN) } else { *rng.pick(INTERP) };
        let mut d = d0[..a].to_vec();
        if rng.chance(1, 2) { d.extend_from_slice(sc); } else { d.extend_from_slice(&d0[a..b]); d.extend_from_slice(&sc[1..]); }
        d.extend_from_slice(&d0[b..]);
        let r = ref_lex(&d);
        let opens = r.toks.iter().filter(|t| *t == "Open").count();
        for k in 1..=opens.min(5) {
            g.emit(format!("tskip 0 - {} {}", hex(&d), k));
            let s = sched::random(&mut rng, d.len());
            g.emit(format!("tskip {} {} {} {}", r.need.max(3) + rng.below(4), sched::show(&s), hex(&d), k));
        }
        let unq = r.toks.iter().filter(|t| t.starts_with("U:")).count();
        if unq > 0 { g.emit(format!("tskipu 0 - {} {}", hex(&d), rng.range(1, unq.min(5) + 1))); }
        g.count("skip:shape-injected");
    }
    let n = g.budget(700, 12000);
    for i in 0..n {
        let d = match i % 5 {
            0 => { let d = doc_text(&mut rng, true); d }
            1 => { let d = doc_text(&mut rng, false); docgen::mutate(&mut rng, &d, DENSE) }
            2 => fragment_text(&mut rng, 60),
            _ => doc_text(&mut rng, false),
        };
        if d.is_empty() || d.len() > 400 { continue; }
        let r = ref_lex(&d);
        let opens = r.toks.iter().filter(|t| *t == "Open").count();
        let unq = r.toks.iter().filter(|t| t.starts_with("U:")).count();
        let scheds = long_schedules(&mut rng, d.len(), false);
        let caps = cap_choices(&mut rng, r.need.max(3), d.len());
        for k in 1..=opens.min(6) + 1 {
            g.emit(format!("tskip 0 - {} {}", hex(&d), k));
            for _ in 0..3 {
                let s = rng.pick(&scheds).clone();
                let c = *rng.pick(&caps);
                g.emit(format!("tskip {} {} {} {}", show_cap(&mut rng, c), sched::show(&s), hex(&d), k));
            }
            if rng.chance(1, 4) {
                let s = rng.pick(&scheds).clone();
                g.emit(format!("tskip {} {} {} {}", rng.range(1, r.need.max(3)), sched::show(&s), hex(&d), k));
            }
        }
        for k in 1..=unq.min(5) {
            if rng.chance(1, 2) { continue; }
            g.emit(format!("tskipu 0 - {} {}", hex(&d), k));
            let s = rng.pick(&scheds).clone();
            let c = *rng.pick(&caps);
            g.emit(format!("tskipu {} {} {} {}", c, sched::show(&s), hex(&d), k));
        }
        g.count("skip:docs");
    }
    // every composition for short container texts
    let n_short = g.budget(60, 1200);
    for _ in 0..n_short {
        let mut d = b"{".to_vec();
        d.extend(fragment_text(&mut rng, 8));
        d.extend_from_slice(*rng.pick(&[&b"} a"[..], b"}a", b"}", b"\"}\"}x"]));
        d.truncate(11);
        let r = ref_lex(&d);
        for s in sched::compositions(d.len()) {
            g.emit(format!("tskip {} {} {} 1", r.need.max(3) + rng.below(3), sched::show(&s), hex(&d)));
        }
        g.count("skip:all-compositions");
    }
    // the \n\t\t\t word test of skip_unquoted_value
    for pre in [&b"a"[..], b"rgb", b"a=b"] {
        for ws in [&b"\n\t\t\t"[..], b"\n\t\t", b"\n\t\t\t\t", b"\t\t\t\n", b" \n\t\t\t", b"\n\t\t\t{", b""] {
            for post in [&b"{ 1 2 } c"[..], b"c", b"", b"{", b"{}"] {
                let mut d = pre.to_vec(); d.extend_from_slice(ws); d.extend_from_slice(post);
                for k in 1..=2 {
                    g.emit(format!("tskipu 0 - {} {}", hex(&d), k));
                    g.emit(format!("tskipu 12 R1 {} {}", hex(&d), k));
                    g.emit(format!("tskipu 12 R5 {} {}", hex(&d), k));
                }
            }
        }
    }
    // read_bytes
    let n_b = g.budget(300, 5000);
    for _ in 0..n_b {
        let d = one_input(&mut rng, 40);
        let r = ref_lex(&d);
        let k = rng.below(r.toks.len() + 1).min(6);
        let nb = rng.below(d.len() + 3);
        g.emit(format!("tbytes 0 - {} {} {}", hex(&d), k, nb));
        let s = sched::random(&mut rng, d.len());
        let c = r.need.max(nb) + rng.below(4);
        g.emit(format!("tbytes {} {} {} {} {}", c.max(1), sched::show(&s), hex(&d), k, nb));
        if nb > 1 { g.emit(format!("tbytes {} {} {} {} {}", rng.range(1, nb), sched::show(&s), hex(&d), k, nb)); }
    }
    g.rng = rng;
}

/// C20 (text reader): a fault at every read-call index.
pub fn gen_fault(g: &mut Gen) {
    let mut rng = g.rng.clone();
    let n = g.budget(250, 5000);
    for i in 0..n {
        let d = match i % 4 { 0 => fragment_text(&mut rng, 30), 1 => dense_text(&mut rng, 24), _ => { let d = doc_text(&mut rng, false); d.into_iter().take(120).collect() } };
        if d.is_empty() { continue; }
        let r = ref_lex(&d);
        let base = match rng.below(4) { 0 => vec![Step::Repeat(1)], 1 => vec![], _ => sched::random(&mut rng, d.len()) };
        let cap = r.need + rng.below(6);
        // number of read calls of the fault-free run
        let clean = run_lex(&Cap::fresh(cap), &base, &d, false, false);
        let calls = clean.calls.min(40);
        // expand the schedule to explicit steps so that a fault can be put at call index j
        let explicit = explicit_steps(&base, &d, cap);
        for j in 0..=calls.min(explicit.len()) {
            for fault in [Step::Fail, Step::FailForever] {
                let mut s: Vec<Step> = explicit[..j].to_vec();
                s.push(fault.clone());
                s.extend_from_slice(&explicit[j..]);
                if let Some(Step::Repeat(_)) = base.last() { s.push(base.last().unwrap().clone()); }
                let op = if fault == Step::Fail && rng.chance(1, 2) { "tretry" } else { "tstream" };
                g.emit(format!("{} {} {} {}", op, cap, sched::show(&s), hex(&d)));
                if rng.chance(1, 6) {
                    let opens = r.toks.iter().filter(|t| *t == "Open").count();
                    if opens > 0 { g.emit(format!("tskip {} {} {} {}", cap.max(3), sched::show(&s), hex(&d), rng.range(1, opens))); }
                    g.emit(format!("tbytes {} {} {} {} {}", cap, sched::show(&s), hex(&d), rng.below(3), rng.range(1, cap)));
                }
            }
        }
        g.count("fault:every-call-index");
    }
    g.rng = rng;
}

/// the sizes actually delivered by the fault-free run under `base`
fn explicit_steps(base: &[Step], d: &[u8], cap: usize) -> Vec<Step> {
    // replay the Read calls by running the reader with a recording source
    struct Rec<'a> { inner: SchedReader<'a>, sizes: Vec<usize> }
    impl<'a> Read for Rec<'a> {
        fn read(&mut self, buf: &mut [u8]) -> std::io::Result<usize> { let n = self.inner.read(buf)?; self.sizes.push(n); Ok(n) }
    }
    let src = Rec { inner: SchedReader::new(d, base.to_vec()), sizes: vec![] };
    let mut rd = TokenReader::builder().buffer_len(cap).build(src);
    let mut n = 0;
    loop { n += 1; if n > d.len() * 2 + 32 { break; } match rd.next() { Ok(Some(_)) => {}, _ => break } }
    let (_, src) = rd.into_parts();
    src.sizes.into_iter().filter(|n| *n >= 1).map(Step::Give).collect()
}

/// C07's own cases.  `gen_skip` (C09) and `gen_fault` (C20) are assembled into those checks by
/// c09.rs / c20.rs; set VERIF_C07_ALL=1 to run all three through `./check C07` while developing.
/// Every byte value through every word-at-a-time scanner: SWAR tricks have per-byte-VALUE blind spots
/// (e.g. a mask that takes 0xA2 for 0x22), which random documents reach only by luck.  For each of the 256
/// values: inside a quoted scalar, inside an unquoted scalar, in a blank run, inside a comment and inside a
/// skipped container, each at two offsets of the 8-byte word, read from a slice (fast paths in play) and
/// streamed with one-byte reads (byte-wise paths) -- the L3 oracle requires the two to agree.
pub fn gen_byte_sweep(g: &mut Gen) {
    for b in 0..=255u8 {
        for pad in [1usize, 6] {
            let filler = |n: usize| std::iter::repeat(b'a').take(n).collect::<Vec<u8>>();
            let mut shapes: Vec<Vec<u8>> = vec![];
            // quoted: "aaa<b>aaaaaaaaaaaaaaaa" = x
            if b != b'"' && b != b'\\' { let mut v = vec![b'"']; v.extend(filler(pad)); v.push(b); v.extend(filler(18)); v.extend_from_slice(b"\" = xyz 12345678 "); shapes.push(v); }
            // escaped occurrence: "aaa\<b>aaaaaaaa"
            { let mut v = vec![b'"']; v.extend(filler(pad)); v.push(b'\\'); v.push(b); v.extend(filler(18)); v.extend_from_slice(b"\" = xyz 12345678 "); shapes.push(v); }
            // unquoted scalar containing b (boundary bytes simply end it -- still a valid comparison)
            { let mut v = filler(pad + 2); v.push(b); v.extend(filler(14)); v.extend_from_slice(b" = value1234567 tail "); shapes.push(v); }
            // blank run with b in it, then a token
            { let mut v = vec![b'\t'; pad]; v.push(b); v.extend(std::iter::repeat(b'\n').take(10)); v.extend_from_slice(b"key=value1234567 "); shapes.push(v); }
            // comment containing b
            { let mut v = b"a=b #".to_vec(); v.extend(filler(pad)); v.push(b); v.extend(filler(12)); v.extend_from_slice(b"\nc=d1234567890 "); shapes.push(v); }
            for d in shapes {
                g.emit(format!("tlex {}", hex(&d)));
                g.emit(format!("tstream {} R1 {}", d.len() + 9, hex(&d)));
                g.emit(format!("tstream 64 R7 {}", hex(&d)));
            }
        }
    }
    g.count("byte-value-sweep");
}

pub fn gen(g: &mut Gen) {
    gen_c07(g);
    gen_byte_sweep(g);
    if std::env::var("VERIF_C07_ALL").map(|v| v == "1").unwrap_or(false) {
        gen_skip(g);
        gen_fault(g);
    }
}

pub fn tables() -> String {
    let mut s = String::new();
    s.push_str(&crate::tables::emit_bool_table("textBoundary", "`data::is_boundary` (measured through the verif hook)", |b| hooks::is_boundary(b)));
    s.push('\n');
    // a byte is blank for the streaming reader iff `[b, 'a']` lexes to exactly the scalar `a`
    s.push_str(&crate::tables::emit_bool_table("textReaderBlank", "bytes the text TokenReader skips between tokens (measured: `[b] ++ \"a\"` lexes to exactly `a`)", |b| {
        let d = [b, b'a'];
        let r = run_lex(&Cap::fresh(0), &[], &d, false, false);
        r.toks == vec!["U:61".to_string()] && r.out == "end"
    }));
    s.push('\n');
    s
}
