//! x-scale — SIZE / SCALE family (implementation-only ops, the Lean driver answers `skip`).
//!
//! Every other generator of the harness builds small inputs (documents under ~200 bytes, depth <= 4).  The ops
//! of this module build LARGE inputs inside the harness from a few parameters on the case line and check, with
//! expectations computed from the parameters alone (the harness knows exactly what it built), what the
//! properties say.  Thresholds crossed by the grids: 255/256, 65535/65536, 32767/32768/32769 (bytes and
//! counts), depth 16/17, 255/256, 1024.
//!
//!   x-scale <check> <shape|target> <n> [<m>|<extra>]
//!
//! checks (property):  ttape (C01,C06)  btape (C03,C06)  tread (C07)  bread (C08)  tskip tskipu bskip (C09)
//!   tde (C02)  bde (C04)  x10 (C10)  dom (C17)  derive (C18)  wtape (C14)  wcalls (C15)  json jsonnum (C16)
//!   num (C11)  decode (C12)  date (C13)  trunc (C19)  fault (C20); C05 runs a sample of all of them.
//! shapes: see `build`; targets of the deserializer checks: see `op_de`; grids per property: `gen_for`.
//! violation kinds: scale-tape-mismatch, scale-tape-structure, scale-stream-mismatch, scale-bufferfull-missing,
//!   scale-bufferfull-spurious, scale-position, scale-token-write, scale-skip-lands-wrong, scale-paths-disagree, scale-dom,
//!   scale-json, scale-writer, scale-writer-roundtrip, scale-writer-indent, scale-writer-depth, scale-number, scale-decode,
//!   scale-date, scale-truncated-ok, scale-fault-not-io, scale-fault-wrong-tokens (first difference only in the detail).
//! Every op runs in a thread with a 256 MiB stack (deep shapes) and under the harness's catch_unwind.
#![allow(dead_code)]
use crate::common::*;
use crate::docgen::{L_BOOL, L_CLOSE, L_EQUAL, L_F32, L_I32, L_OPEN, L_QUOTED, L_U32, L_UNQUOTED};
use crate::sched::{SchedReader, Step};
use jomini::binary::{BinaryTapeParser, FailedResolveStrategy, LexemeId, Lexer, Token as BTok, TokenReader as BinReader, TokenResolver};
use jomini::text::{Operator, Token as TTok, TokenReader as TextReader};
use jomini::{BinaryDeserializer, BinaryTape, BinaryToken, TextDeserializer, TextTape, TextToken, TextWriterBuilder};
use std::io::Read;

// ------------------------------------------------------------------------------------------
// abstract documents

#[derive(Clone, Debug, PartialEq)]
pub enum K { U(Vec<u8>), Q(Vec<u8>), Tok(u16), I(i32) }
#[derive(Clone, Debug, PartialEq)]
pub enum V { U(Vec<u8>), Q(Vec<u8>), I(i32), F(i32), U32(u32), B(bool), Obj(Vec<(K, V)>), Arr(Vec<V>) }
pub struct Doc {
    pub fields: Vec<(K, V)>,
    /// text only: bytes inserted after the first top-level field (a comment or a run of blanks)
    pub gap: Vec<u8>,
    /// the gap goes right behind the opening brace of the first field's value instead
    pub inner: bool,
}

pub const T_A: u16 = 0x0800;
pub const T_Z: u16 = 0x0801;
pub const T_X: u16 = 0x0802;
pub const T_Y: u16 = 0x0803;
/// token ids of bulk keys: 0x1000.. (no lexeme id lives there)
pub fn tokid(i: usize) -> u16 { 0x1000 + (i % 0xE000) as u16 }
pub fn tok_name(id: u16) -> String {
    match id { T_A => "a".into(), T_Z => "z".into(), T_X => "x".into(), T_Y => "y".into(), _ => format!("t{}", id) }
}

pub struct Res(Vec<String>);
impl TokenResolver for Res {
    fn resolve(&self, t: u16) -> Option<&str> { Some(self.0[t as usize].as_str()) }
}
pub fn resolver() -> &'static Res {
    static R: std::sync::OnceLock<Res> = std::sync::OnceLock::new();
    R.get_or_init(|| Res((0..=u16::MAX).map(tok_name).collect()))
}

fn dec(i: i64) -> Vec<u8> { i.to_string().into_bytes() }
fn named(p: &str, i: usize) -> Vec<u8> { format!("{}{}", p, i).into_bytes() }
/// deterministic payload of `len` bytes over [a-z0-9] (no boundary bytes)
fn payload(len: usize, salt: usize) -> Vec<u8> {
    const A: &[u8] = b"abcdefghijklmnopqrstuvwxyz0123456789";
    (0..len).map(|i| A[(i * 7 + i / 36 + salt) % 36]).collect()
}
/// quoted payload with an escaped quote every 61 bytes and bytes that would be structure outside quotes
fn payload_esc(len: usize) -> Vec<u8> {
    let mut v = payload(len, 3);
    let mut i = 5;
    while i + 1 < len {
        v[i] = b'\\';
        v[i + 1] = b'"';
        if i + 6 < len { v[i + 3] = b'{'; v[i + 4] = b'}'; v[i + 5] = b'#'; v[i + 6] = b'='; }
        i += 61;
    }
    if len > 0 && v[len - 1] == b'\\' { v[len - 1] = b'x'; }
    v
}
fn fval(i: usize) -> V {
    match i % 3 { 0 => V::I(i as i32), 1 => V::Q(named("s", i)), _ => V::U(named("w", i)) }
}
fn with_sibling(k: K, v: V) -> Doc { Doc { fields: vec![(k, v), (K::Tok(T_Z), V::I(1))], gap: vec![], inner: false } }

/// shapes: see the match arms; `n` is the primary size, `m` a secondary one
pub fn build(shape: &str, n: usize, m: usize) -> Option<Doc> {
    let a = || K::Tok(T_A);
    Some(match shape {
        "fields" => Doc { fields: (0..n).map(|i| (K::U(named("k", i)), fval(i))).collect(), gap: vec![], inner: false },
        "fields-v" => Doc { fields: (0..n).map(|i| (K::U(named("k", i)), V::Q(payload(m, i)))).collect(), gap: vec![], inner: false },
        "intfields" => Doc { fields: (0..n).map(|i| (K::U(named("k", i)), V::I(i as i32))).collect(), gap: vec![], inner: false },
        "tokfields" => Doc { fields: (0..n).map(|i| (K::Tok(tokid(i)), V::I(i as i32))).collect(), gap: vec![], inner: false },
        "qfields" => Doc { fields: (0..n).map(|i| (K::Q(named("k", i)), V::Q(named("s", i)))).collect(), gap: vec![], inner: false },
        "ifields" => Doc { fields: (0..n).map(|i| (K::I(i as i32), V::I(-(i as i32)))).collect(), gap: vec![], inner: false },
        "mixfields" => Doc { fields: (0..n).map(|i| {
            let k = match i % 4 { 0 => K::Tok(tokid(i)), 1 => K::Q(named("k", i)), 2 => K::I(i as i32), _ => K::U(named("u", i)) };
            let v = match (i / 4) % 7 { 0 => V::I(i as i32), 1 => V::Q(named("s", i)), 2 => V::F(i as i32), 3 => V::U32(i as u32), 4 => V::B(i % 8 < 4), 5 => V::U(named("w", i)),
                _ => V::Arr(vec![V::I(i as i32), V::I(1)]) };
            (k, v) }).collect(), gap: vec![], inner: false },
        "arr-i32" => with_sibling(a(), V::Arr((0..n).map(|i| V::I(i as i32)).collect())),
        "arr-q" => with_sibling(a(), V::Arr((0..n).map(|i| V::Q(named("s", i))).collect())),
        "arr-f32" => with_sibling(a(), V::Arr((0..n).map(|i| V::F(i as i32)).collect())),
        "arr-u32" => with_sibling(a(), V::Arr((0..n).map(|i| V::U32(i as u32)).collect())),
        "arr-obj" => with_sibling(a(), V::Arr((0..n).map(|i| V::Obj(vec![(K::Tok(T_X), V::I(i as i32)), (K::Tok(T_Y), V::Q(named("s", i)))])).collect())),
        "arr-long" => with_sibling(a(), V::Arr((0..n).map(|i| V::Q(payload_esc_free(m, i))).collect())),
        "wide" => with_sibling(a(), V::Obj((0..n).map(|i| (K::Tok(tokid(i)), V::I(i as i32))).collect())),
        "wide-u" => with_sibling(a(), V::Obj((0..n).map(|i| (K::U(named("k", i)), fval(i))).collect())),
        "qkey-objs" => Doc { fields: (0..n).map(|i| (K::Q(named("k", i)), V::Obj(vec![(K::Tok(tokid(i)), if i % 2 == 0 { V::B(true) } else { V::Q(named("s", i)) }), (K::Tok(T_X), V::I(i as i32))]))).collect(), gap: vec![], inner: false },
        "depth-obj" => { let mut v = V::I(1); for _ in 0..n { v = V::Obj(vec![(a(), v)]); } with_sibling(a(), v) }
        "depth-arr" => { let mut v = V::I(1); for _ in 0..n { v = V::Arr(vec![v]); } with_sibling(a(), v) }
        "depth-mix" => {
            let mut v = V::I(1);
            for l in 0..n {
                v = if l % 2 == 0 { V::Obj(vec![(K::Tok(T_X), V::I(l as i32)), (a(), v), (K::Tok(T_Y), V::Q(named("s", l)))]) }
                    else { V::Arr(vec![V::I(l as i32), v, V::I(-(l as i32))]) };
            }
            with_sibling(a(), v)
        }
        "long-u" => with_sibling(a(), V::U(payload(n, 0))),
        "long-q" => with_sibling(a(), V::Q(payload(n, 1))),
        "long-qe" => with_sibling(a(), V::Q(payload_esc(n))),
        "long-key" => with_sibling(K::U(payload(n, 2)), V::I(1)),
        "long-qkey" => with_sibling(K::Q(payload(n, 2)), V::I(1)),
        "long-in" => with_sibling(a(), V::Obj(vec![(K::Tok(T_X), V::Q(payload_esc(n))), (K::Tok(T_Y), V::I(2))])),
        "dups" => {
            let mut f = vec![];
            for i in 0..n {
                f.push((K::Tok(T_X), V::I(i as i32)));
                f.push((K::U(named("o", i)), V::I(i as i32)));
                if i % 3 == 0 { f.push((K::Tok(T_Y), V::Q(named("s", i)))); }
            }
            f.push((K::Tok(T_Z), V::I(1)));
            Doc { fields: f, gap: vec![], inner: false }
        }
        "comment" => { let mut g = vec![b' ', b'#']; g.extend(std::iter::repeat(b'c').take(n.saturating_sub(1))); g.push(b'\n');
            Doc { fields: vec![(a(), V::I(1)), (K::Tok(T_Z), V::I(1))], gap: g, inner: false } }
        "blank" => { let g: Vec<u8> = (0..n).map(|i| b" \t\n\r"[i % 4]).collect();
            Doc { fields: vec![(a(), V::I(1)), (K::Tok(T_Z), V::I(1))], gap: g, inner: false } }
        // a comment / blank run INSIDE a container (skip_container has to cross it)
        "comment-in" | "blank-in" => {
            let g: Vec<u8> = if shape == "comment-in" { let mut g = vec![b' ', b'#']; g.extend((0..n.saturating_sub(1)).map(|i| b"c{}\"# "[i % 6])); g.push(b'\n'); g } else { (0..n).map(|i| b" \t\n\r"[i % 4]).collect() };
            let mut d = with_sibling(a(), V::Obj(vec![(K::Tok(T_X), V::I(1)), (K::Tok(T_Y), V::Arr(vec![V::I(2), V::Q(b"}".to_vec())]))]));
            d.gap = g; d.inner = true; d
        }
        _ => return None,
    })
}
fn payload_esc_free(len: usize, salt: usize) -> Vec<u8> { payload(len, salt) }

// ------------------------------------------------------------------------------------------
// text rendering + expectations

fn k_text(k: &K) -> (Vec<u8>, bool) {
    match k { K::U(b) => (b.clone(), false), K::Q(b) => (b.clone(), true), K::Tok(t) => (tok_name(*t).into_bytes(), false), K::I(i) => (dec(*i as i64), false) }
}
/// scalar text of a leaf: bytes, quoted?
fn leaf_text(v: &V) -> Option<(Vec<u8>, bool)> {
    Some(match v {
        V::U(b) => (b.clone(), false), V::Q(b) => (b.clone(), true), V::I(i) => (dec(*i as i64), false),
        V::F(r) => (format!("{}.{:03}", r / 1000, r % 1000).into_bytes(), false),
        V::U32(u) => (dec(*u as i64), false), V::B(b) => (if *b { b"yes".to_vec() } else { b"no".to_vec() }, false),
        _ => return None,
    })
}
fn put_scalar(out: &mut Vec<u8>, b: &[u8], q: bool) { if q { out.push(b'"'); } out.extend_from_slice(b); if q { out.push(b'"'); } }

struct Lay { eq: &'static [u8], sep: &'static [u8], open: &'static [u8], close: &'static [u8], isep: &'static [u8] }
fn lay(l: usize) -> Lay {
    match l {
        1 => Lay { eq: b" = ", sep: b"\r\n", open: b"{\r\n\t", close: b"\r\n}", isep: b"\r\n\t" },
        2 => Lay { eq: b"=", sep: b" ", open: b"{", close: b"}", isep: b" " },
        _ => Lay { eq: b"=", sep: b"\n", open: b"{ ", close: b" }", isep: b" " },
    }
}
fn v_text(v: &V, l: &Lay, out: &mut Vec<u8>) { v_text_gap(v, l, out, &[]) }
fn v_text_gap(v: &V, l: &Lay, out: &mut Vec<u8>, gap: &[u8]) {
    match v {
        V::Obj(fs) => {
            out.extend_from_slice(l.open);
            out.extend_from_slice(gap);
            for (i, (k, v)) in fs.iter().enumerate() {
                if i > 0 { out.extend_from_slice(l.isep); }
                let (b, q) = k_text(k); put_scalar(out, &b, q); out.extend_from_slice(l.eq); v_text(v, l, out);
            }
            out.extend_from_slice(l.close);
        }
        V::Arr(vs) => {
            out.extend_from_slice(l.open);
            out.extend_from_slice(gap);
            for (i, v) in vs.iter().enumerate() { if i > 0 { out.extend_from_slice(l.isep); } v_text(v, l, out); }
            out.extend_from_slice(l.close);
        }
        leaf => { let (b, q) = leaf_text(leaf).unwrap(); put_scalar(out, &b, q); }
    }
}
/// text bytes + byte offset where each top-level field starts (plus the total length as last entry)
pub fn render_text(doc: &Doc, layout: usize) -> (Vec<u8>, Vec<usize>) {
    let l = lay(layout);
    let mut out = vec![];
    let mut offs = vec![];
    for (i, (k, v)) in doc.fields.iter().enumerate() {
        offs.push(out.len());
        let (b, q) = k_text(k); put_scalar(&mut out, &b, q); out.extend_from_slice(l.eq);
        if i == 0 && doc.inner { v_text_gap(v, &l, &mut out, &doc.gap); } else { v_text(v, &l, &mut out); }
        if i == 0 && !doc.inner { out.extend_from_slice(&doc.gap); }
        out.extend_from_slice(l.sep);
    }
    offs.push(out.len());
    (out, offs)
}

#[derive(Clone, Debug, PartialEq)]
pub enum TL { Open, Close, Eq, U(Vec<u8>), Q(Vec<u8>) }
fn v_tlex(v: &V, out: &mut Vec<TL>) {
    match v {
        V::Obj(fs) => { out.push(TL::Open); for (k, v) in fs { let (b, q) = k_text(k); out.push(if q { TL::Q(b) } else { TL::U(b) }); out.push(TL::Eq); v_tlex(v, out); } out.push(TL::Close); }
        V::Arr(vs) => { out.push(TL::Open); for v in vs { v_tlex(v, out); } out.push(TL::Close); }
        leaf => { let (b, q) = leaf_text(leaf).unwrap(); out.push(if q { TL::Q(b) } else { TL::U(b) }); }
    }
}
pub fn text_lexemes(doc: &Doc) -> Vec<TL> {
    let mut out = vec![];
    for (k, v) in &doc.fields { let (b, q) = k_text(k); out.push(if q { TL::Q(b) } else { TL::U(b) }); out.push(TL::Eq); v_tlex(v, &mut out); }
    out
}

#[derive(Clone, Debug, PartialEq)]
pub enum TT { Arr(usize), Obj(usize), End(usize), U(Vec<u8>), Q(Vec<u8>) }
fn v_ttape(v: &V, out: &mut Vec<TT>) {
    match v {
        V::Obj(fs) => { let s = out.len(); out.push(TT::Obj(0)); for (k, v) in fs { let (b, q) = k_text(k); out.push(if q { TT::Q(b) } else { TT::U(b) }); v_ttape(v, out); } let e = out.len(); out.push(TT::End(s)); out[s] = TT::Obj(e); }
        V::Arr(vs) => { let s = out.len(); out.push(TT::Arr(0)); for v in vs { v_ttape(v, out); } let e = out.len(); out.push(TT::End(s)); out[s] = TT::Arr(e); }
        leaf => { let (b, q) = leaf_text(leaf).unwrap(); out.push(if q { TT::Q(b) } else { TT::U(b) }); }
    }
}
pub fn text_tape_exp(doc: &Doc) -> Vec<TT> {
    let mut out = vec![];
    for (k, v) in &doc.fields { let (b, q) = k_text(k); out.push(if q { TT::Q(b) } else { TT::U(b) }); v_ttape(v, &mut out); }
    out
}
fn clip(b: &[u8]) -> String {
    let s = String::from_utf8_lossy(&b[..b.len().min(24)]).into_owned();
    if b.len() > 24 { format!("{:?}..(len {})", s, b.len()) } else { format!("{:?}", s) }
}
/// first difference between a parsed text tape and the expectation
pub fn cmp_text_tape(act: &[TextToken], exp: &[TT]) -> Result<(), String> {
    for (i, e) in exp.iter().enumerate() {
        let a = match act.get(i) { Some(a) => a, None => return Err(format!("tape has {} tokens, expected {}", act.len(), exp.len())) };
        let ok = match (a, e) {
            (TextToken::Array { end, mixed: false }, TT::Arr(x)) => end == x,
            (TextToken::Object { end, mixed: false }, TT::Obj(x)) => end == x,
            (TextToken::End(s), TT::End(x)) => s == x,
            (TextToken::Unquoted(s), TT::U(b)) => s.as_bytes() == &b[..],
            (TextToken::Quoted(s), TT::Q(b)) => s.as_bytes() == &b[..],
            _ => false,
        };
        if !ok {
            let es = match e { TT::U(b) => format!("U{}", clip(b)), TT::Q(b) => format!("Q{}", clip(b)), o => format!("{:?}", o) };
            let as_ = match a { TextToken::Unquoted(s) => format!("U{}", clip(s.as_bytes())), TextToken::Quoted(s) => format!("Q{}", clip(s.as_bytes())), o => format!("{:?}", o) };
            return Err(format!("token {}: expected {} observed {}", i, es, as_));
        }
    }
    if act.len() != exp.len() { return Err(format!("tape has {} tokens, expected {}", act.len(), exp.len())); }
    Ok(())
}
/// C06 walk: every container's end is a later End pointing back, laminar nesting, scalars inside the input in increasing order
pub fn text_structure(input: &[u8], toks: &[TextToken]) -> Result<(), String> {
    let base = input.as_ptr() as usize;
    let mut stack: Vec<usize> = vec![];
    let mut last = 0usize;
    for (i, t) in toks.iter().enumerate() {
        match t {
            TextToken::Array { end, .. } | TextToken::Object { end, .. } => {
                if *end <= i || *end >= toks.len() { return Err(format!("container at {} has end {} (len {})", i, end, toks.len())); }
                if !matches!(toks[*end], TextToken::End(s) if s == i) { return Err(format!("container at {}: toks[{}] = {:?}", i, end, toks[*end])); }
                if let Some(&top) = stack.last() { if *end >= top { return Err(format!("container at {} (end {}) crosses enclosing end {}", i, end, top)); } }
                stack.push(*end);
            }
            TextToken::End(s) => {
                if stack.pop() != Some(i) { return Err(format!("End at {} does not close the innermost open container", i)); }
                if *s >= i { return Err(format!("End at {} points forward to {}", i, s)); }
            }
            other => {
                if let Some(s) = other.as_scalar() {
                    let p = s.as_bytes().as_ptr() as usize;
                    if p < base || p + s.as_bytes().len() > base + input.len() { return Err(format!("scalar at {} lies outside the input", i)); }
                    if p - base < last { return Err(format!("scalar at {} starts at {} before the previous scalar's start {}", i, p - base, last)); }
                    last = p - base;
                }
            }
        }
    }
    if !stack.is_empty() { return Err("unclosed container at the end of the tape".into()); }
    Ok(())
}

// ------------------------------------------------------------------------------------------
// binary rendering + expectations

fn w16(out: &mut Vec<u8>, v: u16) { out.extend_from_slice(&v.to_le_bytes()); }
fn wstr(out: &mut Vec<u8>, id: u16, b: &[u8]) -> Option<()> { let l = u16::try_from(b.len()).ok()?; w16(out, id); w16(out, l); out.extend_from_slice(b); Some(()) }
fn k_bin(k: &K, out: &mut Vec<u8>) -> Option<()> {
    match k { K::U(b) => wstr(out, L_UNQUOTED, b)?, K::Q(b) => wstr(out, L_QUOTED, b)?, K::Tok(t) => w16(out, *t), K::I(i) => { w16(out, L_I32); out.extend_from_slice(&i.to_le_bytes()); } }
    Some(())
}
fn v_bin(v: &V, out: &mut Vec<u8>) -> Option<()> {
    match v {
        V::U(b) => wstr(out, L_UNQUOTED, b)?, V::Q(b) => wstr(out, L_QUOTED, b)?,
        V::I(i) => { w16(out, L_I32); out.extend_from_slice(&i.to_le_bytes()); }
        V::F(r) => { w16(out, L_F32); out.extend_from_slice(&r.to_le_bytes()); }
        V::U32(u) => { w16(out, L_U32); out.extend_from_slice(&u.to_le_bytes()); }
        V::B(b) => { w16(out, L_BOOL); out.push(*b as u8); }
        V::Obj(fs) => { w16(out, L_OPEN); for (k, v) in fs { k_bin(k, out)?; w16(out, L_EQUAL); v_bin(v, out)?; } w16(out, L_CLOSE); }
        V::Arr(vs) => { w16(out, L_OPEN); for v in vs { v_bin(v, out)?; } w16(out, L_CLOSE); }
    }
    Some(())
}
/// binary bytes + offsets of the top-level fields (None when a string exceeds the u16 length prefix)
pub fn render_bin(doc: &Doc) -> Option<(Vec<u8>, Vec<usize>)> {
    let mut out = vec![];
    let mut offs = vec![];
    for (k, v) in &doc.fields { offs.push(out.len()); k_bin(k, &mut out)?; w16(&mut out, L_EQUAL); v_bin(v, &mut out)?; }
    offs.push(out.len());
    Some((out, offs))
}

#[derive(Clone, Debug, PartialEq)]
pub enum BL { Open, Close, Eq, Id(u16), I32(i32), F32([u8; 4]), U32(u32), Bool(bool), Q(Vec<u8>), U(Vec<u8>) }
impl BL {
    /// encoded size of the token
    pub fn size(&self) -> usize { match self { BL::Open | BL::Close | BL::Eq | BL::Id(_) => 2, BL::I32(_) | BL::F32(_) | BL::U32(_) => 6, BL::Bool(_) => 3, BL::Q(b) | BL::U(b) => 4 + b.len() } }
}
fn k_bl(k: &K) -> BL { match k { K::U(b) => BL::U(b.clone()), K::Q(b) => BL::Q(b.clone()), K::Tok(t) => BL::Id(*t), K::I(i) => BL::I32(*i) } }
fn leaf_bl(v: &V) -> Option<BL> { Some(match v { V::U(b) => BL::U(b.clone()), V::Q(b) => BL::Q(b.clone()), V::I(i) => BL::I32(*i), V::F(r) => BL::F32(r.to_le_bytes()), V::U32(u) => BL::U32(*u), V::B(b) => BL::Bool(*b), _ => return None }) }
fn v_blex(v: &V, out: &mut Vec<BL>) {
    match v {
        V::Obj(fs) => { out.push(BL::Open); for (k, v) in fs { out.push(k_bl(k)); out.push(BL::Eq); v_blex(v, out); } out.push(BL::Close); }
        V::Arr(vs) => { out.push(BL::Open); for v in vs { v_blex(v, out); } out.push(BL::Close); }
        leaf => out.push(leaf_bl(leaf).unwrap()),
    }
}
pub fn bin_lexemes(doc: &Doc) -> Vec<BL> {
    let mut out = vec![];
    for (k, v) in &doc.fields { out.push(k_bl(k)); out.push(BL::Eq); v_blex(v, &mut out); }
    out
}
pub fn bl_eq(t: &BTok, e: &BL) -> bool {
    match (t, e) {
        (BTok::Open, BL::Open) | (BTok::Close, BL::Close) | (BTok::Equal, BL::Eq) => true,
        (BTok::Id(a), BL::Id(b)) => a == b, (BTok::I32(a), BL::I32(b)) => a == b, (BTok::F32(a), BL::F32(b)) => a == b,
        (BTok::U32(a), BL::U32(b)) => a == b, (BTok::Bool(a), BL::Bool(b)) => a == b,
        (BTok::Quoted(s), BL::Q(b)) => s.as_bytes() == &b[..], (BTok::Unquoted(s), BL::U(b)) => s.as_bytes() == &b[..],
        _ => false,
    }
}
fn show_bl(e: &BL) -> String { match e { BL::Q(b) => format!("Q{}", clip(b)), BL::U(b) => format!("U{}", clip(b)), o => format!("{:?}", o) } }
fn show_btok(t: &BTok) -> String { match t { BTok::Quoted(s) => format!("Q{}", clip(s.as_bytes())), BTok::Unquoted(s) => format!("U{}", clip(s.as_bytes())), o => format!("{:?}", o) } }

/// expected binary tape: BL leaves + container starts / ends (keys and values adjacent, no Equal token)
#[derive(Clone, Debug, PartialEq)]
pub enum BT { Arr(usize), Obj(usize), End(usize), L(BL) }
fn v_btape(v: &V, out: &mut Vec<BT>) {
    match v {
        V::Obj(fs) => { let s = out.len(); out.push(BT::Obj(0)); for (k, v) in fs { out.push(BT::L(k_bl(k))); v_btape(v, out); } let e = out.len(); out.push(BT::End(s)); out[s] = BT::Obj(e); }
        V::Arr(vs) => { let s = out.len(); out.push(BT::Arr(0)); for v in vs { v_btape(v, out); } let e = out.len(); out.push(BT::End(s)); out[s] = BT::Arr(e); }
        leaf => out.push(BT::L(leaf_bl(leaf).unwrap())),
    }
}
pub fn bin_tape_exp(doc: &Doc) -> Vec<BT> {
    let mut out = vec![];
    for (k, v) in &doc.fields { out.push(BT::L(k_bl(k))); v_btape(v, &mut out); }
    out
}
pub fn cmp_bin_tape(act: &[BinaryToken], exp: &[BT]) -> Result<(), String> {
    for (i, e) in exp.iter().enumerate() {
        let a = match act.get(i) { Some(a) => a, None => return Err(format!("tape has {} tokens, expected {}", act.len(), exp.len())) };
        let ok = match (a, e) {
            (BinaryToken::Array(x), BT::Arr(y)) | (BinaryToken::Object(x), BT::Obj(y)) | (BinaryToken::End(x), BT::End(y)) => x == y,
            (BinaryToken::Token(a), BT::L(BL::Id(b))) => a == b,
            (BinaryToken::I32(a), BT::L(BL::I32(b))) => a == b,
            (BinaryToken::F32(a), BT::L(BL::F32(b))) => a == b,
            (BinaryToken::U32(a), BT::L(BL::U32(b))) => a == b,
            (BinaryToken::Bool(a), BT::L(BL::Bool(b))) => a == b,
            (BinaryToken::Quoted(s), BT::L(BL::Q(b))) => s.as_bytes() == &b[..],
            (BinaryToken::Unquoted(s), BT::L(BL::U(b))) => s.as_bytes() == &b[..],
            _ => false,
        };
        if !ok {
            let es = match e { BT::L(l) => show_bl(l), o => format!("{:?}", o) };
            let as_ = match a { BinaryToken::Quoted(s) => format!("Q{}", clip(s.as_bytes())), BinaryToken::Unquoted(s) => format!("U{}", clip(s.as_bytes())), o => format!("{:?}", o) };
            return Err(format!("token {}: expected {} observed {}", i, es, as_));
        }
    }
    if act.len() != exp.len() { return Err(format!("tape has {} tokens, expected {}", act.len(), exp.len())); }
    Ok(())
}
pub fn bin_structure(input: &[u8], toks: &[BinaryToken]) -> Result<(), String> {
    let base = input.as_ptr() as usize;
    let mut stack: Vec<usize> = vec![];
    for (i, t) in toks.iter().enumerate() {
        match t {
            BinaryToken::Array(end) | BinaryToken::Object(end) => {
                if *end <= i || *end >= toks.len() { return Err(format!("container at {} has end {} (len {})", i, end, toks.len())); }
                if toks[*end] != BinaryToken::End(i) { return Err(format!("container at {}: toks[{}] = {:?}", i, end, toks[*end])); }
                if let Some(&top) = stack.last() { if *end >= top { return Err(format!("container at {} (end {}) crosses enclosing end {}", i, end, top)); } }
                stack.push(*end);
            }
            BinaryToken::End(s) => {
                if stack.pop() != Some(i) { return Err(format!("End at {} does not close the innermost open container", i)); }
                if *s >= i { return Err(format!("End at {} points forward to {}", i, s)); }
            }
            BinaryToken::Quoted(s) | BinaryToken::Unquoted(s) => {
                let p = s.as_bytes().as_ptr() as usize;
                if p < base || p + s.as_bytes().len() > base + input.len() { return Err(format!("scalar at {} lies outside the input", i)); }
            }
            _ => {}
        }
    }
    if !stack.is_empty() { return Err("unclosed container at the end of the tape".into()); }
    Ok(())
}

// ------------------------------------------------------------------------------------------
// op framework

struct Cx<'a> { case: &'a str, obs: &'a mut Obs }
impl<'a> Cx<'a> {
    fn bad(&mut self, kind: &str, detail: String) { self.obs.violation(kind, self.case, &detail); }
}
fn num(s: &str) -> Option<usize> { s.parse().ok() }

pub fn exec(w: &[&str], obs: &mut Obs) -> Option<String> {
    if w.first() != Some(&"x-scale") || w.len() < 3 { return None; }
    let case = w.join(" ");
    let words: Vec<String> = w.iter().map(|s| s.to_string()).collect();
    // deep shapes recurse (serde, DOM, the renderers here): run on a big stack; a panic is re-raised so that
    // the harness's catch_unwind reports it (result `panic`, oracle kind `panic`)
    let h = std::thread::Builder::new().stack_size(256 << 20).spawn(move || {
        let mut local = Obs::default();
        let ws: Vec<&str> = words.iter().map(|s| s.as_str()).collect();
        let r = { let mut cx = Cx { case: &case, obs: &mut local }; run(&ws, &mut cx) };
        (r, local)
    }).ok()?;
    match h.join() {
        Ok((r, local)) => { obs.merge(local); r }
        Err(p) => std::panic::resume_unwind(p),
    }
}

fn run(w: &[&str], cx: &mut Cx) -> Option<String> {
    let check = w[1];
    cx.obs.count(&format!("scale:{}:{}", check, w[2]));
    match check {
        "ttape" => op_ttape(w, cx),
        "btape" => op_btape(w, cx),
        _ => run2(w, cx),
    }
}

/// x-scale ttape <shape> <n> [<m>]: text tape of the three layouts == expectation, structure sound, reused tape equal
fn op_ttape(w: &[&str], cx: &mut Cx) -> Option<String> {
    let (n, m) = (num(w.get(3)?)?, w.get(4).and_then(|s| num(s)).unwrap_or(0));
    let doc = build(w[2], n, m)?;
    let exp = text_tape_exp(&doc);
    let docs: Vec<Vec<u8>> = (0..3).map(|l| render_text(&doc, l).0).collect();
    let mut reused = TextTape::new();
    let _ = TextTape::parser().parse_slice_into_tape(b"q={ 1 2 { a=b } } r=\"s\" t={ u=v }", &mut reused);
    let mut bytes = 0;
    for (layout, d) in docs.iter().enumerate() {
        bytes = d.len();
        match TextTape::from_slice(d) {
            Ok(tape) => {
                if let Err(e) = cmp_text_tape(tape.tokens(), &exp) { cx.bad("scale-tape-mismatch", format!("text {} n={} m={} layout {}: {}", w[2], n, m, layout, e)); }
                if let Err(e) = text_structure(d, tape.tokens()) { cx.bad("scale-tape-structure", format!("text {} n={} layout {}: {}", w[2], n, layout, e)); }
            }
            Err(e) => cx.bad("scale-tape-mismatch", format!("text {} n={} m={} layout {}: well-formed document of {} bytes rejected: {}", w[2], n, m, layout, d.len(), e)),
        }
        match TextTape::parser().parse_slice_into_tape(d, &mut reused) {
            Ok(()) => if let Err(e) = cmp_text_tape(reused.tokens(), &exp) { cx.bad("scale-tape-mismatch", format!("text {} n={} layout {} (reused tape): {}", w[2], n, layout, e)); },
            Err(e) => cx.bad("scale-tape-mismatch", format!("text {} n={} layout {} (reused tape): rejected: {}", w[2], n, layout, e)),
        }
    }
    Some(format!("ok toks={} bytes={}", exp.len(), bytes))
}

/// x-scale btape <shape> <n> [<m>]: optimised binary tape == reference parser == expectation
fn op_btape(w: &[&str], cx: &mut Cx) -> Option<String> {
    let (n, m) = (num(w.get(3)?)?, w.get(4).and_then(|s| num(s)).unwrap_or(0));
    let doc = build(w[2], n, m)?;
    let (d, _) = render_bin(&doc)?;
    let exp = bin_tape_exp(&doc);
    match BinaryTape::from_slice(&d) {
        Ok(tape) => {
            if let Err(e) = cmp_bin_tape(tape.tokens(), &exp) { cx.bad("scale-tape-mismatch", format!("binary {} n={} m={} (optimised): {}", w[2], n, m, e)); }
            if let Err(e) = bin_structure(&d, tape.tokens()) { cx.bad("scale-tape-structure", format!("binary {} n={}: {}", w[2], n, e)); }
        }
        Err(e) => cx.bad("scale-tape-mismatch", format!("binary {} n={} m={}: well-formed stream of {} bytes rejected by the optimised parser: {}", w[2], n, m, d.len(), e)),
    }
    let mut t2 = BinaryTape::default();
    let _ = BinaryTapeParser.parse_slice_into_tape(&[0x2d, 0x28, 1, 0, 3, 0, 4, 0], &mut t2);
    match BinaryTapeParser.parse_slice_into_tape_unoptimized(&d, &mut t2) {
        Ok(()) => if let Err(e) = cmp_bin_tape(t2.tokens(), &exp) { cx.bad("scale-tape-mismatch", format!("binary {} n={} m={} (reference parser, reused tape): {}", w[2], n, m, e)); },
        Err(e) => cx.bad("scale-tape-mismatch", format!("binary {} n={} m={}: rejected by the reference parser: {}", w[2], n, m, e)),
    }
    Some(format!("ok toks={} bytes={}", exp.len(), d.len()))
}



// ------------------------------------------------------------------------------------------
// streaming readers (C07, C08) and skipping (C09)

fn run2(w: &[&str], cx: &mut Cx) -> Option<String> {
    match w[1] {
        "tread" => op_tread(w, cx),
        "bread" => op_bread(w, cx),
        "tskip" => op_tskip(w, cx),
        "tskipu" => op_tskipu(w, cx),
        "bskip" => op_bskip(w, cx),
        _ => run3(w, cx),
    }
}

#[derive(Debug, PartialEq)]
enum Fin { Clean, Full, Io, Other(String) }
struct Run { matched: usize, mismatch: Option<String>, fin: Fin, pos: usize }

fn tl_eq(t: &TTok, e: &TL) -> bool {
    match (t, e) {
        (TTok::Open, TL::Open) | (TTok::Close, TL::Close) => true,
        (TTok::Operator(Operator::Equal), TL::Eq) => true,
        (TTok::Unquoted(s), TL::U(b)) | (TTok::Quoted(s), TL::Q(b)) => s.as_bytes() == &b[..],
        _ => false,
    }
}
fn show_tl(e: &TL) -> String { match e { TL::Q(b) => format!("Q{}", clip(b)), TL::U(b) => format!("U{}", clip(b)), o => format!("{:?}", o) } }
fn show_ttok(t: &TTok) -> String { match t { TTok::Quoted(s) => format!("Q{}", clip(s.as_bytes())), TTok::Unquoted(s) => format!("U{}", clip(s.as_bytes())), o => format!("{:?}", o) } }

/// read tokens from `r` and compare with exp[from..]
fn drain_text<R: Read>(r: &mut TextReader<R>, exp: &[TL], from: usize) -> Run {
    let mut i = from;
    loop {
        let step = match r.next() {
            Ok(Some(t)) => match exp.get(i) {
                Some(e) if tl_eq(&t, e) => None,
                Some(e) => Some(Err(format!("token {}: expected {} observed {}", i, show_tl(e), show_ttok(&t)))),
                None => Some(Err(format!("token {}: expected end of input, observed {}", i, show_ttok(&t)))),
            },
            Ok(None) => Some(Ok(Fin::Clean)),
            Err(e) => Some(Ok(match e.kind() { jomini::text::ReaderErrorKind::BufferFull => Fin::Full, jomini::text::ReaderErrorKind::Read(_) => Fin::Io, o => Fin::Other(format!("{:?}", o)) })),
        };
        match step {
            None => i += 1,
            Some(Err(m)) => return Run { matched: i, mismatch: Some(m), fin: Fin::Clean, pos: r.position() },
            Some(Ok(f)) => return Run { matched: i, mismatch: None, fin: f, pos: r.position() },
        }
    }
}
fn drain_bin<R: Read>(r: &mut BinReader<R>, exp: &[BL], from: usize) -> Run {
    let mut i = from;
    loop {
        let step = match r.next() {
            Ok(Some(t)) => match exp.get(i) {
                Some(e) if bl_eq(&t, e) => None,
                Some(e) => Some(Err(format!("token {}: expected {} observed {}", i, show_bl(e), show_btok(&t)))),
                None => Some(Err(format!("token {}: expected end of input, observed {}", i, show_btok(&t)))),
            },
            Ok(None) => Some(Ok(Fin::Clean)),
            Err(e) => Some(Ok(match e.kind() { jomini::binary::ReaderErrorKind::BufferFull => Fin::Full, jomini::binary::ReaderErrorKind::Read(_) => Fin::Io, o => Fin::Other(format!("{:?}", o)) })),
        };
        match step {
            None => i += 1,
            Some(Err(m)) => return Run { matched: i, mismatch: Some(m), fin: Fin::Clean, pos: r.position() },
            Some(Ok(f)) => return Run { matched: i, mismatch: None, fin: f, pos: r.position() },
        }
    }
}

/// (buffer capacity, None = the reader's default) x read schedule
fn reader_configs(extra_caps: &[usize]) -> Vec<(Option<usize>, Vec<Step>)> {
    let mut v: Vec<(Option<usize>, Vec<Step>)> = vec![(None, vec![])];
    for n in [1usize, 7, 4096, 32768, 32769] { v.push((None, vec![Step::Repeat(n)])); }
    v.push((Some(70000), vec![])); v.push((Some(70000), vec![Step::Repeat(32769)])); v.push((Some(131072), vec![Step::Repeat(65536)]));
    for (k, c) in extra_caps.iter().enumerate() {
        v.push((Some(*c), vec![Step::Repeat([1usize, 7, 4096, 32768, 32769][k % 5])]));
        v.push((Some(*c), vec![Step::Give(3), Step::Give(*c), Step::Repeat(*c + 1)]));
    }
    v
}
fn show_cfg(cap: Option<usize>, s: &[Step]) -> String { format!("cap={} sched={}", cap.map(|c| c.to_string()).unwrap_or("default".into()), crate::sched::show(s)) }

/// text: payload size of token i (what has to sit in the buffer at once, without the closing byte)
fn tl_size(e: &TL) -> usize { match e { TL::U(b) | TL::Q(b) => b.len(), _ => 1 } }

/// judge a streamed text run.  `sizes[i]` = payload of token i (a comment preceding token i counts for i).
/// cap >= size + 2 for every item: must be clean.  An item with size >= cap: must be BufferFull at or before it,
/// and BufferFull is only legitimate at an item with size + 1 >= cap.
fn judge_text(run: &Run, sizes: &[usize], cap: usize, len: usize, what: &str, cx: &mut Cx) {
    if let Some(m) = &run.mismatch { cx.bad("scale-stream-mismatch", format!("{}: {}", what, m)); return; }
    let first_must = sizes.iter().position(|s| *s >= cap);
    match &run.fin {
        Fin::Clean => {
            if let Some(j) = first_must { cx.bad("scale-bufferfull-missing", format!("{}: item {} needs {} bytes, buffer has {}, yet the run ended cleanly after {} tokens", what, j, sizes[j], cap, run.matched)); }
            else if run.matched != sizes.len() { cx.bad("scale-stream-mismatch", format!("{}: clean end after {} tokens, expected {}", what, run.matched, sizes.len())); }
            else if run.pos != len { cx.bad("scale-position", format!("{}: position() {} after the run, input length {}", what, run.pos, len)); }
        }
        Fin::Full => {
            let j = run.matched;
            let legit = sizes.get(j).map(|s| s + 1 >= cap).unwrap_or(false);
            if !legit { cx.bad("scale-bufferfull-spurious", format!("{}: BufferFull at token {} whose size is {:?} (buffer {})", what, j, sizes.get(j), cap)); }
            if run.pos > len { cx.bad("scale-position", format!("{}: position() {} beyond the input length {}", what, run.pos, len)); }
        }
        other => cx.bad("scale-stream-mismatch", format!("{}: run ended with {:?} after {} tokens (expected {} tokens)", what, other, run.matched, sizes.len())),
    }
}
/// binary: a token fits iff its encoded size <= cap (documented: the buffer must hold an entire token)
fn judge_bin(run: &Run, sizes: &[usize], cap: usize, len: usize, what: &str, cx: &mut Cx) {
    if let Some(m) = &run.mismatch { cx.bad("scale-stream-mismatch", format!("{}: {}", what, m)); return; }
    let first_big = sizes.iter().position(|s| *s > cap);
    match (&run.fin, first_big) {
        (Fin::Clean, None) => {
            if run.matched != sizes.len() { cx.bad("scale-stream-mismatch", format!("{}: clean end after {} tokens, expected {}", what, run.matched, sizes.len())); }
            else if run.pos != len { cx.bad("scale-position", format!("{}: position() {} after the run, input length {}", what, run.pos, len)); }
        }
        (Fin::Clean, Some(j)) => cx.bad("scale-bufferfull-missing", format!("{}: token {} takes {} bytes, buffer has {}, yet the run ended cleanly after {} tokens", what, j, sizes[j], cap, run.matched)),
        (Fin::Full, Some(j)) if run.matched == j => { if run.pos > len { cx.bad("scale-position", format!("{}: position() {} beyond the input length {}", what, run.pos, len)); } }
        (Fin::Full, j) => cx.bad("scale-bufferfull-spurious", format!("{}: BufferFull at token {} (size {:?}), first token larger than the buffer ({}) is {:?}", what, run.matched, sizes.get(run.matched), cap, j)),
        (other, _) => cx.bad("scale-stream-mismatch", format!("{}: run ended with {:?} after {} tokens (expected {} tokens)", what, other, run.matched, sizes.len())),
    }
}

/// the readers' DEFAULT buffer capacity, MEASURED from the library (`TokenReader::new(..).into_parts()` hands the
/// buffer back) rather than assumed: changing the default is a harmless change and must not raise an alarm
fn default_cap() -> usize {
    use std::sync::OnceLock;
    static CAP: OnceLock<usize> = OnceLock::new();
    *CAP.get_or_init(|| {
        let t = jomini::text::TokenReader::new(&b""[..]).into_parts().0.len();
        let b = jomini::binary::TokenReader::new(&b""[..]).into_parts().0.len();
        assert_eq!(t, b, "text and binary readers have different default buffer sizes: the scale grids assume one");
        t
    })
}

/// x-scale tread <shape> <n> [<m>]
fn op_tread(w: &[&str], cx: &mut Cx) -> Option<String> {
    let (n, m) = (num(w.get(3)?)?, w.get(4).and_then(|s| num(s)).unwrap_or(0));
    let doc = build(w[2], n, m)?;
    let exp = text_lexemes(&doc);
    let mut sizes: Vec<usize> = exp.iter().map(tl_size).collect();
    // a comment in the gap is carried over whole: it counts for the token that follows the first field (index 3)
    if doc.gap.contains(&b'#') { sizes[3] = sizes[3].max(doc.gap.len() - 2); }
    let longest = sizes.iter().copied().max().unwrap_or(1);
    let mut runs = 0;
    for layout in 0..3 {
        let (d, _) = render_text(&doc, layout);
        let what = format!("text {} n={} m={} layout {}", w[2], n, m, layout);
        let mut r = TextReader::from_slice(&d);
        let run = drain_text(&mut r, &exp, 0);
        judge_text(&run, &sizes, usize::MAX, d.len(), &format!("{} slice reader", what), cx);
        let extra: Vec<usize> = if layout == 0 { vec![16, 64, 255, 256, 4096, longest.max(14), longest + 1, longest + 2] } else { vec![64, longest + 2] };
        for (cap, sched) in reader_configs(&extra) {
            let c = cap.unwrap_or(default_cap());
            let rd = SchedReader::new(&d, sched.clone());
            let mut r = match cap { Some(c) => TextReader::builder().buffer_len(c).build(rd), None => TextReader::new(rd) };
            let run = drain_text(&mut r, &exp, 0);
            judge_text(&run, &sizes, c, d.len(), &format!("{} {}", what, show_cfg(cap, &sched)), cx);
            cx.obs.count(match run.fin { Fin::Clean => "scale:tread-clean", Fin::Full => "scale:tread-bufferfull", _ => "scale:tread-other" });
            runs += 1;
        }
    }
    Some(format!("ok toks={} runs={}", exp.len(), runs))
}

/// x-scale bread <shape> <n> [<m>]
fn op_bread(w: &[&str], cx: &mut Cx) -> Option<String> {
    let (n, m) = (num(w.get(3)?)?, w.get(4).and_then(|s| num(s)).unwrap_or(0));
    let doc = build(w[2], n, m)?;
    let exp = bin_lexemes(&doc);
    let (d, _) = render_bin(&doc)?;
    let sizes: Vec<usize> = exp.iter().map(|e| e.size()).collect();
    let longest = sizes.iter().copied().max().unwrap_or(2);
    let what = format!("binary {} n={} m={}", w[2], n, m);
    // slice lexer, slice reader, Token::write round trip
    {
        let mut lx = Lexer::new(&d);
        let mut i = 0;
        let mut rewritten: Vec<u8> = Vec::with_capacity(d.len());
        loop {
            match lx.next_token() {
                Ok(Some(t)) => {
                    match exp.get(i) { Some(e) if bl_eq(&t, e) => {}, e => { cx.bad("scale-stream-mismatch", format!("{} lexer: token {}: expected {:?} observed {}", what, i, e.map(show_bl), show_btok(&t))); break; } }
                    let _ = t.write(&mut rewritten);
                    i += 1;
                }
                Ok(None) => {
                    if i != exp.len() { cx.bad("scale-stream-mismatch", format!("{} lexer: {} tokens, expected {}", what, i, exp.len())); }
                    if lx.position() != d.len() { cx.bad("scale-position", format!("{} lexer: position() {} input length {}", what, lx.position(), d.len())); }
                    if rewritten != d { let p = rewritten.iter().zip(d.iter()).position(|(a, b)| a != b).unwrap_or(rewritten.len().min(d.len())); cx.bad("scale-token-write", format!("{}: Token::write of the lexed tokens differs from the input at byte {} ({} vs {} bytes)", what, p, rewritten.len(), d.len())); }
                    break;
                }
                Err(e) => { cx.bad("scale-stream-mismatch", format!("{} lexer: error {:?} after {} tokens", what, e.kind(), i)); break; }
            }
        }
        let mut r = BinReader::from_slice(&d);
        let run = drain_bin(&mut r, &exp, 0);
        judge_bin(&run, &sizes, usize::MAX, d.len(), &format!("{} slice reader", what), cx);
    }
    let mut runs = 0;
    let extra = [8usize, 16, 64, 255, 256, 4096, longest - 1, longest, longest + 1, 65535 + 4];
    for (cap, sched) in reader_configs(&extra) {
        let c = cap.unwrap_or(default_cap());
        if c < 2 { continue; }
        let rd = SchedReader::new(&d, sched.clone());
        let mut r = match cap { Some(c) => BinReader::builder().buffer_len(c).build(rd), None => BinReader::new(rd) };
        let run = drain_bin(&mut r, &exp, 0);
        judge_bin(&run, &sizes, c, d.len(), &format!("{} {}", what, show_cfg(cap, &sched)), cx);
        cx.obs.count(match run.fin { Fin::Clean => "scale:bread-clean", Fin::Full => "scale:bread-bufferfull", _ => "scale:bread-other" });
        runs += 1;
    }
    Some(format!("ok toks={} runs={}", exp.len(), runs))
}

/// index just behind the Close matching the Open at `open`
fn after_close<T>(exp: &[T], open: usize, is_open: impl Fn(&T) -> bool, is_close: impl Fn(&T) -> bool) -> usize {
    let mut depth = 0usize;
    for (i, e) in exp.iter().enumerate().skip(open) {
        if is_open(e) { depth += 1; } else if is_close(e) { depth -= 1; if depth == 0 { return i + 1; } }
    }
    exp.len()
}
/// the Open tokens at which to skip: the first, and for nested shapes the 2nd, the middle and the innermost
fn skip_points<T>(exp: &[T], is_open: impl Fn(&T) -> bool) -> Vec<usize> {
    let opens: Vec<usize> = exp.iter().enumerate().filter(|(_, e)| is_open(e)).map(|(i, _)| i).collect();
    let mut v = vec![];
    for k in [0usize, 1, 16, opens.len() / 2, opens.len().saturating_sub(1)] { if let Some(i) = opens.get(k) { if !v.contains(i) { v.push(*i); } } }
    v
}

/// x-scale tskip <shape> <n> [<m>]: read up to an Open, skip_container, the rest of the stream is what follows the matching Close
fn op_tskip(w: &[&str], cx: &mut Cx) -> Option<String> {
    let (n, m) = (num(w.get(3)?)?, w.get(4).and_then(|s| num(s)).unwrap_or(0));
    let doc = build(w[2], n, m)?;
    let exp = text_lexemes(&doc);
    let points = skip_points(&exp, |e| *e == TL::Open);
    let mut runs = 0;
    for layout in 0..3 {
        let (d, _) = render_text(&doc, layout);
        for &open in &points {
            let resume = after_close(&exp, open, |e| *e == TL::Open, |e| *e == TL::Close);
            // tokens read before the skip must fit, as must those after it
            let mut need = exp[..=open].iter().chain(exp[resume..].iter()).map(tl_size).max().unwrap_or(1) + 2;
            // a comment that next() has to cross (it precedes token 3) is carried over whole; inside the skipped container it is not
            if doc.gap.contains(&b'#') && (open >= 3 || resume <= 3) { need = need.max(doc.gap.len() + 2); }
            let mut configs: Vec<(Option<usize>, Vec<Step>)> = vec![(Some(0), vec![])];   // Some(0) = slice reader
            configs.extend(reader_configs(&[need.max(16), need.max(64), need.max(4096)]));
            for (cap, sched) in configs {
                if let Some(c) = cap { if c != 0 && c < need { continue; } } else if default_cap() < need { continue; }
                let what = format!("text {} n={} m={} layout {} skip at token {} {}", w[2], n, m, layout, open, if cap == Some(0) { "slice reader".to_string() } else { show_cfg(cap, &sched) });
                macro_rules! go { ($r:expr) => {{
                    let mut r = $r;
                    let mut ok = true;
                    for i in 0..=open {
                        match r.read() { Ok(t) if tl_eq(&t, &exp[i]) => {}, Ok(t) => { cx.bad("scale-stream-mismatch", format!("{}: token {} before the skip: expected {} observed {}", what, i, show_tl(&exp[i]), show_ttok(&t))); ok = false; break; }
                            Err(e) => { cx.bad("scale-stream-mismatch", format!("{}: error {:?} at token {} before the skip", what, e.kind(), i)); ok = false; break; } }
                    }
                    if ok {
                        match r.skip_container() {
                            Err(e) => cx.bad("scale-skip-lands-wrong", format!("{}: skip_container failed: {:?} at position {}", what, e.kind(), e.position())),
                            Ok(()) => {
                                let run = drain_text(&mut r, &exp, resume);
                                if let Some(mm) = &run.mismatch { cx.bad("scale-skip-lands-wrong", format!("{}: after the skip (expected to resume at token {}): {}", what, resume, mm)); }
                                else if run.fin != Fin::Clean || run.matched != exp.len() { cx.bad("scale-skip-lands-wrong", format!("{}: after the skip the stream ended with {:?} at token {} of {}", what, run.fin, run.matched, exp.len())); }
                                else if run.pos != d.len() { cx.bad("scale-position", format!("{}: position() {} after the run, input length {}", what, run.pos, d.len())); }
                            }
                        }
                    }
                    runs += 1;
                }}; }
                match cap {
                    Some(0) => go!(TextReader::from_slice(&d)),
                    Some(c) => go!(TextReader::builder().buffer_len(c).build(SchedReader::new(&d, sched.clone()))),
                    None => go!(TextReader::new(SchedReader::new(&d, sched.clone()))),
                }
            }
        }
    }
    Some(format!("ok toks={} runs={}", exp.len(), runs))
}

/// x-scale bskip <shape> <n> [<m>]: Lexer::skip_value(OPEN) and TokenReader::skip_container
fn op_bskip(w: &[&str], cx: &mut Cx) -> Option<String> {
    let (n, m) = (num(w.get(3)?)?, w.get(4).and_then(|s| num(s)).unwrap_or(0));
    let doc = build(w[2], n, m)?;
    let exp = bin_lexemes(&doc);
    let (d, _) = render_bin(&doc)?;
    let points = skip_points(&exp, |e| *e == BL::Open);
    let longest = exp.iter().map(|e| e.size()).max().unwrap_or(2);
    let mut runs = 0;
    for &open in &points {
        let resume = after_close(&exp, open, |e| *e == BL::Open, |e| *e == BL::Close);
        // slice lexer
        {
            let what = format!("binary {} n={} m={} skip at token {} lexer", w[2], n, m, open);
            let mut lx = Lexer::new(&d);
            let mut ok = true;
            for i in 0..open { match lx.read_token() { Ok(t) if bl_eq(&t, &exp[i]) => {}, o => { cx.bad("scale-stream-mismatch", format!("{}: token {} before the skip: {:?}", what, i, o.map(|t| show_btok(&t)).map_err(|e| format!("{:?}", e.kind())))); ok = false; break; } } }
            if ok {
                match lx.read_id() {
                    Ok(id) if id == LexemeId::OPEN => match lx.skip_value(id) {
                        Ok(()) => {
                            let mut i = resume;
                            loop {
                                match lx.next_token() {
                                    Ok(Some(t)) => { if exp.get(i).map(|e| bl_eq(&t, e)) != Some(true) { cx.bad("scale-skip-lands-wrong", format!("{}: after the skip token {}: expected {:?} observed {}", what, i, exp.get(i).map(show_bl), show_btok(&t))); break; } i += 1; }
                                    Ok(None) => { if i != exp.len() { cx.bad("scale-skip-lands-wrong", format!("{}: stream ended at token {} of {}", what, i, exp.len())); } else if lx.position() != d.len() { cx.bad("scale-position", format!("{}: position() {} input length {}", what, lx.position(), d.len())); } break; }
                                    Err(e) => { cx.bad("scale-skip-lands-wrong", format!("{}: error {:?} after the skip at token {}", what, e.kind(), i)); break; }
                                }
                            }
                        }
                        Err(e) => cx.bad("scale-skip-lands-wrong", format!("{}: skip_value failed: {:?}", what, e.kind())),
                    },
                    o => cx.bad("scale-stream-mismatch", format!("{}: expected the OPEN id, got {:?}", what, o.map_err(|e| format!("{:?}", e.kind())))),
                }
            }
            runs += 1;
        }
        let mut configs: Vec<(Option<usize>, Vec<Step>)> = vec![(Some(0), vec![])];
        configs.extend(reader_configs(&[longest.max(16), longest.max(64), longest.max(4096), longest + 1]));
        for (cap, sched) in configs {
            if let Some(c) = cap { if c != 0 && c < longest { continue; } } else if default_cap() < longest { continue; }
            let what = format!("binary {} n={} m={} skip at token {} {}", w[2], n, m, open, if cap == Some(0) { "slice reader".to_string() } else { show_cfg(cap, &sched) });
            macro_rules! go { ($r:expr) => {{
                let mut r = $r;
                let mut ok = true;
                for i in 0..=open {
                    match r.read() { Ok(t) if bl_eq(&t, &exp[i]) => {}, Ok(t) => { cx.bad("scale-stream-mismatch", format!("{}: token {} before the skip: expected {} observed {}", what, i, show_bl(&exp[i]), show_btok(&t))); ok = false; break; }
                        Err(e) => { cx.bad("scale-stream-mismatch", format!("{}: error {:?} at token {} before the skip", what, e.kind(), i)); ok = false; break; } }
                }
                if ok {
                    match r.skip_container() {
                        Err(e) => cx.bad("scale-skip-lands-wrong", format!("{}: skip_container failed: {:?} at position {}", what, e.kind(), e.position())),
                        Ok(()) => {
                            let run = drain_bin(&mut r, &exp, resume);
                            if let Some(mm) = &run.mismatch { cx.bad("scale-skip-lands-wrong", format!("{}: after the skip (expected to resume at token {}): {}", what, resume, mm)); }
                            else if run.fin != Fin::Clean || run.matched != exp.len() { cx.bad("scale-skip-lands-wrong", format!("{}: after the skip the stream ended with {:?} at token {} of {}", what, run.fin, run.matched, exp.len())); }
                            else if run.pos != d.len() { cx.bad("scale-position", format!("{}: position() {} after the run, input length {}", what, run.pos, d.len())); }
                        }
                    }
                }
                runs += 1;
            }}; }
            match cap {
                Some(0) => go!(BinReader::from_slice(&d)),
                Some(c) => go!(BinReader::builder().buffer_len(c).build(SchedReader::new(&d, sched.clone()))),
                None => go!(BinReader::new(SchedReader::new(&d, sched.clone()))),
            }
        }
    }
    Some(format!("ok toks={} runs={}", exp.len(), runs))
}


// ------------------------------------------------------------------------------------------
// deserializers (C02, C04, C10) and derive (C18)

fn run3(w: &[&str], cx: &mut Cx) -> Option<String> {
    match w[1] {
        "tde" | "bde" | "x10" => op_de(w, cx),
        "derive" => op_derive(w, cx),
        _ => run4(w, cx),
    }
}

use jomini::JominiDeserialize;
use serde::de::{DeserializeOwned, DeserializeSeed, MapAccess, SeqAccess, Visitor};
use serde::Deserialize;
use std::collections::HashMap;
use std::fmt::Debug;

#[derive(Deserialize, Debug, PartialEq)] struct VecS { a: Vec<i32>, z: i32 }
#[derive(Deserialize, Debug, PartialEq)] struct StrS { a: String, z: i32 }
#[derive(Deserialize, Debug, PartialEq)] struct Item { x: i32, y: String }
#[derive(Deserialize, Debug, PartialEq)] struct ObjsS { a: Vec<Item>, z: i32 }
#[derive(Deserialize, Debug, PartialEq)] struct OnlyZ { z: i32 }
#[derive(Deserialize, Debug, PartialEq)] struct MapIn { a: HashMap<String, i32>, z: i32 }
#[derive(JominiDeserialize, Debug, PartialEq)]
struct DupS { #[jomini(duplicated)] x: Vec<i32>, #[jomini(take_last)] y: i32, z: i32 }

/// nested sequences of a known depth with one leaf: returns the leaf (recursion = the document's depth)
#[derive(Clone, Copy)]
struct NestSeed(usize);
impl<'de> DeserializeSeed<'de> for NestSeed {
    type Value = i64;
    fn deserialize<D: serde::Deserializer<'de>>(self, d: D) -> Result<i64, D::Error> {
        if self.0 == 0 { return i64::deserialize(d); }
        struct Vis(usize);
        impl<'de> Visitor<'de> for Vis {
            type Value = i64;
            fn expecting(&self, f: &mut std::fmt::Formatter) -> std::fmt::Result { f.write_str("a one-element sequence") }
            fn visit_seq<A: SeqAccess<'de>>(self, mut seq: A) -> Result<i64, A::Error> {
                let v = seq.next_element_seed(NestSeed(self.0 - 1))?.ok_or_else(|| serde::de::Error::custom("empty sequence"))?;
                if seq.next_element::<serde::de::IgnoredAny>()?.is_some() { return Err(serde::de::Error::custom("more than one element")); }
                Ok(v)
            }
        }
        d.deserialize_seq(Vis(self.0))
    }
}
/// top level `a = <nest> z = <int>` -> (leaf, z)
struct TopNest(usize);
impl<'de> DeserializeSeed<'de> for TopNest {
    type Value = (i64, i64);
    fn deserialize<D: serde::Deserializer<'de>>(self, d: D) -> Result<(i64, i64), D::Error> {
        struct Vis(usize);
        impl<'de> Visitor<'de> for Vis {
            type Value = (i64, i64);
            fn expecting(&self, f: &mut std::fmt::Formatter) -> std::fmt::Result { f.write_str("a map") }
            fn visit_map<A: MapAccess<'de>>(self, mut map: A) -> Result<(i64, i64), A::Error> {
                let (mut a, mut z) = (None, None);
                while let Some(k) = map.next_key::<String>()? {
                    match k.as_str() { "a" => a = Some(map.next_value_seed(NestSeed(self.0))?), "z" => z = Some(map.next_value::<i64>()?), _ => { map.next_value::<serde::de::IgnoredAny>()?; } }
                }
                Ok((a.ok_or_else(|| serde::de::Error::custom("missing a"))?, z.ok_or_else(|| serde::de::Error::custom("missing z"))?))
            }
        }
        d.deserialize_map(Vis(self.0))
    }
}
/// the top-level fields in document order as (key, integer value)
#[derive(Debug, PartialEq)]
pub struct Pairs(pub Vec<(String, i64)>);
impl<'de> Deserialize<'de> for Pairs {
    fn deserialize<D: serde::Deserializer<'de>>(d: D) -> Result<Pairs, D::Error> {
        struct Vis;
        impl<'de> Visitor<'de> for Vis {
            type Value = Pairs;
            fn expecting(&self, f: &mut std::fmt::Formatter) -> std::fmt::Result { f.write_str("a map") }
            fn visit_map<A: MapAccess<'de>>(self, mut map: A) -> Result<Pairs, A::Error> {
                let mut v = vec![];
                while let Some(k) = map.next_key::<String>()? { v.push((k, map.next_value::<i64>()?)); }
                Ok(Pairs(v))
            }
        }
        d.deserialize_map(Vis)
    }
}

fn short<T: Debug>(v: &T) -> String { let s = format!("{:?}", v); if s.len() > 160 { format!("{}..({} chars)", &s[..160], s.len()) } else { s } }
fn first_diff<T: Debug + PartialEq>(got: &T, exp: &T) -> String {
    let (a, b) = (format!("{:?}", got), format!("{:?}", exp));
    let p = a.bytes().zip(b.bytes()).position(|(x, y)| x != y).unwrap_or(a.len().min(b.len()));
    let lo = p.saturating_sub(30);
    format!("first difference at char {} of the Debug rendering: observed ..{}.. expected ..{}..", p, &a[lo..(p + 40).min(a.len())], &b[lo..(p + 40).min(b.len())])
}
fn is_full(e: &jomini::Error) -> bool { matches!(e.kind(), jomini::ErrorKind::BufferFull) }

/// how each path of a family came out; all Ok values must equal the expectation
struct Paths<'c, 'a, 'b, T> { cx: &'c mut Cx<'a>, what: String, exp: &'b T, n: usize }
impl<'c, 'a, 'b, T: Debug + PartialEq> Paths<'c, 'a, 'b, T> {
    /// `fits` = the path's buffer can hold the longest token (None for slice / tape paths)
    fn path(&mut self, name: &str, r: Result<T, jomini::Error>, fits: Option<bool>) {
        self.n += 1;
        self.cx.obs.count(match (&r, fits) { (Ok(_), _) => "scale:de-ok", (Err(_), Some(false)) => "scale:de-bufferfull", _ => "scale:de-err" });
        match (r, fits) {
            (Ok(v), Some(false)) => self.cx.bad("scale-bufferfull-missing", format!("{} path {}: the longest token does not fit the buffer, yet Ok({})", self.what, name, short(&v))),
            (Ok(v), _) => { if &v != self.exp { let d = first_diff(&v, self.exp); self.cx.bad("scale-paths-disagree", format!("{} path {}: value differs from the expectation: {}", self.what, name, d)); } }
            (Err(e), Some(false)) => { if !is_full(&e) { self.cx.bad("scale-bufferfull-missing", format!("{} path {}: the longest token does not fit the buffer; expected BufferFull, got: {}", self.what, name, e)); } }
            (Err(e), _) => self.cx.bad("scale-paths-disagree", format!("{} path {}: expected Ok({}), got error: {}", self.what, name, short(self.exp), e)),
        }
    }
}

/// text caps: (cap, schedule); `need` = longest token payload
fn text_de_cfgs(need: usize) -> Vec<(usize, Vec<Step>)> {
    vec![(default_cap(), vec![]), (default_cap(), vec![Step::Repeat(32769)]), ((need + 2).max(70000), vec![]), ((need + 2).max(4096), vec![Step::Repeat(7)]), ((need + 2).max(64), vec![Step::Repeat(1)]),
         ((need + 2).max(32768), vec![Step::Repeat(32768)]), (need.max(16) - 1, vec![Step::Repeat(4096)])]
}
fn text_paths<T: DeserializeOwned + Debug + PartialEq>(d: &[u8], exp: &T, need: usize, what: String, cx: &mut Cx) -> usize {
    let mut p = Paths { cx, what, exp, n: 0 };
    p.path("from_windows1252_slice", jomini::text::de::from_windows1252_slice::<T>(d), None);
    p.path("from_utf8_slice", jomini::text::de::from_utf8_slice::<T>(d), None);
    p.path("tape(windows1252)", TextTape::from_slice(d).and_then(|t| TextDeserializer::from_windows1252_tape(&t).deserialize::<T>()), None);
    p.path("tape(utf8)", TextTape::from_slice(d).and_then(|t| TextDeserializer::from_utf8_tape(&t).deserialize::<T>()), None);
    if need + 2 <= default_cap() || need >= default_cap() {
        p.path("from_windows1252_reader", jomini::text::de::from_windows1252_reader::<T, _>(d), Some(need + 2 <= default_cap()));
        p.path("from_utf8_reader", jomini::text::de::from_utf8_reader::<T, _>(d), Some(need + 2 <= default_cap()));
    }
    for (cap, sched) in text_de_cfgs(need) {
        // cap in (need, need+2) is the undecided band: skip it
        let fits = if cap >= need + 2 { true } else if cap <= need { false } else { continue };
        let name = format!("reader {}", show_cfg(Some(cap), &sched));
        let r = TextDeserializer::from_windows1252_reader(TextReader::builder().buffer_len(cap).build(SchedReader::new(d, sched.clone()))).deserialize::<T>();
        p.path(&format!("windows1252 {}", name), r, Some(fits));
        let r = TextDeserializer::from_utf8_reader(TextReader::builder().buffer_len(cap).build(SchedReader::new(d, sched))).deserialize::<T>();
        p.path(&format!("utf8 {}", name), r, Some(fits));
    }
    p.n
}
fn bin_builder() -> jomini::binary::de::BinaryDeserializerBuilder<super::c05::Flavor> {
    let mut b = BinaryDeserializer::builder_flavor(super::c05::Flavor);
    b.on_failed_resolve(FailedResolveStrategy::Error);
    b
}
/// `need` = encoded size of the largest token
fn bin_de_cfgs(need: usize) -> Vec<(usize, Vec<Step>)> {
    vec![(default_cap(), vec![]), (default_cap(), vec![Step::Repeat(32769)]), (need.max(70000), vec![]), (need.max(4096), vec![Step::Repeat(7)]), (need.max(64), vec![Step::Repeat(1)]),
         (need.max(32768), vec![Step::Repeat(32768)]), (need.max(16) - 1, vec![Step::Repeat(4096)]), (need.max(16), vec![Step::Repeat(4096)])]
}
fn bin_paths<T: DeserializeOwned + Debug + PartialEq>(d: &[u8], exp: &T, need: usize, what: String, cx: &mut Cx) -> usize {
    let res = resolver();
    let mut p = Paths { cx, what, exp, n: 0 };
    p.path("tape", BinaryTape::from_slice(d).and_then(|t| bin_builder().from_tape(&t, res).deserialize::<T>()), None);
    p.path("from_slice", bin_builder().from_slice(d, res).deserialize::<T>(), None);
    p.path("from_reader(default)", bin_builder().from_reader(d, res).deserialize::<T>(), Some(need <= default_cap()));
    for (cap, sched) in bin_de_cfgs(need) {
        let name = format!("from_reader {}", show_cfg(Some(cap), &sched));
        let mut b = bin_builder();
        b.reader_config(BinReader::builder().buffer_len(cap));
        p.path(&name, b.from_reader(SchedReader::new(d, sched), res).deserialize::<T>(), Some(need <= cap));
    }
    p.n
}
fn seed_paths(depth: usize, dt: Option<&[u8]>, db: Option<&[u8]>, what: &str, cx: &mut Cx) -> usize {
    let exp = (1i64, 1i64);
    let mut n = 0;
    let mut chk = |name: &str, r: Result<(i64, i64), jomini::Error>, cx: &mut Cx| {
        n += 1;
        match r { Ok(v) if v == exp => {}, Ok(v) => cx.bad("scale-paths-disagree", format!("{} path {}: observed {:?} expected {:?}", what, name, v, exp)), Err(e) => cx.bad("scale-paths-disagree", format!("{} path {}: expected {:?}, got error: {}", what, name, exp, e)) }
    };
    if let Some(d) = dt {
        chk("text from_windows1252_slice", TextDeserializer::from_windows1252_slice(d).and_then(|de| TopNest(depth).deserialize(&de)), cx);
        chk("text from_utf8_slice", TextDeserializer::from_utf8_slice(d).and_then(|de| TopNest(depth).deserialize(&de)), cx);
        chk("text tape", TextTape::from_slice(d).and_then(|t| TopNest(depth).deserialize(&TextDeserializer::from_windows1252_tape(&t))), cx);
        for (cap, sched) in [(default_cap(), vec![]), (64, vec![Step::Repeat(1)]), (4096, vec![Step::Repeat(7)])] {
            let mut de = TextDeserializer::from_windows1252_reader(TextReader::builder().buffer_len(cap).build(SchedReader::new(d, sched.clone())));
            chk(&format!("text windows1252 reader {}", show_cfg(Some(cap), &sched)), TopNest(depth).deserialize(&mut de), cx);
            let mut de = TextDeserializer::from_utf8_reader(TextReader::builder().buffer_len(cap).build(SchedReader::new(d, sched.clone())));
            chk(&format!("text utf8 reader {}", show_cfg(Some(cap), &sched)), TopNest(depth).deserialize(&mut de), cx);
        }
    }
    if let Some(d) = db {
        let res = resolver();
        chk("binary tape", BinaryTape::from_slice(d).and_then(|t| TopNest(depth).deserialize(&bin_builder().from_tape(&t, res))), cx);
        chk("binary from_slice", TopNest(depth).deserialize(&mut bin_builder().from_slice(d, res)), cx);
        for (cap, sched) in [(default_cap(), vec![]), (16, vec![Step::Repeat(1)]), (4096, vec![Step::Repeat(7)])] {
            let mut b = bin_builder();
            b.reader_config(BinReader::builder().buffer_len(cap));
            chk(&format!("binary from_reader {}", show_cfg(Some(cap), &sched)), TopNest(depth).deserialize(&mut b.from_reader(SchedReader::new(d, sched.clone()), res)), cx);
        }
    }
    n
}

/// x-scale tde|bde|x10 <target> <n>: every path of the format(s) returns the expectation built from <n>
fn op_de(w: &[&str], cx: &mut Cx) -> Option<String> {
    let n = num(w.get(3)?)?;
    let (text, bin) = (w[1] != "bde", w[1] != "tde");
    let what = format!("{} {} n={}", w[1], w[2], n);
    let mut paths = 0;
    macro_rules! fam { ($doc:expr, $exp:expr, $layouts:expr) => { fam!($doc, $exp, $layouts, None) };
      ($doc:expr, $exp:expr, $layouts:expr, $tneed:expr) => {{
        let doc: Doc = $doc; let exp = $exp;
        if text {
            // the text reader skips an ignored container without holding its tokens: only the tokens outside it have to fit
            let tneed: Option<usize> = $tneed;
            let need = tneed.unwrap_or_else(|| text_lexemes(&doc).iter().map(tl_size).max().unwrap_or(1));
            for layout in $layouts { let (d, _) = render_text(&doc, layout); paths += text_paths(&d, &exp, need, format!("{} text layout {}", what, layout), cx); }
        }
        if bin {
            let need = bin_lexemes(&doc).iter().map(|e| e.size()).max().unwrap_or(2);
            let (d, _) = render_bin(&doc)?;
            paths += bin_paths(&d, &exp, need, format!("{} binary", what), cx);
        }
    }}; }
    match w[2] {
        "vec" => fam!(build("arr-i32", n, 0)?, VecS { a: (0..n as i32).collect(), z: 1 }, [0usize, 1, 2]),
        "map" => fam!(Doc { fields: (0..n).map(|i| (K::Q(named("k", i)), V::I(i as i32))).collect(), gap: vec![], inner: false }, (0..n).map(|i| (format!("k{}", i), i as i32)).collect::<HashMap<String, i32>>(), [0usize, 2]),
        "mapin" => fam!(with_sibling(K::Tok(T_A), V::Obj((0..n).map(|i| (K::Q(named("k", i)), V::I(i as i32))).collect())), MapIn { a: (0..n).map(|i| (format!("k{}", i), i as i32)).collect(), z: 1 }, [0usize, 1]),
        "str" => fam!(build("long-q", n, 0)?, StrS { a: String::from_utf8(payload(n, 1)).unwrap(), z: 1 }, [0usize, 1]),
        "ustr" => fam!(build("long-u", n, 0)?, StrS { a: String::from_utf8(payload(n, 0)).unwrap(), z: 1 }, [0usize, 1]),
        "objs" => fam!(build("arr-obj", n, 0)?, ObjsS { a: (0..n).map(|i| Item { x: i as i32, y: format!("s{}", i) }).collect(), z: 1 }, [0usize, 1, 2]),
        // unknown fields of every size are skipped in their entirety
        "ign-wide" => fam!(build("wide", n, 0)?, OnlyZ { z: 1 }, [0usize, 1, 2], Some(8)),
        "ign-arr" => fam!(build("arr-q", n, 0)?, OnlyZ { z: 1 }, [0usize, 2], Some(8)),
        "ign-deep" => fam!(build("depth-mix", n, 0)?, OnlyZ { z: 1 }, [0usize, 1, 2], Some(8)),
        "ign-long" => fam!(build("long-in", n, 0)?, OnlyZ { z: 1 }, [0usize], Some(8)),
        "ign-fields" => fam!({ let mut d = build("mixfields", n, 0)?; d.fields.retain(|(k, _)| !matches!(k, K::I(_))); /* integer keys of a struct: known finding unknown-int-key-binary */ d.fields.push((K::Tok(T_Z), V::I(1))); d }, OnlyZ { z: 1 }, [0usize, 2]),
        "pairs" => fam!(build("tokfields", n.min(0xE000), 0)?, Pairs((0..n.min(0xE000)).map(|i| (tok_name(tokid(i)), i as i64)).collect()), [0usize, 1]),
        "nest" => {
            let doc = build("depth-arr", n, 0)?;
            let dt = if text { Some(render_text(&doc, 0).0) } else { None };
            let db = if bin { Some(render_bin(&doc)?.0) } else { None };
            paths += seed_paths(n, dt.as_deref(), db.as_deref(), &what, cx);
            if text { let d = render_text(&doc, 2).0; paths += seed_paths(n, Some(&d), None, &format!("{} layout 2", what), cx); }
        }
        _ => return None,
    }
    Some(format!("ok paths={}", paths))
}

/// x-scale derive dup|last <n>: `duplicated` collects all n occurrences in order, `take_last` keeps the last of n
fn op_derive(w: &[&str], cx: &mut Cx) -> Option<String> {
    let n = num(w.get(3)?)?;
    let (nx, ny) = match w[2] { "dup" => (n, 3usize), "last" => (3usize, n), _ => return None };
    let mut f = vec![];
    for i in 0..nx.max(ny) {
        if i < nx { f.push((K::Tok(T_X), V::I(i as i32))); }
        f.push((K::U(named("o", i)), if i % 2 == 0 { V::I(i as i32) } else { V::Arr(vec![V::I(1), V::I(2)]) }));
        if i < ny { f.push((K::Tok(T_Y), V::I(1000 + i as i32))); }
        if i == nx.max(ny) / 2 { f.push((K::Tok(T_Z), V::I(1))); }
    }
    let doc = Doc { fields: f, gap: vec![], inner: false };
    let exp = DupS { x: (0..nx as i32).collect(), y: 1000 + ny as i32 - 1, z: 1 };
    let what = format!("derive {} n={}", w[2], n);
    let mut paths = 0;
    for layout in [0usize, 2] { let (d, _) = render_text(&doc, layout); paths += text_paths(&d, &exp, 8, format!("{} text layout {}", what, layout), cx); }
    let (d, _) = render_bin(&doc)?;
    paths += bin_paths(&d, &exp, 10, format!("{} binary", what), cx);
    Some(format!("ok paths={}", paths))
}


// ------------------------------------------------------------------------------------------
// DOM (C17)

fn run4(w: &[&str], cx: &mut Cx) -> Option<String> {
    match w[1] {
        "dom" => op_dom(w, cx),
        "json" => op_json(w, cx),
        "jsonnum" => op_jsonnum(w, cx),
        "wtape" | "wcalls" => op_writer(w, cx),
        _ => run5(w, cx),
    }
}

use jomini::text::{ObjectReader, ValueReader};
use jomini::Windows1252Encoding as W1252;

const CHECKPOINTS: [usize; 10] = [0, 1, 255, 256, 257, 32768, 65535, 65536, 65537, 69999];

/// value reader against the abstract value (recursive; containers via read_object / read_array)
fn dom_value(v: &ValueReader<W1252>, exp: &V, path: &str, budget: &mut usize) -> Result<(), String> {
    match exp {
        V::Obj(fs) => { let o = v.read_object().map_err(|e| format!("{}: read_object failed: {}", path, e))?; dom_object(&o, fs, path, budget) }
        V::Arr(vs) => {
            let a = v.read_array().map_err(|e| format!("{}: read_array failed: {}", path, e))?;
            if a.len() != vs.len() { return Err(format!("{}: len() {} expected {}", path, a.len(), vs.len())); }
            if a.is_empty() != vs.is_empty() { return Err(format!("{}: is_empty() {}", path, a.is_empty())); }
            let mut it = a.values();
            for (k, e) in vs.iter().enumerate() {
                if CHECKPOINTS.contains(&k) || k + 1 == vs.len() {
                    let h = it.size_hint();
                    if h != (vs.len() - k, Some(vs.len() - k)) { return Err(format!("{}: after consuming {} of {} elements size_hint is {:?}", path, k, vs.len(), h)); }
                }
                let x = it.next().ok_or_else(|| format!("{}: values() ended after {} of {} elements", path, k, vs.len()))?;
                dom_value(&x, e, &format!("{}[{}]", path, k), budget)?;
            }
            if it.next().is_some() { return Err(format!("{}: values() yields more than len() = {} elements", path, vs.len())); }
            if it.size_hint() != (0, Some(0)) { return Err(format!("{}: exhausted iterator has size_hint {:?}", path, it.size_hint())); }
            Ok(())
        }
        leaf => {
            let (b, _) = leaf_text(leaf).unwrap();
            let s = v.read_scalar().map_err(|e| format!("{}: read_scalar failed: {}", path, e))?;
            if s.as_bytes() != &b[..] { return Err(format!("{}: scalar {} expected {}", path, clip(s.as_bytes()), clip(&b))); }
            Ok(())
        }
    }
}
fn dom_object(o: &ObjectReader<W1252>, fs: &[(K, V)], path: &str, budget: &mut usize) -> Result<(), String> {
    let n = fs.len();
    if o.fields_len() != n { return Err(format!("{}: fields_len() {} expected {}", path, o.fields_len(), n)); }
    let mut it = o.fields();
    for (k, (ek, ev)) in fs.iter().enumerate() {
        if CHECKPOINTS.contains(&k) || k + 1 == n {
            let h = it.size_hint();
            if h.0 != n - k || h.1.map(|u| u < n - k).unwrap_or(false) { return Err(format!("{}: after consuming {} of {} fields size_hint is {:?}", path, k, n, h)); }
        }
        let (key, op, val) = it.next().ok_or_else(|| format!("{}: fields() ended after {} of {} fields", path, k, n))?;
        let (kb, _) = k_text(ek);
        if key.read_scalar().as_bytes() != &kb[..] { return Err(format!("{}: field {} key {} expected {}", path, k, clip(key.read_scalar().as_bytes()), clip(&kb))); }
        if op.is_some() { return Err(format!("{}: field {} carries operator {:?}", path, k, op)); }
        if *budget > 0 { *budget -= 1; dom_value(&val, ev, &format!("{}.{}", path, String::from_utf8_lossy(&kb[..kb.len().min(12)])), budget)?; }
    }
    if it.next().is_some() { return Err(format!("{}: fields() yields more than fields_len() = {}", path, n)); }
    if it.remainder().len() != 0 { return Err(format!("{}: remainder of a plain object has {} elements", path, it.remainder().len())); }
    // groups: distinct keys in order of first appearance, members in document order
    let mut order: Vec<Vec<u8>> = vec![];
    let mut members: HashMap<Vec<u8>, Vec<usize>> = HashMap::new();
    for (i, (k, _)) in fs.iter().enumerate() { let kb = k_text(k).0; let e = members.entry(kb.clone()).or_default(); if e.is_empty() { order.push(kb); } e.push(i); }
    let mut groups = o.field_groups();
    let h = groups.size_hint();
    if h.0 > order.len() || h.1.map(|u| u < order.len()).unwrap_or(false) { return Err(format!("{}: field_groups().size_hint() {:?} but there are {} distinct keys", path, h, order.len())); }
    for (gi, kb) in order.iter().enumerate() {
        let (key, g) = groups.next().ok_or_else(|| format!("{}: field_groups() ended after {} of {} groups", path, gi, order.len()))?;
        if key.read_scalar().as_bytes() != &kb[..] { return Err(format!("{}: group {} has key {} expected {}", path, gi, clip(key.read_scalar().as_bytes()), clip(kb))); }
        let mem = &members[kb];
        if g.len() != mem.len() { return Err(format!("{}: group {} ({}) has len() {} expected {}", path, gi, clip(kb), g.len(), mem.len())); }
        let mut n_seen = 0;
        for (j, (op, val)) in g.values().enumerate() {
            let fi = *mem.get(j).ok_or_else(|| format!("{}: group {} yields more than {} values", path, gi, mem.len()))?;
            if op.is_some() { return Err(format!("{}: group {} value {} carries an operator", path, gi, j)); }
            // identity of the member: compare leaf values / container sizes
            match &fs[fi].1 {
                V::Obj(x) => { let got = val.read_object().map(|o| o.fields_len()).map_err(|e| e.to_string())?; if got != x.len() { return Err(format!("{}: group {} value {}: object of {} fields expected {}", path, gi, j, got, x.len())); } }
                V::Arr(x) => { let got = val.read_array().map(|a| a.len()).map_err(|e| e.to_string())?; if got != x.len() { return Err(format!("{}: group {} value {}: array of {} elements expected {}", path, gi, j, got, x.len())); } }
                leaf => { let b = leaf_text(leaf).unwrap().0; let s = val.read_scalar().map_err(|e| e.to_string())?; if s.as_bytes() != &b[..] { return Err(format!("{}: group {} ({}) value {} is {} expected {} (order inside the group)", path, gi, clip(kb), j, clip(s.as_bytes()), clip(&b))); } }
            }
            n_seen += 1;
        }
        if n_seen != mem.len() { return Err(format!("{}: group {} yields {} values, len() says {}", path, gi, n_seen, mem.len())); }
    }
    if groups.next().is_some() { return Err(format!("{}: field_groups() yields more than {} groups", path, order.len())); }
    Ok(())
}

/// x-scale dom <shape> <n> [<m>]
fn op_dom(w: &[&str], cx: &mut Cx) -> Option<String> {
    let (n, m) = (num(w.get(3)?)?, w.get(4).and_then(|s| num(s)).unwrap_or(0));
    let doc = build(w[2], n, m)?;
    for layout in [0usize, 2] {
        let (d, _) = render_text(&doc, layout);
        let tape = match TextTape::from_slice(&d) { Ok(t) => t, Err(e) => { cx.bad("scale-tape-mismatch", format!("dom {} n={} layout {}: rejected: {}", w[2], n, layout, e)); continue; } };
        let root = tape.windows1252_reader();
        if root.tokens_len() != tape.tokens().len() { cx.bad("scale-dom", format!("dom {} n={}: root tokens_len() {} tape has {}", w[2], n, root.tokens_len(), tape.tokens().len())); }
        let mut budget = usize::MAX;
        if let Err(e) = dom_object(&root, &doc.fields, "root", &mut budget) { cx.bad("scale-dom", format!("dom {} n={} m={} layout {}: {}", w[2], n, m, layout, e)); }
        let root8 = tape.utf8_reader();
        if root8.fields_len() != doc.fields.len() || root8.fields().count() != doc.fields.len() || root8.field_groups().count() != root.field_groups().count() {
            cx.bad("scale-dom", format!("dom {} n={} layout {}: utf8 reader disagrees on the counts", w[2], n, layout));
        }
    }
    Some(format!("ok fields={}", doc.fields.len()))
}

// ------------------------------------------------------------------------------------------
// JSON (C16)

use jomini::json::{DuplicateKeyMode, JsonOptions, TypeNarrowing};

#[derive(Debug, PartialEq, Clone)]
enum J { Null, Bool(bool), Int(i64), Float(u64), Str(String), Arr(Vec<J>), Obj(Vec<(String, J)>) }
impl<'de> Deserialize<'de> for J {
    fn deserialize<D: serde::Deserializer<'de>>(d: D) -> Result<J, D::Error> {
        struct Vis;
        impl<'de> Visitor<'de> for Vis {
            type Value = J;
            fn expecting(&self, f: &mut std::fmt::Formatter) -> std::fmt::Result { f.write_str("json") }
            fn visit_unit<E>(self) -> Result<J, E> { Ok(J::Null) }
            fn visit_bool<E>(self, v: bool) -> Result<J, E> { Ok(J::Bool(v)) }
            fn visit_i64<E>(self, v: i64) -> Result<J, E> { Ok(J::Int(v)) }
            fn visit_u64<E>(self, v: u64) -> Result<J, E> { Ok(if v <= i64::MAX as u64 { J::Int(v as i64) } else { J::Float((v as f64).to_bits()) }) }
            fn visit_f64<E>(self, v: f64) -> Result<J, E> { Ok(J::Float(v.to_bits())) }
            fn visit_str<E>(self, v: &str) -> Result<J, E> { Ok(J::Str(v.to_string())) }
            fn visit_seq<A: SeqAccess<'de>>(self, mut s: A) -> Result<J, A::Error> { let mut v = vec![]; while let Some(x) = s.next_element::<J>()? { v.push(x); } Ok(J::Arr(v)) }
            fn visit_map<A: MapAccess<'de>>(self, mut m: A) -> Result<J, A::Error> { let mut v = vec![]; while let Some(k) = m.next_key::<String>()? { v.push((k, m.next_value::<J>()?)); } Ok(J::Obj(v)) }
        }
        d.deserialize_any(Vis)
    }
}
fn parse_json(b: &[u8]) -> Result<J, String> {
    let mut de = serde_json::Deserializer::from_slice(b);
    de.disable_recursion_limit();
    let v = J::deserialize(&mut de).map_err(|e| e.to_string())?;
    de.end().map_err(|e| e.to_string())?;
    Ok(v)
}
/// expected JSON of a leaf under TypeNarrowing::All (the shapes use no quoted numbers / booleans)
fn j_leaf(v: &V) -> J {
    match v {
        V::I(i) => J::Int(*i as i64), V::U32(u) => J::Int(*u as i64), V::B(b) => J::Bool(*b),
        V::F(r) => J::Float((format!("{}.{:03}", r / 1000, r % 1000).parse::<f64>().unwrap()).to_bits()),
        V::U(b) | V::Q(b) => J::Str(String::from_utf8_lossy(&b.iter().copied().filter(|c| *c != b'\\').collect::<Vec<u8>>()).into_owned()),
        _ => unreachable!(),
    }
}
fn j_val(v: &V, mode: u8) -> J {
    match v {
        V::Obj(fs) => j_obj(fs, mode),
        V::Arr(vs) => { let items = J::Arr(vs.iter().map(|x| j_val(x, mode)).collect()); if mode == b'k' { J::Obj(vec![("type".into(), J::Str("array".into())), ("val".into(), items)]) } else { items } }
        leaf => j_leaf(leaf),
    }
}
fn j_obj(fs: &[(K, V)], mode: u8) -> J {
    let key = |k: &K| String::from_utf8_lossy(&k_text(k).0).into_owned();
    match mode {
        b'p' => J::Obj(fs.iter().map(|(k, v)| (key(k), j_val(v, mode))).collect()),
        b'k' => J::Obj(vec![("type".into(), J::Str("obj".into())), ("val".into(), J::Arr(fs.iter().map(|(k, v)| J::Arr(vec![J::Str(key(k)), j_val(v, mode)])).collect()))]),
        _ => {
            let mut order: Vec<String> = vec![];
            let mut groups: HashMap<String, Vec<J>> = HashMap::new();
            for (k, v) in fs { let ks = key(k); let e = groups.entry(ks.clone()).or_default(); if e.is_empty() { order.push(ks); } e.push(j_val(v, mode)); }
            J::Obj(order.into_iter().map(|k| { let mut g = groups.remove(&k).unwrap(); let v = if g.len() == 1 { g.pop().unwrap() } else { J::Arr(g) }; (k, v) }).collect())
        }
    }
}
fn j_diff(a: &J, e: &J, path: &str) -> Option<String> {
    match (a, e) {
        (J::Arr(x), J::Arr(y)) => { if x.len() != y.len() { return Some(format!("{}: array of {} elements expected {}", path, x.len(), y.len())); } x.iter().zip(y).enumerate().find_map(|(i, (p, q))| j_diff(p, q, &format!("{}[{}]", path, i))) }
        (J::Obj(x), J::Obj(y)) => {
            if x.len() != y.len() { return Some(format!("{}: object of {} members expected {}", path, x.len(), y.len())); }
            x.iter().zip(y).enumerate().find_map(|(i, ((ka, va), (ke, ve)))| if ka != ke { Some(format!("{}: member {} has key {:?} expected {:?}", path, i, ka, ke)) } else { j_diff(va, ve, &format!("{}.{}", path, &ka[..ka.len().min(12)])) })
        }
        (J::Float(x), J::Float(y)) => if x == y { None } else { Some(format!("{}: float {} expected {}", path, f64::from_bits(*x), f64::from_bits(*y))) },
        (J::Int(x), J::Float(y)) | (J::Float(y), J::Int(x)) => if (*x as f64).to_bits() == *y { None } else { Some(format!("{}: number {} vs {}", path, x, f64::from_bits(*y))) },
        _ => if a == e { None } else { Some(format!("{}: observed {} expected {}", path, short(a), short(e))) },
    }
}

/// x-scale json <shape> <n> [<m>]: the three duplicate-key modes x minified / pretty parse with serde_json to the expected value
fn op_json(w: &[&str], cx: &mut Cx) -> Option<String> {
    let (n, m) = (num(w.get(3)?)?, w.get(4).and_then(|s| num(s)).unwrap_or(0));
    let doc = build(w[2], n, m)?;
    let (d, _) = render_text(&doc, 0);
    let tape = match TextTape::from_slice(&d) { Ok(t) => t, Err(e) => { cx.bad("scale-tape-mismatch", format!("json {} n={}: rejected: {}", w[2], n, e)); return Some("err".into()); } };
    let mut bytes = 0;
    for (mode, dk) in [(b'g', DuplicateKeyMode::Group), (b'p', DuplicateKeyMode::Preserve), (b'k', DuplicateKeyMode::KeyValuePairs)] {
        let exp = j_obj(&doc.fields, mode);
        for pretty in [false, true] {
            let opts = JsonOptions::new().with_prettyprint(pretty).with_duplicate_keys(dk).with_type_narrowing(TypeNarrowing::All);
            let what = format!("json {} n={} m={} mode {} pretty {}", w[2], n, m, mode as char, pretty);
            let out = tape.windows1252_reader().json().with_options(opts).to_vec();
            bytes += out.len();
            if std::str::from_utf8(&out).is_err() { cx.bad("scale-json", format!("{}: output is not UTF-8", what)); continue; }
            match parse_json(&out) {
                Err(e) => cx.bad("scale-json", format!("{}: serde_json rejects the {} bytes of output: {}", what, out.len(), e)),
                Ok(j) => if let Some(dif) = j_diff(&j, &exp, "$") { cx.bad("scale-json", format!("{}: {}", what, dif)); },
            }
            let s = tape.utf8_reader().json().with_options(opts).to_string();
            if s.as_bytes() != &out[..] { cx.bad("scale-json", format!("{}: to_string() of the utf8 reader differs from to_vec() of the windows1252 reader ({} vs {} bytes)", what, s.len(), out.len())); }
        }
    }
    Some(format!("ok bytes={}", bytes))
}

// ------------------------------------------------------------------------------------------
// writer (C14, C15)

/// indent of every line == (open braces before the line, minus one when the line starts with '}') * factor bytes of `ch`
fn check_indent(out: &[u8], ch: u8, factor: usize) -> Result<usize, String> {
    let mut depth = 0usize;
    let mut lines = 0;
    let mut i = 0;
    while i < out.len() {
        // at the start of a line
        let mut j = i;
        while j < out.len() && out[j] == ch { j += 1; }
        let closing = out.get(j) == Some(&b'}');
        let expect = (depth - closing as usize) * factor;
        if j - i != expect { return Err(format!("line {} (byte {}): indent of {} x {:?}, expected depth {} x factor {} = {}", lines, i, j - i, ch as char, depth - closing as usize, factor, expect)); }
        if matches!(out.get(j), Some(b' ') | Some(b'\t')) { return Err(format!("line {} (byte {}): indent continues with a different blank byte", lines, i)); }
        // scan the line, tracking braces outside quotes
        let mut k = j;
        while k < out.len() && out[k] != b'\n' {
            match out[k] {
                b'"' => { k += 1; while k < out.len() && out[k] != b'"' { if out[k] == b'\\' { k += 1; } k += 1; } }
                b'{' => depth += 1,
                b'}' => { if depth == 0 { return Err(format!("line {}: unbalanced '}}'", lines)); } depth -= 1; }
                _ => {}
            }
            k += 1;
        }
        lines += 1;
        i = k + 1;
    }
    if depth != 0 { return Err(format!("{} containers left open at the end of the output", depth)); }
    Ok(lines)
}
fn esc_ref(raw: &[u8]) -> Vec<u8> {
    let mut v = Vec::with_capacity(raw.len() + 16);
    for &c in raw { if c == b'\\' || c == b'"' { v.push(b'\\'); } v.push(c); }
    v
}
type TW = jomini::TextWriter<Vec<u8>>;
fn wr_key(wr: &mut TW, k: &K) -> Result<(), jomini::Error> {
    match k { K::U(b) => wr.write_unquoted(b), K::Q(b) => wr.write_quoted(b), K::Tok(t) => wr.write_unquoted(tok_name(*t).as_bytes()), K::I(i) => wr.write_i32(*i) }
}
/// drive the writer from the abstract value; `typed` = object / array starts, otherwise write_start for every container
fn wr_val(wr: &mut TW, v: &V, typed: bool, depth: usize, err: &mut Option<String>) -> Result<(), jomini::Error> {
    match v {
        V::U(b) => wr.write_unquoted(b), V::Q(b) => wr.write_quoted(b), V::I(i) => wr.write_i32(*i), V::U32(u) => wr.write_u32(*u), V::B(b) => wr.write_bool(*b),
        V::F(r) => wr.write_unquoted(format!("{}.{:03}", r / 1000, r % 1000).as_bytes()),
        V::Obj(fs) => {
            if typed { wr.write_object_start()?; } else { wr.write_start()?; }
            if wr.depth() != depth + 1 && err.is_none() { *err = Some(format!("depth() {} after opening a container at depth {}", wr.depth(), depth)); }
            for (k, v) in fs {
                if typed && !wr.expecting_key() && err.is_none() { *err = Some(format!("expecting_key() false before a key at depth {}", depth + 1)); }
                wr_key(wr, k)?;
                if !typed { wr.write_operator(Operator::Equal)?; }
                wr_val(wr, v, typed, depth + 1, err)?;
            }
            wr.write_end()?;
            if wr.depth() != depth && err.is_none() { *err = Some(format!("depth() {} after closing back to depth {}", wr.depth(), depth)); }
            Ok(())
        }
        V::Arr(vs) => {
            if typed { wr.write_array_start()?; } else { wr.write_start()?; }
            if wr.depth() != depth + 1 && err.is_none() { *err = Some(format!("depth() {} after opening a container at depth {}", wr.depth(), depth)); }
            for v in vs { wr_val(wr, v, typed, depth + 1, err)?; }
            wr.write_end()?;
            if wr.depth() != depth && err.is_none() { *err = Some(format!("depth() {} after closing back to depth {}", wr.depth(), depth)); }
            Ok(())
        }
    }
}
/// what the calls describe: quoted payloads appear escaped on the tape
fn escaped_doc(v: &V) -> V {
    match v { V::Q(b) => V::Q(esc_ref(b)), V::Obj(fs) => V::Obj(fs.iter().map(|(k, v)| (match k { K::Q(b) => K::Q(esc_ref(b)), o => o.clone() }, escaped_doc(v))).collect()), V::Arr(vs) => V::Arr(vs.iter().map(escaped_doc).collect()), o => o.clone() }
}

/// x-scale wtape|wcalls <shape> <n> <indent char: s|t> <factor> [<m>]
fn op_writer(w: &[&str], cx: &mut Cx) -> Option<String> {
    let n = num(w.get(3)?)?;
    let ch = match *w.get(4)? { "s" => b' ', "t" => b'\t', _ => return None };
    let factor = num(w.get(5)?)?;
    let m = w.get(6).and_then(|s| num(s)).unwrap_or(0);
    let mut doc = build(w[2], n, m)?;
    let what = format!("{} {} n={} m={} indent {:?} x {}", w[1], w[2], n, m, ch as char, factor);
    let mk = || TextWriterBuilder::new().indent_char(ch).indent_factor(factor as u8).from_writer(Vec::new());
    let out = if w[1] == "wtape" {
        let (d, _) = render_text(&doc, 0);
        let tape = TextTape::from_slice(&d).ok()?;
        let mut wr = mk();
        if let Err(e) = wr.write_tape(&tape) { cx.bad("scale-writer", format!("{}: write_tape failed: {}", what, e)); return Some("err".into()); }
        wr.into_inner()
    } else {
        // raw payloads with quotes and backslashes go through write_quoted's escaping
        let mut wr = mk();
        let mut err = None;
        for (k, v) in &doc.fields {
            if let Err(e) = wr_key(&mut wr, k).and_then(|_| wr_val(&mut wr, v, true, 0, &mut err)) { cx.bad("scale-writer", format!("{}: writer call failed: {}", what, e)); return Some("err".into()); }
        }
        if let Some(e) = err { cx.bad("scale-writer-depth", format!("{}: {}", what, e)); }
        if wr.depth() != 0 { cx.bad("scale-writer-depth", format!("{}: depth() {} after the last call", what, wr.depth())); }
        doc = Doc { fields: doc.fields.iter().map(|(k, v)| (match k { K::Q(b) => K::Q(esc_ref(b)), o => o.clone() }, escaped_doc(v))).collect(), gap: vec![], inner: false };
        wr.into_inner()
    };
    let exp = text_tape_exp(&doc);
    match TextTape::from_slice(&out) {
        Ok(t) => if let Err(e) = cmp_text_tape(t.tokens(), &exp) { cx.bad("scale-writer-roundtrip", format!("{}: the {} bytes of output parse to a different tape: {}", what, out.len(), e)); },
        Err(e) => cx.bad("scale-writer-roundtrip", format!("{}: the {} bytes of output do not parse: {}", what, out.len(), e)),
    }
    let lines = match check_indent(&out, ch, factor) { Ok(l) => l, Err(e) => { cx.bad("scale-writer-indent", format!("{}: {}", what, e)); 0 } };
    // idempotence: write(parse(out)) == out
    if let Ok(t) = TextTape::from_slice(&out) {
        let mut wr = mk();
        if wr.write_tape(&t).is_ok() {
            let out2 = wr.into_inner();
            if out2 != out { let p = out.iter().zip(out2.iter()).position(|(a, b)| a != b).unwrap_or(out.len().min(out2.len())); cx.bad("scale-writer-roundtrip", format!("{}: writing the re-parsed output is not a fixed point: first difference at byte {} ({} vs {} bytes)", what, p, out.len(), out2.len())); }
        }
    }
    // the untyped entry (write_start for every container) gives the same tape
    if w[1] == "wcalls" {
        let mut wr = mk();
        let mut err = None;
        let src = build(w[2], n, m)?;
        let mut failed = false;
        for (k, v) in &src.fields { if wr_key(&mut wr, k).and_then(|_| wr.write_operator(Operator::Equal)).and_then(|_| wr_val(&mut wr, v, false, 0, &mut err)).is_err() { failed = true; break; } }
        if failed { cx.bad("scale-writer", format!("{}: a write_start-based call sequence failed", what)); }
        else {
            let out3 = wr.into_inner();
            match TextTape::from_slice(&out3) {
                Ok(t) => if let Err(e) = cmp_text_tape(t.tokens(), &exp) { cx.bad("scale-writer-roundtrip", format!("{} (write_start for every container): output parses to a different tape: {}", what, e)); },
                Err(e) => cx.bad("scale-writer-roundtrip", format!("{} (write_start for every container): output does not parse: {}", what, e)),
            }
            if let Err(e) = check_indent(&out3, ch, factor) { cx.bad("scale-writer-indent", format!("{} (write_start for every container): {}", what, e)); }
            if let Some(e) = err { cx.bad("scale-writer-depth", format!("{} (write_start for every container): {}", what, e)); }
        }
    }
    Some(format!("ok bytes={} lines={}", out.len(), lines))
}


// ------------------------------------------------------------------------------------------
// leaves: numbers (C11), decoding (C12), dates (C13)

fn run5(w: &[&str], cx: &mut Cx) -> Option<String> {
    match w[1] {
        "num" => op_num(w, cx),
        "decode" => op_decode(w, cx),
        "date" => op_date(w, cx),
        _ => run6(w, cx),
    }
}

use jomini::Scalar;

fn ulps(a: f64, b: f64) -> u64 { if a == b { return 0; } if (a < 0.0) != (b < 0.0) { return u64::MAX; } (a.to_bits() as i64).wrapping_sub(b.to_bits() as i64).unsigned_abs() }

/// x-scale num zeros|digits|frac <n>
fn op_num(w: &[&str], cx: &mut Cx) -> Option<String> {
    let n = num(w.get(3)?)?;
    let mut checked = 0;
    match w[2] {
        // <sign><n zeros><digits>: all three conversions agree with the unpadded form, and the integers with Rust's parse
        "zeros" => {
            for (short_s, long_s) in zeros_cases(n) {
                {
                    let (sign, base) = if short_s.starts_with('-') { ("-", &short_s[1..]) } else if short_s.starts_with('+') { ("+", &short_s[1..]) } else { ("", &short_s[..]) };
                    let (s, l) = (Scalar::new(short_s.as_bytes()), Scalar::new(long_s.as_bytes()));
                    let what = format!("num zeros n={} base {}", n, short_s);
                    if s.to_u64() != l.to_u64() { cx.bad("scale-number", format!("{}: to_u64 {:?} without the zeros, {:?} with them", what, s.to_u64(), l.to_u64())); }
                    if s.to_i64() != l.to_i64() { cx.bad("scale-number", format!("{}: to_i64 {:?} without the zeros, {:?} with them", what, s.to_i64(), l.to_i64())); }
                    match (s.to_f64(), l.to_f64()) {
                        (Ok(a), Ok(b)) if a.to_bits() == b.to_bits() => {}
                        (Err(a), Err(b)) if a == b => {}
                        (a, b) => cx.bad("scale-number", format!("{}: to_f64 {:?} without the zeros, {:?} with them", what, a, b)),
                    }
                    if let Ok(v) = l.to_f64() { if let Err(e) = f64_ok(&long_s, v) { cx.bad("scale-number", format!("{}: to_f64 of the padded form {}", what, e)); } }
                    if !base.contains('.') {
                        let ru = if sign == "-" { None } else { long_s.trim_start_matches('+').parse::<u64>().ok() };
                        if l.to_u64().ok() != ru { cx.bad("scale-number", format!("{}: to_u64 {:?}, Rust's parse says {:?}", what, l.to_u64(), ru)); }
                        let ri = long_s.parse::<i64>().ok();
                        if l.to_i64().ok() != ri { cx.bad("scale-number", format!("{}: to_i64 {:?}, Rust's parse says {:?}", what, l.to_i64(), ri)); }
                    }
                    checked += 1;
                }
            }
        }
        // n-digit integers: refused exactly when out of range; to_f64 never NaN / inf, refuses what f64 cannot hold exactly
        "digits" => {
            for first in [b'1', b'9'] { for rest in [b'0', b'9', b'5'] { for sign in ["", "-", "+"] {
                let mut t = sign.as_bytes().to_vec(); t.push(first); t.extend(std::iter::repeat(rest).take(n - 1));
                let txt = String::from_utf8(t.clone()).unwrap();
                let sc = Scalar::new(&t);
                let what = format!("num digits n={} {}{}{}..", n, sign, first as char, rest as char);
                let ru = if sign == "-" { None } else { txt.trim_start_matches('+').parse::<u64>().ok() };
                if sc.to_u64().ok() != ru { cx.bad("scale-number", format!("{}: to_u64 {:?}, Rust's parse says {:?}", what, sc.to_u64(), ru)); }
                let ri = txt.parse::<i64>().ok();
                if sc.to_i64().ok() != ri { cx.bad("scale-number", format!("{}: to_i64 {:?}, Rust's parse says {:?}", what, sc.to_i64(), ri)); }
                match sc.to_f64() {
                    Ok(v) => {
                        let r: f64 = txt.parse().unwrap();
                        if !v.is_finite() { cx.bad("scale-number", format!("{}: to_f64 returned {}", what, v)); }
                        else if txt.trim_start_matches(|c| c == '+' || c == '-').parse::<u64>().map(|u| u > (1 << 53)).unwrap_or(true) { cx.bad("scale-number", format!("{}: to_f64 accepted an integer above 2^53: {}", what, v)); }
                        else if v != r { cx.bad("scale-number", format!("{}: to_f64 {} expected {}", what, v, r)); }
                    }
                    Err(_) => { if let Ok(u) = txt.trim_start_matches(|c| c == '+' || c == '-').parse::<u64>() { if u < (1 << 53) { cx.bad("scale-number", format!("{}: to_f64 refuses an integer below 2^53", what)); } } }
                }
                checked += 1;
            }}}
        }
        // 0.<n digits>, <digits>.<n digits>, 0.<n zeros>5: Ok within 2 ulp of the correctly rounded value (exact for few digits), or refused; never NaN / inf
        "frac" => {
            for txt in frac_cases(n) {
                let what = format!("num frac n={} {}..", n, &txt[..txt.len().min(12)]);
                let sc = Scalar::new(txt.as_bytes());
                if sc.to_u64().is_ok() || sc.to_i64().is_ok() { cx.bad("scale-number", format!("{}: integer conversion accepts a '.'", what)); }
                if let Ok(v) = sc.to_f64() {
                    if let Err(e) = f64_ok(&txt, v) { cx.bad("scale-number", format!("{}: to_f64 {}", what, e)); }
                    cx.obs.count("scale:num-frac-accepted");
                } else { cx.obs.count("scale:num-frac-refused"); }
                checked += 1;
            }
        }
        _ => return None,
    }
    Some(format!("ok checked={}", checked))
}

/// the fraction strings of `num frac` / `jsonnum frac`
fn frac_cases(n: usize) -> Vec<String> {
    let mut v = vec![];
    for int in ["0", "", "7", "123456"] { for sign in ["", "-"] {
        for rest in ['0', '5', '9'] { v.push(format!("{}{}.{}", sign, int, rest.to_string().repeat(n))); }
        v.push(format!("{}{}.{}5", sign, int, "0".repeat(n)));          // 0.000..05 must not come out as 5 or 0.5
        v.push(format!("{}{}.5{}", sign, int, "0".repeat(n)));          // 0.5000..0
        v.push(format!("{}{}.{}125", sign, int, "0".repeat(n.saturating_sub(3))));
    }}
    v
}
fn zeros_cases(n: usize) -> Vec<(String, String)> {
    let bases: [&str; 20] = ["0", "1", "9", "255", "256", "65535", "65536", "4294967295", "9007199254740991", "9007199254740992", "9007199254740993", "9223372036854775807", "9223372036854775808",
        "18446744073709551615", "18446744073709551616", "99999999999999999999", "1.5", "0.125", "123456.789", "20405029553322.015"];
    let mut v = vec![];
    for base in bases { for sign in ["", "+", "-"] { v.push((format!("{}{}", sign, base), format!("{}{}{}", sign, "0".repeat(n), base))); } }
    v
}
/// an accepted to_f64 / JSON number against Rust's own parse: finite, exact when the significant digits are few, else within 2 ulp
fn f64_ok(txt: &str, v: f64) -> Result<(), String> {
    let r: f64 = txt.parse().map_err(|_| format!("accepted {:?}.. which Rust's parse refuses", &txt[..txt.len().min(16)]))?;
    let digits: String = txt.chars().filter(|c| c.is_ascii_digit()).collect();
    let small = digits.trim_start_matches('0').len() <= 15;
    if !v.is_finite() { return Err(format!("returned {}", v)); }
    if small && v != r { return Err(format!("{:e} expected the correctly rounded {:e}", v, r)); }
    if ulps(v, r) > 2 && !(v == 0.0 && r == 0.0) { return Err(format!("{:e} is {} ulp from {:e}", v, ulps(v, r), r)); }
    Ok(())
}

const W1252_HI: [u16; 32] = [0x20AC, 0x81, 0x201A, 0x0192, 0x201E, 0x2026, 0x2020, 0x2021, 0x02C6, 0x2030, 0x0160, 0x2039, 0x0152, 0x8D, 0x017D, 0x8F,
    0x90, 0x2018, 0x2019, 0x201C, 0x201D, 0x2022, 0x2013, 0x2014, 0x02DC, 0x2122, 0x0161, 0x203A, 0x0153, 0x9D, 0x017E, 0x0178];
fn trim_ref(d: &[u8]) -> &[u8] { let mut e = d.len(); while e > 0 && matches!(d[e - 1], b' ' | b'\t' | b'\n' | b'\r' | 0x0c) { e -= 1; } &d[..e] }
fn w1252_ref(d: &[u8]) -> String {
    trim_ref(d).iter().filter(|c| **c != b'\\').map(|&c| if c < 0x80 { c as char } else if c < 0xA0 { char::from_u32(W1252_HI[(c - 0x80) as usize] as u32).unwrap() } else { char::from_u32(c as u32).unwrap() }).collect()
}
fn utf8_ref(d: &[u8]) -> String { String::from_utf8_lossy(&trim_ref(d).iter().copied().filter(|c| *c != b'\\').collect::<Vec<u8>>()).into_owned() }

/// x-scale decode <kind> <n> <pos>: n bytes of ASCII with one special byte sequence at <pos> (`last` = n - len)
fn op_decode(w: &[&str], cx: &mut Cx) -> Option<String> {
    let n = num(w.get(3)?)?;
    let special: &[u8] = match w[2] { "plain" => b"", "esc" => b"\\\"", "bs" => b"\\", "hi" => &[0xE9], "c1" => &[0x81], "euro" => &[0x80], "utf8" => "é".as_bytes(), "utf8-3" => "€".as_bytes(), "bad" => &[0xC3], "ws" => b" \t\r\n", _ => return None };
    let pos = match *w.get(4)? { "last" => n - special.len(), p => num(p)? };
    if pos + special.len() > n { return None; }
    let mut d = payload(n, 5);
    d[pos..pos + special.len()].copy_from_slice(special);
    let what = format!("decode {} n={} pos={}", w[2], n, pos);
    let plain = !d.iter().any(|c| *c == b'\\' || *c >= 0x80);
    for (name, got, exp) in [("windows-1252", W1252::decode(&d), w1252_ref(&d)), ("utf-8", jomini::Utf8Encoding::decode(&d), utf8_ref(&d))] {
        if *got != exp {
            let p = got.bytes().zip(exp.bytes()).position(|(a, b)| a != b).unwrap_or(got.len().min(exp.len()));
            cx.bad("scale-decode", format!("{} {}: output differs from the reference mapping at byte {} ({} vs {} bytes)", what, name, p, got.len(), exp.len()));
        }
        if plain && !matches!(got, std::borrow::Cow::Borrowed(_)) { cx.bad("scale-decode", format!("{} {}: escape-free ASCII input was copied instead of borrowed", what, name)); }
    }
    Some(format!("ok len={}", n))
}

/// x-scale date zeros <n>: n leading zeros in one component: the long form equals the short form's result or is rejected
fn op_date(w: &[&str], cx: &mut Cx) -> Option<String> {
    use jomini::common::{Date, DateHour, PdsDate, RawDate, UniformDate};
    if w[2] != "zeros" { return None; }
    let n = num(w.get(3)?)?;
    let z = "0".repeat(n);
    let forms: Vec<(String, String)> = vec![
        ("1444.11.11".into(), format!("{}1444.11.11", z)), ("1444.11.11".into(), format!("1444.{}11.11", z)), ("1444.11.11".into(), format!("1444.11.{}11", z)),
        ("1444.1.2".into(), format!("1444.{}1.2", z)), ("1444.1.2".into(), format!("1444.1.{}2", z)), ("1.1.1".into(), format!("{}1.1.1", z)),
        ("-5.3.4".into(), format!("-{}5.3.4", z)), ("1936.1.1.12".into(), format!("{}1936.1.1.12", z)), ("1936.1.1.12".into(), format!("1936.1.1.{}12", z)),
        ("1936.1.1.5".into(), format!("1936.1.1.{}5", z)), ("1936.1.1.5".into(), format!("1936.{}1.1.5", z)), ("56379360".into(), format!("{}56379360", z)),
        ("43808760".into(), format!("{}43808760", z)), ("2020.12.1".into(), format!("{}2020.12.1", z)), ("1.01.01".into(), format!("{}1.01.01", z)),
    ];
    let mut checked = 0;
    for (short_f, long_f) in &forms {
        macro_rules! cmp { ($name:expr, $ty:ty) => {{
            let a = <$ty>::parse(short_f.as_bytes()).ok().map(|d| format!("{:?}", d));
            let b = <$ty>::parse(long_f.as_bytes()).ok().map(|d| format!("{:?}", d));
            checked += 1;
            match (&a, &b) {
                (_, None) => cx.obs.count(concat!("scale:date-long-rejected:", $name)),
                (Some(x), Some(y)) if x == y => cx.obs.count(concat!("scale:date-long-accepted:", $name)),
                _ => cx.bad("scale-date", format!("date zeros n={} {}::parse: short form {:?} gives {:?}, the form with {} leading zeros ({}..) gives {:?}", n, $name, short_f, a, n, &long_f[..long_f.len().min(24)], b)),
            }
        }}; }
        cmp!("Date", Date); cmp!("DateHour", DateHour); cmp!("UniformDate", UniformDate); cmp!("RawDate", RawDate);
        if let Ok(d) = Date::parse(long_f.as_bytes()) { let _ = d.game_fmt().to_string(); let _ = d.iso_8601().to_string(); }
    }
    Some(format!("ok checked={}", checked))
}


// ------------------------------------------------------------------------------------------
// truncation (C19) and faults (C20)

fn run6(w: &[&str], cx: &mut Cx) -> Option<String> {
    match w[1] {
        "trunc" => op_trunc(w, cx),
        "fault" => op_fault(w, cx),
        _ => None,
    }
}

/// (key, value) of field i of the truncation documents
fn trunc_field(text: bool, i: usize) -> (String, i64) { (if text { format!("k{}", i) } else { tok_name(tokid(i)) }, i as i64) }

/// pairs read from a cut document against the complete one: `j` complete fields precede the cut; when `partial`
/// (the cut is inside field j) one more pair may follow, its key / value a prefix of the original's
fn judge_pairs(got: &[(String, String)], text: bool, j: usize, partial: bool) -> Result<(), String> {
    if got.len() < j { return Err(format!("{} fields, but {} complete fields precede the cut", got.len(), j)); }
    if got.len() > j + partial as usize { return Err(format!("{} fields, but only {} (+{} being cut) precede the cut: data was invented", got.len(), j, partial as usize)); }
    for (i, (k, v)) in got.iter().enumerate() {
        let (ek, ev) = trunc_field(text, i);
        let ev = ev.to_string();
        if i < j { if *k != ek || *v != ev { return Err(format!("complete field {} reads {}={} expected {}={}", i, k, v, ek, ev)); } }
        else if !ek.starts_with(k.as_str()) || !ev.starts_with(v.as_str()) || k.is_empty() { return Err(format!("the field being cut reads {}={}, not a prefix of {}={}", k, v, ek, ev)); }
    }
    Ok(())
}

/// x-scale trunc text|bin <fields> <cut>,<cut>,...
fn op_trunc(w: &[&str], cx: &mut Cx) -> Option<String> {
    let text = match w[2] { "text" => true, "bin" => false, _ => return None };
    let n = num(w.get(3)?)?.min(0xE000);
    let cuts: Vec<usize> = w.get(4)?.split(',').map(|s| s.parse().ok()).collect::<Option<Vec<usize>>>()?;
    let doc = build(if text { "intfields" } else { "tokfields" }, n, 0)?;
    let (full, offs) = if text { render_text(&doc, 0) } else { render_bin(&doc)? };
    let res = resolver();
    let (mut oks, mut errs) = (0, 0);
    for cut in cuts {
        if cut > full.len() { continue; }
        let d = &full[..cut];
        // j = number of fields that end at or before the cut
        let j = offs.partition_point(|o| *o <= cut) - 1;
        let boundary = offs[j] == cut;
        // text: a cut right behind a complete value (before its newline) leaves a well-formed document too
        let partial = text && !boundary;
        // binary: a single stray byte behind a complete field (half of the next token id) is ignored by the tape parser and
        // the on-demand deserializer -- the quirk the C19 slice documents (`at_boundary` in c19.rs); never more than one byte
        let stray = !text && !boundary && cut == offs[j] + 1;
        let what = format!("trunc {} n={} cut at byte {} (inside field {}, boundary {})", w[2], n, cut, j, boundary);
        let mut verdict = |name: &str, r: Result<Vec<(String, String)>, String>, cx: &mut Cx| {
            match r {
                Ok(got) => {
                    oks += 1;
                    if !text && !boundary && !stray { cx.bad("scale-truncated-ok", format!("{} path {}: binary input cut inside a field is accepted with {} fields", what, name, got.len())); }
                    else if let Err(e) = judge_pairs(&got, text, j, partial) { cx.bad("scale-truncated-ok", format!("{} path {}: {}", what, name, e)); }
                }
                Err(e) => { errs += 1; if boundary { cx.bad("scale-truncated-ok", format!("{} path {}: a cut at a field boundary leaves a well-formed document, yet: {}", what, name, e)); } }
            }
        };
        let as_str = |p: Pairs| p.0.into_iter().map(|(k, v)| (k, v.to_string())).collect::<Vec<_>>();
        if text {
            verdict("tape", TextTape::from_slice(d).map_err(|e| e.to_string()).and_then(|t| {
                let toks = t.tokens();
                if toks.iter().any(|x| !matches!(x, TextToken::Unquoted(_))) { return Ok(vec![("<non-scalar token on the tape>".to_string(), String::new())]); }
                let mut v = vec![];
                for c in toks.chunks(2) { v.push((String::from_utf8_lossy(c[0].as_scalar().unwrap().as_bytes()).into_owned(), c.get(1).map(|x| String::from_utf8_lossy(x.as_scalar().unwrap().as_bytes()).into_owned()).unwrap_or_default())); }
                Ok(v)
            }), cx);
            verdict("from_windows1252_slice", jomini::text::de::from_windows1252_slice::<Pairs>(d).map(as_str).map_err(|e| e.to_string()), cx);
            verdict("from_utf8_reader", jomini::text::de::from_utf8_reader::<Pairs, _>(d).map(as_str).map_err(|e| e.to_string()), cx);
            verdict("reader cap=4096 R7", TextDeserializer::from_windows1252_reader(TextReader::builder().buffer_len(4096).build(SchedReader::new(d, vec![Step::Repeat(7)]))).deserialize::<Pairs>().map(as_str).map_err(|e| e.to_string()), cx);
        } else {
            verdict("tape", BinaryTape::from_slice(d).map_err(|e| e.to_string()).and_then(|t| {
                let mut v = vec![];
                for c in t.tokens().chunks(2) {
                    match (&c[0], c.get(1)) { (BinaryToken::Token(id), Some(BinaryToken::I32(x))) => v.push((tok_name(*id), x.to_string())), o => v.push((format!("<{:?}>", o), String::new())) }
                }
                Ok(v)
            }), cx);
            verdict("tape de", BinaryTape::from_slice(d).and_then(|t| bin_builder().from_tape(&t, res).deserialize::<Pairs>()).map(as_str).map_err(|e| e.to_string()), cx);
            verdict("from_slice", bin_builder().from_slice(d, res).deserialize::<Pairs>().map(as_str).map_err(|e| e.to_string()), cx);
            verdict("from_reader", bin_builder().from_reader(d, res).deserialize::<Pairs>().map(as_str).map_err(|e| e.to_string()), cx);
            let mut b = bin_builder();
            b.reader_config(BinReader::builder().buffer_len(4096));
            verdict("from_reader cap=4096 R7", b.from_reader(SchedReader::new(d, vec![Step::Repeat(7)]), res).deserialize::<Pairs>().map(as_str).map_err(|e| e.to_string()), cx);
        }
    }
    Some(format!("ok accepted={} rejected={}", oks, errs))
}

struct Counting<'a> { inner: SchedReader<'a>, calls: std::rc::Rc<std::cell::Cell<usize>>, delivered: std::rc::Rc<std::cell::Cell<usize>> }
impl<'a> Read for Counting<'a> {
    fn read(&mut self, b: &mut [u8]) -> std::io::Result<usize> { self.calls.set(self.calls.get() + 1); let r = self.inner.read(b); self.delivered.set(self.inner.pos); r }
}

/// x-scale fault text|bin <fields> <cap|default> <step|->: a fault (transient F, persistent P) at EVERY read call of a large
/// document (each 32 KiB refill of the default buffer among them) surfaces as an I/O error after a prefix of the tokens
fn op_fault(w: &[&str], cx: &mut Cx) -> Option<String> {
    let text = match w[2] { "text" => true, "bin" => false, _ => return None };
    let n = num(w.get(3)?)?.min(0xE000);
    let cap = match *w.get(4)? { "default" => None, c => Some(num(c)?) };
    let step = match *w.get(5)? { "-" => None, s => Some(num(s)?) };
    let doc = build(if text { "intfields" } else { "tokfields" }, n, 0)?;
    let d = if text { render_text(&doc, 0).0 } else { render_bin(&doc)?.0 };
    let res = resolver();
    let exp_pairs = Pairs((0..n).map(|i| trunc_field(text, i)).collect());
    let sched = |pre: usize, fault: Option<Step>| -> Vec<Step> {
        let mut v: Vec<Step> = (0..pre).map(|_| Step::Give(step.unwrap_or(usize::MAX / 2))).collect();
        if let Some(f) = fault { v.push(f); }
        if let Some(s) = step { v.push(Step::Repeat(s)); }
        v
    };
    // token level
    let texp = text_lexemes(&doc); let bexp = bin_lexemes(&doc);
    let tok_run = |steps: Vec<Step>| -> (Run, usize, usize) {
        let (calls, delivered) = (std::rc::Rc::new(std::cell::Cell::new(0)), std::rc::Rc::new(std::cell::Cell::new(0)));
        let rd = Counting { inner: SchedReader::new(&d, steps), calls: calls.clone(), delivered: delivered.clone() };
        let run = if text {
            let mut r = match cap { Some(c) => TextReader::builder().buffer_len(c).build(rd), None => TextReader::new(rd) };
            drain_text(&mut r, &texp, 0)
        } else {
            let mut r = match cap { Some(c) => BinReader::builder().buffer_len(c).build(rd), None => BinReader::new(rd) };
            drain_bin(&mut r, &bexp, 0)
        };
        (run, calls.get(), delivered.get())
    };
    let de_run = |steps: Vec<Step>| -> Result<Pairs, jomini::Error> {
        let rd = SchedReader::new(&d, steps);
        if text {
            let r = match cap { Some(c) => TextReader::builder().buffer_len(c).build(rd), None => TextReader::new(rd) };
            TextDeserializer::from_utf8_reader(r).deserialize::<Pairs>()
        } else {
            let mut b = bin_builder();
            if let Some(c) = cap { b.reader_config(BinReader::builder().buffer_len(c)); }
            b.from_reader(rd, res).deserialize::<Pairs>()
        }
    };
    let ntok = if text { texp.len() } else { bexp.len() };
    let (clean, calls, _) = tok_run(sched(0, None));
    let what = format!("fault {} n={} cap {:?} step {:?}", w[2], n, cap, step);
    if clean.mismatch.is_some() || clean.fin != Fin::Clean || clean.matched != ntok || clean.pos != d.len() { cx.bad("scale-stream-mismatch", format!("{}: fault-free run: {:?} {:?} after {} of {} tokens, position {}", what, clean.mismatch, clean.fin, clean.matched, ntok, clean.pos)); return Some("err".into()); }
    match de_run(sched(0, None)) { Ok(p) if p == exp_pairs => {}, Ok(p) => cx.bad("scale-paths-disagree", format!("{}: fault-free deserialization differs: {}", what, first_diff(&p, &exp_pairs))), Err(e) => cx.bad("scale-paths-disagree", format!("{}: fault-free deserialization fails: {}", what, e)) }
    // fault at call k: every call when there are few, else the first, the last and a spread
    let ks: Vec<usize> = if calls <= 40 { (0..calls).collect() } else { let mut v: Vec<usize> = (0..8).collect(); v.extend((1..24).map(|i| i * calls / 24)); v.extend([calls - 2, calls - 1]); v.sort(); v.dedup(); v };
    let mut faults = 0;
    for &k in &ks {
        for f in [Step::Fail, Step::FailForever] {
            let persistent = f == Step::FailForever;
            let (run, _, delivered) = tok_run(sched(k, Some(f.clone())));
            faults += 1;
            let fw = format!("{}: {} fault at read call {} of {}", what, if persistent { "persistent" } else { "transient" }, k, calls);
            if let Some(m) = &run.mismatch { cx.bad("scale-fault-wrong-tokens", format!("{}: tokens before the failure differ from the fault-free ones: {}", fw, m)); }
            else if run.fin != Fin::Io { cx.bad("scale-fault-not-io", format!("{}: the run ended with {:?} after {} tokens instead of an I/O error", fw, run.fin, run.matched)); }
            if run.pos > delivered { cx.bad("scale-position", format!("{}: position() {} beyond the {} bytes delivered", fw, run.pos, delivered)); }
            match de_run(sched(k, Some(f))) {
                Err(e) if matches!(e.kind(), jomini::ErrorKind::Io(_)) => {}
                Err(e) => cx.bad("scale-fault-not-io", format!("{}: the deserializer reports `{}` instead of an I/O error", fw, e)),
                Ok(p) => cx.bad("scale-fault-not-io", format!("{}: the deserializer returns Ok with {} fields ({} expected): the failure was swallowed", fw, p.0.len(), n)),
            }
        }
    }
    Some(format!("ok calls={} faults={}", calls, faults))
}

// ------------------------------------------------------------------------------------------
// skip_unquoted_value across a long run of blanks (C09) and numbers through the JSON narrowing (C16)

/// x-scale tskipu <pattern> <n>: `a=rgb<n blanks>{ body } z=1` (pattern `nobrace`: no body): after reading `rgb`,
/// skip_unquoted_value lands on `z`, for the slice reader and every buffer / schedule; never BufferFull
fn op_tskipu(w: &[&str], cx: &mut Cx) -> Option<String> {
    let n = num(w.get(3)?)?;
    let run: Vec<u8> = match w[2] {
        "sp" | "nobrace" => vec![b' '; n], "tab" => vec![b'\t'; n], "nl" => vec![b'\n'; n],
        "mix" => (0..n).map(|i| b" \t\n\r"[(i * 7 + i / 5) % 4]).collect(),
        "eu4" => (0..n).map(|i| b"\n\t\t\t"[i % 4]).collect(),
        _ => return None,
    };
    let mut d = b"a=rgb".to_vec();
    d.extend_from_slice(&run);
    if w[2] != "nobrace" { d.extend_from_slice(b"{ 1 \"}\" { 2 } #}\n 3 } "); } else if n == 0 { d.push(b' '); }
    d.extend_from_slice(b"z=1");
    let pre = [TL::U(b"a".to_vec()), TL::Eq, TL::U(b"rgb".to_vec())];
    let post = [TL::U(b"z".to_vec()), TL::Eq, TL::U(b"1".to_vec())];
    let mut cfgs: Vec<(Option<usize>, Vec<Step>)> = vec![(Some(0), vec![])];
    cfgs.extend(reader_configs(&[16, 64, 255, 256, 4096, n.max(17) - 1, n.max(16), n.max(16) + 1]));
    let mut runs = 0;
    for (cap, sched) in cfgs {
        let what = format!("tskipu {} n={} {}", w[2], n, if cap == Some(0) { "slice reader".to_string() } else { show_cfg(cap, &sched) });
        macro_rules! go { ($r:expr) => {{
            let mut r = $r;
            let mut ok = true;
            for (i, e) in pre.iter().enumerate() {
                match r.read() { Ok(t) if tl_eq(&t, e) => {}, Ok(t) => { cx.bad("scale-stream-mismatch", format!("{}: token {} before the skip: expected {} observed {}", what, i, show_tl(e), show_ttok(&t))); ok = false; break; }
                    Err(e) => { cx.bad("scale-stream-mismatch", format!("{}: error {:?} at token {} before the skip", what, e.kind(), i)); ok = false; break; } }
            }
            if ok {
                match r.skip_unquoted_value() {
                    Err(e) => cx.bad(if matches!(e.kind(), jomini::text::ReaderErrorKind::BufferFull) { "scale-bufferfull-spurious" } else { "scale-skip-lands-wrong" }, format!("{}: skip_unquoted_value failed: {:?} at position {}", what, e.kind(), e.position())),
                    Ok(()) => {
                        let run = drain_text(&mut r, &post, 0);
                        if let Some(mm) = &run.mismatch { cx.bad("scale-skip-lands-wrong", format!("{}: after the skip: {}", what, mm)); }
                        else if run.fin != Fin::Clean || run.matched != post.len() { cx.bad("scale-skip-lands-wrong", format!("{}: after the skip the stream ended with {:?} at token {} of {}", what, run.fin, run.matched, post.len())); }
                        else if run.pos != d.len() { cx.bad("scale-position", format!("{}: position() {} after the run, input length {}", what, run.pos, d.len())); }
                    }
                }
            }
            runs += 1;
        }}; }
        match cap {
            Some(0) => go!(TextReader::from_slice(&d)),
            Some(c) => go!(TextReader::builder().buffer_len(c).build(SchedReader::new(&d, sched.clone()))),
            None => go!(TextReader::new(SchedReader::new(&d, sched.clone()))),
        }
    }
    Some(format!("ok runs={}", runs))
}

/// x-scale jsonnum zeros|frac|digits <n>: the number strings of `num` as unquoted values through the JSON conversion: a
/// JSON number equals Rust's reading of the text (exactly for integers, 2 ulp for long fractions); otherwise the text itself
fn op_jsonnum(w: &[&str], cx: &mut Cx) -> Option<String> {
    let n = num(w.get(3)?)?;
    let strs: Vec<String> = match w[2] {
        "zeros" => zeros_cases(n).into_iter().map(|(_, l)| l).collect(),
        "frac" => frac_cases(n),
        "digits" => { let mut v = vec![]; for first in ['1', '9'] { for rest in ['0', '9', '5'] { for sign in ["", "-", "+"] { v.push(format!("{}{}{}", sign, first, rest.to_string().repeat(n - 1))); } } } v }
        _ => return None,
    };
    let doc = Doc { fields: strs.iter().enumerate().map(|(i, s)| (K::U(named("k", i)), V::U(s.clone().into_bytes()))).collect(), gap: vec![], inner: false };
    let (d, _) = render_text(&doc, 0);
    let tape = match TextTape::from_slice(&d) { Ok(t) => t, Err(e) => { cx.bad("scale-tape-mismatch", format!("jsonnum {} n={}: rejected: {}", w[2], n, e)); return Some("err".into()); } };
    let (mut numbers, mut strings) = (0, 0);
    for narrowing in [TypeNarrowing::All, TypeNarrowing::Unquoted] {
        let out = tape.windows1252_reader().json().with_options(JsonOptions::new().with_type_narrowing(narrowing)).to_vec();
        let j = match parse_json(&out) { Ok(J::Obj(m)) => m, o => { cx.bad("scale-json", format!("jsonnum {} n={}: output is not a JSON object: {}", w[2], n, short(&o))); return Some("err".into()); } };
        if j.len() != strs.len() { cx.bad("scale-json", format!("jsonnum {} n={}: {} members expected {}", w[2], n, j.len(), strs.len())); continue; }
        for ((_, v), txt) in j.iter().zip(&strs) {
            let what = format!("jsonnum {} n={} value {}..", w[2], n, &txt[..txt.len().min(14)]);
            let is_int = !txt.contains('.');
            let mag = txt.trim_start_matches(|c| c == '+' || c == '-').trim_start_matches('0');
            let int_small = is_int && (mag.len() <= 15 || mag.parse::<u64>().map(|u| u < (1 << 53)).unwrap_or(false));
            match v {
                J::Int(_) | J::Float(_) => {
                    numbers += 1;
                    let x = match v { J::Int(i) => *i as f64, J::Float(b) => f64::from_bits(*b), _ => unreachable!() };
                    if is_int && !int_small { cx.bad("scale-json", format!("{}: an integer f64 cannot be trusted with became the JSON number {:e}", what, x)); }
                    else if is_int { let r: i64 = txt.trim_start_matches('+').parse().unwrap(); if *v != J::Int(r) && x != r as f64 { cx.bad("scale-json", format!("{}: JSON number {} expected {}", what, x, r)); } }
                    else if let Err(e) = f64_ok(txt, x) { cx.bad("scale-json", format!("{}: JSON number {}", what, e)); }
                }
                J::Str(t) => { strings += 1; if t != txt { cx.bad("scale-json", format!("{}: kept as a string but changed ({} vs {} chars)", what, t.len(), txt.len())); } else if int_small { cx.bad("scale-json", format!("{}: an integer below 2^53 was not narrowed to a number", what)); } }
                o => cx.bad("scale-json", format!("{}: became {}", what, short(o))),
            }
        }
    }
    Some(format!("ok numbers={} strings={}", numbers, strings))
}

// ------------------------------------------------------------------------------------------
// generation: the x-scale lines of each property

fn e(g: &mut Gen, line: String) {
    let mut it = line.split(' ');
    let key = format!("scale:{}:{}", it.next().unwrap_or(""), it.next().unwrap_or(""));
    g.count(&key);
    g.emit(format!("x-scale {}", line));
}
fn grid(g: &mut Gen, check: &str, shapes: &[&str], sizes: &[usize]) { for s in shapes { for n in sizes { e(g, format!("{} {} {}", check, s, n)); } } }

const COUNTS: [usize; 6] = [255, 256, 257, 65535, 65536, 70000];
const BYTES: [usize; 12] = [255, 256, 4095, 4096, 32766, 32767, 32768, 32769, 65534, 65535, 65536, 100000];
const DEPTHS: [usize; 7] = [16, 17, 64, 255, 256, 300, 1024];
const GAPS: [usize; 7] = [15, 255, 4096, 32767, 32768, 65536, 100000];
/// binary string lengths: u8 / i16 / u16 boundaries and the default buffer (token = 4 + len bytes)
const BSTR: [usize; 12] = [255, 256, 4092, 4093, 32763, 32764, 32765, 32767, 32768, 65531, 65534, 65535];

pub fn gen_for(prop: &str, g: &mut Gen) {
    // thorough tier: one more size per family well past every threshold
    let big = g.budget(70000, 300000);
    let more = g.thorough;
    let counts: Vec<usize> = { let mut v = COUNTS.to_vec(); if more { v.extend([65537, 131072, big]); } v };
    let depths: Vec<usize> = DEPTHS.to_vec();
    // the streaming reader rescans a carried-over comment after every refill (quadratic under one-byte reads): the longest
    // comments are left to the thorough tier
    let cgaps: Vec<usize> = if more { GAPS.to_vec() } else { vec![15, 255, 4096, 32767, 32768, 40000] };
    // the grids below cross 32 KiB because that is the readers' default buffer TODAY; if the default changes, cross the
    // new one as well
    let dc = default_cap();
    if dc != 32 * 1024 && dc >= 64 && dc <= (1 << 20) {
        match prop {
            "C07" | "C20" | "C05" => { for n in [dc - 2, dc - 1, dc, dc + 1] { for s in ["long-u", "long-q", "blank", "comment"] { e(g, format!("tread {} {}", s, n)); } } }
            "C08" => { for n in [dc - 6, dc - 5, dc - 4, dc - 3] { if n <= 65535 { for s in ["long-q", "long-u"] { e(g, format!("bread {} {}", s, n)); } } } }
            "C09" => { for n in [dc - 1, dc, dc + 1] { for p in ["sp", "mix"] { e(g, format!("tskipu {} {}", p, n)); } } }
            _ => {}
        }
    }
    match prop {
        "C01" | "C06" => {
            grid(g, "ttape", &["fields", "qfields", "wide-u"], &counts);
            grid(g, "ttape", &["mixfields", "arr-i32", "arr-q", "arr-obj", "dups"], &[65535, 65536, big]);
            grid(g, "ttape", &["depth-obj", "depth-arr", "depth-mix"], &depths);
            grid(g, "ttape", &["long-u", "long-q", "long-qe", "long-key", "long-qkey", "long-in"], &BYTES);
            grid(g, "ttape", &["comment", "blank", "comment-in", "blank-in"], &GAPS);
            e(g, format!("ttape fields-v 12000 100"));
            e(g, format!("ttape fields-v 300 4096"));
            if more { e(g, format!("ttape fields-v 100000 100")); }
            if prop == "C06" {
                grid(g, "btape", &["tokfields", "mixfields", "arr-i32", "arr-obj", "wide"], &[65535, 65536, big]);
                grid(g, "btape", &["depth-obj", "depth-arr", "depth-mix"], &depths);
                grid(g, "btape", &["long-q", "long-u"], &BSTR);
            }
        }
        "C03" => {
            grid(g, "btape", &["tokfields", "qfields", "ifields", "arr-i32", "arr-q", "arr-f32", "arr-u32"], &counts);
            grid(g, "btape", &["mixfields", "arr-obj", "wide", "wide-u", "qkey-objs", "dups", "fields"], &[65535, 65536, big]);
            grid(g, "btape", &["depth-obj", "depth-arr", "depth-mix"], &depths);
            grid(g, "btape", &["long-q", "long-u", "long-qkey", "long-key", "long-in"], &BSTR);
            e(g, format!("btape arr-long 1000 100"));
            e(g, format!("btape arr-long 70 65535"));
            e(g, format!("btape fields-v 12000 100"));
        }
        "C07" => {
            grid(g, "tread", &["fields", "mixfields"], &[65536, big]);
            grid(g, "tread", &["arr-q", "arr-i32", "wide-u"], &[65536]);
            grid(g, "tread", &["long-u", "long-q", "long-qe", "long-key", "long-qkey"], &BYTES);
            grid(g, "tread", &["comment", "comment-in"], &cgaps);
            grid(g, "tread", &["blank", "blank-in"], &GAPS);
            grid(g, "tread", &["depth-mix", "depth-arr"], &[300, 1024]);
            e(g, format!("tread fields-v 12000 100"));
            e(g, format!("tread fields-v 40 32767"));
            if more { e(g, format!("tread fields-v 100000 100")); }
        }
        "C08" => {
            grid(g, "bread", &["mixfields", "tokfields"], &[65536, big]);
            grid(g, "bread", &["arr-i32", "arr-q", "arr-f32", "arr-u32", "qkey-objs"], &[65535, 65536]);
            grid(g, "bread", &["long-q", "long-u", "long-qkey", "long-key"], &BSTR);
            grid(g, "bread", &["depth-mix", "depth-arr"], &[300, 1024]);
            e(g, format!("bread arr-long 70 65535"));
            e(g, format!("bread fields-v 12000 100"));
            if more { grid(g, "bread", &["depth-arr"], &[65535, 65536]); }
        }
        "C09" => {
            grid(g, "tskip", &["wide-u", "arr-q"], &[65536, big]);
            grid(g, "tskip", &["arr-obj"], &[big]);
            grid(g, "tskip", &["depth-obj", "depth-arr", "depth-mix"], &depths);
            grid(g, "tskip", &["depth-arr"], &[65535, 65536]);
            grid(g, "tskip", &["long-in"], &[255, 4096, 32767, 32768, 65536, 100000]);
            grid(g, "tskip", &["comment-in"], &cgaps);
            grid(g, "tskip", &["blank-in"], &GAPS);
            e(g, format!("tskip arr-long 1000 100"));
            e(g, format!("tskip arr-long 10 40000"));
            for n in [0usize, 1, 15, 16, 17, 63, 64, 65, 255, 256, 257, 4095, 4096, 4097, 8200, 32767, 32768, 32769, 40000, 100000] { for p in ["sp", "tab", "nl", "mix", "eu4", "nobrace"] { e(g, format!("tskipu {} {}", p, n)); } }
            grid(g, "bskip", &["wide", "wide-u", "arr-i32", "arr-q", "arr-obj"], &[65536, big]);
            grid(g, "bskip", &["depth-obj", "depth-arr", "depth-mix"], &depths);
            grid(g, "bskip", &["depth-arr", "depth-obj"], &[65535, 65536]);
            grid(g, "bskip", &["long-in"], &[255, 4092, 32767, 32768, 65535]);
            e(g, format!("bskip arr-long 1000 100"));
            e(g, format!("bskip arr-long 10 40000"));
        }
        "C02" | "C04" | "C10" => {
            let c = match prop { "C02" => "tde", "C04" => "bde", _ => "x10" };
            if c == "x10" && !more { grid(g, c, &["vec", "objs"], &[256, 65536, big]); grid(g, c, &["map", "mapin"], &[255, 65536]); }
            else { grid(g, c, &["vec", "map", "mapin", "objs"], &[255, 256, 65535, 65536, big]); }
            grid(g, c, &["str", "ustr"], &[255, 256, 4096, 32766, 32767, 32768, 65534, 65535]);
            if c == "tde" { grid(g, c, &["str", "ustr"], &[65536, 100000]); }
            grid(g, c, &["ign-wide", "ign-arr", "ign-fields"], &[65536, big]);
            grid(g, c, &["ign-deep"], &[255, 256, 257, 1024]);
            grid(g, c, &["ign-long"], &[32767, 32768, 65535]);
            grid(g, c, &["pairs"], &[256, 57344]);
            grid(g, c, &["nest"], &depths);
        }
        "C17" => {
            grid(g, "dom", &["fields", "arr-i32", "wide-u"], &counts);
            grid(g, "dom", &["arr-q", "arr-obj", "mixfields", "qfields"], &[65535, 65536, big]);
            grid(g, "dom", &["dups"], &[255, 256, 300, 65535, 65536, big]);
            grid(g, "dom", &["depth-obj", "depth-arr", "depth-mix"], &[16, 17, 255, 256, 300]);
        }
        "C18" => {
            grid(g, "derive", &["dup"], &[255, 256, 257, 65535, 65536, big]);
            grid(g, "derive", &["last"], &[255, 256, 1000, 65536]);
        }
        "C14" | "C15" => {
            let c = if prop == "C14" { "wtape" } else { "wcalls" };
            for (ch, f) in [("s", 0), ("s", 1), ("s", 4), ("s", 9), ("t", 0), ("t", 1), ("t", 4), ("t", 9), ("s", 255), ("t", 2)] {
                for s in ["depth-mix", "depth-obj", "depth-arr"] { e(g, format!("{} {} 300 {} {}", c, s, ch, f)); }
            }
            // the 16-byte indent cache: depth x factor around 16
            for (d, ch, f) in [(16, "s", 1), (17, "s", 1), (15, "t", 1), (4, "s", 4), (5, "t", 4), (8, "s", 2), (9, "s", 2), (2, "t", 9), (1, "s", 16), (1, "t", 17), (255, "s", 2), (256, "t", 1), (1024, "s", 1), (1024, "t", 9)] {
                for s in ["depth-mix", "depth-obj"] { e(g, format!("{} {} {} {} {}", c, s, d, ch, f)); }
            }
            for s in ["fields", "mixfields", "arr-obj", "wide-u", "qfields", "dups"] { e(g, format!("{} {} {} s 2", c, s, big)); e(g, format!("{} {} 65536 t 1", c, s)); }
            for n in [255usize, 4096, 32768, 65535, 65536, 100000] { for s in ["long-q", "long-qe", "long-in", "long-u", "long-qkey"] { e(g, format!("{} {} {} s 2", c, s, n)); } }
            e(g, format!("{} fields-v 12000 s 2 100", c));
        }
        "C16" => {
            grid(g, "json", &["fields", "mixfields", "wide-u", "arr-f32", "arr-obj"], &[65535, 65536, big]);
            grid(g, "json", &["dups"], &[255, 256, 300, 65536]);
            grid(g, "json", &["depth-obj", "depth-arr", "depth-mix"], &[16, 127, 128, 129, 255, 256, 300, 1024]);
            grid(g, "json", &["long-q", "long-qe", "long-u"], &[32768, 65536, 100000]);
            grid(g, "jsonnum", &["zeros"], &[1, 20, 32, 33, 34, 100, 255, 256, 1000]);
            grid(g, "jsonnum", &["frac"], &[1, 15, 16, 22, 23, 255, 256, 257, 278, 300, 512]);
            grid(g, "jsonnum", &["digits"], &[15, 16, 17, 19, 20, 21, 255, 256, 400]);
        }
        "C11" => {
            grid(g, "num", &["zeros"], &[1, 2, 19, 20, 32, 33, 34, 100, 255, 256, 257, 1000, 65536]);
            grid(g, "num", &["digits"], &[15, 16, 17, 19, 20, 21, 255, 256, 400, 65536]);
            grid(g, "num", &["frac"], &[1, 15, 16, 17, 22, 23, 255, 256, 257, 278, 300, 512, 1000]);
        }
        "C12" => {
            for n in [255usize, 256, 32768, 65535, 65536, 100000] {
                for kind in ["plain", "esc", "bs", "hi", "c1", "euro", "utf8", "utf8-3", "bad", "ws"] {
                    for pos in ["0", "7", "8", "15", "16", "254", "32767", "32768", "65535", "65536", "last"] {
                        if pos != "last" && pos.parse::<usize>().unwrap() + 4 > n { continue; }
                        e(g, format!("decode {} {} {}", kind, n, pos));
                    }
                }
            }
        }
        "C13" => grid(g, "date", &["zeros"], &[0, 1, 2, 3, 4, 8, 9, 255, 256, 1000, 65536]),
        "C19" => {
            for fmt in ["text", "bin"] {
                let n = 23334;
                let len = if fmt == "text" { 277452 } else { 233340 };
                let mut around = |c: usize| (c.saturating_sub(12)..=c + 12).map(|x| x.to_string()).collect::<Vec<_>>().join(",");
                for c in [12usize, 32768, 65536, 98304, 131072, len - 12] { e(g, format!("trunc {} {} {}", fmt, n, around(c))); }
                for _ in 0..g.budget(4, 40) { let cuts: Vec<String> = (0..24).map(|_| g.rng.below(len + 1).to_string()).collect(); e(g, format!("trunc {} {} {}", fmt, n, cuts.join(","))); }
            }
        }
        "C20" => {
            for fmt in ["text", "bin"] {
                for (cap, step) in [("default", "-"), ("default", "32768"), ("default", "32769"), ("default", "4096"), ("70000", "-"), ("70000", "32768"), ("4096", "4096"), ("4096", "7"), ("64", "64")] {
                    e(g, format!("fault {} 23334 {} {}", fmt, cap, step));
                }
            }
        }
        "C05" => {
            // one large instance of every check (nothing may panic), plus the string lengths around the i16 / u16 limits
            for l in ["ttape mixfields 70000", "ttape depth-mix 1024", "ttape long-qe 100000", "btape mixfields 70000", "btape depth-mix 1024", "tread fields 70000", "tread long-qe 100000", "tread comment-in 100000",
                "bread mixfields 70000", "tskip depth-mix 1024", "tskip long-in 100000", "tskipu mix 40000", "bskip depth-mix 1024", "bskip depth-arr 65536", "x10 vec 70000", "x10 map 70000", "x10 nest 1024", "x10 ign-deep 1024",
                "tde str 100000", "dom dups 70000", "dom depth-mix 300", "derive dup 70000", "derive last 1000", "wtape depth-mix 1024 t 9", "wcalls depth-mix 1024 s 4", "wcalls long-qe 100000 s 2", "json depth-mix 1024", "json fields 70000",
                "jsonnum frac 300", "num zeros 1000", "num digits 400", "num frac 512", "decode esc 100000 65535", "date zeros 1000", "fault text 23334 default -", "fault bin 23334 default -"] { e(g, l.to_string()); }
            grid(g, "bread", &["long-q", "long-u"], &[32767, 32768, 65535]);
            grid(g, "btape", &["long-q", "long-u"], &[32767, 32768, 65535]);
            grid(g, "bskip", &["long-in"], &[32767, 32768, 65535]);
            grid(g, "bde", &["str"], &[32767, 32768, 65535]);
        }
        _ => {}
    }
}
