//! C03 — the binary tape mirrors the token stream; the fast paths are unobservable.
//! (also the binary half of C06: every successfully parsed tape is structurally sound)
//!
//! ops (results in show.rs `bin_tape` format, or `err:eof` / `err:syntax`):
//!   btape  <hex>              optimised parser (`parse_slice_into_tape`)
//!   btapeU <hex>              reference parser (`parse_slice_into_tape_unoptimized`, cfg unoptimized_build)
//!   btpair <hex>              both, printed `<opt> | <ref>` (used by the exhaustive enumerations)
//!   btexp  <hex> <expected>   optimised parser; L3: result == <expected> (transcription `tape_of(doc)`)
//!   btreuse <hex-big> <hex>   parse <hex> into a tape previously filled from <hex-big>
//!   wfbin  <hex>              `BinaryTape::from_slice`, then the C06 structure + payload check -> wf:true|wf:false
//!
//! L3 oracles evaluated on the real code for every op: optimised == reference (same tape or both
//! rejected); reused tape == fresh tape; structural soundness + payloads on every accepted tape.
use crate::common::*;
use crate::docgen::{self, BinCfg, Doc, DocCfg, Field, Leaf, Node};
use crate::show;
use jomini::binary::Rgb;
use jomini::binary::BinaryTapeParser;
use jomini::{BinaryTape, BinaryToken, Error, ErrorKind};

fn err_str(e: &Error) -> &'static str {
    match e.kind() {
        ErrorKind::Eof => "err:eof",
        _ => "err:syntax",
    }
}

fn run_opt(d: &[u8]) -> String {
    let mut tape = BinaryTape::default();
    match BinaryTapeParser.parse_slice_into_tape(d, &mut tape) {
        Ok(()) => show::bin_tape(tape.tokens()),
        Err(e) => err_str(&e).to_string(),
    }
}

fn run_ref(d: &[u8]) -> String {
    let mut tape = BinaryTape::new();
    match BinaryTapeParser.parse_slice_into_tape_unoptimized(d, &mut tape) {
        Ok(()) => show::bin_tape(tape.tokens()),
        Err(e) => err_str(&e).to_string(),
    }
}

fn is_err(s: &str) -> bool {
    s.starts_with("err")
}

/// L3: fast paths unobservable. Same tape, or both rejected.
fn oracle_opt_ref(case: &str, o: &str, r: &str, obs: &mut Obs) {
    let same = if is_err(o) || is_err(r) { is_err(o) && is_err(r) } else { o == r };
    if !same {
        obs.violation("opt-ne-ref", case, &format!("optimised {} reference {}", clip(o), clip(r)));
    } else if o != r {
        // both rejected but with a different error kind: not demanded by the property, measured
        obs.count("errkind-differs");
    }
}

fn clip(s: &str) -> String {
    if s.len() > 300 { format!("{}…", &s[..300]) } else { s.to_string() }
}

// ------------------------------------------------------------------------------------------
// C06 (binary half): independent structural check + payloads

/// every container start at i has end j > i, j in range, toks[j] == End(i); every End(i) at j
/// points at a container whose end is j; containers properly nested; nothing carries index 0.
fn structure_ok(toks: &[BinaryToken]) -> Result<(), String> {
    let n = toks.len();
    // links
    for (i, t) in toks.iter().enumerate() {
        match t {
            BinaryToken::Array(e) | BinaryToken::Object(e) => {
                if *e == 0 { return Err(format!("container at {} carries end 0", i)); }
                if i == 0 { return Err("container at index 0".into()); }
                if *e <= i || *e >= n { return Err(format!("container at {} has end {} (len {})", i, e, n)); }
                if toks[*e] != BinaryToken::End(i) { return Err(format!("container at {}: toks[{}] = {:?}", i, e, toks[*e])); }
            }
            BinaryToken::End(s) => {
                if *s == 0 { return Err(format!("End at {} carries 0", i)); }
                if *s >= i { return Err(format!("End at {} points forward to {}", i, s)); }
                match toks[*s] {
                    BinaryToken::Array(e) | BinaryToken::Object(e) if e == i => {}
                    ref other => return Err(format!("End at {} points at {:?}", i, other)),
                }
            }
            _ => {}
        }
    }
    // nesting: intervals [i, end] are laminar (checked with a stack of ends)
    let mut ends: Vec<usize> = vec![];
    for (i, t) in toks.iter().enumerate() {
        while let Some(&top) = ends.last() {
            if top < i { ends.pop(); } else { break; }
        }
        if let BinaryToken::Array(e) | BinaryToken::Object(e) = t {
            if let Some(&top) = ends.last() {
                if *e >= top { return Err(format!("container at {} (end {}) crosses enclosing end {}", i, e, top)); }
            }
            ends.push(*e);
        }
    }
    Ok(())
}

#[derive(Debug, Clone, PartialEq)]
struct Flat { id: u16, lo: usize, hi: usize }

/// the flat lexeme stream of the input: id + payload range, as far as it goes
fn flat_lex(d: &[u8]) -> Vec<Flat> {
    let mut out = vec![];
    let mut p = 0;
    while p + 2 <= d.len() {
        let id = u16::from_le_bytes([d[p], d[p + 1]]);
        p += 2;
        let n = match id {
            docgen::L_U32 | docgen::L_I32 | docgen::L_F32 => 4,
            docgen::L_U64 | docgen::L_I64 | docgen::L_F64 => 8,
            docgen::L_BOOL => 1,
            docgen::L_QUOTED | docgen::L_UNQUOTED => {
                if p + 2 > d.len() { break; }
                let l = u16::from_le_bytes([d[p], d[p + 1]]) as usize;
                p += 2;
                l
            }
            _ => 0,
        };
        if p + n > d.len() { break; }
        out.push(Flat { id, lo: p, hi: p + n });
        p += n;
    }
    out
}

/// payloads: the scalar tokens of the tape occur, in order, in the flat lexeme stream of the
/// input with the same type and the same payload bytes; strings are slices of the input that sit
/// right behind their `id len` header.
fn payloads_ok(input: &[u8], toks: &[BinaryToken]) -> Result<(), String> {
    let flat = flat_lex(input);
    let mut p = 0usize;
    let base = input.as_ptr() as usize;
    let le32 = |f: &Flat| u32::from_le_bytes(input[f.lo..f.hi].try_into().unwrap());
    for (i, t) in toks.iter().enumerate() {
        // what a flat lexeme must look like to be this token
        let matches = |f: &Flat| -> bool {
            let b = &input[f.lo..f.hi];
            match t {
                BinaryToken::Bool(x) => f.id == docgen::L_BOOL && (b[0] != 0) == *x,
                BinaryToken::U32(v) => f.id == docgen::L_U32 && b == v.to_le_bytes(),
                BinaryToken::U64(v) => f.id == docgen::L_U64 && b == v.to_le_bytes(),
                BinaryToken::I64(v) => f.id == docgen::L_I64 && b == v.to_le_bytes(),
                BinaryToken::I32(v) => f.id == docgen::L_I32 && b == v.to_le_bytes(),
                BinaryToken::F32(v) => f.id == docgen::L_F32 && b == v,
                BinaryToken::F64(v) => f.id == docgen::L_F64 && b == v,
                BinaryToken::Quoted(s) => f.id == docgen::L_QUOTED && s.as_bytes().as_ptr() as usize == base + f.lo && s.as_bytes().len() == f.hi - f.lo,
                BinaryToken::Unquoted(s) => f.id == docgen::L_UNQUOTED && s.as_bytes().as_ptr() as usize == base + f.lo && s.as_bytes().len() == f.hi - f.lo,
                BinaryToken::Token(id) => f.id == *id,
                BinaryToken::Equal => f.id == docgen::L_EQUAL,
                _ => false,
            }
        };
        match t {
            BinaryToken::Array(_) | BinaryToken::Object(_) | BinaryToken::End(_) | BinaryToken::MixedContainer => continue,
            BinaryToken::Token(id) if [docgen::L_OPEN, docgen::L_CLOSE, docgen::L_EQUAL, docgen::L_U32, docgen::L_U64, docgen::L_I32, docgen::L_BOOL,
                                       docgen::L_QUOTED, docgen::L_UNQUOTED, docgen::L_F32, docgen::L_F64, docgen::L_I64].contains(id) => {
                return Err(format!("token {} is Token({}) — a typed lexeme pushed as a plain id", i, id));
            }
            BinaryToken::Rgb(Rgb { r, g, b, a }) => {
                // RGB { U32 r U32 g U32 b [U32 a] }
                let want: Vec<(u16, Option<u32>)> = {
                    let mut w = vec![(docgen::L_RGB, None), (docgen::L_OPEN, None), (docgen::L_U32, Some(*r)), (docgen::L_U32, Some(*g)), (docgen::L_U32, Some(*b))];
                    if let Some(a) = a { w.push((docgen::L_U32, Some(*a))); }
                    w.push((docgen::L_CLOSE, None));
                    w
                };
                let mut found = false;
                while p + want.len() <= flat.len() {
                    if want.iter().enumerate().all(|(k, (id, v))| flat[p + k].id == *id && v.map_or(true, |v| le32(&flat[p + k]) == v)) {
                        found = true;
                        p += want.len();
                        break;
                    }
                    p += 1;
                }
                if !found { return Err(format!("token {} {:?} not found in the input", i, t)); }
            }
            _ => {
                let mut found = false;
                while p < flat.len() {
                    let f = &flat[p];
                    p += 1;
                    if matches(f) { found = true; break; }
                }
                if !found { return Err(format!("token {} {:?} not found in the input (in order)", i, t)); }
            }
        }
    }
    Ok(())
}

/// an `Object` is what it says: up to its first `MixedContainer` marker (or its end) its body is a sequence of
/// `key value` pairs — an even number of items, every key a plain token (not a container / End / marker).
/// (An array retyped as an object with an odd number of body tokens is an unsound classification.)
fn objects_ok(toks: &[BinaryToken]) -> Result<(), String> {
    for (i, t) in toks.iter().enumerate() {
        if let BinaryToken::Object(e) = t {
            if *e <= i || *e >= toks.len() { continue; } // reported by structure_ok
            let mut p = i + 1;
            let mut items = 0usize;
            let mut mixed = false;
            while p < *e {
                let is_key = items % 2 == 0;
                match &toks[p] {
                    BinaryToken::MixedContainer => { mixed = true; break; }
                    BinaryToken::Array(x) | BinaryToken::Object(x) => {
                        if is_key { return Err(format!("object at {}: container at {} in key position", i, p)); }
                        if *x <= p || *x >= *e { break; } // reported by structure_ok
                        p = *x + 1;
                    }
                    BinaryToken::End(_) => return Err(format!("object at {}: stray End at {}", i, p)),
                    _ => p += 1,
                }
                items += 1;
            }
            if !mixed && items % 2 != 0 {
                return Err(format!("object at {} has {} body items (a key without a value) and no MixedContainer marker", i, items));
            }
        }
    }
    Ok(())
}

/// L3 for C06 on one accepted tape
fn oracle_wf(case: &str, input: &[u8], toks: &[BinaryToken], obs: &mut Obs) -> bool {
    let mut ok = true;
    if let Err(m) = structure_ok(toks) {
        obs.violation("bin-tape-structure", case, &m);
        ok = false;
    }
    if let Err(m) = objects_ok(toks) {
        obs.violation("bin-tape-object-pairs", case, &m);
        ok = false;
    }
    if let Err(m) = payloads_ok(input, toks) {
        obs.violation("bin-tape-payload", case, &m);
        ok = false;
    }
    ok
}

// ------------------------------------------------------------------------------------------
// exec

fn count_kinds(res: &str, obs: &mut Obs) {
    if is_err(res) {
        obs.count(res);
        return;
    }
    obs.count("ok");
    if res.contains(",M") || res.starts_with('M') { obs.count("ok:mixed"); }
    if res.contains('O') { obs.count("ok:object"); }
    if res.contains('A') { obs.count("ok:array"); }
    if res.contains("Rgb") { obs.count("ok:rgb"); }
}

pub fn exec(w: &[&str], obs: &mut Obs) -> Option<String> {
    let case = || w.join(" ");
    match w {
        ["btape", h] | ["btapeU", h] | ["btpair", h] | ["btexp", h, _] => {
            let d = unhex(h)?;
            let o = run_opt(&d);
            let r = run_ref(&d);
            oracle_opt_ref(&case(), &o, &r, obs);
            count_kinds(&o, obs);
            if !is_err(&o) {
                let tape = BinaryTape::from_slice(&d).ok()?;
                oracle_wf(&case(), &d, tape.tokens(), obs);
            }
            if let ["btexp", _, expected] = w {
                let e = if *expected == "err" { is_err(&o) } else { o == *expected };
                if !e {
                    obs.violation("doc-tape-mismatch", &case(), &format!("parser {} expected {}", clip(&o), clip(expected)));
                }
                obs.count("btexp");
            }
            Some(match w[0] {
                "btapeU" => r,
                "btpair" => format!("{} | {}", o, r),
                _ => o,
            })
        }
        ["btreuse", hbig, h] => {
            let big = unhex(hbig)?;
            let d = unhex(h)?;
            let fresh = run_opt(&d);
            let mut tape = BinaryTape::default();
            let first = BinaryTapeParser.parse_slice_into_tape(&big, &mut tape);
            obs.count(if first.is_ok() { "reuse:first-ok" } else { "reuse:first-err" });
            let reused = match BinaryTapeParser.parse_slice_into_tape(&d, &mut tape) {
                Ok(()) => show::bin_tape(tape.tokens()),
                Err(e) => err_str(&e).to_string(),
            };
            if reused != fresh {
                obs.violation("reuse-differs", &case(), &format!("fresh {} reused {}", clip(&fresh), clip(&reused)));
            }
            // and the reference parser into the same (twice used) tape
            let reused_ref = match BinaryTapeParser.parse_slice_into_tape_unoptimized(&d, &mut tape) {
                Ok(()) => show::bin_tape(tape.tokens()),
                Err(e) => err_str(&e).to_string(),
            };
            oracle_opt_ref(&case(), &reused, &reused_ref, obs);
            Some(reused)
        }
        ["wfbin", h] => {
            let d = unhex(h)?;
            match BinaryTape::from_slice(&d) {
                Ok(tape) => {
                    let ok = oracle_wf(&case(), &d, tape.tokens(), obs);
                    obs.count(if ok { "wf:true" } else { "wf:false" });
                    Some(format!("wf:{}", ok))
                }
                Err(e) => {
                    obs.count("wf:rejected");
                    Some(err_str(&e).to_string())
                }
            }
        }
        _ => None,
    }
}

// ------------------------------------------------------------------------------------------
// expected tape of a document, transcribed from the property text (independent of the parser).
// `rng` must be a clone of the generator state `render_binary` starts from: the transcription
// makes the same encoding choices in the same order.

#[derive(Clone, Debug)]
enum Tk { A(usize), O(usize), E(usize), M, S(String) }

struct TapeOf<'a> { rng: Rng, cfg: &'a BinCfg, out: Vec<Tk> }

impl<'a> TapeOf<'a> {
    fn leaf(&mut self, l: &Leaf, is_key: bool) {
        let s = match l {
            Leaf::Unq(b) | Leaf::Quo(b) => {
                let mut done = None;
                if is_key {
                    if let Some(id) = docgen::key_id(b) {
                        if self.rng.below(100) < self.cfg.key_id_pct { done = Some(format!("T:{}", id)); }
                    }
                }
                match done {
                    Some(s) => s,
                    None => {
                        let quoted = matches!(l, Leaf::Quo(_)) || self.rng.below(100) >= self.cfg.unquoted_pct;
                        format!("{}:{}", if quoted { "Q" } else { "U" }, hex(b))
                    }
                }
            }
            Leaf::Int(i) => if i32::try_from(*i).is_ok() { format!("I32:{}", i) } else { format!("I64:{}", i) },
            Leaf::Uint(u) => if u32::try_from(*u).is_ok() { format!("U32:{}", u) } else { format!("U64:{}", u) },
            Leaf::Bool(b) => format!("B:{}", *b as u8),
            Leaf::Fixed(t) => format!("F32:{}", hex(&t.to_le_bytes())),
            Leaf::Date(y, m, d, h) => format!("I32:{}", docgen::date_to_binary(*y, *m, *d, *h)),
        };
        self.out.push(Tk::S(s));
    }
    fn close(&mut self, start: usize, object: bool) {
        let end = self.out.len();
        self.out[start] = if object { Tk::O(end) } else { Tk::A(end) };
        self.out.push(Tk::E(start));
    }
    /// `as_value`: the node is the value of a `key =` (only there is an rgb block one token)
    fn node(&mut self, n: &Node, as_value: bool) {
        match n {
            Node::Leaf(l) => self.leaf(l, false),
            Node::Obj(fs) => {
                let start = self.out.len();
                self.out.push(Tk::A(0));
                for f in fs { self.field(f); }
                self.close(start, !fs.is_empty());
            }
            Node::Arr(vs) => {
                let start = self.out.len();
                self.out.push(Tk::A(0));
                for v in vs { self.node(v, false); }
                self.close(start, false);
            }
            Node::Rgb(r, g, b, a) => {
                if as_value {
                    self.out.push(Tk::S(match a { Some(a) => format!("Rgb:{}.{}.{}.{}", r, g, b, a), None => format!("Rgb:{}.{}.{}", r, g, b) }));
                } else {
                    // outside a value position the rgb marker is an ordinary id followed by an array
                    self.out.push(Tk::S(format!("T:{}", docgen::L_RGB)));
                    let start = self.out.len();
                    self.out.push(Tk::A(0));
                    for c in [Some(*r), Some(*g), Some(*b), *a].iter().flatten() { self.out.push(Tk::S(format!("U32:{}", c))); }
                    self.close(start, false);
                }
            }
            Node::Header(_, body) => self.node(body, as_value),
            Node::Mixed(fs, rest) => {
                let start = self.out.len();
                self.out.push(Tk::O(0));
                for f in fs { self.field(f); }
                if !rest.is_empty() { self.out.push(Tk::M); }
                for v in rest { self.node(v, false); }
                self.close(start, !fs.is_empty());
            }
        }
    }
    fn field(&mut self, f: &Field) {
        // ghost objects in key position are dropped
        self.leaf(&f.key, true);
        self.node(&f.val, true);
    }
}

/// expected result line for `render_binary(rng, cfg, doc)`; "err" when the property's
/// precondition fails (a ghost object before the very first key: nothing to attach it to)
pub fn tape_of(rng: &Rng, cfg: &BinCfg, doc: &Doc) -> String {
    if doc.fields.first().map_or(false, |f| f.ghosts > 0) {
        return "err".to_string();
    }
    let mut t = TapeOf { rng: rng.clone(), cfg, out: vec![] };
    for f in &doc.fields { t.field(f); }
    if t.out.is_empty() { return "-".to_string(); }
    t.out.iter().map(|k| match k {
        Tk::A(e) => format!("A{}", e),
        Tk::O(e) => format!("O{}", e),
        Tk::E(i) => format!("E{}", i),
        Tk::M => "M".to_string(),
        Tk::S(s) => s.clone(),
    }).collect::<Vec<_>>().join(",")
}

// ------------------------------------------------------------------------------------------
// generators

/// the 14 token kinds, each with a canonical small payload (13 lexemes + a plain id)
pub fn kind_bytes(k: usize) -> Vec<u8> {
    let mut v = vec![];
    let id = |v: &mut Vec<u8>, x: u16| v.extend_from_slice(&x.to_le_bytes());
    match k {
        0 => id(&mut v, docgen::L_OPEN),
        1 => id(&mut v, docgen::L_CLOSE),
        2 => id(&mut v, docgen::L_EQUAL),
        3 => { id(&mut v, docgen::L_U32); v.extend_from_slice(&7u32.to_le_bytes()); }
        4 => { id(&mut v, docgen::L_U64); v.extend_from_slice(&8u64.to_le_bytes()); }
        5 => { id(&mut v, docgen::L_I32); v.extend_from_slice(&(-2i32).to_le_bytes()); }
        6 => { id(&mut v, docgen::L_BOOL); v.push(1); }
        7 => { id(&mut v, docgen::L_QUOTED); id(&mut v, 1); v.push(b'q'); }
        8 => { id(&mut v, docgen::L_UNQUOTED); id(&mut v, 1); v.push(b'u'); }
        9 => { id(&mut v, docgen::L_F32); v.extend_from_slice(&[1, 2, 3, 4]); }
        10 => { id(&mut v, docgen::L_F64); v.extend_from_slice(&[1, 2, 3, 4, 5, 6, 7, 8]); }
        11 => {
            // a complete rgb block
            id(&mut v, docgen::L_RGB); id(&mut v, docgen::L_OPEN);
            for c in [1u32, 2, 3] { id(&mut v, docgen::L_U32); v.extend_from_slice(&c.to_le_bytes()); }
            id(&mut v, docgen::L_CLOSE);
        }
        12 => { id(&mut v, docgen::L_I64); v.extend_from_slice(&(-9i64).to_le_bytes()); }
        _ => id(&mut v, 0x2d82),
    }
    v
}
pub const NKINDS: usize = 14;

fn seq_bytes(seq: &[usize]) -> Vec<u8> {
    let mut v = vec![];
    for &k in seq { v.extend(kind_bytes(k)); }
    v
}

/// every sequence over the 14 kinds of length 0..=maxlen
fn all_seqs(maxlen: usize, f: &mut dyn FnMut(&[usize])) {
    fn rec(cur: &mut Vec<usize>, maxlen: usize, f: &mut dyn FnMut(&[usize])) {
        f(cur);
        if cur.len() == maxlen { return; }
        for k in 0..NKINDS {
            cur.push(k);
            rec(cur, maxlen, f);
            cur.pop();
        }
    }
    rec(&mut vec![], maxlen, f);
}

/// alphabet for byte-level mutations: the low bytes of every lexeme id, small lengths, 0xff
pub const BIN_ALPHABET: &[u8] = &[0x00, 0x01, 0x02, 0x03, 0x04, 0x0b, 0x0c, 0x0d, 0x0e, 0x0f, 0x14, 0x17, 0x43, 0x67, 0x9c, 0x2d, 0x82, 0xff];

pub fn bin_doc_cfg() -> DocCfg {
    DocCfg { ghosts: true, mixed: true, quoted_keys: true, ..DocCfg::shared() }
}

/// a random token sequence with varied payloads and ids (not only the canonical ones)
fn random_seq(rng: &mut Rng, maxlen: usize) -> Vec<u8> {
    let n = rng.below(maxlen + 1);
    let mut v = vec![];
    for _ in 0..n {
        let k = rng.below(NKINDS + 3);
        match k {
            14 => v.extend_from_slice(&0x000bu16.to_le_bytes()),          // the id 0xb singled out by the fast path
            15 => v.extend_from_slice(&docgen::L_RGB.to_le_bytes()),      // a bare rgb marker
            16 => v.extend_from_slice(&(rng.next() as u16).to_le_bytes()), // any id
            7 | 8 => {
                let l = rng.below(4);
                v.extend_from_slice(&(if k == 7 { docgen::L_QUOTED } else { docgen::L_UNQUOTED }).to_le_bytes());
                v.extend_from_slice(&(l as u16).to_le_bytes());
                for _ in 0..l { v.push(b'a' + rng.below(26) as u8); }
            }
            _ => v.extend(kind_bytes(k)),
        }
    }
    v
}

/// grammar-directed sequences: mostly valid `key = value` streams with the shapes the fast
/// paths look for (id/quoted/i32 keys; arrays of i32/quoted/f32; inline objects), cut or
/// disturbed at a random place.
fn shaped_seq(rng: &mut Rng) -> Vec<u8> {
    fn value(rng: &mut Rng, depth: usize, v: &mut Vec<u8>) {
        let r = rng.below(100);
        if r < 45 || depth > 3 {
            let k = *rng.pick(&[3usize, 4, 5, 5, 6, 7, 7, 8, 9, 9, 10, 11, 12, 13]);
            v.extend(kind_bytes(k));
        } else if r < 75 {
            // homogeneous array
            let k = *rng.pick(&[5usize, 5, 7, 7, 9, 9, 3, 13, 12, 6]);
            let n = rng.below(5);
            v.extend(kind_bytes(0));
            for i in 0..n {
                if rng.chance(1, 12) { v.extend(kind_bytes(rng.below(NKINDS))); } else { v.extend(kind_bytes(k)); }
                let _ = i;
            }
            v.extend(kind_bytes(1));
        } else {
            v.extend(kind_bytes(0));
            let n = rng.below(4);
            for _ in 0..n { field(rng, depth + 1, v); }
            if rng.chance(1, 6) { let m = 1 + rng.below(3); for _ in 0..m { v.extend(kind_bytes(*rng.pick(&[5usize, 7, 13, 3]))); } }
            v.extend(kind_bytes(1));
        }
    }
    fn field(rng: &mut Rng, depth: usize, v: &mut Vec<u8>) {
        if rng.chance(1, 10) { v.extend(kind_bytes(0)); v.extend(kind_bytes(1)); }
        let k = *rng.pick(&[13usize, 13, 13, 7, 7, 5, 5, 8, 3, 12, 11, 6]);
        if k == 11 { v.extend_from_slice(&docgen::L_RGB.to_le_bytes()); } else { v.extend(kind_bytes(k)); }
        if !rng.chance(1, 15) { v.extend(kind_bytes(2)); }
        value(rng, depth, v);
    }
    let mut v = vec![];
    let n = 1 + rng.below(4);
    for _ in 0..n { field(rng, 0, &mut v); }
    v
}

fn emit_input(g: &mut Gen, op: &str, d: &[u8]) {
    g.emit(format!("{} {}", op, hex(d)));
}

/// the case streams shared by C03 (`btpair`/`btape`/`btapeU`) and C06 (`wfbin`)
fn gen_inputs(g: &mut Gen, ops: &[&str], exhaustive_len: usize, n_sampled: usize, n_random: usize, n_docs: usize) {
    // 1. exhaustive token-kind sequences
    let mut seqs: Vec<Vec<u8>> = vec![];
    all_seqs(exhaustive_len, &mut |s| seqs.push(seq_bytes(s)));
    for s in &seqs { for op in ops { emit_input(g, op, s); } }
    g.count(&format!("exhaustive-14-kinds-len-le-{}", exhaustive_len));
    // 1b. deeper over the structural core {OPEN CLOSE EQUAL id I32}, bare and inside `id = {`
    if exhaustive_len >= 4 {
        let core = [0usize, 1, 2, 13, 5];
        let deep = if g.thorough { 8 } else { 7 };
        let mut cur: Vec<usize> = vec![];
        let bare_max = if g.thorough { 8 } else { 6 };
        fn rec(cur: &mut Vec<usize>, core: &[usize], deep: usize, bare_max: usize, out: &mut Vec<Vec<u8>>) {
            if cur.len() > 5 && cur.len() <= bare_max { out.push(seq_bytes(cur)); }
            if cur.len() >= 3 { let mut p = vec![13usize, 2, 0]; p.extend_from_slice(cur); out.push(seq_bytes(&p)); }
            if cur.len() == deep { return; }
            for &k in core { cur.push(k); rec(cur, core, deep, bare_max, out); cur.pop(); }
        }
        let mut out = vec![];
        rec(&mut cur, &core, deep, bare_max, &mut out);
        for s in &out { for op in ops { emit_input(g, op, s); } }
        g.count(&format!("exhaustive-5-core-kinds-len-le-{}", deep));
    }
    // 1c. the key KIND is a dimension of the fast paths: after `<key> = {` for every key kind, with the
    //     container's first element drawn from {id, quoted, unquoted, i32, f32, `{`, `}`}, every tail over the
    //     structural core {OPEN CLOSE EQUAL id I32 quoted} up to length 4 (5 in thorough):
    //     (key kind x first element kind x next lexemes incl. `=`) is exhaustive
    if exhaustive_len >= 4 {
        let keys = [13usize, 7, 8, 5, 3, 12, 4, 9, 10, 6];   // id quoted unquoted i32 u32 i64 u64 f32 f64 bool
        let firsts = [13usize, 7, 8, 5, 9, 0, 1];
        let tail_alpha = [0usize, 1, 2, 13, 5, 7];
        let tail_max = if g.thorough { 5 } else { 4 };
        let mut tails: Vec<Vec<usize>> = vec![];
        fn rec2(cur: &mut Vec<usize>, alpha: &[usize], maxlen: usize, out: &mut Vec<Vec<usize>>) {
            out.push(cur.clone());
            if cur.len() == maxlen { return; }
            for &k in alpha { cur.push(k); rec2(cur, alpha, maxlen, out); cur.pop(); }
        }
        rec2(&mut vec![], &tail_alpha, tail_max, &mut tails);
        let mut n = 0usize;
        for &k in &keys {
            for &f in &firsts {
                for t in &tails {
                    // quick: the full tail set for the four key kinds with a fast path, length <= 3 for the others
                    if !g.thorough && ![13usize, 7, 8, 5].contains(&k) && t.len() > 3 { continue; }
                    let mut p = vec![k, 2, 0, f];
                    p.extend_from_slice(t);
                    let b = seq_bytes(&p);
                    for op in ops { emit_input(g, op, &b); }
                    n += 1;
                }
            }
        }
        g.count(&format!("exhaustive-keykind-x-first-x-tail-le-{}:{}", tail_max, n));
    }
    // 2. sampled longer sequences (length exhaustive_len+1 ..= 9)
    for _ in 0..n_sampled {
        let len = g.rng.range(exhaustive_len + 1, 9);
        let s: Vec<usize> = (0..len).map(|_| g.rng.below(NKINDS)).collect();
        let b = seq_bytes(&s);
        let op = ops[g.rng.below(ops.len())];
        emit_input(g, op, &b);
    }
    g.count("sampled-kind-sequences");
    // 3. shaped / random sequences, their truncations and mutations
    for i in 0..n_random {
        let base = if i % 2 == 0 { shaped_seq(&mut g.rng) } else { random_seq(&mut g.rng, 12) };
        let d = match g.rng.below(6) {
            0 => { let p = g.rng.below(base.len() + 1); base[..p].to_vec() }
            1 | 2 => docgen::mutate(&mut g.rng, &base, BIN_ALPHABET),
            _ => base,
        };
        let op = ops[g.rng.below(ops.len())];
        emit_input(g, op, &d);
    }
    g.count("shaped-and-random-sequences");
    // 4. random bytes over the id alphabet and over all bytes
    for i in 0..n_random / 4 {
        let n = g.rng.below(24);
        let d: Vec<u8> = (0..n).map(|_| if i % 2 == 0 { *g.rng.pick(BIN_ALPHABET) } else { g.rng.next() as u8 }).collect();
        let op = ops[g.rng.below(ops.len())];
        emit_input(g, op, &d);
    }
    g.count("random-bytes");
    // 5. documents x encodings, their truncations and mutations
    let cfg = bin_doc_cfg();
    for _ in 0..n_docs {
        let doc = docgen::gen_doc(&mut g.rng, &cfg);
        let bc = BinCfg { key_id_pct: *g.rng.pick(&[0usize, 50, 70, 100]), unquoted_pct: *g.rng.pick(&[0usize, 20, 100]), ints_as: 0 };
        let d = docgen::render_binary(&mut g.rng, &bc, &doc);
        let op = ops[g.rng.below(ops.len())];
        emit_input(g, op, &d);
        match g.rng.below(4) {
            0 => { let p = g.rng.below(d.len() + 1); let op = ops[g.rng.below(ops.len())]; emit_input(g, op, &d[..p]); }
            1 => { let m = docgen::mutate(&mut g.rng, &d, BIN_ALPHABET); let op = ops[g.rng.below(ops.len())]; emit_input(g, op, &m); }
            _ => {}
        }
    }
    g.count("documents-truncations-mutations");
}

/// C03 cases
pub fn gen_c03(g: &mut Gen) {
    let exh = g.budget(4, 5);
    let sampled = g.budget(10_000, 1_500_000);
    let random = g.budget(10_000, 300_000);
    let docs = g.budget(3_000, 60_000);
    gen_inputs(g, &["btpair", "btape", "btapeU"][..1], exh, 0, 0, 0);
    gen_inputs(g, &["btpair", "btape", "btapeU"], 0, sampled, random, docs);
    // documents x encodings with the transcribed expected tape
    let cfg = bin_doc_cfg();
    let n = g.budget(4_000, 80_000);
    let mut docs_kept: Vec<Vec<u8>> = vec![];
    for _ in 0..n {
        let doc = docgen::gen_doc(&mut g.rng, &cfg);
        let bc = BinCfg { key_id_pct: *g.rng.pick(&[0usize, 50, 70, 100]), unquoted_pct: *g.rng.pick(&[0usize, 20, 100]), ints_as: 0 };
        let before = g.rng.clone();
        let d = docgen::render_binary(&mut g.rng, &bc, &doc);
        let expected = tape_of(&before, &bc, &doc);
        g.count(if expected == "err" { "doc:leading-ghost" } else { "doc:expected-tape" });
        g.emit(format!("btexp {} {}", hex(&d), expected));
        if docs_kept.len() < 64 || g.rng.chance(1, 16) { docs_kept.push(d); }
    }
    // reuse of a tape previously filled with a larger (or any other) document / garbage
    let n = g.budget(2_000, 40_000);
    for _ in 0..n {
        let a = g.rng.pick(&docs_kept).clone();
        let b = g.rng.pick(&docs_kept).clone();
        let (big, small) = if a.len() >= b.len() { (a, b) } else { (b, a) };
        let big = if g.rng.chance(1, 4) { docgen::mutate(&mut g.rng, &big, BIN_ALPHABET) } else { big };
        let small = match g.rng.below(5) { 0 => docgen::mutate(&mut g.rng, &small, BIN_ALPHABET), 1 => shaped_seq(&mut g.rng), _ => small };
        g.emit(format!("btreuse {} {}", hex(&big), hex(&small)));
    }
    g.count("reused-tape");
}

/// C06 (binary half) cases: everything above through `wfbin`, emphasis on tolerated malformations
pub fn gen_wf(g: &mut Gen) {
    let exh = g.budget(4, 5);
    let sampled = g.budget(10_000, 300_000);
    let random = g.budget(16_000, 400_000);
    let docs = g.budget(4_000, 80_000);
    gen_inputs(g, &["wfbin"], exh, sampled, random, docs);
}

pub fn gen(g: &mut Gen) {
    gen_c03(g);
    // the binary C06 stream also runs under C03 until C06 is assembled (cheap, same model)
    let n = g.budget(3_000, 50_000);
    gen_inputs(g, &["wfbin"], 3, n, n, n / 4);
}

pub fn tables() -> String {
    String::new()
}
