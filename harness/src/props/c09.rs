//! C09 — skipping a container or value lands exactly after its matching close (aggregate check).
//! Ops and oracles live in the reader slices: text `tskip` / `tskipu` (c07.rs), binary `bskip` /
//! `blexskip` / `blexskipv` (c08.rs); this module assembles their generators.
use crate::common::*;

/// containers whose payloads LOOK like structure: every payload-carrying token kind with 16-bit limbs
/// equal to lexeme ids at every limb position, strings containing 03 00 / 04 00 and lexeme-valued
/// length prefixes, rgb blocks -- the skip must advance by payload width, never by content
pub fn gen_lookalike(g: &mut Gen) {
    const LIMBS: [u16; 12] = [0x0001, 0x0003, 0x0004, 0x000c, 0x000d, 0x000e, 0x000f, 0x0014, 0x0017, 0x0243, 0x0317, 0x029c];
    let mut payloads: Vec<Vec<u8>> = vec![];
    for &l in &LIMBS {
        for (id, width) in [(0x000cu16, 2usize), (0x0014, 2), (0x000d, 2), (0x0317, 4), (0x029c, 4), (0x0167, 4)] {
            for pos in 0..width {
                let mut v = id.to_le_bytes().to_vec();
                for i in 0..width { v.extend_from_slice(&(if i == pos { l } else { 0x2222 }).to_le_bytes()); }
                payloads.push(v.clone());
                // all limbs structural
                let mut w = id.to_le_bytes().to_vec();
                for _ in 0..width { w.extend_from_slice(&l.to_le_bytes()); }
                payloads.push(w);
            }
        }
        // strings: content looks like tokens, length prefix is itself a lexeme id value
        for sid in [0x000fu16, 0x0017] {
            let content: Vec<u8> = std::iter::repeat(l.to_le_bytes()).take(3).flatten().collect();
            let mut v = sid.to_le_bytes().to_vec(); v.extend_from_slice(&(content.len() as u16).to_le_bytes()); v.extend_from_slice(&content); payloads.push(v);
            let n = (l as usize).min(40);
            let mut v = sid.to_le_bytes().to_vec(); v.extend_from_slice(&(n as u16).to_le_bytes()); v.extend(std::iter::repeat(4u8).take(n)); payloads.push(v);
        }
    }
    payloads.push(vec![0x0e, 0, 3]); payloads.push(vec![0x0e, 0, 4]);
    payloads.push(vec![0x43, 2, 3, 0, 0x14, 0, 3, 0, 0, 0, 0x14, 0, 4, 0, 0, 0, 0x14, 0, 3, 0, 4, 0, 4, 0]);
    let caps = ["16", "24", "64", "r32", "S"];
    let scheds = ["-", "R1", "R2", "R3", "R7"];
    for (i, p) in payloads.iter().enumerate() {
        // key = { <payload> <payload> } next = 1   and nested one level deeper, as value and as key
        for shape in 0..3 {
            let mut d = vec![0x00u8, 0x20, 1, 0, 3, 0];
            match shape {
                0 => { d.extend_from_slice(p); d.extend_from_slice(p); }
                1 => { d.extend_from_slice(&[0x07, 0x20, 1, 0]); d.extend_from_slice(p); d.extend_from_slice(&[0x0e, 0x20, 1, 0, 3, 0]); d.extend_from_slice(p); d.extend_from_slice(&[4, 0]); }
                _ => { d.extend_from_slice(&[3, 0]); d.extend_from_slice(p); d.extend_from_slice(&[4, 0]); d.extend_from_slice(p); }
            }
            d.extend_from_slice(&[4, 0, 0x15, 0x20, 1, 0, 0x0c, 0, 1, 0, 0, 0]);
            let cap = caps[(i + shape) % caps.len()];
            let sched = if cap == "S" { "-" } else { scheds[(i * 3 + shape) % scheds.len()] };
            g.emit(format!("bskip {} {} {} 0", cap, sched, hex(&d)));
            g.emit(format!("blexskip {} 0", hex(&d)));
            g.emit(format!("blexskipv {} 0", hex(&d)));
        }
    }
    g.count("bin-skip-lookalike-payloads");
}

/// every byte value inside a skipped TEXT container (bare, inside a quoted string, after a backslash,
/// inside a comment), at two offsets of the 8-byte word the skip loop reads: the word-at-a-time brace /
/// quote / comment detection has per-byte-value blind spots that documents reach only by luck
pub fn gen_text_byte_sweep(g: &mut Gen) {
    for b in 0..=255u8 {
        for pad in [0usize, 5] {
            let fill = |n: usize| std::iter::repeat(b'x').take(n).collect::<Vec<u8>>();
            let mut shapes: Vec<Vec<u8>> = vec![];
            { let mut v = b"k={ ".to_vec(); v.extend(fill(pad)); v.push(b' '); v.push(b); v.push(b' '); v.extend(fill(12)); v.extend_from_slice(b" } next=1 "); if !matches!(b, b'{' | b'}' | b'"' | b'#' | b'\\') { shapes.push(v); } }
            { let mut v = b"k={ a=\"".to_vec(); v.extend(fill(pad)); v.push(b); v.extend(fill(12)); v.extend_from_slice(b"\" } next=1 "); if b != b'"' && b != b'\\' { shapes.push(v); } }
            { let mut v = b"k={ a=\"".to_vec(); v.extend(fill(pad)); v.push(b'\\'); v.push(b); v.extend(fill(12)); v.extend_from_slice(b"\" } next=1 "); shapes.push(v); }
            { let mut v = b"k={ a=b #".to_vec(); v.extend(fill(pad)); v.push(b); v.extend(fill(12)); v.extend_from_slice(b"\n c=d } next=1 "); if b != b'\n' { shapes.push(v); } }
            for d in shapes {
                g.emit(format!("tskip 0 - {} 0", hex(&d)));
                g.emit(format!("tskip {} R1 {} 0", d.len() + 9, hex(&d)));
                g.emit(format!("tskip 64 R5 {} 0", hex(&d)));
            }
        }
    }
    g.count("text-skip-byte-value-sweep");
}

pub fn gen(g: &mut Gen) {
    gen_text_byte_sweep(g);
    super::c07::gen_skip(g);
    super::c08::gen_skip(g);
    gen_lookalike(g);
}

pub fn exec(_w: &[&str], _obs: &mut Obs) -> Option<String> {
    None
}

pub fn tables() -> String {
    String::new()
}
