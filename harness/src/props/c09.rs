//! C09 — skipping a container or value lands exactly after its matching close (aggregate check).
//! Ops and oracles live in the reader slices: text `tskip` / `tskipu` (c07.rs), binary `bskip` /
//! `blexskip` / `blexskipv` (c08.rs); this module assembles their generators.
use crate::common::*;

pub fn gen(g: &mut Gen) {
    super::c07::gen_skip(g);
    super::c08::gen_skip(g);
}

pub fn exec(_w: &[&str], _obs: &mut Obs) -> Option<String> {
    None
}

pub fn tables() -> String {
    String::new()
}
